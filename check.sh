#!/bin/bash
# usage: ./check.sh <property-id> <quick|thorough>
# Static check of one property against /repo's current working tree.
# exit 0: held / only known findings; 1: VIOLATION; 2: check could not decide.
cd "$(dirname "$0")" || exit 2
export GOFLAGS=-mod=mod GOPROXY=off GOSUMDB=off GOTOOLCHAIN=local GOWORK=off
unset GOWORK_FILE
ID="$1"; TIER="${2:-${VERIF_TIER:-quick}}"
REPO="${VERIF_REPO:-/repo}"
if [ ! -x bin/mvcheck ] || [ -n "$(find checker -name '*.go' -newer bin/mvcheck 2>/dev/null | head -1)" ]; then
  ./setup.sh >/dev/null 2>&1 || { echo "CHECK-UNDECIDED: cannot build mvcheck"; exit 2; }
fi
exec bin/mvcheck -prop "$ID" -tier "$TIER" -repo "$REPO" -verif "$(pwd)"
