#!/bin/bash
# usage: try_revert.sh <commit> <prop>  — reverts a fix commit in /repo's working tree (not committed), runs the check, restores.
C="$1"; ID="$2"
cd /repo || exit 2
git diff --quiet || { echo "/repo not clean"; exit 2; }
git revert --no-commit "$C" >/dev/null 2>&1 || { echo "revert conflict"; git revert --abort; exit 2; }
(cd /verif && MVCHECK_NO_EVIDENCE=1 ./check.sh "$ID" quick | grep -E "violated:|^OK|UNDECIDED" | cut -c1-260 | head -${3:-4})
git revert --abort 2>/dev/null || git reset --hard -q HEAD
git diff --quiet || echo "WARNING repo dirty"
