#!/usr/bin/env python3
"""Runs every claimed check against every seeded mutant (in scratch copies of
the library, never in /repo) and records which rules report it.
usage: seed_matrix.py [src_dir]   src_dir defaults to /verif/seeded
"""
import json, os, shutil, subprocess, sys, tempfile, glob
from concurrent.futures import ThreadPoolExecutor
SEEDED = sys.argv[1] if len(sys.argv) > 1 else '/verif/seeded'
LIBS = ['model3d','model2d','toolbox3d','render3d','numerical','fileformats']
manifest = json.load(open('/verif/MANIFEST.json'))
props = [c['property_id'] for c in manifest['checks']]
env = dict(os.environ, GOFLAGS='-mod=mod', GOPROXY='off', GOSUMDB='off', GOTOOLCHAIN='local', GOWORK='off', MVCHECK_NO_EVIDENCE='1')

def run(mdir):
    name = os.path.basename(mdir.rstrip('/'))
    patch = os.path.join(mdir, 'patch.diff')
    tmp = tempfile.mkdtemp(prefix='mvseed')
    try:
        for d in LIBS + ['templates']:
            shutil.copytree(os.path.join('/repo', d), os.path.join(tmp, d))
        for f in ['go.mod', 'go.sum', 'codegen.go']:
            shutil.copy(os.path.join('/repo', f), tmp)
        r = subprocess.run(['git', 'apply', '--unsafe-paths', '--directory=' + tmp, patch], cwd='/', capture_output=True, text=True)
        if r.returncode != 0:
            r = subprocess.run(['patch', '-p1', '-s', '-i', patch], cwd=tmp, capture_output=True, text=True)
            if r.returncode != 0:
                return name, {'error': 'patch does not apply: ' + r.stderr[-300:]}
        res = {}
        for p in props:
            out = subprocess.run(['/verif/bin/mvcheck', '-prop', p, '-tier', 'quick', '-repo', tmp, '-verif', '/verif'], env=env, capture_output=True, text=True)
            rules = sorted({l.split('[')[1].split(']')[0] for l in out.stdout.splitlines() if l.strip().startswith('violated: [')})
            if out.returncode == 1:
                res[p] = rules
            elif out.returncode == 2:
                res[p] = ['UNDECIDED: ' + ' | '.join(l for l in out.stdout.splitlines() if 'UNDECIDED' in l)[:300]]
        return name, res
    finally:
        shutil.rmtree(tmp, ignore_errors=True)

dirs = sorted(d for d in glob.glob(os.path.join(SEEDED, '*')) if os.path.isfile(os.path.join(d, 'patch.diff')))
with ThreadPoolExecutor(max_workers=6) as ex:
    results = dict(ex.map(run, dirs))
json.dump(results, open(os.path.join(SEEDED, 'MATRIX.json'), 'w'), indent=1, sort_keys=True)
det = 0
for k in sorted(results):
    v = results[k]
    own = k.split('-')[0]
    hit = {p: r for p, r in v.items() if p != 'error' and r and not str(r[0]).startswith('UNDECIDED')} if isinstance(v, dict) else {}
    if hit:
        det += 1
    if isinstance(v, dict) and 'error' in v:
        print('%-8s DOES NOT APPLY: %s' % (k, v['error'][:80]))
        continue
    print('%-8s %s' % (k, ('DETECTED by ' + ', '.join('%s:%s' % (p, '/'.join(r)) for p, r in sorted(hit.items()))) if hit else ('missed' + (' ' + json.dumps(v) if v else ''))))
print('%d of %d seeded changes detected' % (det, len(results)))
