#!/bin/bash
# usage: verify_benign.sh <dir with patch.diff> [label] — applies a behaviour-preserving refactoring in a scratch
# worktree (removed afterwards): build, vet of the library packages, codegen -check, full library suite.
D="$1"; L="${2:-$(basename $D)}"
export GOFLAGS=-mod=mod GOPROXY=off GOSUMDB=off GOTOOLCHAIN=local; unset GOWORK
W=$(mktemp -d /tmp/vben.XXXXXX); rmdir $W
git -C /repo worktree add -q --detach $W HEAD || { echo "RESULT $L worktree=fail"; exit 1; }
trap 'git -C /repo worktree remove --force $W >/dev/null 2>&1; rm -rf $W' EXIT
cd $W
git apply $D/patch.diff 2>/dev/null || { echo "RESULT $L apply=FAIL"; exit 1; }
go build ./... >/dev/null 2>&1 && BUILD=ok || BUILD=FAIL
go run codegen.go -check >/dev/null 2>&1 && CG=ok || CG=FAIL
TESTS=ok
go test -vet=off -count=1 ./model2d/ ./model3d/ ./toolbox3d/ ./render3d/ ./numerical/ ./fileformats/ >/tmp/vb_$$.t 2>&1 || {
  if [ "$(grep '^--- FAIL' /tmp/vb_$$.t | grep -v 'TestBidirPathTracer\|TestHeigthMapInterp' | wc -l)" = 0 ]; then
     go test -vet=off -count=1 ./render3d/ ./toolbox3d/ >/dev/null 2>&1 && TESTS="ok(after-retry)" || TESTS=FAIL
  else TESTS=FAIL; fi; }
rm -f /tmp/vb_$$.t
echo "RESULT $L apply=ok build=$BUILD codegen=$CG tests=$TESTS"
