package main

import "golang.org/x/tools/go/packages"

func init() {
	register("C15", &propInfo{
		Explanation: "Writer/reader agreement decided on the typed AST of package fileformats: DX.CASES/TYPE/SIZE/PARSE the PLY type tables of Validate, Size, Parse, DecodeBinary and the ten PLYValue encoders agree for all 16 type names (same value type from text and binary, same byte width on both sides, parse function and bit size matching the value type); DF every FormatFloat in a writer uses the shortest exact representation for the value's own width; DX.STL the binary STL writer and reader move the same number of header and record bytes.",
		Trusted:     []string{"go/types constant evaluation", "recognition of the tables by resolved method objects (PLYPropertyType.Validate/Size/Parse/DecodeBinary, PLYValue*.EncodeBinary)"},
		Assumptions: []string{"strconv round-trips the shortest representation (documented behaviour of FormatFloat with precision -1)"},
		Exhaustive:  true,
		Fixtures:    []string{"dec"},
		Run:         runC15,
		SelfTest: []Mutation{
			{Name: "list count always written little-endian", File: "fileformats/ply_value.go",
				Old: "\tbuf.Write(p.Length.EncodeBinary(encoding))\n", New: "\tbuf.Write(p.Length.EncodeBinary(binary.LittleEndian))\n", Rule: "ENDIAN", Expect: "PLYValueList"},
			{Name: "ASCII STL coordinates parsed as doubles then narrowed", File: "fileformats/stl.go",
				Old: "strconv.ParseFloat(token, 32)", New: "strconv.ParseFloat(token, 64)", Rule: "DR.WIDTH", Expect: "parseSTLVector"},
			{Name: "float64 text written with float32 precision", File: "fileformats/ply_value.go",
				Old: "strconv.FormatFloat(p.Value, 'f', -1, 64)", New: "strconv.FormatFloat(p.Value, 'f', -1, 32)", Rule: "DF", Expect: "PLYValueFloat64"},
			{Name: "binary ushort decoded as int16", File: "fileformats/ply.go",
				Old: "\t\tval := b.Uint16(data)\n\t\treturn PLYValueUint16{Value: val}, nil", New: "\t\tval := b.Uint16(data)\n\t\treturn PLYValueInt16{Value: int16(val)}, nil", Rule: "DX.TYPE", Expect: "Ushort"},
			{Name: "Size of double is 4", File: "fileformats/ply.go",
				Old: "\tcase PLYPropertyTypeDouble, PLYPropertyTypeFloat64:\n\t\treturn 8", New: "\tcase PLYPropertyTypeDouble, PLYPropertyTypeFloat64:\n\t\treturn 4", Rule: "DX.SIZE", Expect: "Double"},
			{Name: "uint parsed with 31 bits", File: "fileformats/ply.go",
				Old: "strconv.ParseUint(s, 10, 32)", New: "strconv.ParseUint(s, 10, 31)", Rule: "DX.PARSE", Expect: "Uint"},
			{Name: "STL writer pads records with 4 bytes", File: "fileformats/stl.go",
				Old: "s.w.Write([]byte{0, 0})", New: "s.w.Write([]byte{0, 0, 0, 0})", Rule: "DX.STL", Expect: "record"},
			{Name: "CSV written with 6 digits", File: "fileformats/segment_csv.go",
				Old: "strconv.FormatFloat(x, 'G', -1, 64)", New: "strconv.FormatFloat(x, 'G', 6, 64)", Rule: "DF", Expect: "SegmentCSVWriter"},
			{Name: "reader advances only after reading a row (defect repaired by the DX.CURSOR fix)", File: "fileformats/ply.go",
				Old: "\t\tif p.curElementRead < p.header.Elements[p.curElement].Count {\n\t\t\tbreak\n\t\t}\n\t\tp.curElementRead = 0\n\t\tp.curElement++\n", New: "\t\tbreak\n", Rule: "DX.CURSOR", Expect: "PLYReader"},
			{Name: "Parse forgets int16", File: "fileformats/ply.go",
				Old: "\tcase PLYPropertyTypeShort, PLYPropertyTypeInt16:\n\t\tx, err := strconv.ParseInt(s, 10, 16)", New: "\tcase PLYPropertyTypeShort:\n\t\tx, err := strconv.ParseInt(s, 10, 16)", Rule: "DX.CASES", Expect: "Parse"},
		},
	})
}

func runC15(c *Ctx) {
	c.runPLYTables("DX")
	c.floor("DX.CASES", 3)
	c.floor("DX.TYPE", 16)
	c.floor("DX.SIZE", 16)
	c.floor("DX.PARSE", 16)
	c.runFloatFormat("DF", "fileformats", "model2d", "model3d")
	c.floor("DF", 3)
	c.runSTLLayout("DX.STL")
	c.floor("DX.STL", 2)
	c.runPLYCursor("DX.CURSOR")
	c.floor("DX.CURSOR", 2)
	s := c.decoderScope("dec")
	s.ruleDAHint("DA.HINT")
	c.floor("DA.HINT", 2)
	s.ruleDRWidth("DR.WIDTH")
	c.floor("DR.WIDTH", 0)
	s.ruleDR("DR")
	c.floor("DR.SHORT", 0)
	c.floor("DR.LINE", 0)
	// big- and little-endian streams: everything goes through the order that is passed in
	c.runEndian("ENDIAN", []*packages.Package{c.pkg("fileformats"), c.fixturePkg("dec")})
	c.floor("ENDIAN", 10)
}
