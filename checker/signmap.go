package main

import (
	"fmt"
	"go/constant"
	"go/types"

	"golang.org/x/tools/go/packages"
	"golang.org/x/tools/go/ssa"
)

// SIGNMAP: a bounds or distance map that multiplies by a stored factor.
//
// ApplyBounds(min, max) must return an ordered pair and ApplyDistance(d) a
// non-negative length whatever the sign of the factor (VecScale says so in a
// comment; Scale did not do it). Rule: in a method ApplyBounds, a returned
// coordinate that is the product Coord.Scale(x)/Coord.Mul(v) of a parameter
// with a value that is neither a constant nor an absolute value is
// sign-indefinite and has to pass through Coord.Min/Coord.Max before it is
// returned; in a method ApplyDistance(d float64) float64, a returned d*x with
// such an x has to use math.Abs. Additive maps, corner enumerations and
// delegations create no obligation.
func (c *Ctx) runSignMap(rule string, pkgs []*packages.Package) {
	for _, p := range pkgs {
		if p == nil {
			continue
		}
		for _, fn := range c.srcFuncs(p) {
			if fn.Signature.Recv() == nil {
				continue
			}
			switch fn.Name() {
			case "ApplyBounds":
				c.signMapBounds(rule, fn)
			case "ApplyDistance", "MetaballDistBound":
				c.signMapDistance(rule, fn)
			}
		}
	}
}

// signIndefinite: v is not a constant and not (a product/quotient of)
// absolute values or squares.
func signIndefinite(v ssa.Value, depth int) bool {
	if depth > 6 {
		return true
	}
	switch x := v.(type) {
	case *ssa.Const:
		if x.Value != nil && (x.Value.Kind() == constant.Float || x.Value.Kind() == constant.Int) {
			return constant.Sign(x.Value) < 0
		}
		return true
	case *ssa.Call:
		if f := x.Call.StaticCallee(); f != nil {
			if f.Pkg != nil && f.Pkg.Pkg.Path() == "math" && (f.Name() == "Abs" || f.Name() == "Sqrt" || f.Name() == "Exp") {
				return false
			}
			if f.Signature.Recv() != nil && isCoordType(f.Signature.Recv().Type()) && (f.Name() == "MaxCoord" || f.Name() == "MinCoord" || f.Name() == "Sum") && len(x.Call.Args) == 1 {
				return signIndefinite(x.Call.Args[0], depth+1)
			}
			if f.Signature.Recv() != nil && isCoordType(f.Signature.Recv().Type()) && (f.Name() == "Norm" || f.Name() == "NormSquared" || f.Name() == "Dist" || f.Name() == "Abs" || f.Name() == "SquaredDist") {
				return false
			}
		}
		return true
	case *ssa.BinOp:
		switch x.Op.String() {
		case "*", "/":
			if equivPure(x.X, x.Y, 0) && x.Op.String() == "*" {
				return false
			}
			return signIndefinite(x.X, depth+1) || signIndefinite(x.Y, depth+1)
		}
		return true
	case *ssa.Convert:
		return signIndefinite(x.X, depth+1)
	case *ssa.UnOp:
		// an unexported field that only ever receives non-negative values
		if x.Op.String() == "*" {
			if fa, ok := x.X.(*ssa.FieldAddr); ok {
				if f := fieldOf(fa); f != nil && !f.Exported() && x.Parent() != nil && x.Parent().Pkg != nil {
					return !fieldNonNegative(x.Parent().Pkg, f, depth+1)
				}
			}
		}
	}
	return true
}

var fieldSignMemo = map[*types.Var]int{} // 1 non-negative, 2 unknown

// fieldNonNegative: every store into the (unexported) field anywhere in its
// package writes a value of definite non-negative sign, and there is one.
func fieldNonNegative(pkg *ssa.Package, f *types.Var, depth int) bool {
	if m, ok := fieldSignMemo[f]; ok {
		return m == 1
	}
	fieldSignMemo[f] = 2
	stores, ok := 0, true
	var visit func(fn *ssa.Function)
	visit = func(fn *ssa.Function) {
		for _, b := range fn.Blocks {
			for _, ins := range b.Instrs {
				st, isSt := ins.(*ssa.Store)
				if !isSt {
					continue
				}
				fa, isFA := st.Addr.(*ssa.FieldAddr)
				if !isFA || fieldOf(fa) != f {
					continue
				}
				stores++
				if signIndefinite(st.Val, depth+1) {
					ok = false
				}
			}
		}
		for _, a := range fn.AnonFuncs {
			visit(a)
		}
	}
	for _, m := range pkg.Members {
		switch x := m.(type) {
		case *ssa.Function:
			visit(x)
		case *ssa.Type:
			for _, t := range []types.Type{x.Type(), types.NewPointer(x.Type())} {
				ms := pkg.Prog.MethodSets.MethodSet(t)
				for i := 0; i < ms.Len(); i++ {
					if fn := pkg.Prog.MethodValue(ms.At(i)); fn != nil && fn.Pkg == pkg {
						visit(fn)
					}
				}
			}
		}
	}
	if ok && stores > 0 {
		fieldSignMemo[f] = 1
		return true
	}
	return false
}

func coordScaleCall(v ssa.Value) (recv, factor ssa.Value, ok bool) {
	call, isC := v.(*ssa.Call)
	if !isC {
		return
	}
	f := call.Call.StaticCallee()
	if f == nil || f.Signature.Recv() == nil || !isCoordType(f.Signature.Recv().Type()) || len(call.Call.Args) != 2 {
		return
	}
	if f.Name() != "Scale" && f.Name() != "Mul" {
		return
	}
	return call.Call.Args[0], call.Call.Args[1], true
}

func (c *Ctx) signMapBounds(rule string, fn *ssa.Function) {
	if fn.Signature.Results().Len() != 2 || !isCoordType(fn.Signature.Results().At(0).Type()) {
		return
	}
	isParam := func(v ssa.Value) bool {
		for _, p := range fn.Params[1:] {
			if v == p {
				return true
			}
		}
		return false
	}
	// every product of a parameter with a sign-indefinite factor, and where
	// it ends up
	n := 0
	for _, b := range fn.Blocks {
		for _, ins := range b.Instrs {
			v, ok := ins.(ssa.Value)
			if !ok {
				continue
			}
			recv, factor, ok := coordScaleCall(v)
			if !ok || !isParam(recv) || !signIndefinite(factor, 0) {
				continue
			}
			n++
			c.analysed(qname(fn))
			key := fmt.Sprintf("%s product#%d", qname(fn), n)
			// returned directly (possibly through phis)?
			direct := false
			seen := map[ssa.Value]bool{}
			var walk func(x ssa.Value)
			walk = func(x ssa.Value) {
				if seen[x] {
					return
				}
				seen[x] = true
				for _, r := range *x.Referrers() {
					switch u := r.(type) {
					case *ssa.Return:
						direct = true
					case *ssa.Phi:
						walk(u)
					}
				}
			}
			walk(v)
			if direct {
				c.bad(rule, key, ins.Pos(), "a bound scaled by a factor of unknown sign is returned without Min/Max: a negative factor yields min > max (the sibling VecScale orders its result)")
			} else {
				c.ok(rule, key, ins.Pos(), "scaled bound is not returned as it is (ordered by Min/Max or combined further)")
			}
		}
	}
}

func (c *Ctx) signMapDistance(rule string, fn *ssa.Function) {
	if len(fn.Params) != 2 || fn.Signature.Results().Len() != 1 {
		return
	}
	d := fn.Params[1]
	n := 0
	isProd := func(v ssa.Value) (*ssa.BinOp, bool) {
		bin, ok := v.(*ssa.BinOp)
		return bin, ok && (bin.Op.String() == "*" || bin.Op.String() == "/")
	}
	for _, b := range fn.Blocks {
		for _, ins := range b.Instrs {
			root, ok := isProd2(ins)
			if !ok {
				continue
			}
			// only the root of a product tree
			inner := false
			for _, ref := range *root.Referrers() {
				if rv, ok := ref.(ssa.Value); ok {
					if _, p := isProd(rv); p {
						inner = true
					}
				}
			}
			if inner {
				continue
			}
			// factors of the product (numerators and denominators)
			var factors []ssa.Value
			var flatten func(v ssa.Value)
			flatten = func(v ssa.Value) {
				if bin, ok := isProd(v); ok {
					flatten(bin.X)
					flatten(bin.Y)
					return
				}
				factors = append(factors, v)
			}
			flatten(root)
			hasD := false
			var other ssa.Value
			for _, f := range factors {
				if f == d {
					hasD = true
				} else if other == nil || (signIndefinite(f, 0) && !absByBranch(f, b)) {
					other = f
				}
			}
			if !hasD || other == nil {
				continue
			}
			n++
			c.analysed(qname(fn))
			key := fmt.Sprintf("%s product#%d", qname(fn), n)
			if signIndefinite(other, 0) && !absByBranch(other, b) {
				c.bad(rule, key, root.Pos(), "a distance multiplied by a factor of unknown sign: a negative factor yields a negative length (and flips the sign of a transformed SDF or the direction of a metaball bound)")
			} else {
				c.ok(rule, key, root.Pos(), "distance scaled by a non-negative factor")
			}
		}
	}
}

func isProd2(ins ssa.Instruction) (*ssa.BinOp, bool) {
	bin, ok := ins.(*ssa.BinOp)
	return bin, ok && (bin.Op.String() == "*" || bin.Op.String() == "/")
}

// absByBranch: the hand-written absolute value - x where a dominating test
// says x >= 0, -x where it says x < 0, or the phi of the two.
func absByBranch(v ssa.Value, at *ssa.BasicBlock) bool {
	signAt := func(x ssa.Value, b *ssa.BasicBlock, extra []fact) int {
		for _, f := range append(factsAt(b), extra...) {
			bin, ok := f.cond.(*ssa.BinOp)
			if !ok {
				continue
			}
			var op string
			if k, isC := bin.Y.(*ssa.Const); isC && equivValue(bin.X, x, 0) && k.Value != nil && constant.Sign(k.Value) == 0 {
				op = bin.Op.String()
			} else if k, isC := bin.X.(*ssa.Const); isC && equivValue(bin.Y, x, 0) && k.Value != nil && constant.Sign(k.Value) == 0 {
				op = map[string]string{"<": ">", ">": "<", "<=": ">=", ">=": "<="}[bin.Op.String()]
			} else {
				continue
			}
			switch {
			case (op == "<" || op == "<=") && f.taken, (op == ">" || op == ">=") && !f.taken:
				return -1
			case (op == ">" || op == ">=") && f.taken, (op == "<" || op == "<=") && !f.taken:
				return 1
			}
		}
		return 0
	}
	nonNegAt := func(x ssa.Value, b *ssa.BasicBlock, extra []fact) bool {
		if un, ok := x.(*ssa.UnOp); ok && un.Op.String() == "-" {
			return signAt(un.X, b, extra) < 0
		}
		return signAt(x, b, extra) > 0
	}
	if nonNegAt(v, at, nil) {
		return true
	}
	if phi, ok := v.(*ssa.Phi); ok {
		for i, e := range phi.Edges {
			pred := phi.Block().Preds[i]
			if !signIndefinite(e, 0) || nonNegAt(e, pred, edgeFact(pred, phi.Block())) {
				continue
			}
			return false
		}
		return true
	}
	return false
}

// IDBOUNDS: a bounds map that returns its arguments unchanged is right only
// for a transform that moves no point (the degenerate box [p, p] has to
// contain the image of p). Reported: ApplyBounds returns (min, max) as given
// on every path while the sibling Apply can return something other than its
// argument.
func (c *Ctx) runIdentityBounds(rule string, pkgs []*packages.Package) {
	for _, p := range pkgs {
		if p == nil {
			continue
		}
		for _, fn := range c.srcFuncs(p) {
			if fn.Name() != "ApplyBounds" || fn.Signature.Recv() == nil || len(fn.Params) != 3 || fn.Signature.Results().Len() != 2 {
				continue
			}
			// the sibling point map
			var apply *ssa.Function
			for _, t := range []types.Type{fn.Signature.Recv().Type()} {
				if sel := c.Prog.MethodSets.MethodSet(t).Lookup(fn.Pkg.Pkg, "Apply"); sel != nil {
					apply = c.Prog.MethodValue(sel)
				}
			}
			if apply == nil || apply.Blocks == nil || len(apply.Params) != 2 {
				continue
			}
			c.analysed(qname(fn))
			key := qname(fn) + " bounds of a map that moves points"
			identity, moves := true, false
			for _, b := range fn.Blocks {
				if ret, ok := b.Instrs[len(b.Instrs)-1].(*ssa.Return); ok {
					if len(ret.Results) != 2 || loadedParam(ret.Results[0]) != fn.Params[1] || loadedParam(ret.Results[1]) != fn.Params[2] {
						identity = false
					}
				}
			}
			for _, b := range apply.Blocks {
				if ret, ok := b.Instrs[len(b.Instrs)-1].(*ssa.Return); ok {
					if len(ret.Results) != 1 || loadedParam(ret.Results[0]) != apply.Params[1] {
						moves = true
					}
				}
			}
			if identity && moves {
				c.bad(rule, key, fn.Pos(), "ApplyBounds returns the box it was given although Apply moves points: the image of a box whose face lies where points move is not enclosed")
			} else {
				c.ok(rule, key, fn.Pos(), "the bounds map is not the identity (or the point map is)")
			}
		}
	}
}

// loadedParam: v is a parameter, or a load of the cell a parameter was spilled to
// (named results / address-taken parameters), with that parameter as its only
// stored value.
func loadedParam(v ssa.Value) ssa.Value {
	if un, ok := v.(*ssa.UnOp); ok && un.Op.String() == "*" {
		if al, ok := un.X.(*ssa.Alloc); ok {
			var only ssa.Value
			for _, ref := range *al.Referrers() {
				if st, ok := ref.(*ssa.Store); ok && st.Addr == ssa.Value(al) {
					if only != nil && only != st.Val {
						return nil
					}
					only = st.Val
				}
			}
			return only
		}
	}
	return v
}
