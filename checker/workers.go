package main

import (
	"fmt"
	"go/token"

	"golang.org/x/tools/go/packages"
	"golang.org/x/tools/go/ssa"
)

// WORKERS: a pool sized from the number of CPUs has at least one worker. A
// loop that starts goroutines `for i := 0; i < n; i++ { go ... }` with n
// computed as runtime.GOMAXPROCS(0) / runtime.NumCPU() minus a positive
// constant (or divided by one) needs a lower clamp: with GOMAXPROCS == 1 no
// worker is started, the feeder blocks or the result is silently empty.
func (c *Ctx) runWorkers(rule string, pkgs []*packages.Package) {
	isCPUCount := func(v ssa.Value) bool {
		call, ok := v.(*ssa.Call)
		if !ok {
			return false
		}
		f := call.Call.StaticCallee()
		return f != nil && f.Pkg != nil && f.Pkg.Pkg.Path() == "runtime" && (f.Name() == "GOMAXPROCS" || f.Name() == "NumCPU")
	}
	for _, p := range pkgs {
		if p == nil {
			continue
		}
		for _, fn := range c.srcFuncs(p) {
			loops := naturalLoops(fn)
			n := 0
			for head, body := range loops {
				spawns := false
				for b := range body {
					for _, ins := range b.Instrs {
						if _, ok := ins.(*ssa.Go); ok {
							spawns = true
						}
					}
				}
				if !spawns {
					continue
				}
				ifi, ok := head.Instrs[len(head.Instrs)-1].(*ssa.If)
				if !ok {
					continue
				}
				cond, ok := ifi.Cond.(*ssa.BinOp)
				if !ok || cond.Op != token.LSS {
					continue
				}
				bound := cond.Y
				// is the bound derived from the CPU count?
				derived, shrunk := false, false
				var walk func(v ssa.Value, depth int)
				walk = func(v ssa.Value, depth int) {
					if depth > 4 {
						return
					}
					if isCPUCount(v) {
						derived = true
						return
					}
					switch x := v.(type) {
					case *ssa.BinOp:
						if x.Op == token.SUB || x.Op == token.QUO {
							if k, isC := constInt(x.Y); isC && k > 0 {
								before := derived
								walk(x.X, depth+1)
								if derived && !before {
									shrunk = true
								}
								return
							}
						}
					case *ssa.Convert:
						walk(x.X, depth+1)
					case *ssa.Phi:
						clamp := false
						for _, e := range x.Edges {
							if k, isC := constInt(e); isC && k >= 1 {
								clamp = true
							} else {
								walk(e, depth+1)
							}
						}
						if clamp {
							shrunk = false
						}
					}
				}
				walk(bound, 0)
				if !derived {
					continue
				}
				n++
				c.analysed(qname(fn))
				key := fmt.Sprintf("%s worker pool#%d", qname(fn), n)
				at := cond.Pos()
				if !at.IsValid() {
					at = fn.Pos()
				}
				if shrunk {
					c.bad(rule, key, at, "the number of workers is the CPU count reduced by a constant without a lower clamp: with GOMAXPROCS = 1 no worker is started")
				} else {
					c.ok(rule, key, at, "at least one worker is started")
				}
			}
		}
	}
}
