package main

// SIBLOOP — RayCollisions and FirstRayCollision of a sampling collider walk
// the same ray with the same loop; FirstRayCollision must find a collision
// exactly when RayCollisions counts one, so the two marching loops have the
// same header (start; bound; step). A bound that stops one step earlier in
// one of them makes "first collision exists iff the count is non-zero" false
// for hits at the far end of the walk.

import (
	"go/ast"
	"go/types"
	"sort"

	"golang.org/x/tools/go/packages"
)

func (c *Ctx) runSibLoop(rule string, pkgs []*packages.Package, pair [2]string) {
	for _, p := range pkgs {
		if p == nil {
			continue
		}
		info := p.TypesInfo
		methods := map[string]map[string]*ast.FuncDecl{}
		for _, file := range p.Syntax {
			for _, d := range file.Decls {
				fd, ok := d.(*ast.FuncDecl)
				if !ok || fd.Body == nil || fd.Recv == nil || len(fd.Recv.List) != 1 {
					continue
				}
				tn := typeNameOf(info.TypeOf(fd.Recv.List[0].Type))
				if methods[tn] == nil {
					methods[tn] = map[string]*ast.FuncDecl{}
				}
				methods[tn][fd.Name.Name] = fd
			}
		}
		var names []string
		for tn := range methods {
			names = append(names, tn)
		}
		sort.Strings(names)
		headers := func(fd *ast.FuncDecl) []string {
			var res []string
			ast.Inspect(fd.Body, func(n ast.Node) bool {
				if _, ok := n.(*ast.FuncLit); ok {
					return false
				}
				if fs, ok := n.(*ast.ForStmt); ok && fs.Init != nil && fs.Cond != nil && fs.Post != nil {
					if as, ok := fs.Init.(*ast.AssignStmt); ok && len(as.Rhs) == 1 && isFloat(info.TypeOf(as.Rhs[0])) {
						post := ""
						if pa, ok := fs.Post.(*ast.AssignStmt); ok && len(pa.Lhs) == 1 && len(pa.Rhs) == 1 {
							post = types.ExprString(pa.Lhs[0]) + " " + pa.Tok.String() + " " + types.ExprString(pa.Rhs[0])
						}
						res = append(res, types.ExprString(as.Lhs[0])+" := "+types.ExprString(as.Rhs[0])+"; "+types.ExprString(fs.Cond)+"; "+post)
					}
				}
				return true
			})
			return res
		}
		for _, tn := range names {
			a, b := methods[tn][pair[0]], methods[tn][pair[1]]
			if a == nil || b == nil {
				continue
			}
			ha, hb := headers(a), headers(b)
			if len(ha) != 1 || len(hb) != 1 {
				continue // not a pair of marching loops
			}
			key := shortPkg(p.PkgPath) + "." + tn + " " + pair[0] + "/" + pair[1] + " marching loops"
			c.analysed(shortPkg(p.PkgPath) + "." + tn + "." + pair[1])
			if ha[0] == hb[0] {
				c.ok(rule, key, b.Pos(), "both walk `"+ha[0]+"`")
			} else {
				c.bad(rule, key, b.Pos(), pair[0]+" walks `"+ha[0]+"` but "+pair[1]+" walks `"+hb[0]+"`: one of them can find a collision the other never reaches")
			}
		}
	}
}
