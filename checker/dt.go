package main

// DT — validator/consumer agreement for decoded PLY rows.
//
// ReadColorPLY asserts concrete PLYValue types on the rows it reads. Those
// assertions are safe only if the header validators (IsStandardVertex,
// IsStandardFace) admit nothing but property declarations that Parse /
// DecodeBinary turn into exactly the asserted types. The rule
//   1. evaluates each validator, as written, over the finite space of
//      property declarations (name x length type x element type: a small
//      abstract interpreter for the comparisons, &&, ||, switch and range
//      statements these functions consist of),
//   2. maps every single-valued type assertion of the consumer to the role it
//      plays (row value k as a whole / its list length / its list elements /
//      the scalar value of a property with a given name, of an element kind
//      selected by a test of element.Name), and
//   3. demands that every admitted declaration decodes to the asserted type.
// An assertion on rows of an element kind that no validator covers is
// reported as well.

import (
	"fmt"
	"go/ast"
	"go/constant"
	"go/token"
	"go/types"
	"sort"
	"strings"

	"golang.org/x/tools/go/packages"
)

type dtProp struct {
	name       string
	lenT, elem types.Object // constants of PLYPropertyType
}

type dtElem struct {
	name  string
	props []dtProp
}

type dtVal struct {
	kind string // "bool" "string" "int" "const" "elem" "prop" "props"
	b    bool
	s    string
	i    int64
	o    types.Object
	e    *dtElem
	p    *dtProp
}

type dtInterp struct {
	info   *types.Info
	env    map[types.Object]dtVal
	err    string
	ret    *bool
	retVal dtVal
	steps  int
	ctl    int // 0 none, 1 break, 2 continue (set together with a true result of stmts)
	depth  int
	// lookup finds the declaration of a function of the validator's package
	// (helpers extracted from a validator are interpreted like the validator)
	lookup func(*types.Func) *ast.FuncDecl
}

func (it *dtInterp) fail(format string, args ...interface{}) dtVal {
	if it.err == "" {
		it.err = fmt.Sprintf(format, args...)
	}
	return dtVal{}
}

func (it *dtInterp) expr(e ast.Expr) dtVal {
	if it.err != "" {
		return dtVal{}
	}
	e = ast.Unparen(e)
	if tv, ok := it.info.Types[e]; ok && tv.Value != nil {
		switch tv.Value.Kind() {
		case constant.Bool:
			return dtVal{kind: "bool", b: constant.BoolVal(tv.Value)}
		case constant.Int:
			k, _ := constant.Int64Val(tv.Value)
			return dtVal{kind: "int", i: k}
		case constant.String:
			// a named PLYPropertyType constant, or a plain string
			if id, ok := e.(*ast.Ident); ok {
				if c, ok := it.info.Uses[id].(*types.Const); ok {
					if n, ok := c.Type().(*types.Named); ok && n.Obj().Name() == "PLYPropertyType" {
						return dtVal{kind: "const", o: c, s: constant.StringVal(tv.Value)}
					}
					// untyped string constants declared in the PLYPropertyType block
					if strings.HasPrefix(c.Name(), "PLYPropertyType") {
						return dtVal{kind: "const", o: c, s: constant.StringVal(tv.Value)}
					}
				}
			}
			return dtVal{kind: "string", s: constant.StringVal(tv.Value)}
		}
	}
	switch x := e.(type) {
	case *ast.Ident:
		if v, ok := it.env[it.info.Uses[x]]; ok {
			return v
		}
		return it.fail("unknown identifier %s", x.Name)
	case *ast.SelectorExpr:
		base := it.expr(x.X)
		switch base.kind {
		case "elem":
			switch x.Sel.Name {
			case "Name":
				return dtVal{kind: "string", s: base.e.name}
			case "Properties":
				return dtVal{kind: "props", e: base.e}
			}
		case "prop":
			switch x.Sel.Name {
			case "Name":
				return dtVal{kind: "string", s: base.p.name}
			case "LenType":
				return dtVal{kind: "const", o: base.p.lenT, s: constString(base.p.lenT)}
			case "ElemType":
				return dtVal{kind: "const", o: base.p.elem, s: constString(base.p.elem)}
			}
		}
		return it.fail("unsupported selector %s", types.ExprString(e))
	case *ast.IndexExpr:
		base := it.expr(x.X)
		idx := it.expr(x.Index)
		if base.kind == "props" && idx.kind == "int" {
			if idx.i < 0 || idx.i >= int64(len(base.e.props)) {
				return it.fail("PANIC: index %d out of range of %d properties", idx.i, len(base.e.props))
			}
			return dtVal{kind: "prop", p: &base.e.props[idx.i]}
		}
		return it.fail("unsupported index %s", types.ExprString(e))
	case *ast.CallExpr:
		if id, ok := x.Fun.(*ast.Ident); ok && id.Name == "len" && len(x.Args) == 1 {
			a := it.expr(x.Args[0])
			if a.kind == "props" {
				return dtVal{kind: "int", i: int64(len(a.e.props))}
			}
		}
		if it.lookup != nil && it.depth < 6 {
			if fn := calleeFunc(it.info, x); fn != nil {
				if hfd := it.lookup(fn); hfd != nil && hfd.Body != nil {
					return it.call(hfd, x)
				}
			}
		}
		return it.fail("unsupported call %s", types.ExprString(e))
	case *ast.UnaryExpr:
		if x.Op == token.NOT {
			v := it.expr(x.X)
			return dtVal{kind: "bool", b: !v.b}
		}
	case *ast.BinaryExpr:
		switch x.Op {
		case token.LAND:
			l := it.expr(x.X)
			if !l.b {
				return dtVal{kind: "bool", b: false}
			}
			return it.expr(x.Y)
		case token.LOR:
			l := it.expr(x.X)
			if l.b {
				return dtVal{kind: "bool", b: true}
			}
			return it.expr(x.Y)
		case token.EQL, token.NEQ:
			l, r := it.expr(x.X), it.expr(x.Y)
			if it.err != "" {
				return dtVal{}
			}
			var eq bool
			switch {
			case l.kind == "int" && r.kind == "int":
				eq = l.i == r.i
			case (l.kind == "string" || l.kind == "const") && (r.kind == "string" || r.kind == "const"):
				eq = l.s == r.s
			default:
				return it.fail("unsupported comparison %s", types.ExprString(e))
			}
			return dtVal{kind: "bool", b: eq == (x.Op == token.EQL)}
		case token.LSS, token.LEQ, token.GTR, token.GEQ, token.ADD, token.SUB:
			l, r := it.expr(x.X), it.expr(x.Y)
			if it.err != "" {
				return dtVal{}
			}
			if l.kind != "int" || r.kind != "int" {
				return it.fail("unsupported arithmetic %s", types.ExprString(e))
			}
			switch x.Op {
			case token.LSS:
				return dtVal{kind: "bool", b: l.i < r.i}
			case token.LEQ:
				return dtVal{kind: "bool", b: l.i <= r.i}
			case token.GTR:
				return dtVal{kind: "bool", b: l.i > r.i}
			case token.GEQ:
				return dtVal{kind: "bool", b: l.i >= r.i}
			case token.ADD:
				return dtVal{kind: "int", i: l.i + r.i}
			default:
				return dtVal{kind: "int", i: l.i - r.i}
			}
		}
	}
	return it.fail("unsupported expression %s", types.ExprString(e))
}

func constString(o types.Object) string {
	if c, ok := o.(*types.Const); ok && c.Val().Kind() == constant.String {
		return constant.StringVal(c.Val())
	}
	return ""
}

// stmts executes statements; returns true when a return was executed.
func (it *dtInterp) stmts(list []ast.Stmt) bool {
	for _, s := range list {
		if it.err != "" {
			return true
		}
		it.steps++
		if it.steps > 10000 {
			it.fail("too many steps")
			return true
		}
		switch x := s.(type) {
		case *ast.ReturnStmt:
			if len(x.Results) != 1 {
				it.fail("unsupported return")
				return true
			}
			v := it.expr(x.Results[0])
			b := v.b
			it.ret = &b
			it.retVal = v
			return true
		case *ast.IfStmt:
			if x.Init != nil {
				if it.stmts([]ast.Stmt{x.Init}) {
					return true
				}
			}
			c := it.expr(x.Cond)
			if it.err != "" {
				return true
			}
			if c.b {
				if it.stmts(x.Body.List) {
					return true
				}
			} else if x.Else != nil {
				if it.stmts([]ast.Stmt{x.Else}) {
					return true
				}
			}
		case *ast.BlockStmt:
			if it.stmts(x.List) {
				return true
			}
		case *ast.AssignStmt:
			if len(x.Lhs) != 1 || len(x.Rhs) != 1 {
				it.fail("unsupported assignment")
				return true
			}
			id, ok := x.Lhs[0].(*ast.Ident)
			if !ok {
				it.fail("unsupported assignment target")
				return true
			}
			obj := identObj(it.info, id)
			it.env[obj] = it.expr(x.Rhs[0])
		case *ast.RangeStmt:
			seq := it.expr(x.X)
			if seq.kind != "props" {
				it.fail("unsupported range")
				return true
			}
			for i := range seq.e.props {
				if id, ok := x.Key.(*ast.Ident); ok && id.Name != "_" {
					it.env[identObj(it.info, id)] = dtVal{kind: "int", i: int64(i)}
				}
				if id, ok := x.Value.(*ast.Ident); ok && id.Name != "_" {
					it.env[identObj(it.info, id)] = dtVal{kind: "prop", p: &seq.e.props[i]}
				}
				if it.stmts(x.Body.List) {
					if it.ctl == 2 {
						it.ctl = 0
						continue
					}
					if it.ctl == 1 {
						it.ctl = 0
						break
					}
					return true
				}
			}
		case *ast.ForStmt:
			if x.Init != nil {
				if it.stmts([]ast.Stmt{x.Init}) {
					return true
				}
			}
		loop:
			for {
				it.steps++
				if it.steps > 10000 {
					it.fail("too many steps")
					return true
				}
				if x.Cond != nil {
					c := it.expr(x.Cond)
					if it.err != "" {
						return true
					}
					if !c.b {
						break
					}
				}
				if it.stmts(x.Body.List) {
					switch it.ctl {
					case 2:
						it.ctl = 0
					case 1:
						it.ctl = 0
						break loop
					default:
						return true
					}
				}
				if x.Post != nil {
					if it.stmts([]ast.Stmt{x.Post}) {
						return true
					}
				}
			}
		case *ast.IncDecStmt:
			id, ok := x.X.(*ast.Ident)
			if !ok {
				it.fail("unsupported inc/dec target")
				return true
			}
			obj := identObj(it.info, id)
			v := it.env[obj]
			if v.kind != "int" {
				it.fail("unsupported inc/dec of %s", id.Name)
				return true
			}
			if x.Tok == token.INC {
				v.i++
			} else {
				v.i--
			}
			it.env[obj] = v
		case *ast.BranchStmt:
			if x.Label != nil {
				it.fail("unsupported labelled %s", x.Tok)
				return true
			}
			switch x.Tok {
			case token.BREAK:
				it.ctl = 1
				return true
			case token.CONTINUE:
				it.ctl = 2
				return true
			}
			it.fail("unsupported %s", x.Tok)
			return true
		case *ast.ExprStmt:
			it.expr(x.X)
		case *ast.DeclStmt:
			gd, ok := x.Decl.(*ast.GenDecl)
			if !ok || gd.Tok != token.VAR {
				it.fail("unsupported declaration")
				return true
			}
			for _, sp := range gd.Specs {
				vs := sp.(*ast.ValueSpec)
				for i, n := range vs.Names {
					var v dtVal
					if i < len(vs.Values) {
						v = it.expr(vs.Values[i])
					} else if b, ok := it.info.TypeOf(n).Underlying().(*types.Basic); ok {
						switch {
						case b.Info()&types.IsBoolean != 0:
							v = dtVal{kind: "bool"}
						case b.Info()&types.IsInteger != 0:
							v = dtVal{kind: "int"}
						case b.Info()&types.IsString != 0:
							v = dtVal{kind: "string"}
						}
					}
					it.env[it.info.Defs[n]] = v
				}
			}
		case *ast.SwitchStmt:
			if x.Init != nil {
				if it.stmts([]ast.Stmt{x.Init}) {
					return true
				}
			}
			if x.Tag == nil {
				// tagless: the first case with a true expression
				var def *ast.CaseClause
				done := false
				for _, cc := range x.Body.List {
					cl := cc.(*ast.CaseClause)
					if cl.List == nil {
						def = cl
						continue
					}
					hit := false
					for _, e := range cl.List {
						if v := it.expr(e); v.b {
							hit = true
							break
						}
					}
					if it.err != "" {
						return true
					}
					if hit {
						done = true
						if it.stmts(cl.Body) {
							if it.ctl == 1 {
								it.ctl = 0
								break
							}
							return true
						}
						break
					}
				}
				if !done && def != nil {
					if it.stmts(def.Body) {
						if it.ctl == 1 {
							it.ctl = 0
						} else {
							return true
						}
					}
				}
				continue
			}
			tag := it.expr(x.Tag)
			var def *ast.CaseClause
			matched := false
			for _, cc := range x.Body.List {
				cl := cc.(*ast.CaseClause)
				if cl.List == nil {
					def = cl
					continue
				}
				for _, e := range cl.List {
					v := it.expr(e)
					if (v.kind == "string" || v.kind == "const") && (tag.kind == "string" || tag.kind == "const") && v.s == tag.s {
						matched = true
					}
					if v.kind == "int" && tag.kind == "int" && v.i == tag.i {
						matched = true
					}
				}
				if matched {
					if it.stmts(cl.Body) {
						if it.ctl == 1 {
							it.ctl = 0
							break
						}
						return true
					}
					break
				}
			}
			if !matched && def != nil {
				if it.stmts(def.Body) {
					if it.ctl == 1 {
						it.ctl = 0
					} else {
						return true
					}
				}
			}
		default:
			it.fail("unsupported statement %T", s)
			return true
		}
	}
	return false
}

// call interprets a helper of the validator's package: receiver and parameters
// are bound to the evaluated arguments, the body runs in a fresh environment.
func (it *dtInterp) call(hfd *ast.FuncDecl, x *ast.CallExpr) dtVal {
	env := map[types.Object]dtVal{}
	if hfd.Recv != nil && len(hfd.Recv.List[0].Names) > 0 {
		sel, ok := ast.Unparen(x.Fun).(*ast.SelectorExpr)
		if !ok {
			return it.fail("unsupported method value %s", types.ExprString(x.Fun))
		}
		env[it.info.Defs[hfd.Recv.List[0].Names[0]]] = it.expr(sel.X)
	}
	i := 0
	for _, fl := range hfd.Type.Params.List {
		for _, n := range fl.Names {
			if i >= len(x.Args) {
				return it.fail("unsupported variadic call %s", types.ExprString(x))
			}
			env[it.info.Defs[n]] = it.expr(x.Args[i])
			i++
		}
	}
	if it.err != "" {
		return dtVal{}
	}
	sub := &dtInterp{info: it.info, env: env, lookup: it.lookup, depth: it.depth + 1, steps: it.steps}
	sub.stmts(hfd.Body.List)
	it.steps = sub.steps
	if sub.err != "" {
		return it.fail("%s", sub.err)
	}
	if sub.ret == nil {
		if hfd.Type.Results == nil {
			return dtVal{}
		}
		return it.fail("helper %s fell off its end", hfd.Name.Name)
	}
	return sub.retVal
}

// runValidator evaluates validator fd on element e. (accepted, panicked, err)
func runValidator(info *types.Info, fd *ast.FuncDecl, e *dtElem, lookup func(*types.Func) *ast.FuncDecl) (bool, string) {
	it := &dtInterp{info: info, env: map[types.Object]dtVal{}, lookup: lookup}
	if fd.Recv != nil && len(fd.Recv.List[0].Names) > 0 {
		it.env[info.Defs[fd.Recv.List[0].Names[0]]] = dtVal{kind: "elem", e: e}
	}
	it.stmts(fd.Body.List)
	if it.err != "" {
		return false, it.err
	}
	if it.ret == nil {
		return false, "validator fell off its end"
	}
	return *it.ret, ""
}

type dtAssertion struct {
	expr     *ast.TypeAssertExpr
	elemKind string   // "" if not under a test of element.Name
	role     string   // "whole", "len", "elem", "named"
	k        int64    // property index for whole/len/elem
	names    []string // property names for named
}

func (c *Ctx) runValidatorConsumer(prefix string, tables *plyTables) {
	ff := c.pkg("fileformats")
	m3 := c.pkg("model3d")
	if ff == nil || m3 == nil {
		return
	}
	consumerObj := c.mustFunc("model3d", "readColorPLY")
	if consumerObj == nil {
		return
	}
	fd, _ := c.funcDecl(consumerObj)
	if fd == nil {
		c.problem("unresolved anchor: syntax of model3d.readColorPLY")
		return
	}
	c.analysed("model3d.readColorPLY")
	info := m3.TypesInfo

	isPLYElementPtr := func(t types.Type) bool {
		p, ok := t.(*types.Pointer)
		if !ok {
			return false
		}
		n, ok := p.Elem().(*types.Named)
		return ok && n.Obj().Name() == "PLYElement"
	}
	// element.Name == "S"
	elemNameTest := func(cond ast.Expr) (string, bool) {
		be, ok := ast.Unparen(cond).(*ast.BinaryExpr)
		if !ok || be.Op != token.EQL {
			return "", false
		}
		for _, pair := range [][2]ast.Expr{{be.X, be.Y}, {be.Y, be.X}} {
			sel, ok := ast.Unparen(pair[0]).(*ast.SelectorExpr)
			if !ok || sel.Sel.Name != "Name" || !isPLYElementPtr(info.TypeOf(sel.X)) {
				continue
			}
			if tv := info.Types[pair[1]]; tv.Value != nil && tv.Value.Kind() == constant.String {
				return constant.StringVal(tv.Value), true
			}
		}
		return "", false
	}
	// (a) validators per element kind
	// the switch form of the same test: switch element.Name { case "S": ... }
	elemNameCase := func(cl *ast.CaseClause, sw ast.Node) (string, bool) {
		st, ok := sw.(*ast.SwitchStmt)
		if !ok || st.Tag == nil || len(cl.List) != 1 {
			return "", false
		}
		sel, ok := ast.Unparen(st.Tag).(*ast.SelectorExpr)
		if !ok || sel.Sel.Name != "Name" || !isPLYElementPtr(info.TypeOf(sel.X)) {
			return "", false
		}
		if tv := info.Types[cl.List[0]]; tv.Value != nil && tv.Value.Kind() == constant.String {
			return constant.StringVal(tv.Value), true
		}
		return "", false
	}
	validators := map[string]*types.Func{}
	var findValidators func(root ast.Node)
	findValidators = func(root ast.Node) {
		ast.Inspect(root, func(n ast.Node) bool {
			var kind string
			var body ast.Node
			switch x := n.(type) {
			case *ast.IfStmt:
				k, ok := elemNameTest(x.Cond)
				if !ok {
					return true
				}
				kind, body = k, x.Body
			case *ast.SwitchStmt:
				for _, st := range x.Body.List {
					if cl, ok := st.(*ast.CaseClause); ok {
						if k, ok := elemNameCase(cl, x); ok {
							for _, bs := range cl.Body {
								ast.Inspect(bs, func(m ast.Node) bool {
									if call, ok := m.(*ast.CallExpr); ok {
										if f := calleeFunc(info, call); f != nil && strings.HasPrefix(f.Name(), "IsStandard") {
											validators[k] = f
										}
									}
									return true
								})
							}
						}
					}
				}
				return true
			default:
				return true
			}
			ast.Inspect(body, func(m ast.Node) bool {
				call, ok := m.(*ast.CallExpr)
				if !ok {
					return true
				}
				if f := calleeFunc(info, call); f != nil && strings.HasPrefix(f.Name(), "IsStandard") {
					validators[kind] = f
				}
				return true
			})
			return true
		})
	}
	findValidators(fd.Body)
	// header validation moved into a helper: a function of the package that the
	// consumer calls with the declared elements and whose error it returns
	ast.Inspect(fd.Body, func(n ast.Node) bool {
		ifs, ok := n.(*ast.IfStmt)
		if !ok || ifs.Init == nil {
			return true
		}
		as, ok := ifs.Init.(*ast.AssignStmt)
		if !ok || len(as.Rhs) != 1 {
			return true
		}
		call, ok := ast.Unparen(as.Rhs[0]).(*ast.CallExpr)
		if !ok {
			return true
		}
		f := calleeFunc(info, call)
		if f == nil || f.Pkg() != m3.Types {
			return true
		}
		// the if must test the error and leave the function
		leaves := false
		for _, st := range ifs.Body.List {
			if _, ok := st.(*ast.ReturnStmt); ok {
				leaves = true
			}
		}
		if be, ok := ast.Unparen(ifs.Cond).(*ast.BinaryExpr); !ok || be.Op != token.NEQ || !leaves {
			return true
		}
		if hfd, _ := c.funcDecl(f); hfd != nil && hfd.Body != nil {
			findValidators(hfd.Body)
		}
		return true
	})
	// admitted declarations per kind
	allTypes := []types.Object{}
	for _, o := range tables.labels["Validate"] {
		if tables.accepted[o] {
			allTypes = append(allTypes, o)
		}
	}
	noneObj := ff.Types.Scope().Lookup("PLYPropertyTypeNone")
	if noneObj == nil || len(allTypes) == 0 {
		c.problem("DT: PLY type constants not found")
		return
	}
	sort.Slice(allTypes, func(i, j int) bool { return allTypes[i].Name() < allTypes[j].Name() })
	lenChoices := append([]types.Object{noneObj}, allTypes...)

	type admitted struct {
		byName map[string][]dtProp // property name -> admitted declarations
		names  []string
	}
	admit := map[string]*admitted{}
	kinds := []string{}
	for k := range validators {
		kinds = append(kinds, k)
	}
	sort.Strings(kinds)
	for _, kind := range kinds {
		vf := validators[kind]
		vfd, vp := c.funcDecl(vf)
		if vfd == nil {
			c.problem("DT: syntax of %s not found", vf.Name())
			continue
		}
		c.analysed("fileformats.PLYElement." + vf.Name())
		lookup := func(f *types.Func) *ast.FuncDecl {
			if f.Pkg() != vp.Types {
				return nil
			}
			d, _ := c.funcDecl(f)
			return d
		}
		// candidate property names: string literals compared in the validator
		nameSet := map[string]bool{"__other__": true}
		ast.Inspect(vfd.Body, func(n ast.Node) bool {
			if lit, ok := n.(*ast.BasicLit); ok && lit.Kind == token.STRING {
				if tv := vp.TypesInfo.Types[lit]; tv.Value != nil {
					nameSet[constant.StringVal(tv.Value)] = true
				}
			}
			return true
		})
		ad := &admitted{byName: map[string][]dtProp{}}
		evalErr := ""
		nEval := 0
		for name := range nameSet {
			for _, lt := range lenChoices {
				for _, et := range allTypes {
					e := &dtElem{name: kind, props: []dtProp{{name, lt, et}}}
					ok, err := runValidator(vp.TypesInfo, vfd, e, lookup)
					nEval++
					if err != "" {
						evalErr = err
						continue
					}
					if ok {
						ad.byName[name] = append(ad.byName[name], dtProp{name, lt, et})
					}
				}
			}
		}
		// element without properties must be rejected without panicking
		_, err0 := runValidator(vp.TypesInfo, vfd, &dtElem{name: kind}, lookup)
		key := "validator " + vf.Name() + " for element " + kind
		switch {
		case strings.HasPrefix(err0, "PANIC") || strings.HasPrefix(evalErr, "PANIC"):
			c.bad(prefix+".VALID", key, vfd.Pos(), "the validator itself panics on a declarable element: "+err0+evalErr)
		case evalErr != "" || (err0 != "" && !strings.HasPrefix(err0, "PANIC")):
			c.problem("DT: cannot evaluate %s: %s %s", vf.Name(), evalErr, err0)
		default:
			for n := range ad.byName {
				ad.names = append(ad.names, n)
			}
			sort.Strings(ad.names)
			c.ok(prefix+".VALID", key, vfd.Pos(), fmt.Sprintf("evaluated on %d declarations; admits properties named %v", nEval, ad.names))
		}
		admit[kind] = ad
	}

	// (b) assertions of the consumer, and of the helpers it hands a row to
	// from inside an element-kind branch (they are scanned with that kind)
	var asserts []dtAssertion
	type helperCall struct {
		fd   *ast.FuncDecl
		kind string
	}
	var helperCalls []helperCall
	var scan func(body *ast.BlockStmt, forced string)
	scan = func(body *ast.BlockStmt, forced string) {
		parents := map[ast.Node]ast.Node{}
		var stack []ast.Node
		ast.Inspect(body, func(n ast.Node) bool {
			if n == nil {
				stack = stack[:len(stack)-1]
				return true
			}
			if len(stack) > 0 {
				parents[n] = stack[len(stack)-1]
			}
			stack = append(stack, n)
			return true
		})
		valuesVarOf := func(e ast.Expr) *types.Var {
			id, ok := ast.Unparen(e).(*ast.Ident)
			if !ok {
				return nil
			}
			v, _ := identObj(info, id).(*types.Var)
			if v == nil {
				return nil
			}
			if sl, ok := v.Type().Underlying().(*types.Slice); ok {
				if n, ok := sl.Elem().(*types.Named); ok && n.Obj().Name() == "PLYValue" {
					return v
				}
			}
			return nil
		}
		// defining assertion of list variables: val := values[k].(PLYValueList)
		listVarIndex := map[types.Object]int64{}
		ast.Inspect(body, func(n ast.Node) bool {
			as, ok := n.(*ast.AssignStmt)
			if !ok || len(as.Lhs) != 1 || len(as.Rhs) != 1 {
				return true
			}
			ta, ok := ast.Unparen(as.Rhs[0]).(*ast.TypeAssertExpr)
			if !ok || ta.Type == nil {
				return true
			}
			ix, ok := ast.Unparen(ta.X).(*ast.IndexExpr)
			if !ok || valuesVarOf(ix.X) == nil {
				return true
			}
			if tv := info.Types[ix.Index]; tv.Value != nil {
				k, _ := constant.Int64Val(constant.ToInt(tv.Value))
				if id, ok := as.Lhs[0].(*ast.Ident); ok {
					listVarIndex[identObj(info, id)] = k
				}
			}
			return true
		})
		kindAt := func(n ast.Node) string {
			var child ast.Node = n
			for p := parents[n]; p != nil; child, p = p, parents[p] {
				if ifs, ok := p.(*ast.IfStmt); ok && child == ast.Node(ifs.Body) {
					if kind, ok := elemNameTest(ifs.Cond); ok {
						return kind
					}
				}
				if cl, ok := p.(*ast.CaseClause); ok && parents[cl] != nil {
					if kind, ok := elemNameCase(cl, parents[parents[cl]]); ok {
						return kind
					}
				}
			}
			return forced
		}
		ast.Inspect(body, func(n ast.Node) bool {
			call, ok := n.(*ast.CallExpr)
			if !ok {
				return true
			}
			f := calleeFunc(info, call)
			if f == nil || f.Pkg() != m3.Types {
				return true
			}
			takesRow := false
			for _, a := range call.Args {
				if valuesVarOf(a) != nil {
					takesRow = true
				}
			}
			if !takesRow {
				return true
			}
			if hfd, _ := c.funcDecl(f); hfd != nil && hfd.Body != nil && hfd != fd {
				helperCalls = append(helperCalls, helperCall{hfd, kindAt(call)})
			}
			return true
		})
		ast.Inspect(body, func(n ast.Node) bool {
			ta, ok := n.(*ast.TypeAssertExpr)
			if !ok || ta.Type == nil {
				return true
			}
			// comma-ok form?
			if as, ok := parents[ta].(*ast.AssignStmt); ok && len(as.Lhs) == 2 && len(as.Rhs) == 1 {
				return true
			}
			a := dtAssertion{expr: ta, elemKind: forced}
			// element kind: innermost enclosing if on element.Name (body only)
			var child ast.Node = ta
			for p := parents[ta]; p != nil; child, p = p, parents[p] {
				if ifs, ok := p.(*ast.IfStmt); ok && child == ast.Node(ifs.Body) {
					if kind, ok := elemNameTest(ifs.Cond); ok {
						a.elemKind = kind
						break
					}
				}
				if cl, ok := p.(*ast.CaseClause); ok && parents[cl] != nil {
					if kind, ok := elemNameCase(cl, parents[parents[cl]]); ok {
						a.elemKind = kind
						break
					}
				}
			}
			x := ast.Unparen(ta.X)
			switch e := x.(type) {
			case *ast.IndexExpr:
				if valuesVarOf(e.X) != nil {
					if tv := info.Types[e.Index]; tv.Value != nil {
						a.role = "whole"
						a.k, _ = constant.Int64Val(constant.ToInt(tv.Value))
					}
				} else if sel, ok := ast.Unparen(e.X).(*ast.SelectorExpr); ok && sel.Sel.Name == "Values" {
					if id, ok := ast.Unparen(sel.X).(*ast.Ident); ok {
						if k, ok := listVarIndex[identObj(info, id)]; ok {
							a.role, a.k = "elem", k
						}
					}
				}
			case *ast.SelectorExpr:
				if e.Sel.Name == "Length" {
					if id, ok := ast.Unparen(e.X).(*ast.Ident); ok {
						if k, ok := listVarIndex[identObj(info, id)]; ok {
							a.role, a.k = "len", k
						}
					}
				}
			case *ast.Ident:
				// range value over the row, under switch element.Properties[i].Name
				var child ast.Node = ta
				for p := parents[ta]; p != nil; child, p = p, parents[p] {
					cl, ok := p.(*ast.CaseClause)
					if !ok {
						continue
					}
					sw, ok := parents[parents[cl]].(*ast.SwitchStmt)
					if !ok || sw.Tag == nil {
						continue
					}
					sel, ok := ast.Unparen(sw.Tag).(*ast.SelectorExpr)
					if !ok || sel.Sel.Name != "Name" {
						continue
					}
					a.role = "named"
					for _, le := range cl.List {
						if tv := info.Types[le]; tv.Value != nil && tv.Value.Kind() == constant.String {
							a.names = append(a.names, constant.StringVal(tv.Value))
						}
					}
					_ = child
					break
				}
			}
			asserts = append(asserts, a)
			return true
		})
	}
	scan(fd.Body, "")
	for i := 0; i < len(helperCalls) && i < 8; i++ {
		scan(helperCalls[i].fd.Body, helperCalls[i].kind)
	}
	for i, a := range asserts {
		asserted, _ := info.TypeOf(a.expr.Type).(*types.Named)
		key := fmt.Sprintf("model3d.readColorPLY assertion#%d %s", i+1, types.ExprString(a.expr))
		if asserted == nil {
			c.problem("%s: asserted type is not a named type", key)
			continue
		}
		if a.role == "" {
			c.problem("%s: the role of the asserted value is not recognised (unsupported shape)", key)
			continue
		}
		ad := admit[a.elemKind]
		if a.elemKind == "" || ad == nil {
			c.bad(prefix+".ASSERT", key, a.expr.Pos(), "unchecked type assertion on rows of an element kind that no validator covers (the row may belong to any declared element)")
			continue
		}
		var decls []dtProp
		switch a.role {
		case "named":
			for _, n := range a.names {
				decls = append(decls, ad.byName[n]...)
			}
		default:
			if a.k != 0 {
				c.problem("%s: only the first property is supported", key)
				continue
			}
			for _, n := range ad.names {
				decls = append(decls, ad.byName[n]...)
			}
		}
		var wrong []string
		for _, d := range decls {
			isList := d.lenT != noneObj
			var got string
			switch a.role {
			case "whole", "named":
				if isList {
					got = "PLYValueList"
				} else if t := tables.parseTy[d.elem]; t != nil {
					got = t.Obj().Name()
				}
			case "len":
				if !isList {
					got = "(not a list)"
				} else if t := tables.parseTy[d.lenT]; t != nil {
					got = t.Obj().Name()
				}
			case "elem":
				if t := tables.parseTy[d.elem]; t != nil {
					got = t.Obj().Name()
				}
			}
			if got != asserted.Obj().Name() {
				decl := fmt.Sprintf("property %s %s", strings.TrimPrefix(d.elem.Name(), "PLYPropertyType"), d.name)
				if isList {
					decl = fmt.Sprintf("property list %s %s %s", strings.TrimPrefix(d.lenT.Name(), "PLYPropertyType"), strings.TrimPrefix(d.elem.Name(), "PLYPropertyType"), d.name)
				}
				wrong = append(wrong, fmt.Sprintf("'%s' decodes to %s", decl, got))
			}
		}
		if len(wrong) > 0 {
			sort.Strings(wrong)
			c.bad(prefix+".ASSERT", key, a.expr.Pos(), fmt.Sprintf("asserts %s, but the %s validator admits %s (%d admitted declarations disagree): the assertion panics on such a file", asserted.Obj().Name(), a.elemKind, wrong[0], len(wrong)))
		} else {
			c.ok(prefix+".ASSERT", key, a.expr.Pos(), fmt.Sprintf("all %d declarations the %s validator admits for this value decode to %s", len(decls), a.elemKind, asserted.Obj().Name()))
		}
	}
	_ = packages.NeedName
}
