package main

func init() {
	register("C20", &propInfo{
		Explanation: "CALLAGREE: when a function hands its own parameter to a callee at one call site, no sibling call of the same callee passes a package-level constant or variable in that position (DirectionalCamera: reported and repaired). UNITNORMAL: the Normal of a collision record handed back by a transformed object is not the raw image of a vector. A3.MEAN: for every running mean of the renderer (an accumulator A with 'A = A.Add(x)' and a mean 'A.Scale(1/float64(B))') the divisor equals the number of accumulated samples on every path to every final or returned mean, including early exits (structured abstract interpretation, events = accumulations). W: every pixel write of a render worker is addressed by the worker's own pixel index (effect analysis). AM: composite objects keep the nearest hit. OL: every exported sampler option is read by library code.",
		Trusted:     []string{"go/types and go/ast of x/tools v0.29.0", "the statement semantics modelled in checker/a3.go", "the recognition of running means by their shape (A = A.Add(x); A.Scale(1/float64(B)))"},
		Assumptions: []string{"RayColor returns one radiance sample per call"},
		Fixtures:    []string{"a3", "u", "w"},
		Run:         runC20,
		SelfTest: []Mutation{
			{Name: "translated object shifts the caller's ray in place", File: "render3d/transform.go",
				Old: "\treturn t.Object.Cast(&model3d.Ray{\n\t\tOrigin:    r.Origin.Sub(t.Offset),\n\t\tDirection: r.Direction,\n\t})", New: "\tr.Origin = r.Origin.Sub(t.Offset)\n\treturn t.Object.Cast(r)", Rule: "Q.OBJ", Expect: "translatedObject"},
			{Name: "auto-framing searches with the default field of view (defect repaired in d329c16)", File: "render3d/helpers.go",
				Old: "cam := NewCameraAt(center.Add(direction.Scale(d)), center, fov)", New: "cam := NewCameraAt(center.Add(direction.Scale(d)), center, helperFieldOfView)", Rule: "CALLAGREE", Expect: "DirectionalCamera"},
			{Name: "transformed object hands back a stretched normal", File: "render3d/transform.go",
				Old: "rc.Normal = m.NormalMat.MulColumn(rc.Normal).Normalize()", New: "rc.Normal = m.NormalMat.MulColumn(rc.Normal)", Rule: "UNITNORMAL", Expect: "matrixObject"},
			{Name: "early stop without counting the sample", File: "render3d/ray_renderer.go",
				Old: "\t\t\tnumSamples++\n\t\t\tbreak", New: "\t\t\tbreak", Rule: "A3.MEAN", Expect: "estimateColor"},
			{Name: "early stop returns the in-loop mean", File: "render3d/ray_renderer.go",
				Old: "\t\t\tnumSamples++\n\t\t\tbreak", New: "\t\t\treturn mean, numSamples + 1", Rule: "A3.MEAN", Expect: "estimateColor"},
			{Name: "variance loop starts at 1", File: "render3d/ray_renderer.go",
				Old: "for i := 0; i < numSamples; i++ {\n\t\tif r.Antialias != 0 {", New: "for i := 1; i < numSamples; i++ {\n\t\tif r.Antialias != 0 {", Rule: "A3.MEAN", Expect: "estimateVariance"},
			{Name: "JoinedObject keeps the farthest hit", File: "render3d/object.go",
				Old: "!found || c.Scale < coll.Scale", New: "!found || c.Scale > coll.Scale", Rule: "AM", Expect: "JoinedObject"},
		},
	})
}

func runC20(c *Ctx) {
	pkgs := append(c.libPkgs(), c.fixturePkg("a3"))
	c.runMean(pkgs, "A3.MEAN")
	c.floor("A3.MEAN", 3)
	c.runArgMin(append(c.libPkgs()[3:4], c.fixturePkg("a3")), "AM") // render3d
	c.floor("AM", 1)
	c.runOptionLiveness("OL", "render3d", "rayRenderer", "RecursiveRayTracer", "BidirPathTracer", "RayCaster")
	c.floor("OL", 20)
	c.runArgSwap("ARGSWAP", append(c.libPkgs()[3:4], c.fixturePkg("u")), func(n string) bool {
		return n != "light.go" && n != "focus_point.go" && n != "material.go" // those are C19's
	}, nil)
	c.floor("ARGSWAP", 40)
	c.runPartition("PARTITION", append(c.libPkgs(), c.fixturePkg("w")), nil)
	c.floor("PARTITION", 0)
	// transformed objects hand back unit normals
	c.runUnitNormal("UNITNORMAL", append(c.libPkgs()[3:4:4], c.fixturePkg("u")), nil)
	c.floor("UNITNORMAL", 0)
	// sibling calls of one callee agree on whether they pass the caller's parameter
	c.runCallAgree("CALLAGREE", append(c.libPkgs()[3:4:4], c.fixturePkg("u")), nil)
	c.floor("CALLAGREE", 10)
	// every pixel exactly once: counters handed out atomically are zero-based positions
	c.runTicket("TICKET", append(c.libPkgs()[3:4:4], c.fixturePkg("w")))
	c.floor("TICKET", 0)
	// objects leave the ray they are asked about alone
	c.runQueryPurityFor(newEffEngine(c), c.libPkgs()[3:4], "Q.OBJ", map[string][]string{"render3d": {"Object"}})
	c.floor("Q.OBJ", 10)
}
