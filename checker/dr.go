package main

// DR — reader discipline inside the decoder scope (C15, C16).
//
// DR.SHORT: a single call of a Read([]byte) (int, error) method may return
//   fewer bytes than the buffer holds without an error (io.Reader contract).
//   A decoder that interprets the bytes it got from ONE Read as "everything
//   that was available" mis-decodes (or rejects) a well-formed stream that is
//   delivered in pieces. Accepted idioms (enumerated from the tree): the
//   buffer has the constant length 1 (a read cannot be short), or the call is
//   inside a natural loop (accumulating reader). io.ReadFull / ReadAtLeast /
//   binary.Read / bufio line readers are not raw reads and produce no
//   obligation.
// DR.LINE: (*bufio.Reader).ReadLine returns isPrefix=true when the line does
//   not fit the buffer; a caller that discards isPrefix silently truncates a
//   long row and decodes the rest of it as the next row.

import (
	"go/constant"
	"go/types"

	"golang.org/x/tools/go/ssa"
)

// isRawRead: call of a method named Read with signature ([]byte) (int, error).
func isRawRead(call *ssa.Call) bool {
	var sig *types.Signature
	name := ""
	if call.Call.IsInvoke() {
		name = call.Call.Method.Name()
		sig, _ = call.Call.Method.Type().(*types.Signature)
	} else if f := call.Call.StaticCallee(); f != nil && f.Signature.Recv() != nil {
		name = f.Name()
		sig = f.Signature
	}
	if name != "Read" || sig == nil || sig.Params().Len() != 1 || sig.Results().Len() != 2 {
		return false
	}
	sl, ok := sig.Params().At(0).Type().Underlying().(*types.Slice)
	if !ok {
		return false
	}
	if b, ok := sl.Elem().Underlying().(*types.Basic); !ok || b.Kind() != types.Uint8 {
		return false
	}
	if b, ok := sig.Results().At(0).Type().Underlying().(*types.Basic); !ok || b.Kind() != types.Int {
		return false
	}
	return isErrorType(sig.Results().At(1).Type())
}

// constLenOne: the buffer is a slice of a [1]byte array (next[:]) or make([]byte, 1).
func constLenOne(v ssa.Value) bool {
	switch x := v.(type) {
	case *ssa.Slice:
		if x.Low == nil && x.High == nil {
			if pt, ok := x.X.Type().Underlying().(*types.Pointer); ok {
				if at, ok := pt.Elem().Underlying().(*types.Array); ok {
					return at.Len() == 1
				}
			}
		}
	case *ssa.MakeSlice:
		if k, ok := x.Len.(*ssa.Const); ok && k.Value != nil {
			if n, ok := constant.Int64Val(k.Value); ok {
				return n == 1
			}
		}
	}
	return false
}

func (s *decScope) ruleDR(prefix string) {
	c := s.c
	for _, fn := range s.fns {
		var loops map[*ssa.BasicBlock]map[*ssa.BasicBlock]bool
		nShort, nLine := 0, 0
		for _, b := range fn.Blocks {
			for _, ins := range b.Instrs {
				call, ok := ins.(*ssa.Call)
				if !ok {
					continue
				}
				if isRawRead(call) {
					// a Read method that forwards to an inner Read keeps the contract
					if fn.Name() == "Read" && fn.Signature.Recv() != nil && fn.Signature.Params().Len() == 1 {
						continue
					}
					nShort++
					c.analysed(qname(fn))
					key := qname(fn) + " raw Read"
					if nShort > 1 {
						key += " #" + string(rune('0'+nShort))
					}
					args := call.Call.Args
					buf := args[len(args)-1]
					if loops == nil {
						loops = naturalLoops(fn)
					}
					inLoop := false
					for _, body := range loops {
						if body[b] {
							inLoop = true
						}
					}
					switch {
					case constLenOne(buf):
						c.ok(prefix+".SHORT", key, call.Pos(), "the buffer has length 1: the read cannot be short")
					case inLoop:
						c.ok(prefix+".SHORT", key, call.Pos(), "the read is repeated in a loop")
					default:
						c.bad(prefix+".SHORT", key, call.Pos(), "one Read call fills a buffer that is then taken as all the data available: a reader that delivers the stream in pieces (allowed by io.Reader) is mis-decoded; use io.ReadFull")
					}
				}
				if f := call.Call.StaticCallee(); f != nil && f.Name() == "ReadLine" && f.Pkg != nil && f.Pkg.Pkg.Path() == "bufio" {
					nLine++
					c.analysed(qname(fn))
					key := qname(fn) + " ReadLine"
					used := false
					for _, ref := range *call.Referrers() {
						if ex, ok := ref.(*ssa.Extract); ok && ex.Index == 1 && len(*ex.Referrers()) > 0 {
							used = true
						}
					}
					if used {
						c.ok(prefix+".LINE", key, call.Pos(), "isPrefix is examined")
					} else {
						c.bad(prefix+".LINE", key, call.Pos(), "bufio.Reader.ReadLine's isPrefix result is discarded: a row longer than the buffer is silently split into several rows")
					}
				}
			}
		}
	}
}

// DR.WIDTH — text parsed into a float32 must be parsed AS a float32:
// strconv.ParseFloat(s, 64) followed by float32(x) rounds twice (to the
// nearest double, then to the nearest single), which differs from the
// correctly rounded single for decimal strings just off a float32 tie, so a
// file written from float32 values with enough digits does not read back
// identically.
func (s *decScope) ruleDRWidth(rule string) {
	c := s.c
	for _, fn := range s.fns {
		n := 0
		for _, b := range fn.Blocks {
			for _, ins := range b.Instrs {
				cv, ok := ins.(*ssa.Convert)
				if !ok {
					continue
				}
				bt, ok := cv.Type().Underlying().(*types.Basic)
				if !ok || bt.Kind() != types.Float32 {
					continue
				}
				ex, ok := cv.X.(*ssa.Extract)
				if !ok || ex.Index != 0 {
					continue
				}
				call, ok := ex.Tuple.(*ssa.Call)
				if !ok {
					continue
				}
				f := call.Call.StaticCallee()
				if f == nil || f.Pkg == nil || f.Pkg.Pkg.Path() != "strconv" || f.Name() != "ParseFloat" {
					continue
				}
				n++
				c.analysed(qname(fn))
				key := qname(fn) + " float32 from text #" + itoa(n)
				bits, isC := constInt(call.Call.Args[1])
				switch {
				case isC && bits == 32:
					c.ok(rule, key, cv.Pos(), "parsed with bit size 32: correctly rounded single")
				case isC:
					c.bad(rule, key, cv.Pos(), "the text is parsed with bit size 64 and then converted to float32: double rounding differs from the correctly rounded float32 for decimals just off a tie")
				default:
					c.ok(rule, key, cv.Pos(), "bit size is not a constant (no claim)")
				}
			}
		}
	}
}
