package main

// A6 — decoder totality (C16): rules over the SSA of every function reachable
// from the decoding entry points.

import (
	"fmt"
	"go/constant"
	"go/token"
	"go/types"
	"sort"
	"strings"

	"golang.org/x/tools/go/ssa"
)

type entrySpec struct{ pkg, name string }

var decoderEntries = []entrySpec{
	{"model3d", "ReadSTL"}, {"model3d", "ReadOFF"}, {"model3d", "ReadColorPLY"},
	{"model2d", "DecodeCSV"},
	{"fileformats", "NewSTLReader"}, {"fileformats", "STLReader.ReadTriangle"},
	{"fileformats", "NewOFFReader"}, {"fileformats", "OFFReader.ReadFace"},
	{"fileformats", "NewPLYReader"}, {"fileformats", "PLYReader.Read"},
	{"fileformats", "NewPLYHeaderRead"}, {"fileformats", "NewPLYHeaderDecode"},
	{"fileformats", "NewPLYPropertyString"},
	{"fileformats", "PLYElement.DecodeInstanceString"}, {"fileformats", "PLYElement.DecodeInstanceBinary"},
	{"fileformats", "PLYElement.IsStandardVertex"}, {"fileformats", "PLYElement.IsStandardFace"},
	{"fileformats", "NewSegmentCSVReader"}, {"fileformats", "SegmentCSVReader.Read"},
}

type decScope struct {
	c       *Ctx
	fns     []*ssa.Function // in scope, deterministic order
	in      map[*ssa.Function]bool
	barrier map[*ssa.Function]bool   // functions that recover panics of their callees
	guarded map[*ssa.Function]bool   // reachable only below a barrier
	entryOf map[*ssa.Function]string // an entry that reaches it
	// parameters of a callee bound to the arguments of the call site under
	// analysis (DA.SIGN through clamp helpers)
	paramBind map[*ssa.Parameter]boundArg
}

// hasRecover: fn defers a function literal that calls recover().
func hasRecover(fn *ssa.Function) bool {
	for _, b := range fn.Blocks {
		for _, ins := range b.Instrs {
			d, ok := ins.(*ssa.Defer)
			if !ok {
				continue
			}
			var target *ssa.Function
			switch v := d.Call.Value.(type) {
			case *ssa.MakeClosure:
				target = v.Fn.(*ssa.Function)
			case *ssa.Function:
				target = v
			}
			if target == nil {
				continue
			}
			for _, tb := range target.Blocks {
				for _, ti := range tb.Instrs {
					if call, ok := ti.(*ssa.Call); ok {
						if b, ok := call.Call.Value.(*ssa.Builtin); ok && b.Name() == "recover" {
							return true
						}
					}
				}
			}
		}
	}
	return false
}

func (c *Ctx) decoderScope(extraFixture string) *decScope {
	s := &decScope{c: c, in: map[*ssa.Function]bool{}, barrier: map[*ssa.Function]bool{},
		guarded: map[*ssa.Function]bool{}, entryOf: map[*ssa.Function]string{}}
	cg := c.CG()
	var roots []*ssa.Function
	for _, e := range decoderEntries {
		f := c.mustFunc(e.pkg, e.name)
		if fn := c.ssaFunc(f); fn != nil {
			roots = append(roots, fn)
			s.entryOf[fn] = e.pkg + "." + e.name
		}
	}
	if extraFixture != "" {
		if p := c.fixturePkg(extraFixture); p != nil {
			for _, fn := range c.srcFuncs(p) {
				if fn.Parent() == nil {
					roots = append(roots, fn)
					s.entryOf[fn] = qname(fn)
				}
			}
		}
	}
	type item struct {
		fn      *ssa.Function
		guarded bool
	}
	work := []item{}
	for _, r := range roots {
		work = append(work, item{r, false})
	}
	for len(work) > 0 {
		it := work[len(work)-1]
		work = work[:len(work)-1]
		if s.in[it.fn] {
			if s.guarded[it.fn] && !it.guarded {
				s.guarded[it.fn] = false // also reachable unguarded: re-propagate
			} else {
				continue
			}
		}
		s.in[it.fn] = true
		if _, seen := s.guarded[it.fn]; !seen {
			s.guarded[it.fn] = it.guarded
		}
		g := it.guarded
		if hasRecover(it.fn) {
			s.barrier[it.fn] = true
			g = true
		}
		// anonymous functions
		for _, a := range it.fn.AnonFuncs {
			if s.entryOf[a] == "" {
				s.entryOf[a] = s.entryOf[it.fn]
			}
			work = append(work, item{a, g})
		}
		if n := cg.Nodes[it.fn]; n != nil {
			for _, e := range n.Out {
				callee := e.Callee.Func
				if callee == nil || callee.Blocks == nil {
					continue
				}
				pp := pkgPathOf(callee)
				if !strings.HasPrefix(pp, repoMod) && !strings.HasPrefix(pp, "verif/fixtures") {
					continue
				}
				if s.entryOf[callee] == "" {
					s.entryOf[callee] = s.entryOf[it.fn]
				}
				work = append(work, item{callee, g})
			}
		}
	}
	for fn := range s.in {
		s.fns = append(s.fns, fn)
	}
	sort.Slice(s.fns, func(i, j int) bool { return qname(s.fns[i]) < qname(s.fns[j]) })
	for _, fn := range s.fns {
		c.analysed(qname(fn))
	}
	return s
}

// ---------------------------------------------------------------------------
// Dominating branch facts.

type fact struct {
	cond  ssa.Value
	taken bool
}

// factsAt: conditions known at the start of block u (edges that dominate u).
func factsAt(u *ssa.BasicBlock) []fact {
	var res []fact
	for d := u.Idom(); d != nil; d = d.Idom() {
		if len(d.Instrs) == 0 {
			continue
		}
		ifi, ok := d.Instrs[len(d.Instrs)-1].(*ssa.If)
		if !ok || len(d.Succs) != 2 || d.Succs[0] == d.Succs[1] {
			continue
		}
		for k, succ := range d.Succs {
			if !succ.Dominates(u) {
				continue
			}
			// the edge d->succ dominates u iff every other predecessor of succ
			// is itself dominated by succ (loop back edges)
			okEdge := true
			for _, p := range succ.Preds {
				if p != d && !succ.Dominates(p) {
					okEdge = false
				}
			}
			if okEdge {
				res = append(res, fact{ifi.Cond, k == 0})
			}
		}
	}
	return res
}

func constInt(v ssa.Value) (int64, bool) {
	c, ok := v.(*ssa.Const)
	if !ok || c.Value == nil || c.Value.Kind() != constant.Int {
		return 0, false
	}
	return c.Int64(), true
}

func isLenOf(v ssa.Value, s ssa.Value) bool {
	call, ok := v.(*ssa.Call)
	if !ok {
		return false
	}
	b, ok := call.Call.Value.(*ssa.Builtin)
	if !ok || (b.Name() != "len") || len(call.Call.Args) != 1 {
		return false
	}
	return sameValue(call.Call.Args[0], s)
}

// sameValue: syntactically the same SSA value, looking through re-loads of the
// same address without intervening stores being considered (field loads of the
// same FieldAddr chain on the same base are treated as equal).
func sameValue(a, b ssa.Value) bool {
	if a == b {
		return true
	}
	ua, ok1 := a.(*ssa.UnOp)
	ub, ok2 := b.(*ssa.UnOp)
	if ok1 && ok2 && ua.Op == token.MUL && ub.Op == token.MUL {
		return sameAddr(ua.X, ub.X)
	}
	return false
}

func sameAddr(a, b ssa.Value) bool {
	if a == b {
		return true
	}
	fa, ok1 := a.(*ssa.FieldAddr)
	fb, ok2 := b.(*ssa.FieldAddr)
	if ok1 && ok2 && fa.Field == fb.Field {
		return sameAddr(fa.X, fb.X) || sameValue(fa.X, fb.X)
	}
	return false
}

// minLen: the largest lower bound on len(s) implied by the facts.
func minLenFromFacts(facts []fact, s ssa.Value) int64 {
	best := int64(0)
	for _, f := range facts {
		var k int64
		var op token.Token
		be, ok := f.cond.(*ssa.BinOp)
		if !ok {
			// a predicate method of the value's owner: if p.done() { return }
			// with done() = len(p.remaining) == 0
			pc, isCall := f.cond.(*ssa.Call)
			if !isCall {
				continue
			}
			op2, k2, ok := predicateAsLenTest(pc, s)
			if !ok {
				continue
			}
			k, op = k2, op2
		} else if isLenOf(be.X, s) {
			if kk, ok := constInt(be.Y); ok {
				k, op = kk, be.Op
			} else if kk, ok := minConstReturn(be.Y); ok && ((be.Op == token.EQL && f.taken) || (be.Op == token.NEQ && !f.taken) || (be.Op == token.GEQ && f.taken) || (be.Op == token.LSS && !f.taken)) {
				// len(s) == size() where size() returns constants only: at least the smallest
				k, op = kk, be.Op
			} else {
				continue
			}
		} else if isLenOf(be.Y, s) {
			if kk, ok := constInt(be.X); ok {
				k = kk
				op = map[token.Token]token.Token{token.LSS: token.GTR, token.GTR: token.LSS, token.LEQ: token.GEQ, token.GEQ: token.LEQ, token.EQL: token.EQL, token.NEQ: token.NEQ}[be.Op]
			} else {
				continue
			}
		} else {
			continue
		}
		// normalise to a statement about len with "taken"
		lb := int64(-1)
		switch op {
		case token.EQL:
			if f.taken {
				lb = k
			} else if k == 0 {
				lb = 1
			}
		case token.NEQ:
			if !f.taken {
				lb = k
			} else if k == 0 {
				lb = 1
			}
		case token.LSS: // len < k
			if !f.taken {
				lb = k
			}
		case token.LEQ: // len <= k
			if !f.taken {
				lb = k + 1
			}
		case token.GTR: // len > k
			if f.taken {
				lb = k + 1
			}
		case token.GEQ:
			if f.taken {
				lb = k
			}
		}
		if lb > best {
			best = lb
		}
	}
	return best
}

// predicateAsLenTest: call invokes a single-block function that returns
// "len(P.F) OP k" for a field F of its parameter P, and s is a load of the same
// field of the value passed for P: the call is that test of len(s).
func predicateAsLenTest(call *ssa.Call, s ssa.Value) (token.Token, int64, bool) {
	f := call.Call.StaticCallee()
	if f == nil || len(f.Blocks) != 1 {
		return 0, 0, false
	}
	ret, ok := f.Blocks[0].Instrs[len(f.Blocks[0].Instrs)-1].(*ssa.Return)
	if !ok || len(ret.Results) != 1 {
		return 0, 0, false
	}
	be, ok := ret.Results[0].(*ssa.BinOp)
	if !ok {
		return 0, 0, false
	}
	k, isC := constInt(be.Y)
	if !isC {
		return 0, 0, false
	}
	lc, ok := be.X.(*ssa.Call)
	if !ok {
		return 0, 0, false
	}
	if bi, ok := lc.Call.Value.(*ssa.Builtin); !ok || bi.Name() != "len" || len(lc.Call.Args) != 1 {
		return 0, 0, false
	}
	ld, ok := lc.Call.Args[0].(*ssa.UnOp)
	if !ok || ld.Op != token.MUL {
		return 0, 0, false
	}
	fa, ok := ld.X.(*ssa.FieldAddr)
	if !ok {
		return 0, 0, false
	}
	prm, ok := fa.X.(*ssa.Parameter)
	if !ok {
		return 0, 0, false
	}
	pi := -1
	for i, q := range f.Params {
		if q == prm {
			pi = i
		}
	}
	if pi < 0 || pi >= len(call.Call.Args) {
		return 0, 0, false
	}
	sl, ok := s.(*ssa.UnOp)
	if !ok || sl.Op != token.MUL {
		return 0, 0, false
	}
	sfa, ok := sl.X.(*ssa.FieldAddr)
	if !ok || sfa.Field != fa.Field {
		return 0, 0, false
	}
	arg := call.Call.Args[pi]
	if sfa.X != arg && !sameValue(sfa.X, arg) {
		return 0, 0, false
	}
	return be.Op, k, true
}

// minConstReturn: v is a call of a repository function with a body all of
// whose returns give an integer constant (other exits panic); the smallest one.
func minConstReturn(v ssa.Value) (int64, bool) {
	call, ok := v.(*ssa.Call)
	if !ok {
		return 0, false
	}
	callee := call.Call.StaticCallee()
	if callee == nil || callee.Blocks == nil || callee.Signature.Results().Len() != 1 {
		return 0, false
	}
	best, any := int64(0), false
	for _, b := range callee.Blocks {
		ret, ok := b.Instrs[len(b.Instrs)-1].(*ssa.Return)
		if !ok {
			continue
		}
		k, isC := constInt(ret.Results[0])
		if !isC {
			return 0, false
		}
		if !any || k < best {
			best = k
		}
		any = true
	}
	return best, any
}

var _ = fmt.Sprint
var _ = types.Typ
