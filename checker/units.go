package main

// A2 — units and kinds: a dimension type system over go/ssa.
//
// Base dimensions: model length L, ray parameter T (Ray.Direction is L/T,
// RayCollision.Scale is T, so origin + dir*t is a length) and the arbitrary
// scale K of an un-normalised plane normal (LinearConstraint.Normal is K,
// LinearConstraint.Max is K*L). Exponents are kept doubled so that square
// roots stay integral. Every float or coordinate SSA value is
//   unknown            nothing is known — never reported,
//   poly               a numeric literal, compatible with anything in + and <,
//                      dimensionless in * and /,
//   known(dim, kind)   kind in {scalar, point, vector}.
// Only DEFINITE conflicts are reported: both operands known and different.
// Seeds are keyed by resolved objects (struct fields, methods of the vector
// vocabulary, interface methods), never by text position.

import (
	"fmt"
	"go/token"
	"go/types"
	"strings"

	"golang.org/x/tools/go/packages"
	"golang.org/x/tools/go/ssa"
)

type dim struct{ l, t, k, p int } // doubled exponents (p: pixels of a raster image)

func (d dim) add(o dim) dim   { return dim{d.l + o.l, d.t + o.t, d.k + o.k, d.p + o.p} }
func (d dim) sub(o dim) dim   { return dim{d.l - o.l, d.t - o.t, d.k - o.k, d.p - o.p} }
func (d dim) scale(n int) dim { return dim{d.l * n, d.t * n, d.k * n, d.p * n} }
func (d dim) half() (dim, bool) {
	if d.l%2 != 0 || d.t%2 != 0 || d.k%2 != 0 || d.p%2 != 0 {
		return dim{}, false
	}
	return dim{d.l / 2, d.t / 2, d.k / 2, d.p / 2}, true
}
func (d dim) String() string {
	if d == (dim{}) {
		return "dimensionless"
	}
	var parts []string
	for _, p := range []struct {
		n string
		e int
	}{{"L", d.l}, {"T", d.t}, {"K", d.k}, {"px", d.p}} {
		if p.e == 0 {
			continue
		}
		if p.e == 2 {
			parts = append(parts, p.n)
		} else if p.e%2 == 0 {
			parts = append(parts, fmt.Sprintf("%s^%d", p.n, p.e/2))
		} else {
			parts = append(parts, fmt.Sprintf("%s^%d/2", p.n, p.e))
		}
	}
	return strings.Join(parts, "·")
}

var (
	dimL   = dim{l: 2}
	dimL2  = dim{l: 4}
	dimT   = dim{t: 2}
	dimLpT = dim{l: 2, t: -2}
	dimK   = dim{k: 2}
	dimKL  = dim{l: 2, k: 2}
	dimP   = dim{p: 2}
	dimPpL = dim{p: 2, l: -2}
	dim1   = dim{}
)

const (
	uUnknown = iota
	uPoly
	uKnown
)

const (
	kScalar = iota
	kPoint
	kVector
)

type uval struct {
	st     int
	d      dim
	kind   int
	nodim  bool // kind is known, the dimension is not (e.g. Ray.Direction: any vector)
	nokind bool // the kind was inferred from one operand only (unknown ± point): not used by ORIGIN
}

func known(d dim, kind int) uval { return uval{st: uKnown, d: d, kind: kind} }

// dimKnown: the dimension (not only the kind) is known.
func (u uval) dimKnown() bool { return u.st == uKnown && !u.nodim }

func (u uval) String() string {
	switch u.st {
	case uPoly:
		return "literal"
	case uKnown:
		k := map[int]string{kScalar: "", kPoint: " point", kVector: " vector"}[u.kind]
		if u.nodim {
			return strings.TrimSpace(k)
		}
		return u.d.String() + k
	}
	return "unknown"
}

func joinU(a, b uval) uval {
	switch {
	case a.st == uUnknown || b.st == uUnknown:
		return uval{}
	case a.st == uPoly:
		return b
	case b.st == uPoly:
		return a
	case a.nodim || b.nodim:
		if a.kind == b.kind {
			return uval{st: uKnown, kind: a.kind, nodim: true}
		}
		return uval{}
	case a.d == b.d:
		if a.kind != b.kind {
			a.kind = kVector
		}
		return a
	}
	return uval{}
}

// retDims caches the dimensions of the results of repository functions as
// derived from their own bodies (parameters unknown).
var retDimsMemo = map[*ssa.Function][]uval{}
var retDimsProg = map[*ssa.Function]bool{}

func (c *Ctx) retDims(fn *ssa.Function) []uval {
	if r, ok := retDimsMemo[fn]; ok {
		return r
	}
	n := fn.Signature.Results().Len()
	res := make([]uval, n)
	if retDimsProg[fn] || fn.Blocks == nil || !strings.HasPrefix(pkgPathOf(fn), repoMod) && !strings.HasPrefix(pkgPathOf(fn), "verif/fixtures") {
		return res
	}
	retDimsProg[fn] = true
	e := &unitsEngine{c: c, fn: fn, memo: map[ssa.Value]uval{}, inProg: map[ssa.Value]bool{},
		reported: map[ssa.Instruction]string{}, checked: map[ssa.Instruction]bool{}, origin: map[ssa.Instruction]string{}, originOK: map[ssa.Instruction]bool{}}
	first := true
	for _, b := range fn.Blocks {
		for _, ins := range b.Instrs {
			ret, ok := ins.(*ssa.Return)
			if !ok {
				continue
			}
			for i, v := range ret.Results {
				if i >= n {
					continue
				}
				u := e.val(v)
				if first {
					res[i] = u
				} else {
					res[i] = joinU(res[i], u)
				}
			}
			first = false
		}
	}
	for i := range res {
		if res[i].st == uPoly {
			res[i] = uval{}
		}
	}
	delete(retDimsProg, fn)
	retDimsMemo[fn] = res
	return res
}

type unitsEngine struct {
	c      *Ctx
	rule   string
	fn     *ssa.Function
	memo   map[ssa.Value]uval
	inProg map[ssa.Value]bool
	// reports are collected per instruction so that each site is one obligation
	reported map[ssa.Instruction]string
	origin   map[ssa.Instruction]string // ORIGIN findings (points used as vectors)
	originOK map[ssa.Instruction]bool
	checked  map[ssa.Instruction]bool
}

func isCoordType(t types.Type) bool {
	if p, ok := t.(*types.Pointer); ok {
		t = p.Elem()
	}
	n, ok := t.(*types.Named)
	if !ok || n.Obj().Pkg() == nil {
		// render3d.Color is an alias of Coord3D but means radiance: not a coordinate
		return false
	}
	switch n.Obj().Name() {
	case "Coord", "Coord3D":
		return strings.HasPrefix(n.Obj().Pkg().Path(), repoMod+"/model")
	}
	return false
}

func isFloat(t types.Type) bool {
	b, ok := t.Underlying().(*types.Basic)
	return ok && b.Info()&types.IsFloat != 0
}

func typeNameOf(t types.Type) string {
	if p, ok := t.(*types.Pointer); ok {
		t = p.Elem()
	}
	if n, ok := t.(*types.Named); ok {
		return n.Obj().Name()
	}
	return ""
}

// fieldSeed: dimension of a struct field, by owner type and field name.
func fieldSeed(owner types.Type, f *types.Var) (uval, bool) {
	on := typeNameOf(owner)
	name := f.Name()
	coord := isCoordType(f.Type())
	switch on {
	case "Ray":
		switch name {
		case "Origin":
			return known(dimL, kPoint), true
		case "Direction":
			// any vector: callers use unit directions (parameter = distance)
			// as well as displacements (parameter in [0,1])
			return uval{st: uKnown, kind: kVector, nodim: true}, true
		}
	case "RayCollision":
		switch name {
		case "Scale":
			return known(dimT, kScalar), true
		case "Normal":
			return known(dim1, kVector), true
		}
	case "LinearConstraint":
		switch name {
		case "Normal":
			return known(dimK, kVector), true
		case "Max":
			return known(dimKL, kScalar), true
		}
	case "Rasterizer":
		// documented: Scale = pixels per unit distance, LineWidth in pixels
		switch name {
		case "Scale":
			if isFloat(f.Type()) {
				return known(dimPpL, kScalar), true
			}
		case "LineWidth":
			if isFloat(f.Type()) {
				return known(dimP, kScalar), true
			}
		}
	case "Coord", "Coord3D", "Color", "Matrix2", "Matrix3", "Matrix4":
		return uval{}, false
	}
	switch name {
	case "Center", "P1", "P2", "Tip", "Base", "MinVal", "MaxVal", "min", "max", "Coord":
		if coord {
			return known(dimL, kPoint), true
		}
	case "Radius", "InnerRadius", "OuterRadius":
		if isFloat(f.Type()) {
			return known(dimL, kScalar), true
		}
	case "Epsilon":
		if isFloat(f.Type()) && on == "SolidCollider" {
			return known(dimL, kScalar), true
		}
	case "Delta":
		if isFloat(f.Type()) && (on == "DualContouring" || on == "dcCubeLayout") {
			return known(dimL, kScalar), true
		}
	case "CubeMargin", "RepairEpsilon":
		// documented as fractions of Delta
		if isFloat(f.Type()) && on == "DualContouring" {
			return known(dim1, kScalar), true
		}
	case "sideArea", "shaftArea", "totalArea":
		if isFloat(f.Type()) {
			return known(dimL2, kScalar), true
		}
	}
	return uval{}, false
}

// paramSeed: dimension of a parameter of a query method, by method and
// parameter position/type.
func paramSeed(fn *ssa.Function, p *ssa.Parameter) (uval, bool) {
	if fn.Signature.Recv() == nil || fn.Object() == nil {
		return uval{}, false
	}
	switch fn.Object().Name() {
	case "Contains", "SDF", "PointSDF", "NormalSDF", "FaceSDF", "BarycentricSDF", "MetaballField", "Dist", "Closest":
		if isCoordType(p.Type()) {
			return known(dimL, kPoint), true
		}
	case "SphereCollision", "CircleCollision":
		if isCoordType(p.Type()) {
			return known(dimL, kPoint), true
		}
		if isFloat(p.Type()) {
			return known(dimL, kScalar), true
		}
	}
	return uval{}, false
}

// unitOriginRule, when set, makes runUnits also emit ORIGIN obligations: a
// Dot product of a point with a vector.
var unitOriginRule string

// originExceptions: functions where a point is deliberately read as the
// vector from the world origin (reason each).
var originExceptions = map[string]string{}

func (e *unitsEngine) report(ins ssa.Instruction, msg string) {
	if e.reported[ins] == "" {
		e.reported[ins] = msg
	}
}

func (e *unitsEngine) val(v ssa.Value) uval {
	if v == nil {
		return uval{}
	}
	if u, ok := e.memo[v]; ok {
		return u
	}
	if e.inProg[v] {
		return uval{st: uPoly} // optimistic for cycles (loop-carried values)
	}
	e.inProg[v] = true
	u := e.compute(v)
	delete(e.inProg, v)
	e.memo[v] = u
	return u
}

func (e *unitsEngine) compute(v ssa.Value) uval {
	t := v.Type()
	switch x := v.(type) {
	case *ssa.Const:
		if isFloat(t) || isIntType(t) {
			return uval{st: uPoly}
		}
		return uval{}
	case *ssa.Parameter:
		if u, ok := paramSeed(x.Parent(), x); ok {
			return u
		}
		return uval{}
	case *ssa.BinOp:
		return e.binop(x)
	case *ssa.UnOp:
		switch x.Op {
		case token.SUB:
			return e.val(x.X)
		case token.MUL:
			return e.load(x)
		}
		return uval{}
	case *ssa.Convert:
		if isIntType(x.X.Type()) && isFloat(t) {
			return uval{st: uPoly}
		}
		if isFloat(x.X.Type()) && isFloat(t) {
			return e.val(x.X)
		}
		return uval{}
	case *ssa.ChangeType:
		return e.val(x.X)
	case *ssa.Phi:
		res := uval{st: uPoly}
		for _, ed := range x.Edges {
			res = joinU(res, e.val(ed))
			if res.st == uUnknown {
				break
			}
		}
		return res
	case *ssa.Field:
		return e.fieldOfValue(x.X, x.Field)
	case *ssa.Extract:
		if call, ok := x.Tuple.(*ssa.Call); ok {
			return e.callResult(call, x.Index)
		}
		return uval{}
	case *ssa.Call:
		return e.callResult(x, 0)
	case *ssa.Index:
		// component of c.Array()
		if at, ok := x.X.Type().Underlying().(*types.Array); ok && isFloat(at.Elem()) {
			u := e.val(x.X)
			if u.st == uKnown {
				u.kind = kScalar
			}
			return u
		}
	}
	return uval{}
}

func structField(t types.Type, i int) (*types.Var, types.Type) {
	owner := t
	if p, ok := t.Underlying().(*types.Pointer); ok {
		owner = p.Elem()
	}
	st, ok := owner.Underlying().(*types.Struct)
	if !ok || i >= st.NumFields() {
		return nil, nil
	}
	return st.Field(i), owner
}

func (e *unitsEngine) fieldOfValue(base ssa.Value, idx int) uval {
	f, owner := structField(base.Type(), idx)
	if f == nil {
		return uval{}
	}
	if u, ok := fieldSeed(owner, f); ok {
		return u
	}
	// component of a coordinate: the coordinate's dimension, as a scalar
	if isCoordType(owner) && isFloat(f.Type()) {
		u := e.val(base)
		if u.st == uKnown {
			u.kind = kScalar
		}
		return u
	}
	return uval{}
}

// load: *addr
func (e *unitsEngine) load(x *ssa.UnOp) uval {
	switch a := x.X.(type) {
	case *ssa.FieldAddr:
		f, owner := structField(a.X.Type(), a.Field)
		if f == nil {
			return uval{}
		}
		if u, ok := fieldSeed(owner, f); ok {
			return u
		}
		if isCoordType(owner) && isFloat(f.Type()) {
			// component of a coordinate held in memory
			if ld := e.addrValue(a.X); ld.st == uKnown {
				ld.kind = kScalar
				return ld
			}
		}
		return uval{}
	case *ssa.Alloc:
		return e.addrValue(a)
	case *ssa.FreeVar:
		// a captured variable: what the enclosing function stores into its cell
		if b := freeVarBinding(a); b != nil {
			if _, isAlloc := b.(*ssa.Alloc); isAlloc {
				return e.addrValue(b)
			}
			if fv, isFV := b.(*ssa.FreeVar); isFV {
				if b2 := freeVarBinding(fv); b2 != nil {
					if _, isAlloc := b2.(*ssa.Alloc); isAlloc {
						return e.addrValue(b2)
					}
				}
			}
		}
		return uval{}
	case *ssa.Parameter:
		// *p for a pointer parameter: what this function stores through it
		res := uval{st: uPoly}
		any := false
		for _, ref := range *a.Referrers() {
			if st, ok := ref.(*ssa.Store); ok && st.Addr == ssa.Value(a) {
				res = joinU(res, e.val(st.Val))
				any = true
			}
		}
		if any && res.st == uKnown {
			return res
		}
		return uval{}
	case *ssa.IndexAddr:
		// element of a local array that holds c.Array()
		if al, ok := a.X.(*ssa.Alloc); ok {
			if at, ok := al.Type().Underlying().(*types.Pointer); ok {
				if arr, ok := at.Elem().Underlying().(*types.Array); ok && isFloat(arr.Elem()) {
					u := e.addrValue(al)
					if u.st == uKnown {
						u.kind = kScalar
						return u
					}
				}
			}
		}
	}
	return uval{}
}

// freeVarBinding: the value bound to a free variable where its closure is made.
func freeVarBinding(fv *ssa.FreeVar) ssa.Value {
	fn := fv.Parent()
	if fn == nil || fn.Parent() == nil {
		return nil
	}
	idx := -1
	for i, v := range fn.FreeVars {
		if v == fv {
			idx = i
		}
	}
	if idx < 0 {
		return nil
	}
	var res ssa.Value
	for _, b := range fn.Parent().Blocks {
		for _, ins := range b.Instrs {
			if mc, ok := ins.(*ssa.MakeClosure); ok && mc.Fn == ssa.Value(fn) && idx < len(mc.Bindings) {
				if res != nil && res != mc.Bindings[idx] {
					return nil
				}
				res = mc.Bindings[idx]
			}
		}
	}
	return res
}

// addrValue: the value held in a local variable (join of the stores).
func (e *unitsEngine) addrValue(addr ssa.Value) uval {
	al, ok := addr.(*ssa.Alloc)
	if !ok {
		if u, ok := addr.(*ssa.UnOp); ok && u.Op == token.MUL {
			return e.val(u)
		}
		return uval{}
	}
	res := uval{st: uPoly}
	any := false
	for _, ref := range *al.Referrers() {
		switch r := ref.(type) {
		case *ssa.Store:
			if r.Addr == ssa.Value(al) {
				res = joinU(res, e.val(r.Val))
				any = true
			}
		case *ssa.FieldAddr:
			// composite literal of a coordinate: components
			if isCoordType(al.Type()) {
				for _, r2 := range *r.Referrers() {
					if st, ok := r2.(*ssa.Store); ok && st.Addr == ssa.Value(r) {
						u := e.val(st.Val)
						if u.st == uKnown {
							u.kind = kVector
						}
						res = joinU(res, u)
						any = true
					}
				}
			} else {
				return uval{}
			}
		case *ssa.UnOp, *ssa.DebugRef:
		default:
			// the address is handed to a call: what the callee stores through
			// that pointer parameter (an out-parameter); unknown callees: unknown
			if ci, isCall := ref.(ssa.CallInstruction); isCall {
				u, ok := e.outParamValue(ci, al)
				if !ok {
					return uval{}
				}
				res = joinU(res, u)
				any = true
			}
		}
	}
	if !any {
		return uval{st: uPoly} // zero value
	}
	return res
}

// outParamValue: the dimension a statically known repository callee stores
// through the pointer parameter that receives addr (joined over its stores;
// parameters merely passed on to a recursive call are ignored).
func (e *unitsEngine) outParamValue(ci ssa.CallInstruction, addr ssa.Value) (uval, bool) {
	f := ci.Common().StaticCallee()
	if f == nil || f.Blocks == nil || !(strings.HasPrefix(pkgPathOf(f), repoMod) || strings.HasPrefix(pkgPathOf(f), "verif/fixtures")) {
		return uval{}, false
	}
	res := uval{st: uPoly}
	found := false
	for i, a := range ci.Common().Args {
		if a != addr || i >= len(f.Params) {
			continue
		}
		p := f.Params[i]
		for _, ref := range *p.Referrers() {
			switch r := ref.(type) {
			case *ssa.Store:
				if r.Addr == ssa.Value(p) {
					sub := &unitsEngine{c: e.c, fn: f, memo: map[ssa.Value]uval{}, inProg: map[ssa.Value]bool{}, reported: map[ssa.Instruction]string{}, checked: map[ssa.Instruction]bool{}, origin: map[ssa.Instruction]string{}, originOK: map[ssa.Instruction]bool{}}
					res = joinU(res, sub.val(r.Val))
					found = true
				}
			}
		}
	}
	if !found {
		return uval{}, false
	}
	return res, true
}

func (e *unitsEngine) binop(x *ssa.BinOp) uval {
	if !isFloat(x.X.Type()) && !isFloat(x.Y.Type()) {
		return uval{}
	}
	a, b := e.val(x.X), e.val(x.Y)
	switch x.Op {
	case token.ADD, token.SUB:
		if a.dimKnown() && b.dimKnown() && a.d != b.d {
			e.report(x, fmt.Sprintf("%s of a %s and a %s", map[token.Token]string{token.ADD: "sum", token.SUB: "difference"}[x.Op], a, b))
			return uval{}
		}
		e.checked[x] = a.dimKnown() && b.dimKnown()
		return sameDim(a, b)
	case token.MUL:
		return mulU(a, b, 1)
	case token.QUO:
		return mulU(a, b, -1)
	case token.LSS, token.LEQ, token.GTR, token.GEQ, token.EQL, token.NEQ:
		if a.dimKnown() && b.dimKnown() && a.d != b.d {
			e.report(x, fmt.Sprintf("comparison of a %s with a %s", a, b))
		}
		e.checked[x] = a.dimKnown() && b.dimKnown()
		return uval{}
	}
	return uval{}
}

// sameDim: result of an operator whose operands must have the same dimension;
// if only one side is known the other is taken to agree with it.
func sameDim(a, b uval) uval {
	switch {
	case a.dimKnown() && !b.dimKnown():
		return a
	case b.dimKnown() && !a.dimKnown():
		return b
	}
	return joinU(a, b)
}

func mulU(a, b uval, sign int) uval {
	switch {
	case a.st == uUnknown || b.st == uUnknown || a.nodim || b.nodim:
		return uval{}
	case a.st == uPoly && b.st == uPoly:
		return uval{st: uPoly}
	case a.st == uPoly:
		// a literal may itself carry a unit ("1000" as a far distance): a
		// dimensionless value times a literal is again literal-like
		if b.d == dim1 {
			return uval{st: uPoly}
		}
		if sign < 0 {
			return known(dim1.sub(b.d), kScalar)
		}
		return known(b.d, b.kind)
	case b.st == uPoly:
		if a.d == dim1 {
			return uval{st: uPoly}
		}
		return a
	}
	if sign < 0 {
		return known(a.d.sub(b.d), vecOrScalar(a.kind))
	}
	k := kScalar
	if a.kind != kScalar || b.kind != kScalar {
		k = kVector
	}
	return known(a.d.add(b.d), k)
}

func vecOrScalar(k int) int {
	if k == kScalar {
		return kScalar
	}
	return kVector
}

// vocabulary: methods of Coord / Coord3D.
func (e *unitsEngine) callResult(call *ssa.Call, idx int) uval {
	common := call.Common()
	args := actualArgs(common)
	name := ""
	var recvT types.Type
	pkg := ""
	if common.IsInvoke() {
		name = common.Method.Name()
		recvT = common.Value.Type()
	} else if f := common.StaticCallee(); f != nil {
		name = f.Name()
		if f.Signature.Recv() != nil {
			recvT = f.Signature.Recv().Type()
		}
		pkg = pkgPathOf(f)
	} else {
		return uval{}
	}
	arg := func(i int) uval {
		if i < len(args) {
			return e.val(args[i])
		}
		return uval{}
	}
	match := func(a, b uval, what string) {
		if a.dimKnown() && b.dimKnown() && a.d != b.d {
			e.report(call, fmt.Sprintf("%s combines a %s with a %s", what, a, b))
		} else if a.dimKnown() && b.dimKnown() {
			e.checked[call] = true
		}
	}
	if pkg == "math" {
		switch name {
		case "Sqrt":
			a := arg(0)
			if a.st == uKnown {
				if h, ok := a.d.half(); ok {
					return known(h, kScalar)
				}
				return uval{}
			}
			return a
		case "Abs", "Floor", "Ceil", "Round":
			return arg(0)
		case "Max", "Min":
			match(arg(0), arg(1), "math."+name)
			return sameDim(arg(0), arg(1))
		case "Inf", "NaN":
			return uval{st: uPoly}
		case "Pow":
			if k, ok := constFloat(args[1]); ok && k == float64(int(k)) {
				a := arg(0)
				if a.st == uKnown {
					return known(a.d.scale(int(k)), kScalar)
				}
				return a
			}
			return uval{}
		case "Sin", "Cos", "Tan", "Atan2", "Acos", "Asin", "Atan", "Exp", "Log":
			return known(dim1, kScalar)
		}
		return uval{}
	}
	if recvT != nil && isCoordType(recvT) {
		a := arg(0)
		switch name {
		case "Add", "Sub":
			b := arg(1)
			match(a, b, name)
			r := sameDim(a, b)
			if r.st == uKnown {
				switch {
				case name == "Sub" && a.kind == kPoint && b.kind == kPoint && a.st == uKnown && b.st == uKnown:
					r.kind = kVector
				case a.kind == kPoint || b.kind == kPoint:
					r.kind = kPoint
					if a.st != uKnown || b.st != uKnown || a.nokind || b.nokind {
						r.nokind = true
					}
				default:
					r.kind = kVector
				}
			}
			return r
		case "Mid", "Min", "Max":
			b := arg(1)
			match(a, b, name)
			return sameDim(a, b)
		case "Scale":
			r := mulU(a, arg(1), 1)
			if r.st == uKnown {
				r.kind = kVector
			}
			return r
		case "Mul":
			r := mulU(a, arg(1), 1)
			if r.st == uKnown {
				r.kind = kVector
			}
			return r
		case "Div":
			return mulU(a, arg(1), -1)
		case "AddScalar":
			b := arg(1)
			match(a, b, name)
			return sameDim(a, uval{st: b.st, d: b.d, kind: a.kind, nodim: b.nodim})
		case "Dot", "Cross":
			if name == "Dot" && unitOriginRule != "" {
				b := arg(1)
				pa, pb := a.st == uKnown && a.kind == kPoint && !a.nokind, b.st == uKnown && b.kind == kPoint && !b.nokind
				va, vb := a.st == uKnown && a.kind == kVector, b.st == uKnown && b.kind == kVector
				// a half-space test n.x <= Max: the plane normal carries the
				// arbitrary scale K and the plane's offset from the world origin
				// is part of Max by definition — not a relative coordinate
				halfSpace := a.dimKnown() && a.d.k != 0 || b.dimKnown() && b.d.k != 0
				switch {
				case halfSpace:
					e.originOK[call] = true
				case pa && vb || pb && va:
					e.origin[call] = "a point is projected onto a direction (Dot of a point with a vector): the coordinate is measured from the world origin, not from the shape's own origin (subtract P1/Center first)"
				case va && vb:
					e.originOK[call] = true
				}
			}
			r := mulU(a, arg(1), 1)
			if r.st == uKnown {
				if name == "Dot" {
					r.kind = kScalar
				} else {
					r.kind = kVector
				}
			}
			return r
		case "Norm":
			if a.dimKnown() {
				return known(a.d, kScalar)
			}
			// the length of a ray direction is length per unit of ray
			// parameter, whatever vector the caller chose as direction
			if len(args) > 0 && isRayDirection(args[0]) {
				return known(dimLpT, kScalar)
			}
			if a.st == uKnown {
				return uval{}
			}
			return a
		case "NormSquared":
			if a.dimKnown() {
				return known(a.d.scale(2), kScalar)
			}
			if a.st == uKnown {
				return uval{}
			}
			return a
		case "Dist", "L1Dist":
			b := arg(1)
			match(a, b, name)
			r := sameDim(a, b)
			if r.dimKnown() {
				return known(r.d, kScalar)
			}
			return uval{}
		case "SquaredDist":
			b := arg(1)
			match(a, b, name)
			r := sameDim(a, b)
			if r.dimKnown() {
				return known(r.d.scale(2), kScalar)
			}
			return uval{}
		case "Normalize":
			return known(dim1, kVector)
		case "OrthoBasis":
			return known(dim1, kVector)
		case "ProjectOut", "Reflect":
			if name == "Reflect" {
				return arg(1)
			}
			return a
		case "Abs", "XY", "XZ", "YZ", "YX", "ZX", "ZY", "Recip":
			if name == "Recip" {
				return uval{}
			}
			return a
		case "Sum", "MaxCoord":
			if a.dimKnown() {
				return known(a.d, kScalar)
			}
			return uval{}
		case "Array":
			return a
		}
		return uval{}
	}
	// constructors of coordinates
	if (name == "XYZ" || name == "XY" || name == "X" || name == "Y" || name == "Z" || name == "Ones") && strings.HasPrefix(pkg, repoMod+"/model") {
		res := uval{st: uPoly}
		for i := range args {
			res = joinU(res, arg(i))
		}
		if res.st == uKnown {
			res.kind = kVector
		}
		return res
	}
	// random numbers are dimensionless fractions
	if pkg == "math/rand" && (name == "Float64" || name == "Float32" || name == "NormFloat64") {
		return known(dim1, kScalar)
	}
	// ray/box slab test: entry and exit ray parameters
	if name == "rayCollisionWithBounds" && strings.HasPrefix(pkg, repoMod+"/model") {
		return known(dimT, kScalar)
	}
	// interface vocabulary of the repository (by method name)
	switch name {
	case "Min", "Max":
		if len(args) == 1 && isCoordType(call.Type()) {
			return known(dimL, kPoint)
		}
	case "SDF":
		if isFloat(call.Type()) {
			return known(dimL, kScalar)
		}
	case "PointSDF":
		if idx == 0 {
			return known(dimL, kPoint)
		}
		return known(dimL, kScalar)
	case "NormalSDF":
		if idx == 0 {
			return known(dim1, kVector)
		}
		return known(dimL, kScalar)
	case "Normal":
		if len(args) == 1 && isCoordType(call.Type()) && typeNameOf(recvT) != "SolidSurfaceEstimator" {
			return known(dim1, kVector)
		}
	case "ApplyDistance":
		a := arg(1)
		if a.dimKnown() && a.d != dimL {
			e.report(call, fmt.Sprintf("ApplyDistance maps lengths, but is given a %s (a ray parameter or a dimensionless quantity is not scaled like a length)", a))
		} else if a.st == uKnown {
			e.checked[call] = true
		}
		return a
	case "Apply":
		if len(args) == 2 && isCoordType(call.Type()) {
			a := arg(1)
			if a.st == uKnown && a.kind == kVector && !e.linearPartIdiom(call) {
				e.report(call, fmt.Sprintf("a %s is pushed through a point map (Transform.Apply adds the translation to it); directions and normals need the linear part: Apply(o+d)-Apply(o)", a))
			} else if a.st == uKnown {
				e.checked[call] = true
			}
			if a.dimKnown() {
				return known(a.d, kPoint)
			}
			if a.st == uKnown {
				return uval{st: uKnown, kind: kPoint, nodim: true}
			}
			return a
		}
	}
	// any other repository function: what its own body says about its results
	if f := common.StaticCallee(); f != nil && f.Blocks != nil && (isFloat(call.Type()) || isCoordType(call.Type()) || idx > 0 || call.Type().String() != "") {
		rd := e.c.retDims(f)
		if idx < len(rd) {
			return rd[idx]
		}
	}
	return uval{}
}

// isRayDirection: v is a load of Ray.Direction.
func isRayDirection(v ssa.Value) bool {
	var f *types.Var
	var owner types.Type
	switch x := v.(type) {
	case *ssa.UnOp:
		if fa, ok := x.X.(*ssa.FieldAddr); ok && x.Op == token.MUL {
			f, owner = structField(fa.X.Type(), fa.Field)
		}
	case *ssa.Field:
		f, owner = structField(x.X.Type(), x.Field)
	}
	return f != nil && f.Name() == "Direction" && typeNameOf(owner) == "Ray"
}

// linearPartIdiom: the result of Apply(v) is only used in a subtraction with
// another Apply of the same transform (image difference = linear part).
func (e *unitsEngine) linearPartIdiom(call *ssa.Call) bool {
	refs := call.Referrers()
	if refs == nil || len(*refs) == 0 {
		return false
	}
	for _, ref := range *refs {
		if _, ok := ref.(*ssa.DebugRef); ok {
			continue
		}
		c2, ok := ref.(*ssa.Call)
		if !ok {
			return false
		}
		f := c2.Call.StaticCallee()
		if f == nil || f.Name() != "Sub" || len(c2.Call.Args) != 2 {
			return false
		}
		other := c2.Call.Args[1]
		if other == ssa.Value(call) {
			other = c2.Call.Args[0]
		}
		oc, ok := other.(*ssa.Call)
		if !ok {
			return false
		}
		if oc.Call.IsInvoke() != call.Call.IsInvoke() {
			return false
		}
		if oc.Call.IsInvoke() {
			if oc.Call.Method != call.Call.Method || !sameValue(oc.Call.Value, call.Call.Value) {
				return false
			}
		} else if oc.Call.StaticCallee() != call.Call.StaticCallee() {
			return false
		}
	}
	return true
}

func constFloat(v ssa.Value) (float64, bool) {
	c, ok := v.(*ssa.Const)
	if !ok || c.Value == nil {
		return 0, false
	}
	return c.Float64(), true
}

// runUnits analyses the functions selected by filter and emits one obligation
// per checked site (an operation whose operands both have known dimensions).
func (c *Ctx) runUnits(rule string, pkgs []*packages.Package, filter func(fn *ssa.Function) bool) {
	for _, p := range pkgs {
		if p == nil {
			continue
		}
		for _, fn := range c.srcFuncs(p) {
			if filter != nil && !filter(fn) {
				continue
			}
			c.analysed(qname(fn))
			e := &unitsEngine{c: c, rule: rule, fn: fn, memo: map[ssa.Value]uval{}, inProg: map[ssa.Value]bool{},
				reported: map[ssa.Instruction]string{}, checked: map[ssa.Instruction]bool{}, origin: map[ssa.Instruction]string{}, originOK: map[ssa.Instruction]bool{}}
			for _, b := range fn.Blocks {
				for _, ins := range b.Instrs {
					if v, ok := ins.(ssa.Value); ok {
						e.val(v)
					}
					// stores into seeded fields
					if st, ok := ins.(*ssa.Store); ok {
						if fa, ok := st.Addr.(*ssa.FieldAddr); ok {
							if f, owner := structField(fa.X.Type(), fa.Field); f != nil {
								if seed, ok := fieldSeed(owner, f); ok {
									u := e.val(st.Val)
									if u.dimKnown() && seed.dimKnown() && u.d != seed.d {
										e.report(st, fmt.Sprintf("a %s is stored into %s.%s, which holds a %s", u, typeNameOf(owner), f.Name(), seed))
									} else if u.dimKnown() && seed.dimKnown() {
										e.checked[st] = true
									}
								}
							}
						}
					}
				}
			}
			// U.RET: all returns of a result agree on its dimension
			nres := fn.Signature.Results().Len()
			firstRet := make([]uval, nres)
			// the distance result of the SDF family is a length, whatever the
			// body computes (seeded like its call sites are)
			if fn.Signature.Recv() != nil && fn.Object() != nil {
				switch fn.Object().Name() {
				case "SDF", "PointSDF", "NormalSDF", "FaceSDF", "BarycentricSDF":
					if last := nres - 1; last >= 0 && isFloat(fn.Signature.Results().At(last).Type()) {
						firstRet[last] = known(dimL, kScalar)
					}
				}
			}
			for _, b := range fn.Blocks {
				for _, ins := range b.Instrs {
					ret, ok := ins.(*ssa.Return)
					if !ok {
						continue
					}
					for i, v := range ret.Results {
						if i >= nres {
							continue
						}
						u := e.val(v)
						if !u.dimKnown() {
							continue
						}
						if !firstRet[i].dimKnown() {
							firstRet[i] = u
							continue
						}
						if firstRet[i].d != u.d {
							e.report(ret, fmt.Sprintf("result %d is a %s on this path but a %s on another path of the same function", i, u, firstRet[i]))
						} else {
							e.checked[ret] = true
						}
					}
				}
			}
			if unitOriginRule != "" {
				no := 0
				for _, b := range fn.Blocks {
					for _, ins := range b.Instrs {
						msg, bad := e.origin[ins]
						if !bad && !e.originOK[ins] {
							continue
						}
						no++
						key := fmt.Sprintf("%s dot#%d", qname(fn), no)
						if why, ok := originExceptions[qname(fn)]; ok && bad {
							c.except(unitOriginRule, key, ins.Pos(), why)
						} else if bad {
							c.bad(unitOriginRule, key, ins.Pos(), msg)
						} else {
							c.ok(unitOriginRule, key, ins.Pos(), "both operands are vectors")
						}
					}
				}
			}
			n := 0
			for _, b := range fn.Blocks {
				for _, ins := range b.Instrs {
					msg, bad := e.reported[ins]
					if !bad && !e.checked[ins] {
						continue
					}
					n++
					key := fmt.Sprintf("%s site#%d %s", qname(fn), n, describeInstr(ins))
					if bad {
						c.bad(rule, key, ins.Pos(), msg)
					} else {
						c.ok(rule, key, ins.Pos(), "operands have equal, known dimensions")
					}
				}
			}
		}
	}
}

func describeInstr(ins ssa.Instruction) string {
	switch x := ins.(type) {
	case *ssa.BinOp:
		return "operator " + x.Op.String()
	case *ssa.Call:
		return "call " + calleeName(x)
	case *ssa.Store:
		return "store"
	case *ssa.Return:
		return "return"
	}
	return fmt.Sprintf("%T", ins)
}
