package main

import (
	"fmt"
	"go/ast"
	"go/token"
	"go/types"
	"strconv"

	"golang.org/x/tools/go/packages"
	"golang.org/x/tools/go/ssa"
)

// CYCLE: a loop that walks the corners or edges of a fixed-size face cyclically
// - it indexes an array of N elements (a Triangle, a Segment, a [3]Coord) with
// (i+k) % N, i its counter - has to take every position: i runs from 0 while
// i < N. A scan that stops early (i < N-1) never sees the edge from the last
// corner back to the first, so an edge-count or orientation diagnosis misses
// defects that only show on that edge.
func (c *Ctx) runCycle(rule string, pkgs []*packages.Package, filter func(fn *ssa.Function) bool) {
	arrayLen := func(t types.Type) int64 {
		if p, ok := t.Underlying().(*types.Pointer); ok {
			t = p.Elem()
		}
		if a, ok := t.Underlying().(*types.Array); ok {
			return a.Len()
		}
		return 0
	}
	for _, p := range pkgs {
		if p == nil {
			continue
		}
		for _, fn := range c.srcFuncs(p) {
			if filter != nil && !filter(fn) {
				continue
			}
			loops := naturalLoops(fn)
			done := map[*ssa.Phi]bool{}
			n := 0
			for _, b := range fn.Blocks {
				for _, ins := range b.Instrs {
					var idx ssa.Value
					var arrT types.Type
					var at token.Pos
					switch x := ins.(type) {
					case *ssa.IndexAddr:
						idx, arrT, at = x.Index, x.X.Type(), x.Pos()
					case *ssa.Index:
						idx, arrT, at = x.Index, x.X.Type(), x.Pos()
					default:
						continue
					}
					N := arrayLen(arrT)
					if N < 2 {
						continue
					}
					rem, ok := idx.(*ssa.BinOp)
					if !ok || rem.Op != token.REM {
						continue
					}
					if k, isC := constInt(rem.Y); !isC || k != N {
						continue
					}
					// (v + k) or v, where v is the loop counter: the phi of a
					// three-clause loop, or phi+1 of a range loop over an array
					// (go/ssa starts those at -1 and tests the incremented value)
					cands := []ssa.Value{rem.X}
					if y, ok := rem.X.(*ssa.BinOp); ok && y.Op == token.ADD {
						if _, isC := constInt(y.Y); isC {
							cands = append(cands, y.X)
						}
					}
					var phi *ssa.Phi
					var counter ssa.Value
					wantStart := int64(0)
					for _, cand := range cands {
						switch y := cand.(type) {
						case *ssa.Phi:
							if phiStart(y, loops) == 0 {
								phi, counter = y, y
							}
						case *ssa.BinOp:
							if ph, ok := y.X.(*ssa.Phi); ok && y.Op == token.ADD && phiStart(ph, loops) == -1 {
								if k, isC := constInt(y.Y); isC && k == 1 {
									phi, counter, wantStart = ph, y, -1
								}
							}
						}
						if phi != nil {
							break
						}
					}
					if phi == nil || done[phi] {
						continue
					}
					body, isHead := loops[phi.Block()]
					if !isHead || !body[b] {
						continue
					}
					// counter from 0 (or -1 for the range form), step +1
					startOK, stepsByOne := false, false
					for i, e := range phi.Edges {
						pred := phi.Block().Preds[i]
						if body[pred] {
							if bin, ok := e.(*ssa.BinOp); ok && bin.Op == token.ADD && bin.X == ssa.Value(phi) {
								if k, isC := constInt(bin.Y); isC && k == 1 {
									stepsByOne = true
								}
							}
						} else if k, isC := constInt(e); isC && k == wantStart {
							startOK = true
						}
					}
					if !startOK || !stepsByOne {
						continue
					}
					// exit test counter < M with constant M
					ifi, ok := phi.Block().Instrs[len(phi.Block().Instrs)-1].(*ssa.If)
					if !ok {
						continue
					}
					cond, ok := ifi.Cond.(*ssa.BinOp)
					if !ok || cond.Op != token.LSS || cond.X != counter {
						continue
					}
					M, isC := constInt(cond.Y)
					if !isC {
						continue
					}
					done[phi] = true
					n++
					c.analysed(qname(fn))
					key := fmt.Sprintf("%s cyclic scan#%d", qname(fn), n)
					if M < N {
						c.bad(rule, key, at, fmt.Sprintf("the loop indexes a %d-element face cyclically ((i+k) %% %d) but runs only while i < %d: the wrap-around position is never visited", N, N, M))
					} else {
						c.ok(rule, key, at, fmt.Sprintf("all %d cyclic positions are visited", N))
					}
				}
			}
		}
	}
}

// EDGETABLE: a literal that lists the directed edges of a triangle t as pairs
// {t[a], t[b]} lists a directed 3-cycle: every corner index occurs exactly once
// as a start and once as an end, and no pair is a loop. (InconsistentEdges
// counts how often each DIRECTED edge occurs; a reversed or repeated pair makes
// consistently wound neighbours look inconsistent or hides a real
// inconsistency.)
func (c *Ctx) runEdgeTable(rule string, pkgs []*packages.Package, fileOK func(name string) bool) {
	for _, p := range pkgs {
		if p == nil {
			continue
		}
		info := p.TypesInfo
		for _, f := range p.Syntax {
			if fileOK != nil && !fileOK(c.Fset.Position(f.Pos()).Filename) {
				continue
			}
			for _, d := range f.Decls {
				fd, ok := d.(*ast.FuncDecl)
				if !ok || fd.Body == nil {
					continue
				}
				n := 0
				ast.Inspect(fd.Body, func(nd ast.Node) bool {
					cl, ok := nd.(*ast.CompositeLit)
					if !ok || len(cl.Elts) != 3 {
						return true
					}
					outer, ok := info.TypeOf(cl).Underlying().(*types.Array)
					if !ok || outer.Len() != 3 {
						return true
					}
					inner, ok := outer.Elem().Underlying().(*types.Array)
					if !ok || inner.Len() != 2 || !isCoordType(inner.Elem()) {
						return true
					}
					var pairs [][2]int
					src := ""
					for _, e := range cl.Elts {
						pl, ok := e.(*ast.CompositeLit)
						if !ok || len(pl.Elts) != 2 {
							return true
						}
						var pr [2]int
						for k, pe := range pl.Elts {
							ix, ok := ast.Unparen(pe).(*ast.IndexExpr)
							if !ok {
								return true
							}
							tv := info.Types[ix.Index]
							if tv.Value == nil {
								return true
							}
							v, err := strconv.Atoi(tv.Value.ExactString())
							if err != nil {
								return true
							}
							s := types.ExprString(ix.X)
							if src == "" {
								src = s
							} else if s != src {
								return true
							}
							pr[k] = v
						}
						pairs = append(pairs, pr)
					}
					n++
					name := declName(p, fd)
					c.analysed(name)
					key := fmt.Sprintf("%s edge table#%d of %s", name, n, src)
					starts, ends := map[int]int{}, map[int]int{}
					loop := false
					for _, pr := range pairs {
						starts[pr[0]]++
						ends[pr[1]]++
						loop = loop || pr[0] == pr[1]
					}
					okTab := !loop
					for i := 0; i < 3; i++ {
						okTab = okTab && starts[i] == 1 && ends[i] == 1
					}
					if okTab {
						c.ok(rule, key, cl.Pos(), "the three pairs form a directed cycle through the corners")
					} else {
						c.bad(rule, key, cl.Pos(), fmt.Sprintf("the pairs %v do not form a directed cycle through corners 0, 1, 2 (each corner once as start and once as end)", pairs))
					}
					return true
				})
			}
		}
	}
}

// phiStart returns the constant a loop-head phi has on entry to its loop, or
// a large value if it is not constant.
func phiStart(phi *ssa.Phi, loops map[*ssa.BasicBlock]map[*ssa.BasicBlock]bool) int64 {
	body, isHead := loops[phi.Block()]
	if !isHead {
		return 1 << 40
	}
	for i, e := range phi.Edges {
		if !body[phi.Block().Preds[i]] {
			if k, isC := constInt(e); isC {
				return k
			}
		}
	}
	return 1 << 40
}
