package main

// DL.CONSUME — a read function that reports success has consumed input.
//
// The loop rule DL accepts an unbounded loop when every iteration passes a
// consuming read whose failure leaves the loop. That argument needs the read
// functions of the repository to keep their side of the bargain: a function
// of the decoder scope that looks like a read (name contains read / next /
// scan / decode, last result error) must, on EVERY path to a return that can
// report success, pass through a primitive consumption — a call into
// io/bufio/encoding (Read*, ReadFull, binary.Read, csv Read), an interface
// Read*, a call of a function-valued parameter (the injected token/byte
// reader), or a call of another repository read function that itself
// satisfies the rule (greatest fixpoint). A success path without consumption
// lets a caller's `for { row, err := r.Read(); ... }` spin without progress
// for as long as a count taken from the header says (zero-property PLY
// elements: repaired).
//
// A `range S` loop whose header is preceded by a dominating `len(S) == 0 =>
// return` is known to run at least once, provided every path through its
// body consumes.

import (
	"go/token"
	"go/types"
	"strings"

	"golang.org/x/tools/go/ssa"
)

func looksLikeRead(fn *ssa.Function) bool {
	if fn.Signature.Results().Len() == 0 || !isErrorType(fn.Signature.Results().At(fn.Signature.Results().Len()-1).Type()) {
		return false
	}
	l := strings.ToLower(fn.Name())
	return strings.Contains(l, "read") || strings.Contains(l, "next") || strings.Contains(l, "scan") || strings.Contains(l, "decode")
}

func primitiveConsume(call *ssa.Call) bool {
	if call.Call.IsInvoke() {
		n := call.Call.Method.Name()
		return strings.HasPrefix(n, "Read") || n == "Next" || n == "Scan"
	}
	if f := call.Call.StaticCallee(); f != nil {
		if f.Pkg == nil {
			return false
		}
		switch f.Pkg.Pkg.Path() {
		case "io", "bufio", "encoding/binary", "encoding/csv", "bytes", "strings", "compress/gzip", "archive/zip":
			return strings.HasPrefix(f.Name(), "Read") || f.Name() == "Scan" || f.Name() == "Discard"
		}
		return false
	}
	// dynamic call of a function value: an injected reader
	if _, ok := call.Call.Value.Type().Underlying().(*types.Signature); ok {
		switch v := call.Call.Value.(type) {
		case *ssa.Parameter, *ssa.FreeVar, *ssa.MakeClosure:
			_ = v
			return true
		case *ssa.UnOp:
			return true
		}
	}
	return false
}

func (s *decScope) ruleConsume(rule string) {
	c := s.c
	cand := map[*ssa.Function]bool{}
	for _, fn := range s.fns {
		if fn.Blocks != nil && looksLikeRead(fn) {
			cand[fn] = true
		}
	}
	type result struct {
		ok  bool
		ret *ssa.Return
	}
	check := func(fn *ssa.Function, good map[*ssa.Function]bool) result {
		consumes := func(ins ssa.Instruction) bool {
			call, ok := ins.(*ssa.Call)
			if !ok {
				return false
			}
			if primitiveConsume(call) {
				return true
			}
			if callee := call.Call.StaticCallee(); callee != nil {
				if o := callee.Origin(); o != nil {
					callee = o
				}
				return good[callee]
			}
			// a call through a local that holds one of several method values
			// (readNext := s.readASCII; if binary { readNext = s.readBinary }):
			// consuming iff every candidate is
			if phi, ok := call.Call.Value.(*ssa.Phi); ok {
				all := len(phi.Edges) > 0
				for _, e := range phi.Edges {
					mc, ok := e.(*ssa.MakeClosure)
					if !ok {
						all = false
						break
					}
					bound, _ := mc.Fn.(*ssa.Function)
					if bound == nil {
						all = false
						break
					}
					target := bound
					if m, ok := bound.Object().(*types.Func); ok && bound.Synthetic != "" {
						if t := c.Prog.FuncValue(m); t != nil {
							target = t
						}
					}
					if o := target.Origin(); o != nil {
						target = o
					}
					if !good[target] {
						all = false
						break
					}
				}
				return all
			}
			return false
		}
		// reachability over (block, position) avoiding consuming instructions
		explore := func(cut map[[2]*ssa.BasicBlock]bool) (map[*ssa.BasicBlock]bool, *ssa.Return) {
			reachedEnd := map[*ssa.BasicBlock]bool{} // the end of the block is reached without consumption
			entered := map[*ssa.BasicBlock]bool{}
			var bad *ssa.Return
			stack := []*ssa.BasicBlock{fn.Blocks[0]}
			for len(stack) > 0 {
				b := stack[len(stack)-1]
				stack = stack[:len(stack)-1]
				if entered[b] {
					continue
				}
				entered[b] = true
				consumed := false
				for _, ins := range b.Instrs {
					if consumes(ins) {
						consumed = true
						break
					}
					if ret, ok := ins.(*ssa.Return); ok {
						res := ret.Results
						if len(res) == 0 {
							continue
						}
						if canBeNilError(res[len(res)-1], b, consumes, 0, map[ssa.Value]bool{}) && bad == nil {
							bad = ret
						}
					}
				}
				if consumed {
					continue
				}
				reachedEnd[b] = true
				for _, succ := range b.Succs {
					if cut[[2]*ssa.BasicBlock{b, succ}] {
						continue
					}
					stack = append(stack, succ)
				}
			}
			return reachedEnd, bad
		}
		// range loops known to run at least once
		cut := map[[2]*ssa.BasicBlock]bool{}
		for head, body := range naturalLoops(fn) {
			ifi, ok := head.Instrs[len(head.Instrs)-1].(*ssa.If)
			if !ok || len(head.Succs) != 2 {
				continue
			}
			be, ok := ifi.Cond.(*ssa.BinOp)
			if !ok || be.Op != token.LSS {
				continue
			}
			lenCall, ok := be.Y.(*ssa.Call)
			if !ok {
				continue
			}
			if bi, ok := lenCall.Call.Value.(*ssa.Builtin); !ok || bi.Name() != "len" {
				continue
			}
			seq := lenCall.Call.Args[0]
			// a dominating fact len(seq) != 0
			nonEmpty := false
			for _, f := range factsAt(head) {
				fb, ok := f.cond.(*ssa.BinOp)
				if !ok {
					continue
				}
				var other ssa.Value
				if isLenOfSame(fb.X, seq) {
					other = fb.Y
				} else if isLenOfSame(fb.Y, seq) {
					other = fb.X
				} else {
					continue
				}
				if k, ok := constInt(other); ok && k == 0 {
					if fb.Op == token.EQL && !f.taken || fb.Op == token.NEQ && f.taken || fb.Op == token.GTR && f.taken && isLenOfSame(fb.X, seq) {
						nonEmpty = true
					}
				}
			}
			if !nonEmpty {
				continue
			}
			var exit *ssa.BasicBlock
			for _, succ := range head.Succs {
				if !body[succ] {
					exit = succ
				}
			}
			if exit == nil {
				continue
			}
			trial := map[[2]*ssa.BasicBlock]bool{{head, exit}: true}
			for k, v := range cut {
				trial[k] = v
			}
			reached, _ := explore(trial)
			backReach := false
			for _, p := range head.Preds {
				if body[p] && reached[p] {
					backReach = true
				}
			}
			if !backReach {
				cut[[2]*ssa.BasicBlock{head, exit}] = true
			}
		}
		_, bad := explore(cut)
		return result{bad == nil, bad}
	}
	// greatest fixpoint
	good := map[*ssa.Function]bool{}
	for fn := range cand {
		good[fn] = true
	}
	results := map[*ssa.Function]result{}
	for changed := true; changed; {
		changed = false
		for _, fn := range s.fns {
			if !cand[fn] || !good[fn] {
				continue
			}
			r := check(fn, good)
			results[fn] = r
			if !r.ok {
				good[fn] = false
				changed = true
			}
		}
	}
	// obligations: the read functions the loop rule relies on — callees of the
	// consuming calls whose result decides an exit of some non-counted loop
	relied := map[*ssa.Function]bool{}
	for _, fn := range s.fns {
		if fn.Blocks == nil {
			continue
		}
		for head, body := range naturalLoops(fn) {
			if s.countedLoop(head, body) {
				continue
			}
			for b := range body {
				ifi, ok := b.Instrs[len(b.Instrs)-1].(*ssa.If)
				if !ok {
					continue
				}
				if call := dependsOnCall(ifi.Cond, 0); call != nil && body[call.Block()] {
					if callee := call.Call.StaticCallee(); callee != nil {
						if o := callee.Origin(); o != nil {
							callee = o
						}
						if cand[callee] {
							relied[callee] = true
						}
					}
				}
			}
		}
	}
	for _, fn := range s.fns {
		if !cand[fn] || !relied[fn] {
			continue
		}
		c.analysed(qname(fn))
		key := qname(fn) + " success implies consumption"
		r := results[fn]
		if r.ok {
			c.ok(rule, key, fn.Pos(), "every path to a success return passes a primitive read, an injected reader or a read function that satisfies this rule")
		} else {
			via := ""
			for _, b := range fn.Blocks {
				for _, ins := range b.Instrs {
					if call, ok := ins.(*ssa.Call); ok {
						if callee := call.Call.StaticCallee(); callee != nil && cand[callee] && !good[callee] && callee != fn {
							via = " (the read it delegates to, " + callee.Name() + ", can itself succeed without consuming)"
						}
					}
				}
			}
			c.bad(rule, key, r.ret.Pos(), "a loop relies on this read for progress, but this return can report success on a path that consumed nothing from the input"+via+": the loop spins for as long as a count from the header says")
		}
	}
}

// canBeNilError: can the error value returned at block b be nil?
func canBeNilError(v ssa.Value, b *ssa.BasicBlock, consumes func(ssa.Instruction) bool, depth int, seen map[ssa.Value]bool) bool {
	if depth > 8 || seen[v] {
		return false
	}
	seen[v] = true
	if definitelyNonNilError(v, b) {
		return false
	}
	switch x := v.(type) {
	case *ssa.Const:
		return x.Value == nil
	case *ssa.MakeInterface:
		return false
	case *ssa.Phi:
		for _, e := range x.Edges {
			if canBeNilError(e, b, consumes, depth+1, seen) {
				return true
			}
		}
		return false
	case *ssa.UnOp:
		if x.Op == token.MUL {
			if _, ok := x.X.(*ssa.Global); ok {
				return false // io.EOF and friends
			}
		}
		return true
	case *ssa.Call, *ssa.Extract:
		call, _ := valueCall(v)
		if call != nil {
			if consumes(call) {
				return false // success of a consuming call: input was consumed
			}
			if f := call.Call.StaticCallee(); f != nil {
				switch f.Name() {
				case "Wrap", "Wrapf", "WithStack", "WithMessage":
					if len(call.Call.Args) > 0 {
						return canBeNilError(call.Call.Args[0], b, consumes, depth+1, seen)
					}
				}
			}
		}
		return true
	}
	return true
}

func valueCall(v ssa.Value) (*ssa.Call, bool) {
	switch x := v.(type) {
	case *ssa.Call:
		return x, true
	case *ssa.Extract:
		if call, ok := x.Tuple.(*ssa.Call); ok {
			return call, true
		}
	}
	return nil, false
}

// definitelyNonNilError: the returned error value is known non-nil at b (a
// dominating err != nil test, or a constructor call).
func definitelyNonNilError(v ssa.Value, b *ssa.BasicBlock) bool {
	if call, ok := valueCall(v); ok {
		if f := call.Call.StaticCallee(); f != nil {
			n := f.Name()
			if n == "New" || n == "Errorf" || n == "Wrap" || n == "Wrapf" || strings.HasPrefix(n, "AddCtx") {
				// errors.Wrap(nil) is nil: only constructors count
				return n == "New" || n == "Errorf"
			}
		}
	}
	for _, f := range factsAt(b) {
		fb, ok := f.cond.(*ssa.BinOp)
		if !ok {
			continue
		}
		if (fb.X == v && isNilConst(fb.Y)) || (fb.Y == v && isNilConst(fb.X)) {
			if fb.Op == token.NEQ && f.taken || fb.Op == token.EQL && !f.taken {
				return true
			}
		}
	}
	return false
}

func isLenOfSame(v ssa.Value, seq ssa.Value) bool {
	call, ok := v.(*ssa.Call)
	if !ok {
		return false
	}
	bi, ok := call.Call.Value.(*ssa.Builtin)
	if !ok || bi.Name() != "len" || len(call.Call.Args) != 1 {
		return false
	}
	return call.Call.Args[0] == seq || sameValue(call.Call.Args[0], seq)
}
