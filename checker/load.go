package main

import (
	"fmt"
	"go/ast"
	"go/types"
	"io"
	"os"
	"path/filepath"
	"regexp"
	"sort"
	"strings"

	"golang.org/x/tools/go/callgraph"
	"golang.org/x/tools/go/callgraph/rta"
	"golang.org/x/tools/go/callgraph/vta"
	"golang.org/x/tools/go/packages"
	"golang.org/x/tools/go/ssa"
	"golang.org/x/tools/go/ssa/ssautil"
)

// makeHarness writes a temporary module outside /repo and /verif which
// requires the repository through a replace directive (so the *current working
// tree* of the repository is what gets type-checked) and contains the fixture
// packages. It returns the directory; the caller removes it.
func makeHarness(repo, verifDir string, fixtures []string) (string, error) {
	dir, err := os.MkdirTemp("", "mvharness")
	if err != nil {
		return "", err
	}
	gomod, err := os.ReadFile(filepath.Join(repo, "go.mod"))
	if err != nil {
		return dir, err
	}
	var b strings.Builder
	b.WriteString("module verif/fixtures\n\ngo 1.18\n\n")
	b.WriteString("require " + repoMod + " v0.0.0\n")
	b.WriteString("replace " + repoMod + " => " + repo + "\n\n")
	// carry the repository's own requirements (and replaces) over
	inReq := false
	for _, line := range strings.Split(string(gomod), "\n") {
		t := strings.TrimSpace(line)
		switch {
		case strings.HasPrefix(t, "require ("):
			inReq = true
			b.WriteString("require (\n")
		case inReq && t == ")":
			inReq = false
			b.WriteString(")\n")
		case inReq:
			b.WriteString(line + "\n")
		case strings.HasPrefix(t, "require "):
			b.WriteString(line + "\n")
		}
	}
	if err := os.WriteFile(filepath.Join(dir, "go.mod"), []byte(b.String()), 0o644); err != nil {
		return dir, err
	}
	if err := copyFile(filepath.Join(repo, "go.sum"), filepath.Join(dir, "go.sum")); err != nil {
		return dir, err
	}
	for _, fx := range fixtures {
		src := filepath.Join(verifDir, "checker", "testdata", "fixtures", fx)
		ents, err := os.ReadDir(src)
		if err != nil {
			return dir, fmt.Errorf("fixture %s: %v", fx, err)
		}
		dst := filepath.Join(dir, "fixtures", fx)
		os.MkdirAll(dst, 0o755)
		for _, e := range ents {
			if strings.HasSuffix(e.Name(), ".go") {
				if err := copyFile(filepath.Join(src, e.Name()), filepath.Join(dst, e.Name())); err != nil {
					return dir, err
				}
			}
		}
	}
	return dir, nil
}

func copyFile(src, dst string) error {
	in, err := os.Open(src)
	if err != nil {
		return err
	}
	defer in.Close()
	out, err := os.Create(dst)
	if err != nil {
		return err
	}
	defer out.Close()
	_, err = io.Copy(out, in)
	return err
}

// load type-checks the repository (and fixtures) and builds SSA.
func (c *Ctx) load(fixtures []string, allPackages bool) error {
	dir, err := makeHarness(c.Repo, c.VerifDir, fixtures)
	if dir != "" {
		defer os.RemoveAll(dir)
	}
	if err != nil {
		return err
	}
	env := []string{}
	for _, e := range os.Environ() {
		if strings.HasPrefix(e, "GOWORK=") || strings.HasPrefix(e, "GOFLAGS=") {
			continue
		}
		env = append(env, e)
	}
	env = append(env, "GOFLAGS=-mod=mod", "GOPROXY=off", "GOSUMDB=off", "GOTOOLCHAIN=local", "GOWORK=off")
	cfg := &packages.Config{
		Mode: packages.LoadAllSyntax,
		Dir:  dir,
		Env:  env,
	}
	var patterns []string
	if allPackages {
		patterns = append(patterns, repoMod+"/...")
	} else {
		for _, s := range libShort {
			patterns = append(patterns, repoMod+"/"+s)
		}
	}
	for _, fx := range fixtures {
		patterns = append(patterns, "verif/fixtures/fixtures/"+fx)
	}
	pkgs, err := packages.Load(cfg, patterns...)
	if err != nil {
		return err
	}
	if len(pkgs) == 0 {
		return fmt.Errorf("no packages loaded")
	}
	nerr := 0
	packages.Visit(pkgs, nil, func(p *packages.Package) {
		for _, e := range p.Errors {
			nerr++
			if nerr <= 10 {
				c.problem("load error in %s: %v", p.PkgPath, e)
			}
		}
	})
	if nerr > 0 {
		return fmt.Errorf("%d load/type errors", nerr)
	}
	sort.Slice(pkgs, func(i, j int) bool { return pkgs[i].PkgPath < pkgs[j].PkgPath })
	c.Pkgs = pkgs
	c.Fset = pkgs[0].Fset
	c.ByPat = map[string]*packages.Package{}
	packages.Visit(pkgs, nil, func(p *packages.Package) {
		path := p.PkgPath
		if strings.HasPrefix(path, "verif/fixtures/fixtures/") {
			path = "verif/fixtures/" + strings.TrimPrefix(path, "verif/fixtures/fixtures/")
		}
		c.ByPat[path] = p
	})
	for _, s := range libShort {
		if c.pkg(s) == nil {
			return fmt.Errorf("library package %s not loaded", s)
		}
	}
	prog, _ := ssautil.AllPackages(pkgs, ssa.InstantiateGenerics)
	prog.Build()
	c.Prog = prog
	return nil
}

// CG returns the VTA call graph, built on first use. ssautil.AllFunctions only
// contains methods of types that are converted to interfaces somewhere, so
// the function set is extended by every source function of the repository and
// the fixtures (exported API that nobody calls inside the module), and the
// initial graph is an RTA graph rooted at all of them.
func (c *Ctx) CG() *callgraph.Graph {
	if c.cg == nil {
		funcs := ssautil.AllFunctions(c.Prog)
		var roots []*ssa.Function
		packages.Visit(c.Pkgs, nil, func(p *packages.Package) {
			if !c.isRepoPkg(p.Types) && !strings.HasPrefix(p.PkgPath, "verif/fixtures") {
				return
			}
			for _, fn := range c.srcFuncs(p) {
				if isGenericFn(fn) {
					continue
				}
				funcs[fn] = true
				roots = append(roots, fn)
			}
		})
		res := rta.Analyze(roots, true)
		for fn := range res.Reachable {
			funcs[fn] = true
		}
		c.chaCG = res.CallGraph
		c.cg = vta.CallGraph(funcs, c.chaCG)
	}
	return c.cg
}

func isGenericFn(fn *ssa.Function) bool {
	for f := fn; f != nil; f = f.Parent() {
		if f.TypeParams().Len() > 0 && len(f.TypeArgs()) == 0 {
			return true
		}
		if recv := f.Signature.Recv(); recv != nil {
			t := recv.Type()
			if p, ok := t.(*types.Pointer); ok {
				t = p.Elem()
			}
			if n, ok := t.(*types.Named); ok && n.TypeParams().Len() > 0 && n.TypeArgs().Len() == 0 {
				return true
			}
		}
	}
	return false
}

func (c *Ctx) CHA() *callgraph.Graph {
	c.CG()
	return c.chaCG
}

// ---------------------------------------------------------------------------
// Fixture expectations: a fixture function whose doc comment contains
// "want:RULE" must receive at least one violated obligation of RULE positioned
// inside it; "clean:RULE" must receive none (but at least one obligation);
// "silent:RULE" must receive no obligation at all (outside the rule's scope).

var markerRe = regexp.MustCompile(`\b(want|clean|silent):([A-Za-z0-9_.\-]+)`)

func (c *Ctx) checkFixtures(info *propInfo) (map[string]int, []string) {
	hits := map[string]int{}
	var problems []string
	for _, fx := range info.Fixtures {
		p := c.fixturePkg(fx)
		if p == nil {
			problems = append(problems, "fixture package "+fx+" not loaded")
			continue
		}
		nMarkers := 0
		for _, file := range p.Syntax {
			for _, d := range file.Decls {
				fd, ok := d.(*ast.FuncDecl)
				if !ok || fd.Doc == nil {
					continue
				}
				for _, m := range markerRe.FindAllStringSubmatch(fd.Doc.Text(), -1) {
					kind, rule := m[1], m[2]
					if _, run := c.Floors[rule]; !run {
						continue // a rule this property does not run
					}
					nMarkers++
					nViol, nAny := 0, 0
					for _, o := range c.Obs {
						if o.Rule == rule && o.tpos >= fd.Pos() && o.tpos <= fd.End() {
							nAny++
							if o.Status == Violated {
								nViol++
							}
						}
					}
					name := fx + "." + fd.Name.Name
					switch {
					case kind == "want" && nViol == 0:
						problems = append(problems, fmt.Sprintf("fixture %s: rule %s did not flag the construct it must flag", name, rule))
					case kind == "clean" && nViol > 0:
						problems = append(problems, fmt.Sprintf("fixture %s: rule %s flagged a construct that is correct", name, rule))
					case kind == "silent" && nAny > 0:
						problems = append(problems, fmt.Sprintf("fixture %s: rule %s produced an obligation for a construct outside its scope", name, rule))
					case kind == "clean" && nAny == 0:
						problems = append(problems, fmt.Sprintf("fixture %s: rule %s produced no obligation for a construct it must recognise", name, rule))
					default:
						hits[kind+":"+rule]++
					}
				}
			}
		}
		if nMarkers == 0 {
			problems = append(problems, "fixture package "+fx+" has no want:/clean: markers")
		}
	}
	return hits, problems
}
