package main

import (
	"go/token"
	"go/types"

	"golang.org/x/tools/go/packages"
	"golang.org/x/tools/go/ssa"
)

// NILRECV: a pointer type some of whose methods test their receiver against
// nil treats nil as a value (the empty point tree is a nil *CoordTree). Then
// every exported method of that type has to tolerate it: the receiver may be
// dereferenced, or handed to a method that dereferences it, only where a test
// has established that it is not nil (Engler's belief rule: the siblings check,
// so the unchecked one is wrong). Unexported helpers may rely on their callers;
// what they need is propagated to the exported entry points.
func (c *Ctx) runNilReceiver(rule string, pkgs []*packages.Package, filter func(fn *ssa.Function) bool) {
	nonNilAt := func(fn *ssa.Function, b *ssa.BasicBlock) bool {
		recv := fn.Params[0]
		for _, f := range factsAt(b) {
			bin, ok := f.cond.(*ssa.BinOp)
			if !ok {
				continue
			}
			var other ssa.Value
			if bin.X == ssa.Value(recv) {
				other = bin.Y
			} else if bin.Y == ssa.Value(recv) {
				other = bin.X
			} else {
				continue
			}
			if k, isC := other.(*ssa.Const); !isC || !k.IsNil() {
				continue
			}
			if bin.Op == token.NEQ && f.taken || bin.Op == token.EQL && !f.taken {
				return true
			}
		}
		return false
	}
	testsNil := func(fn *ssa.Function) bool {
		recv := fn.Params[0]
		for _, b := range fn.Blocks {
			for _, ins := range b.Instrs {
				if bin, ok := ins.(*ssa.BinOp); ok && (bin.Op == token.EQL || bin.Op == token.NEQ) {
					for _, pair := range [][2]ssa.Value{{bin.X, bin.Y}, {bin.Y, bin.X}} {
						if k, isC := pair[1].(*ssa.Const); isC && k.IsNil() && pair[0] == ssa.Value(recv) {
							return true
						}
					}
				}
			}
		}
		return false
	}
	// nilPanics: fn panics explicitly where its receiver is known to be nil
	// (a documented partial method, e.g. NearestNeighbor of the empty tree)
	nilIsAt := func(fn *ssa.Function, b *ssa.BasicBlock) bool {
		recv := fn.Params[0]
		for _, f := range factsAt(b) {
			bin, ok := f.cond.(*ssa.BinOp)
			if !ok {
				continue
			}
			var other ssa.Value
			if bin.X == ssa.Value(recv) {
				other = bin.Y
			} else if bin.Y == ssa.Value(recv) {
				other = bin.X
			} else {
				continue
			}
			if k, isC := other.(*ssa.Const); !isC || !k.IsNil() {
				continue
			}
			if bin.Op == token.EQL && f.taken || bin.Op == token.NEQ && !f.taken {
				return true
			}
		}
		return false
	}
	nilPanics := func(fn *ssa.Function) bool {
		if fn.Blocks == nil || len(fn.Params) == 0 {
			return false
		}
		for _, b := range fn.Blocks {
			if _, ok := b.Instrs[len(b.Instrs)-1].(*ssa.Panic); ok && nilIsAt(fn, b) {
				return true
			}
		}
		return false
	}
	memo := map[*ssa.Function]token.Pos{}
	inProg := map[*ssa.Function]bool{}
	// needs: position where fn dereferences its receiver without a nil test
	// (NoPos: it tolerates nil)
	var needs func(fn *ssa.Function) token.Pos
	needs = func(fn *ssa.Function) token.Pos {
		if p, ok := memo[fn]; ok {
			return p
		}
		if inProg[fn] || fn.Blocks == nil || len(fn.Params) == 0 {
			return token.NoPos
		}
		inProg[fn] = true
		defer delete(inProg, fn)
		recv := ssa.Value(fn.Params[0])
		res := token.NoPos
		for _, b := range fn.Blocks {
			if res != token.NoPos {
				break
			}
			if nonNilAt(fn, b) {
				continue
			}
			for _, ins := range b.Instrs {
				switch x := ins.(type) {
				case *ssa.FieldAddr:
					if x.X == recv {
						res = x.Pos()
					}
				case *ssa.UnOp:
					if x.Op == token.MUL && x.X == recv {
						res = x.Pos()
					}
				case *ssa.Call:
					if f := x.Call.StaticCallee(); f != nil && f.Signature.Recv() != nil && len(x.Call.Args) > 0 && x.Call.Args[0] == recv {
						if _, isPtr := f.Signature.Recv().Type().(*types.Pointer); isPtr {
							if p := needs(f); p != token.NoPos {
								res = x.Pos()
							} else if nilPanics(f) {
								// a partial callee reached on every path makes this
								// method partial in the same documented way; reached
								// on some paths only, it contradicts the paths that
								// cope with the empty value
								all := true
								for _, rb := range fn.Blocks {
									if _, isRet := rb.Instrs[len(rb.Instrs)-1].(*ssa.Return); isRet && !b.Dominates(rb) {
										all = false
									}
								}
								if !all {
									res = x.Pos()
								}
							}
						} else {
							res = x.Pos() // value receiver: implicit dereference
						}
					}
				}
				if res != token.NoPos {
					break
				}
			}
		}
		memo[fn] = res
		return res
	}
	for _, p := range pkgs {
		if p == nil {
			continue
		}
		byType := map[string][]*ssa.Function{}
		for _, fn := range c.srcFuncs(p) {
			if fn.Parent() != nil || fn.Signature.Recv() == nil || (filter != nil && !filter(fn)) {
				continue
			}
			if _, isPtr := fn.Signature.Recv().Type().(*types.Pointer); !isPtr {
				continue
			}
			byType[typeNameOf(fn.Signature.Recv().Type())] = append(byType[typeNameOf(fn.Signature.Recv().Type())], fn)
		}
		for tn, fns := range byType {
			nTests := 0
			for _, fn := range fns {
				if testsNil(fn) {
					nTests++
				}
			}
			if nTests < 2 {
				continue // one test may be an accident; two say nil is a value
			}
			for _, fn := range fns {
				if fn.Object() == nil || !fn.Object().Exported() {
					continue
				}
				c.analysed(qname(fn))
				key := qname(fn) + " tolerates the nil " + tn
				if nilPanics(fn) {
					c.ok(rule, key, fn.Pos(), "panics explicitly on the nil receiver (a documented partial method)")
					continue
				}
				if pos := needs(fn); pos != token.NoPos {
					c.bad(rule, key, pos, "the receiver is dereferenced (or handed to a method that dereferences it or panics on nil) without a nil test, although sibling methods of "+tn+" treat a nil receiver as the empty value")
				} else {
					c.ok(rule, key, fn.Pos(), "receiver used only where it was tested against nil")
				}
			}
		}
	}
}
