package main

// EXHAUST — a switch over a value of an enumeration type (a named integer
// type of this repository with at least two declared constants) names every
// constant of the type or has a default clause: a missing case makes the
// switch a silent no-op for that value (a sweep-line vertex class that is
// never processed, a weighting scheme that yields weight 0).

import (
	"go/ast"
	"go/types"
	"sort"
	"strings"

	"golang.org/x/tools/go/packages"
)

func enumConstants(t *types.Named) []*types.Const {
	if t.Obj().Pkg() == nil {
		return nil
	}
	b, ok := t.Underlying().(*types.Basic)
	if !ok || b.Info()&types.IsInteger == 0 {
		return nil
	}
	var res []*types.Const
	scope := t.Obj().Pkg().Scope()
	for _, n := range scope.Names() {
		if k, ok := scope.Lookup(n).(*types.Const); ok && types.Identical(k.Type(), t) {
			res = append(res, k)
		}
	}
	return res
}

func (c *Ctx) runExhaust(rule string, pkgs []*packages.Package, fileOK func(name string) bool) {
	for _, p := range pkgs {
		if p == nil {
			continue
		}
		info := p.TypesInfo
		for _, file := range p.Syntax {
			fname := c.Fset.Position(file.Pos()).Filename
			if fileOK != nil && !strings.Contains(fname, "/fixtures/") && !fileOK(fname) {
				continue
			}
			for _, d := range file.Decls {
				fd, ok := d.(*ast.FuncDecl)
				if !ok || fd.Body == nil {
					continue
				}
				fobj, _ := info.Defs[fd.Name].(*types.Func)
				n := 0
				ast.Inspect(fd.Body, func(nd ast.Node) bool {
					sw, ok := nd.(*ast.SwitchStmt)
					if !ok || sw.Tag == nil {
						return true
					}
					named, ok := info.TypeOf(sw.Tag).(*types.Named)
					if !ok || !c.isRepoPkg(named.Obj().Pkg()) && !strings.Contains(named.Obj().Pkg().Path(), "fixtures/") {
						return true
					}
					consts := enumConstants(named)
					if len(consts) < 2 {
						return true
					}
					n++
					c.analysed(objName(fobj))
					seen := map[types.Object]bool{}
					hasDefault := false
					for _, cl := range sw.Body.List {
						cc := cl.(*ast.CaseClause)
						if cc.List == nil {
							hasDefault = true
						}
						for _, e := range cc.List {
							if o := exprObj(info, e); o != nil {
								seen[o] = true
							}
						}
					}
					var missing []string
					for _, k := range consts {
						if !seen[k] {
							missing = append(missing, k.Name())
						}
					}
					sort.Strings(missing)
					key := objName(fobj) + " switch#" + itoa(n) + " over " + named.Obj().Name()
					switch {
					case len(missing) == 0:
						c.ok(rule, key, sw.Pos(), "every constant of the type has a case")
					case hasDefault:
						c.ok(rule, key, sw.Pos(), "a default clause handles "+strings.Join(missing, ", "))
					default:
						c.bad(rule, key, sw.Pos(), "no case and no default for "+strings.Join(missing, ", ")+": the switch silently does nothing for these values")
					}
					return true
				})
			}
		}
	}
}
