package main

func init() {
	register("C02", &propInfo{
		Explanation: "BP: every tabled bisection that refines a surface point keeps the contained end in the variable it later reports as contained (BP.OUT), validates/swaps its ends consistently before the loop (BP.PRE) BisectInterior takes the inside result (BP.SEL) and Bisect/BisectInterior rebuild the returned point with exactly the expression Contains was evaluated on (BP.SAME). UNIT: margins and offsets in the meshing code (mc.go, marching.go, dc.go, surface_estimator.go) are lengths: a documented fraction of Delta is multiplied by Delta before it is added to a coordinate, and every function returns one dimension on all paths.",
		Trusted:     append([]string{"the table of bisection sites and their documented 'inside' output (checker/bp.go)"}, unitTrusted...),
		Fixtures:    []string{"u", "w"},
		Run: func(c *Ctx) {
			c.runBisectionPolarity("BP")
			c.floor("BP.OUT", 4)
			c.floor("BP.PRE", 5)
			c.floor("BP.SEL", 2)
			c.runBisectionSameExpr("BP")
			c.floor("BP.SAME", 4)
			c.runUnits("UNIT", c.unitPkgs("u"), c.fileFilter("mc.go", "marching.go", "dc.go", "surface_estimator.go"))
			c.floor("UNIT", 10)
			c.runArgSwap("ARGSWAP", c.unitPkgs("u"), baseIn("mc.go", "marching.go", "dc.go", "surface_estimator.go"), nil)
			c.floor("ARGSWAP", 4)
			c.runAxisCall("AXISCALL", append(c.libPkgs(), c.fixturePkg("u")), nil)
			c.floor("AXISCALL", 0)
			// a refinement pass whose result is dropped refines nothing
			c.runPureCall("PURECALL", newEffEngine(c), append(c.libPkgs()[:2:2], c.fixturePkg("w")), c.fileFilter("mc.go", "marching.go", "dc.go", "surface_estimator.go"))
			c.floor("PURECALL", 0)
		},
		SelfTest: []Mutation{
			{Name: "component-wise maximum takes y from x", File: "model2d/coords.go",
				Old: "return Coord{math.Max(c.X, c1.X), math.Max(c.Y, c1.Y)}", New: "return Coord{math.Max(c.X, c1.X), math.Max(c.Y, c1.X)}", Rule: "AXISCALL", Expect: "Max"},
			{Name: "2D search refinement computed and dropped", File: "model2d/marching.go",
				Old: "\treturn msSearch(s, delta, iters, mesh)\n", New: "\tmsSearch(s, delta, iters, mesh)\n\treturn mesh\n", All: true, Rule: "PURECALL", Expect: "msSearch"},
			{Name: "bisection range keeps the outside end as 'inside'", File: "model3d/surface_estimator.go",
				Old: "\t\tif s.Solid.Contains(p1.Add(d.Scale(f))) {\n\t\t\tmax = f\n\t\t} else {\n\t\t\tmin = f\n\t\t}", New: "\t\tif s.Solid.Contains(p1.Add(d.Scale(f))) {\n\t\t\tmin = f\n\t\t} else {\n\t\t\tmax = f\n\t\t}", Rule: "BP.OUT", Expect: "BisectInterpRange"},
			{Name: "interior point taken from the outside end", File: "model3d/mc.go",
				Old: "\t\tarr[axis] = truePoint\n\t\t*interiorPoint = NewCoord3DArray(arr)", New: "\t\tarr[axis] = falsePoint\n\t\t*interiorPoint = NewCoord3DArray(arr)", Rule: "BP.OUT", Expect: "mcSearchPoint"},
			{Name: "pre-loop swap inverted", File: "model3d/mc.go",
				Old: "\tif !s.Contains(NewCoord3DArray(tp)) {\n\t\tfalsePoint, truePoint = truePoint, falsePoint", New: "\tif s.Contains(NewCoord3DArray(tp)) {\n\t\tfalsePoint, truePoint = truePoint, falsePoint", Rule: "BP.PRE", Expect: "mcSearchPoint"},
			{Name: "Bisect swaps when the first point is outside", File: "model2d/surface_estimator.go",
				Old: "\tif s.Solid.Contains(p1) {\n\t\tp1, p2 = p2, p1\n\t}\n\talpha := s.BisectInterp(p1, p2, 0, 1)", New: "\tif !s.Solid.Contains(p1) {\n\t\tp1, p2 = p2, p1\n\t}\n\talpha := s.BisectInterp(p1, p2, 0, 1)", Rule: "BP.PRE", Expect: "Bisect"},
			{Name: "BisectInterior takes the outside parameter", File: "model3d/surface_estimator.go",
				Old: "_, alpha := s.BisectInterpRange(p1, p2, 0, 1)", New: "alpha, _ := s.BisectInterpRange(p1, p2, 0, 1)", Rule: "BP.SEL", Expect: "BisectInterior"},
			{Name: "interior point recomputed as a convex combination", File: "model3d/surface_estimator.go",
				Old: "\t\treturn p2\n\t}\n\treturn p1.Add(p2.Sub(p1).Scale(alpha))", New: "\t\treturn p2\n\t}\n\treturn p1.Scale(1 - alpha).Add(p2.Scale(alpha))", Rule: "BP.SAME", Expect: "BisectInterior"},
			{Name: "solid collider returns the outside end", File: "model3d/collisions.go",
				Old: "\t// Always return the point inside the solid\n\treturn max", New: "\t// Always return the point inside the solid\n\treturn min", Rule: "BP.OUT", Expect: "bisectCollision"},
			{Name: "repair epsilon not scaled by Delta when set explicitly", File: "model3d/dc.go",
				Old: "\treturn d.RepairEpsilon * d.Delta\n", New: "\treturn d.RepairEpsilon\n", Rule: "UNIT", Expect: "repairEpsilon"},
		},
	})
}
