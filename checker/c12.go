package main

import "strings"

func init() {
	register("C12", &propInfo{
		Explanation: "The meshing and rasterising pipelines contain no structural source of schedule- or iteration-order dependence: W the worker goroutines of mc.go, marching.go, dc.go and rasterize.go write shared memory only at addresses indexed by their own work item or under a lock (results are merged through channels / a locked reduce); ND no global randomness or clock is reachable from the entry points except the documented opt-in estimator, and every map iteration in the pipeline files is a reviewed site; A1.ORBIT the marching-cubes base cases have disjoint orbits, so the random map iteration order in mcLookupTable cannot change the table; CS.RANGE block splitting produces index ranges that meet exactly; OL the documented concurrency/buffer options are read; AXIS in the rasteriser no purely X-derived quantity is added to, compared with or put in the slot of a purely Y-derived one (pixel rectangles handed to the region filter are built from the right pixel size).",
		Trusted:     []string{"go/ssa, the RTA-seeded VTA call graph", "the reviewed tables of checker/nd.go (3 map-iteration functions, 2 random-source functions, with reasons)", "effect engine assumptions of C13"},
		Fixtures:    []string{"w"},
		Run: func(c *Ctx) {
			eng := newEffEngine(c)
			pkgs := append(c.libPkgs(), c.fixturePkg("w"))
			inFiles := c.fileFilter("mc.go", "marching.go", "dc.go", "rasterize.go")
			c.runWorkerWrites(eng, pkgs, "W", func(ws workerSite) bool { return inFiles(ws.parent) })
			c.floor("W", 15)
			c.runDeterminism("ND")
			c.floor("ND.MAP", 0) // reviewed-sites rule: fewer map iterations is never a problem
			c.floor("ND.RAND", 1)
			c.runMarchingCubesOrbit("A1")
			c.floor("A1.ORBIT", 1)
			c.runRangeSplit("CS.RANGE", "model3d", "mcBlock", "Split")
			c.runRangeSplit("CS.RANGE", "model2d", "msBlock", "Split")
			c.floor("CS.RANGE", 2)
			c.runOptionLivenessFields("OL", "model3d", "DualContouring", "MaxGos", "BufferSize")
			c.floor("OL", 2)
			c.runWrongVar("WRONGVAR", c.libPkgs()[:3], nil)
			c.floor("WRONGVAR", 2)
			c.runAxisTags("AXIS", c.libPkgs()[1:2], c.fileFilter("model2d/rasterize.go"))
			c.floor("AXIS", 8)
			c.runSpawnJoin("SPAWNJOIN", append(c.libPkgs(), c.fixturePkg("w")))
			c.floor("SPAWNJOIN", 1)
			c.runConstDiv("CONSTDIV", append(c.libPkgs(), c.fixturePkg("w")))
			c.floor("CONSTDIV", 0)
			// pixel vs. model units in the rasteriser (Scale = px/L, LineWidth = px)
			c.runUnits("UNIT", c.libPkgs()[1:2], c.fileFilter("model2d/rasterize.go"))
			c.floor("UNIT", 2)
			// the dual-contouring slab buffer: absolute z values, window-relative rows
			c.runWindowIndex("WINDOWIDX", append(c.libPkgs()[:1:1], c.fixturePkg("w")))
			c.floor("WINDOWIDX", 1)
			c.runPartition("PARTITION", append(c.libPkgs()[:2:2], c.fixturePkg("w")), nil)
			c.floor("PARTITION", 0)
			c.runWorkers("WORKERS", append(c.libPkgs(), c.fixturePkg("w")))
			c.floor("WORKERS", 2)
		},
		SelfTest: []Mutation{
			{Name: "2D filtered meshing keeps one CPU for the feeder", File: "model2d/marching.go",
				Old: "\tnumGos := runtime.GOMAXPROCS(0)\n", New: "\tnumGos := runtime.GOMAXPROCS(0) - 1\n", Rule: "WORKERS", Expect: "MarchingSquaresFilter"},
			{Name: "refilled corners read the z values of the first slab", File: "model3d/dc.go",
				Old: "\t\t\t\td.Zs[z+d.ZOffset],", New: "\t\t\t\td.Zs[z],", Rule: "WINDOWIDX", Expect: "Shift"},
			{Name: "dual contouring workers append to the shared interior list", File: "model3d/dc.go",
				Old: "localInterior = append(localInterior, edge.Coord)", New: "*interior = append(*interior, edge.Coord)", Rule: "W", Expect: "populateEdges"},
			{Name: "a base case listed twice in two orientations", File: "model3d/mc.go",
				Old: "\tnewMcIntersections(0): {\n\t\t{0, 1, 0, 2, 0, 4},\n\t},", New: "\tnewMcIntersections(0): {\n\t\t{0, 1, 0, 2, 0, 4},\n\t},\n\tnewMcIntersections(1): {\n\t\t{1, 3, 0, 1, 1, 5},\n\t},", Rule: "A1.ORBIT", Expect: "orbits"},
			{Name: "block halves overlap by one layer", File: "model3d/mc.go",
				Old: "\tmin2[splitAxis] = max1[splitAxis]\n", New: "\tmin2[splitAxis] = max1[splitAxis] - 1\n", Rule: "CS.RANGE", Expect: "mcBlock"},
			{Name: "2D block halves leave a gap", File: "model2d/marching.go",
				Old: "\tmin2[splitAxis] = max1[splitAxis]\n", New: "\tmin2[splitAxis] = max1[splitAxis] + 1\n", Rule: "CS.RANGE", Expect: "msBlock"},
			{Name: "jittered sampling from the global random source", File: "model3d/mc.go",
				Old: "func (m *mcBlock) Split() (mcBlock, mcBlock) {\n", New: "func (m *mcBlock) Split() (mcBlock, mcBlock) {\n\tif rand.Intn(2) == 0 {\n\t\tm.min, m.max = m.min, m.max\n\t}\n",
				More: [][2]string{{"import (\n", "import (\n\t\"math/rand\"\n"}}, Rule: "ND.RAND", Expect: "Split"},
			{Name: "triangles of a cell emitted in map order into a slice", File: "model3d/mc.go",
				Old: "func (m *mcBlock) Split() (mcBlock, mcBlock) {\n", New: "func (m *mcBlock) Split() (mcBlock, mcBlock) {\n\tfor k := range map[int]bool{1: true, 2: true} {\n\t\tm.min[0] += k - k\n\t}\n", Rule: "ND.MAP", Expect: "Split"},
			{Name: "filter rectangle's y extent scaled by the pixel width", File: "model2d/rasterize.go",
				Old: "float64(y+1)*pixelHeight+min.Y", New: "float64(y+1)*pixelWidth+min.Y", All: true, Rule: "AXIS", Expect: "Rasterize"},
			{Name: "MaxGos ignored", File: "model3d/dc.go",
				Old: "d.MaxGos", New: "0", All: true, Rule: "OL", Expect: "MaxGos"},
		},
	})
}

var _ = strings.Contains
