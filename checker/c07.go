package main

import (
	"go/ast"
	"go/types"

	"golang.org/x/tools/go/packages"
)

// isRayCollisionCallback: func(RayCollision) with RayCollision from model2d/model3d.
func isRayCollisionCallback(t types.Type) bool {
	sig, ok := t.Underlying().(*types.Signature)
	if !ok || sig.Params().Len() != 1 || sig.Results().Len() != 0 {
		return false
	}
	named, ok := sig.Params().At(0).Type().(*types.Named)
	if !ok || named.Obj().Name() != "RayCollision" || named.Obj().Pkg() == nil {
		return false
	}
	path := named.Obj().Pkg().Path()
	return path == repoMod+"/model3d" || path == repoMod+"/model2d"
}

func rayCollisionsSig(sig *types.Signature) (int, bool) {
	if sig.Results().Len() != 1 || !isIntType(sig.Results().At(0).Type()) {
		return 0, false
	}
	idx := -1
	for i := 0; i < sig.Params().Len(); i++ {
		if isRayCollisionCallback(sig.Params().At(i).Type()) {
			if idx >= 0 {
				return 0, false
			}
			idx = i
		}
	}
	return idx, idx >= 0
}

func isIntType(t types.Type) bool {
	b, ok := t.Underlying().(*types.Basic)
	return ok && b.Info()&types.IsInteger != 0
}

var rayFamily = cbFamily{
	prefix: "A3",
	match: func(p *packages.Package, fd *ast.FuncDecl) *types.Var {
		obj, _ := p.TypesInfo.Defs[fd.Name].(*types.Func)
		if obj == nil {
			return nil
		}
		sig := obj.Type().(*types.Signature)
		idx, ok := rayCollisionsSig(sig)
		if !ok {
			return nil
		}
		return sig.Params().At(idx)
	},
	delegSig: func(sig *types.Signature, name string) (int, bool) {
		return rayCollisionsSig(sig)
	},
}

func init() {
	register("C07", &propInfo{
		Explanation: "For every function with the RayCollisions contract (a func(RayCollision) callback parameter and an int result; 2D and 3D, found by signature) a structured abstract interpreter proves on every path that the returned count equals the number of callback invocations (A3.CNT, delegations to siblings with an equivalent callback are neutral; closures must be count-neutral per invocation), that the callback is only invoked where it is known to be non-nil (A3.GUARD) and that neither the count nor the control flow depends on the callback being nil (A3.NILDEP). AM: every first-collision selection keeps the candidate with the smaller Scale. NN: every RayCollision handed out has a Scale that passed a non-negativity test. KIND: ray wrappers keep directions, ray parameters and normals in their kinds.",
		Trusted:     []string{"go/types and go/ast of x/tools v0.29.0", "the modelling of Go statements in checker/a3.go", "the RayCollisions family is recognised by signature"},
		Assumptions: []string{"user-supplied callbacks do not panic", "sibling RayCollisions implementations satisfy the same contract (checked for all implementations in the library, assumed for foreign ones)"},
		Fixtures:    []string{"a3"},
		Run:         runC07,
	})
}

func runC07(c *Ctx) {
	pkgs := append(c.libPkgs(), c.fixturePkg("a3"))
	if c.Tier == "thorough" {
		pkgs = c.allRepoPkgs("a3")
	}
	c.runCallbackCount(rayFamily, pkgs)
	c.floor("A3.CNT", 30)
	c.floor("A3.GUARD", 25)
	c.floor("A3.NILDEP", 25)
}

// allRepoPkgs: every loaded root package of the repository plus the fixtures.
func (c *Ctx) allRepoPkgs(fixtures ...string) []*packages.Package {
	var res []*packages.Package
	for _, p := range c.Pkgs {
		if c.isRepoPkg(p.Types) {
			res = append(res, p)
		}
	}
	for _, fx := range fixtures {
		res = append(res, c.fixturePkg(fx))
	}
	return res
}
