package main

import (
	"go/ast"
	"go/types"

	"golang.org/x/tools/go/packages"
)

// isRayCollisionCallback: func(RayCollision) with RayCollision from model2d/model3d.
func isRayCollisionCallback(t types.Type) bool {
	sig, ok := t.Underlying().(*types.Signature)
	if !ok || sig.Params().Len() != 1 || sig.Results().Len() != 0 {
		return false
	}
	named, ok := sig.Params().At(0).Type().(*types.Named)
	if !ok || named.Obj().Name() != "RayCollision" || named.Obj().Pkg() == nil {
		return false
	}
	path := named.Obj().Pkg().Path()
	return path == repoMod+"/model3d" || path == repoMod+"/model2d"
}

func rayCollisionsSig(sig *types.Signature) (int, bool) {
	if sig.Results().Len() != 1 || !isIntType(sig.Results().At(0).Type()) {
		return 0, false
	}
	idx := -1
	for i := 0; i < sig.Params().Len(); i++ {
		if isRayCollisionCallback(sig.Params().At(i).Type()) {
			if idx >= 0 {
				return 0, false
			}
			idx = i
		}
	}
	return idx, idx >= 0
}

func isIntType(t types.Type) bool {
	b, ok := t.Underlying().(*types.Basic)
	return ok && b.Info()&types.IsInteger != 0
}

var rayFamily = cbFamily{
	prefix: "A3",
	match: func(p *packages.Package, fd *ast.FuncDecl) *types.Var {
		obj, _ := p.TypesInfo.Defs[fd.Name].(*types.Func)
		if obj == nil {
			return nil
		}
		sig := obj.Type().(*types.Signature)
		idx, ok := rayCollisionsSig(sig)
		if !ok {
			return nil
		}
		return sig.Params().At(idx)
	},
	delegSig: func(sig *types.Signature, name string) (int, bool) {
		return rayCollisionsSig(sig)
	},
}

// iterFamily: SolidMux.IterContains-like functions: a func(int) callback
// parameter and an int result that counts the invocations.
func iterContainsSig(sig *types.Signature) (int, bool) {
	if sig.Results().Len() != 1 || !isIntType(sig.Results().At(0).Type()) {
		return 0, false
	}
	idx := -1
	for i := 0; i < sig.Params().Len(); i++ {
		fs, ok := sig.Params().At(i).Type().Underlying().(*types.Signature)
		if !ok {
			continue
		}
		if fs.Params().Len() == 1 && fs.Results().Len() == 0 && isIntType(fs.Params().At(0).Type()) {
			if idx >= 0 {
				return 0, false
			}
			idx = i
		} else {
			return 0, false
		}
	}
	return idx, idx >= 0
}

// iterHelper: an unexported method with the IterContains shape on a type that
// has IterContains (a piece of it moved out by a refactoring): it belongs to
// the family, is analysed like IterContains and may be delegated to.
func iterHelper(f *types.Func) bool {
	if f == nil || f.Exported() {
		return false
	}
	sig, _ := f.Type().(*types.Signature)
	if sig == nil || sig.Recv() == nil {
		return false
	}
	if _, ok := iterContainsSig(sig); !ok {
		return false
	}
	obj, _, _ := types.LookupFieldOrMethod(sig.Recv().Type(), true, f.Pkg(), "IterContains")
	_, isF := obj.(*types.Func)
	return isF
}

var iterFamily = cbFamily{
	prefix: "A3",
	match: func(p *packages.Package, fd *ast.FuncDecl) *types.Var {
		obj, _ := p.TypesInfo.Defs[fd.Name].(*types.Func)
		if obj == nil || (obj.Name() != "IterContains" && !iterHelper(obj)) {
			return nil
		}
		sig := obj.Type().(*types.Signature)
		idx, ok := iterContainsSig(sig)
		if !ok {
			return nil
		}
		return sig.Params().At(idx)
	},
	delegSig: func(sig *types.Signature, name string) (int, bool) {
		if name != "IterContains" {
			return 0, false
		}
		return iterContainsSig(sig)
	},
	delegFunc: func(f *types.Func) (int, bool) {
		if !iterHelper(f) {
			return 0, false
		}
		return iterContainsSig(f.Type().(*types.Signature))
	},
}

// countingCall recognises calls to functions whose result is, by the contract
// checked by A3.CNT, the number of invocations of their callback argument.
func countingCall(info *types.Info, call *ast.CallExpr) (int, bool) {
	f := calleeFunc(info, call)
	if f == nil {
		return 0, false
	}
	sig, _ := f.Type().(*types.Signature)
	if sig == nil {
		return 0, false
	}
	if i, ok := rayCollisionsSig(sig); ok {
		return i, true
	}
	return iterFamily.delegSig(sig, f.Name())
}

func init() {
	register("C07", &propInfo{
		Explanation: "For every function with the RayCollisions contract (a func(RayCollision) callback parameter and an int result; 2D and 3D, found by signature) a structured abstract interpreter proves on every path that the returned count equals the number of callback invocations (A3.CNT, delegations to siblings with an equivalent callback are neutral; closures must be count-neutral per invocation), that the callback is only invoked where it is known to be non-nil (A3.GUARD) and that neither the count nor the control flow depends on the callback being nil (A3.NILDEP). AM: every first-collision selection keeps the candidate with the smaller Scale. NN: every RayCollision handed out has a Scale that passed a non-negativity test. UNIT/FRAME: ray wrappers keep directions, ray parameters and normals in their kinds and map query values through the inverse transform; ball and ray tests compare like with like. Q: no collider method writes receiver-reachable memory (a collider that caches per-query state is neither re-entrant nor safe for concurrent use).",
		Trusted:     []string{"go/types and go/ast of x/tools v0.29.0", "the modelling of Go statements in checker/a3.go", "the RayCollisions family is recognised by signature"},
		Assumptions: []string{"user-supplied callbacks do not panic", "sibling RayCollisions implementations satisfy the same contract (checked for all implementations in the library, assumed for foreign ones)"},
		Fixtures:    []string{"a3", "u"},
		Run:         runC07,
		SelfTest: []Mutation{
			{Name: "transformed collision normal is not renormalised", File: "model3d/transform.go",
				Old: "Normal: t.t.Apply(rc.Normal).Sub(t.t.Apply(zero)).Normalize(),", New: "Normal: t.t.Apply(rc.Normal).Sub(t.t.Apply(zero)),", Rule: "UNITNORMAL", Expect: "outerCollision"},
			{Name: "FirstRayCollision stops one step before RayCollisions", File: "model3d/collisions.go",
				Old: "\tstartInside := s.Solid.Contains(r.Origin)\n\tfor t := minFrac; t <= maxFrac+fracStep; t += fracStep {", New: "\tstartInside := s.Solid.Contains(r.Origin)\n\tfor t := minFrac; t <= maxFrac; t += fracStep {", Rule: "SIBLOOP", Expect: "SolidCollider"},
			{Name: "InterpNormalTriangle.RayCollisions reports hits behind the origin", File: "model3d/primitives.go",
				Old: "\tinfo, scale := i.Triangle.rayCollision(r)\n\tif info == nil || scale < 0 {", New: "\tinfo, scale := i.Triangle.rayCollision(r)\n\tif info == nil {", Rule: "SIGNED", Expect: "InterpNormalTriangle"},
			{Name: "Segment.FirstRayCollision accepts negative parameters", File: "model2d/primitives.go",
				Old: "collides && scale >= 0 {\n\t\treturn RayCollision{", New: "collides {\n\t\treturn RayCollision{", Rule: "SIGNED", Expect: "Segment"},
			{Name: "sign test rewritten as !(scale >= 0) (behaviour preserved)", File: "model3d/primitives.go", Clean: true,
				Old: "\tinfo, scale := t.rayCollision(r)\n\tif info == nil || scale < 0 {", New: "\tinfo, scale := t.rayCollision(r)\n\tif info == nil || !(scale >= 0) {", Rule: "SIGNED"},
			{Name: "transformedCollider without nil pass-through", File: "model3d/transform.go",
				Old: "\tif f == nil {\n\t\treturn t.c.RayCollisions(t.innerRay(r), nil)\n\t}\n", New: "", Rule: "A3.GUARD", Expect: "transformedCollider"},
			{Name: "Cone closure forgets to count", File: "model3d/shapes.go",
				Old: "\t\t\t\t}\n\t\t\t\tn++\n", New: "\t\t\t\t}\n", Rule: "A3.CNT", Expect: "Cone"},
			{Name: "Triangle counts only with callback", File: "model3d/primitives.go",
				Old: "\tif f != nil {\n\t\tf(RayCollision{Scale: scale, Normal: t.Normal(), Extra: info})\n\t}\n\treturn 1", New: "\tif f != nil {\n\t\tf(RayCollision{Scale: scale, Normal: t.Normal(), Extra: info})\n\t\treturn 1\n\t}\n\treturn 0", Rule: "A3.NILDEP", Expect: "Triangle"},
			{Name: "ball query radius through the forward transform", File: "model3d/transform.go",
				Old: "t.c.SphereCollision(t.inv.Apply(c), t.inv.ApplyDistance(r))", New: "t.c.SphereCollision(t.inv.Apply(c), t.t.ApplyDistance(r))", Rule: "FRAME", Expect: "SphereCollision"},
			{Name: "collider reuses a scratch slice in its receiver", File: "model3d/collisions.go",
				Old: "func (j *JoinedCollider) RayCollisions(r *Ray, f func(RayCollision)) int {\n", New: "func (j *JoinedCollider) RayCollisions(r *Ray, f func(RayCollision)) int {\n\tj.colliders = j.colliders[:len(j.colliders):len(j.colliders)]\n", Rule: "Q", Expect: "JoinedCollider"},
			{Name: "ray parameter scaled like a length (defect F4)", File: "model3d/transform.go",
				Old: "Scale:  rc.Scale,", New: "Scale:  t.t.ApplyDistance(rc.Scale),", Rule: "UNIT", Expect: "outerCollision"},
			{Name: "sampling step multiplied by the direction length", File: "model3d/collisions.go",
				Old: "\tfracStep := s.Epsilon / r.Direction.Norm()\n\tstartInside := s.Solid.Contains(r.Origin)", New: "\tfracStep := s.Epsilon * r.Direction.Norm()\n\tstartInside := s.Solid.Contains(r.Origin)", Rule: "UNIT", Expect: "FirstRayCollision"},
			{Name: "2D JoinedCollider keeps the farthest hit", File: "model2d/collisions.go",
				Old: "collision.Scale < closest.Scale || !anyCollides", New: "collision.Scale > closest.Scale || !anyCollides", Rule: "AM", Expect: "JoinedCollider"},
			{Name: "Capsule reports two, returns count 1", File: "model3d/shapes.go",
				Old: "\tif !c.Contains(r.Origin) {\n\t\tif f != nil {\n\t\t\tf(colls[0])\n\t\t}\n\t\tcount += 1\n\t}", New: "\tif !c.Contains(r.Origin) {\n\t\tif f != nil {\n\t\t\tf(colls[0])\n\t\t}\n\t}", Rule: "A3.CNT", Expect: "Capsule"},
			{Name: "profileCollider early exit before counting", File: "model3d/collisions.go",
				Old: "\t\t\tif f != nil {\n\t\t\t\tf(RayCollision{\n\t\t\t\t\tNormal: XY(rc.Normal.X, rc.Normal.Y),\n\t\t\t\t\tScale:  rc.Scale,\n\t\t\t\t})\n\t\t\t}\n\t\t\tcount++", New: "\t\t\tif f != nil {\n\t\t\t\tf(RayCollision{\n\t\t\t\t\tNormal: XY(rc.Normal.X, rc.Normal.Y),\n\t\t\t\t\tScale:  rc.Scale,\n\t\t\t\t})\n\t\t\t}\n\t\t\tif rc.Scale == maxT {\n\t\t\t\tcontinue\n\t\t\t}\n\t\t\tcount++", Rule: "A3.CNT", Expect: "profileCollider"},
		},
	})
}

func runC07(c *Ctx) {
	pkgs := append(c.libPkgs(), c.fixturePkg("a3"))
	if c.Tier == "thorough" {
		pkgs = c.allRepoPkgs("a3")
	}
	c.runCallbackCount(rayFamily, pkgs)
	c.runArgMin(pkgs, "AM")
	c.floor("AM", 10)
	// kinds and frames of ray wrappers, units of the ball/ray tests
	upkgs := c.unitPkgs("u")
	c.runUnits("UNIT", upkgs, c.fileFilter("collisions.go", "primitives.go", "shapes.go", "transform.go", "bvh.go"))
	c.floor("UNIT", 100)
	c.runFrames("FRAME", upkgs)
	c.floor("FRAME", 30)
	// colliders keep no per-query state in the receiver
	eng := newEffEngine(c)
	c.runQueryPurityFor(eng, c.libPkgs()[:2], "Q", map[string][]string{
		"model3d": {"Collider", "TriangleCollider", "SegmentCollider", "RectCollider", "MultiCollider"},
		"model2d": {"Collider", "SegmentCollider", "RectCollider", "MultiCollider"},
	})
	c.floor("Q", 100)
	c.floor("A3.CNT", 20)
	c.floor("A3.GUARD", 15)
	c.floor("A3.NILDEP", 15)
	c.runSigned("SIGNED", upkgs)
	c.floor("SIGNED", 8)
	c.runSibLoop("SIBLOOP", append(c.libPkgs()[:2:2], c.fixturePkg("u")), [2]string{"RayCollisions", "FirstRayCollision"})
	c.floor("SIBLOOP", 0)
	// collision records carry unit normals
	c.runUnitNormal("UNITNORMAL", upkgs, nil)
	c.floor("UNITNORMAL", 20)
}

// allRepoPkgs: every loaded root package of the repository plus the fixtures.
func (c *Ctx) allRepoPkgs(fixtures ...string) []*packages.Package {
	var res []*packages.Package
	for _, p := range c.Pkgs {
		if c.isRepoPkg(p.Types) {
			res = append(res, p)
		}
	}
	for _, fx := range fixtures {
		res = append(res, c.fixturePkg(fx))
	}
	return res
}
