package main

import (
	"fmt"
	"go/token"

	"golang.org/x/tools/go/packages"
	"golang.org/x/tools/go/ssa"
)

// W.READ: a lock protects data only if the reads are under it too. In a
// worker body (as found by W), a captured variable that the worker writes
// while holding a sync.Mutex (element stores, copy, append into it) must not be
// read by the same worker outside the lock: the value read may be overwritten
// before the locked write that is computed from it happens (a lost update),
// and the read races with the other workers' locked writes.
func (c *Ctx) runWorkerReads(eng *effEngine, pkgs []*packages.Package, rule string, filter func(ws workerSite) bool) {
	for _, ws := range c.findWorkers(pkgs) {
		if ws.fn == nil || (filter != nil && !filter(ws)) {
			continue
		}
		fn := ws.fn
		held := eng.lockHeld(fn)
		// the captured variable an address or slice value is rooted at
		var rootFV func(v ssa.Value, depth int) *ssa.FreeVar
		rootFV = func(v ssa.Value, depth int) *ssa.FreeVar {
			if depth > 6 {
				return nil
			}
			switch x := v.(type) {
			case *ssa.FreeVar:
				return x
			case *ssa.UnOp:
				if x.Op == token.MUL {
					return rootFV(x.X, depth+1)
				}
			case *ssa.IndexAddr:
				return rootFV(x.X, depth+1)
			case *ssa.FieldAddr:
				return rootFV(x.X, depth+1)
			case *ssa.Slice:
				return rootFV(x.X, depth+1)
			}
			return nil
		}
		lockedWrites := map[*ssa.FreeVar]token.Pos{}
		for _, b := range fn.Blocks {
			for _, ins := range b.Instrs {
				if !held[ins] {
					continue
				}
				switch x := ins.(type) {
				case *ssa.Store:
					if _, isElem := x.Addr.(*ssa.IndexAddr); isElem {
						if fv := rootFV(x.Addr, 0); fv != nil {
							lockedWrites[fv] = x.Pos()
						}
					}
				case *ssa.Call:
					if bi, ok := x.Call.Value.(*ssa.Builtin); ok && bi.Name() == "copy" && len(x.Call.Args) == 2 {
						if fv := rootFV(x.Call.Args[0], 0); fv != nil {
							lockedWrites[fv] = x.Pos()
						}
					}
				}
			}
		}
		n := 0
		for fv, wpos := range lockedWrites {
			n++
			c.analysed(qname(fn))
			key := fmt.Sprintf("%s reads of %s (written under the lock)", ws.label, fv.Name())
			bad := token.NoPos
			for _, b := range fn.Blocks {
				for _, ins := range b.Instrs {
					if held[ins] {
						continue
					}
					ld, ok := ins.(*ssa.UnOp)
					if !ok || ld.Op != token.MUL {
						continue
					}
					if _, isElem := ld.X.(*ssa.IndexAddr); !isElem {
						continue
					}
					if rootFV(ld.X, 0) == fv {
						bad = ld.Pos()
					}
				}
			}
			if bad != token.NoPos {
				c.bad(rule, key, bad, fmt.Sprintf("%s is written under the mutex (at %s) but one of its elements is read here without it: the value can be overwritten by another worker before the locked write that depends on it happens", fv.Name(), c.pos(wpos)))
			} else {
				c.ok(rule, key, wpos, "every element read of the lock-protected variable happens under the lock")
			}
		}
		_ = n
	}
}
