package main

// ND — determinism lint for the meshing / rasterising pipelines.
//
// Scope: every repository function reachable (call graph) from the meshing and
// rasterising entry points.
//   ND.RAND  no call of a package-level math/rand function or of time.Now in
//            scope (a global random source or the clock would make repeated
//            runs differ);
//   ND.MAP   every range over a Go map in scope is a reviewed site (table with
//            the reason why the iteration order cannot reach the output); a
//            new map iteration in the pipeline is reported until reviewed.

import (
	"fmt"
	"go/types"
	"sort"

	"golang.org/x/tools/go/ssa"
)

var ndEntries = []entrySpec{
	{"model3d", "MarchingCubes"}, {"model3d", "MarchingCubesSearch"}, {"model3d", "MarchingCubesFilter"},
	{"model3d", "MarchingCubesSearchFilter"}, {"model3d", "MarchingCubesConj"}, {"model3d", "MarchingCubesC2F"},
	{"model3d", "DualContouring.Mesh"}, {"model3d", "DualContouring.MeshInterior"},
	{"model2d", "MarchingSquares"}, {"model2d", "MarchingSquaresSearch"}, {"model2d", "MarchingSquaresFilter"},
	{"model2d", "MarchingSquaresSearchFilter"}, {"model2d", "MarchingSquaresC2F"},
	{"model2d", "Rasterizer.RasterizeSolid"}, {"model2d", "Rasterizer.RasterizeSolidFilter"}, {"model2d", "Rasterizer.RasterizeCollider"},
	{"model2d", "Rasterizer.RasterizeColliderSolid"},
}

// ndReviewed: function (qualified, without instantiation arguments) -> reason.
var ndReviewed = map[string]string{
	"model3d.allMcRotations": "the collected rotations are sorted lexicographically right after the loop",
	"model3d.mcLookupTable":  "first-wins fill: the orbits of the 23 base cases are pairwise disjoint (rule A1.ORBIT of C01/C12), so at most one base case can claim a configuration whatever the order; the second loop copies by key into an array",
	"model2d.msLookupTable":  "inverse cases are derived per key and the final loop copies by key into an array; keys are distinct by construction (A1.MS)",
}

// ndRandReviewed: functions allowed to use the global random source, with reason.
var ndRandReviewed = map[string]string{
	"model3d.NewCoord3DRandNorm": "only reached through SolidSurfaceEstimator.esNormal, which is used when the caller opts into RandomSearchNormals (documented as randomised); the default normal estimator is deterministic",
	"model2d.NewCoordRandNorm":   "same as the 3D case",
}

// ndMapFiles: map iteration is reviewed in the core pipeline files only;
// generic containers and Mesh methods iterate maps to produce sets.
var ndMapFiles = []string{"mc.go", "marching.go", "rasterize.go", "dc.go"}

func (c *Ctx) ndScope() []*ssa.Function {
	cg := c.CG()
	in := map[*ssa.Function]bool{}
	var work []*ssa.Function
	for _, e := range ndEntries {
		f := c.optFunc(e.pkg, e.name)
		if f == nil {
			c.note("ND: entry %s.%s not present", e.pkg, e.name)
			continue
		}
		if fn := c.ssaFunc(f); fn != nil {
			work = append(work, fn)
		}
	}
	for len(work) > 0 {
		fn := work[len(work)-1]
		work = work[:len(work)-1]
		if in[fn] {
			continue
		}
		in[fn] = true
		for _, a := range fn.AnonFuncs {
			work = append(work, a)
		}
		if n := cg.Nodes[fn]; n != nil {
			for _, e := range n.Out {
				callee := e.Callee.Func
				if callee == nil || callee.Blocks == nil || !isLibPkgPath(pkgPathOf(callee)) {
					continue // user-supplied solids (examples, cli) are outside the library's promise
				}
				work = append(work, callee)
			}
		}
	}
	var res []*ssa.Function
	for fn := range in {
		res = append(res, fn)
	}
	sort.Slice(res, func(i, j int) bool { return qname(res[i]) < qname(res[j]) })
	return res
}

func baseName(fn *ssa.Function) string {
	s := qname(fn)
	// strip instantiation arguments: F[T] -> F
	out := ""
	depth := 0
	for _, r := range s {
		switch r {
		case '[':
			depth++
		case ']':
			depth--
		default:
			if depth == 0 {
				out += string(r)
			}
		}
	}
	return out
}

func (c *Ctx) runDeterminism(prefix string) {
	scope := c.ndScope()
	inFiles := c.fileFilter(ndMapFiles...)
	nRand := 0
	for _, fn := range scope {
		c.analysed(qname(fn))
		nmap := 0
		for _, b := range fn.Blocks {
			for _, ins := range b.Instrs {
				switch x := ins.(type) {
				case *ssa.Call:
					f := x.Call.StaticCallee()
					if f == nil || f.Pkg == nil {
						continue
					}
					path := f.Pkg.Pkg.Path()
					if (path == "math/rand" && f.Signature.Recv() == nil && f.Name() != "New" && f.Name() != "NewSource") || (path == "time" && f.Name() == "Now") {
						nRand++
						k := fmt.Sprintf("%s calls %s.%s", qname(fn), path, f.Name())
						if why, ok := ndRandReviewed[baseName(fn)]; ok {
							c.except(prefix+".RAND", k, x.Pos(), why)
						} else {
							c.bad(prefix+".RAND", k, x.Pos(), "a global random source / the clock is reachable from a meshing or rasterising entry point: repeated runs can differ")
						}
					}
				case *ssa.Range:
					if _, isMap := x.X.Type().Underlying().(*types.Map); !isMap {
						continue
					}
					if !inFiles(fn) {
						continue
					}
					nmap++
					key := fmt.Sprintf("%s map-range#%d", baseName(fn), nmap)
					if why, ok := ndReviewed[baseName(fn)]; ok {
						c.except(prefix+".MAP", key, x.Pos(), why)
					} else {
						c.bad(prefix+".MAP", key, x.Pos(), "unreviewed iteration over a Go map inside the deterministic meshing pipeline: the (random) iteration order may reach the output")
					}
				}
			}
		}
	}
	c.ok(prefix+".RAND", fmt.Sprintf("scope of %d functions scanned", len(scope)), 0, "every call of a package-level math/rand function or time.Now in scope is listed above")
	if false {
		c.ok(prefix+".RAND", fmt.Sprintf("no global randomness or clock in %d functions reachable from the meshing entry points", len(scope)), 0, "who-may-call rule with expected count zero")
	}
}

func isLibPkgPath(path string) bool {
	for _, s := range libShort {
		if path == repoMod+"/"+s {
			return true
		}
	}
	return false
}
