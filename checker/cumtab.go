package main

// CUMTAB — cumulative tables and the binary searches over them agree.
//
// A cumulative table is built in a loop from a running total A:
//     START table:  T = append(T, A) / T[i] = A   BEFORE   A += w   (T[i] = where piece i starts)
//     END   table:  A += w   BEFORE   T[i] = A / T = append(T, A)   (T[i] = where piece i ends)
// The piece containing a target x is
//     END:   the first i with T[i] >= x  = sort.SearchFloat64s(T, x)           (used as is)
//     START: the last  i with T[i] <= x  = sort.Search(n, T[i] > x) - 1        (decremented)
// Using the raw result of a ">=" search on a START table selects the piece
// AFTER the one containing x (and a negative offset into it); using only the
// decremented result on an END table selects the piece BEFORE. The rule finds
// the tables (construction site) and the searches (use site) through the
// resolved field/variable and reports the two definitely wrong combinations;
// every other combination is accepted.

import (
	"go/ast"
	"go/constant"
	"go/token"
	"go/types"

	"golang.org/x/tools/go/packages"
	"golang.org/x/tools/go/ssa"
)

type cumKind int

const (
	cumStart cumKind = iota + 1
	cumEnd
)

func (k cumKind) String() string {
	if k == cumStart {
		return "START (T[i] = total before piece i)"
	}
	return "END (T[i] = total including piece i)"
}

func exprObj(info *types.Info, e ast.Expr) types.Object {
	switch x := ast.Unparen(e).(type) {
	case *ast.Ident:
		if o := info.Uses[x]; o != nil {
			return o
		}
		return info.Defs[x]
	case *ast.SelectorExpr:
		return info.Uses[x.Sel]
	}
	return nil
}

// cumulativeTables finds tables and their kind in the given packages.
func (c *Ctx) cumulativeTables(pkgs []*packages.Package) (map[types.Object]cumKind, map[types.Object]token.Pos) {
	kinds := map[types.Object]cumKind{}
	poss := map[types.Object]token.Pos{}
	for _, p := range pkgs {
		if p == nil {
			continue
		}
		info := p.TypesInfo
		for _, file := range p.Syntax {
			for _, d := range file.Decls {
				fd, ok := d.(*ast.FuncDecl)
				if !ok || fd.Body == nil {
					continue
				}
				local2field := map[types.Object]types.Object{}
				ast.Inspect(fd.Body, func(n ast.Node) bool {
					if kv, ok := n.(*ast.KeyValueExpr); ok {
						if k, ok := kv.Key.(*ast.Ident); ok {
							if fo, ok := info.Uses[k].(*types.Var); ok && fo.IsField() {
								if lo := exprObj(info, kv.Value); lo != nil {
									local2field[lo] = fo
								}
							}
						}
					}
					return true
				})
				ast.Inspect(fd.Body, func(n ast.Node) bool {
					var body *ast.BlockStmt
					switch x := n.(type) {
					case *ast.RangeStmt:
						body = x.Body
					case *ast.ForStmt:
						body = x.Body
					}
					if body == nil {
						return true
					}
					// accumulations A += w (directly in the body or inside an if of the body)
					type acc struct {
						obj types.Object
						pos token.Pos
					}
					var accs []acc
					var collect func(stmts []ast.Stmt)
					collect = func(stmts []ast.Stmt) {
						for _, st := range stmts {
							switch s := st.(type) {
							case *ast.AssignStmt:
								if s.Tok == token.ADD_ASSIGN && len(s.Lhs) == 1 {
									if o := exprObj(info, s.Lhs[0]); o != nil {
										accs = append(accs, acc{o, s.Pos()})
									}
								}
							case *ast.IfStmt:
								collect(s.Body.List)
							}
						}
					}
					collect(body.List)
					if len(accs) == 0 {
						return true
					}
					for _, st := range body.List {
						as, ok := st.(*ast.AssignStmt)
						if !ok || len(as.Lhs) != 1 || len(as.Rhs) != 1 {
							continue
						}
						var tab types.Object
						var val ast.Expr
						if ix, ok := as.Lhs[0].(*ast.IndexExpr); ok && as.Tok == token.ASSIGN {
							tab = exprObj(info, ix.X)
							val = as.Rhs[0]
						} else if call, ok := as.Rhs[0].(*ast.CallExpr); ok && len(call.Args) == 2 {
							if id, ok := call.Fun.(*ast.Ident); ok && id.Name == "append" {
								if a, b := exprObj(info, as.Lhs[0]), exprObj(info, call.Args[0]); a != nil && a == b {
									tab = a
									val = call.Args[1]
								}
							}
						}
						if tab == nil || val == nil {
							continue
						}
						vo := exprObj(info, val)
						for _, a := range accs {
							if vo != nil && vo == a.obj {
								k := cumEnd
								if as.Pos() < a.pos {
									k = cumStart
								}
								if f, ok := local2field[tab]; ok {
									kinds[f] = k
									poss[f] = as.Pos()
								}
								kinds[tab] = k
								poss[tab] = as.Pos()
							}
						}
					}
					return true
				})
			}
		}
	}
	// tables handed out by a helper: "return T, total" (or named results) makes
	// result #i of the helper a table of T's kind; "x, y := helper(..)" makes x
	// one, and a composite literal "field: x" the field.
	resKind := map[types.Object]map[int]cumKind{}
	for _, p := range pkgs {
		if p == nil {
			continue
		}
		info := p.TypesInfo
		for _, file := range p.Syntax {
			for _, d := range file.Decls {
				fd, ok := d.(*ast.FuncDecl)
				if !ok || fd.Body == nil || fd.Type.Results == nil {
					continue
				}
				fobj := info.Defs[fd.Name]
				var named []types.Object
				for _, fl := range fd.Type.Results.List {
					for _, n := range fl.Names {
						named = append(named, info.Defs[n])
					}
				}
				note := func(i int, o types.Object) {
					if k, ok := kinds[o]; ok && o != nil {
						if resKind[fobj] == nil {
							resKind[fobj] = map[int]cumKind{}
						}
						resKind[fobj][i] = k
					}
				}
				ast.Inspect(fd.Body, func(n ast.Node) bool {
					if _, ok := n.(*ast.FuncLit); ok {
						return false
					}
					ret, ok := n.(*ast.ReturnStmt)
					if !ok {
						return true
					}
					if len(ret.Results) == 0 {
						for i, o := range named {
							note(i, o)
						}
						return true
					}
					for i, e := range ret.Results {
						note(i, exprObj(info, e))
					}
					return true
				})
			}
		}
	}
	if len(resKind) > 0 {
		for _, p := range pkgs {
			if p == nil {
				continue
			}
			info := p.TypesInfo
			for _, file := range p.Syntax {
				for _, d := range file.Decls {
					fd, ok := d.(*ast.FuncDecl)
					if !ok || fd.Body == nil {
						continue
					}
					ast.Inspect(fd.Body, func(n ast.Node) bool {
						as, ok := n.(*ast.AssignStmt)
						if !ok || len(as.Rhs) != 1 {
							return true
						}
						call, ok := ast.Unparen(as.Rhs[0]).(*ast.CallExpr)
						if !ok {
							return true
						}
						callee := calleeFunc(info, call)
						if callee == nil || resKind[callee] == nil {
							return true
						}
						for i, l := range as.Lhs {
							if k, ok := resKind[callee][i]; ok {
								if o := exprObj(info, l); o != nil {
									kinds[o] = k
									poss[o] = as.Pos()
								}
							}
						}
						return true
					})
					ast.Inspect(fd.Body, func(n ast.Node) bool {
						if kv, ok := n.(*ast.KeyValueExpr); ok {
							if kid, ok := kv.Key.(*ast.Ident); ok {
								if fo, ok := info.Uses[kid].(*types.Var); ok && fo.IsField() {
									if lo := exprObj(info, kv.Value); lo != nil {
										if k, ok := kinds[lo]; ok {
											if _, have := kinds[fo]; !have {
												kinds[fo] = k
												poss[fo] = kv.Pos()
											}
										}
									}
								}
							}
						}
						return true
					})
				}
			}
		}
	}
	return kinds, poss
}

// tableOfValue: the field or local variable a slice value was loaded from.
func tableOfValue(v ssa.Value) types.Object {
	switch x := v.(type) {
	case *ssa.UnOp:
		if x.Op != token.MUL {
			return nil
		}
		switch a := x.X.(type) {
		case *ssa.FieldAddr:
			f, _ := structField(a.X.Type(), a.Field)
			if f != nil {
				return f
			}
		case *ssa.FreeVar:
			return nil
		}
	case *ssa.Field:
		f, _ := structField(x.X.Type(), x.Field)
		if f != nil {
			return f
		}
	}
	return nil
}

// searchOffsets: which of {raw, raw-1} reach v from the search result r.
func searchOffsets(v ssa.Value, r ssa.Value, seen map[ssa.Value]bool, off int, out map[int]bool) {
	if v == r {
		out[off] = true
		return
	}
	if seen[v] {
		return
	}
	seen[v] = true
	switch x := v.(type) {
	case *ssa.Phi:
		for _, e := range x.Edges {
			searchOffsets(e, r, seen, off, out)
		}
	case *ssa.BinOp:
		if k, ok := x.Y.(*ssa.Const); ok && k.Value != nil && k.Value.Kind() == constant.Int {
			n, _ := constant.Int64Val(k.Value)
			if x.Op == token.SUB {
				searchOffsets(x.X, r, seen, off-int(n), out)
			} else if x.Op == token.ADD {
				searchOffsets(x.X, r, seen, off+int(n), out)
			}
		}
	}
}

// searchCall: is call a sort.SearchFloat64s / sort.Search over some slice?
// Returns the slice value that is searched (as seen at the call, or — for
// the closure form — the value indexed inside the predicate) and whether the
// predicate is strict (first T[i] > x).
func searchCall(call *ssa.Call) (ssa.Value, bool, bool) {
	f := call.Call.StaticCallee()
	if f == nil || f.Pkg == nil || f.Pkg.Pkg.Path() != "sort" {
		return nil, false, false
	}
	switch f.Name() {
	case "SearchFloat64s":
		return call.Call.Args[0], false, true
	case "Search":
		mc, ok := call.Call.Args[1].(*ssa.MakeClosure)
		if !ok {
			return nil, false, false
		}
		pred := mc.Fn.(*ssa.Function)
		for _, pb := range pred.Blocks {
			for _, pi := range pb.Instrs {
				ret, ok := pi.(*ssa.Return)
				if !ok || len(ret.Results) != 1 {
					continue
				}
				be, ok := ret.Results[0].(*ssa.BinOp)
				if !ok || (be.Op != token.GTR && be.Op != token.GEQ) {
					continue
				}
				if ld, ok := be.X.(*ssa.UnOp); ok {
					if ia, ok := ld.X.(*ssa.IndexAddr); ok {
						return ia.X, be.Op == token.GTR, true
					}
				}
			}
		}
	}
	return nil, false, false
}

// paramOfValue: the slice value is (a copy of) a parameter of fn: the
// parameter itself, or a load of the cell a captured parameter was spilled to.
func paramOfValue(v ssa.Value) *ssa.Parameter {
	switch x := v.(type) {
	case *ssa.Parameter:
		return x
	case *ssa.UnOp:
		if x.Op != token.MUL {
			return nil
		}
		var cell ssa.Value = x.X
		if fv, ok := cell.(*ssa.FreeVar); ok {
			cell = freeVarBinding(fv)
		}
		if al, ok := cell.(*ssa.Alloc); ok {
			var prm *ssa.Parameter
			for _, ref := range *al.Referrers() {
				if st, ok := ref.(*ssa.Store); ok && st.Addr == ssa.Value(al) {
					p, isP := st.Val.(*ssa.Parameter)
					if !isP || prm != nil {
						return nil
					}
					prm = p
				}
			}
			return prm
		}
	}
	return nil
}

type searchHelper struct {
	param  int
	strict bool
	offs   map[int]bool // offsets of the returned index relative to the raw search result
}

func (c *Ctx) runCumTab(rule string, pkgs []*packages.Package, fileOK func(fn *ssa.Function) bool) {
	kinds, poss := c.cumulativeTables(pkgs)
	// helpers: functions that search one of their slice parameters and return the index
	helpers := map[*ssa.Function]searchHelper{}
	for _, p := range pkgs {
		if p == nil {
			continue
		}
		for _, fn := range c.srcFuncs(p) {
			if fn.Parent() != nil || fn.Signature.Results().Len() != 1 || !isIntType(fn.Signature.Results().At(0).Type()) {
				continue
			}
			for _, b := range fn.Blocks {
				for _, ins := range b.Instrs {
					call, ok := ins.(*ssa.Call)
					if !ok {
						continue
					}
					tv, strict, ok := searchCall(call)
					if !ok {
						continue
					}
					prm := paramOfValue(tv)
					if prm == nil || prm.Parent() != fn {
						continue
					}
					idx := -1
					for i, q := range fn.Params {
						if q == prm {
							idx = i
						}
					}
					offs := map[int]bool{}
					for _, b2 := range fn.Blocks {
						if ret, ok := b2.Instrs[len(b2.Instrs)-1].(*ssa.Return); ok {
							searchOffsets(ret.Results[0], call, map[ssa.Value]bool{}, 0, offs)
						}
					}
					if idx >= 0 && len(offs) > 0 {
						helpers[fn] = searchHelper{idx, strict, offs}
					}
				}
			}
		}
	}
	for _, p := range pkgs {
		if p == nil {
			continue
		}
		for _, fn := range c.srcFuncs(p) {
			if fileOK != nil && !fileOK(fn) {
				continue
			}
			for _, b := range fn.Blocks {
				for _, ins := range b.Instrs {
					call, ok := ins.(*ssa.Call)
					if !ok {
						continue
					}
					var tab types.Object
					strict := false
					base := map[int]bool{0: true}
					via := ""
					if tv, st, ok := searchCall(call); ok {
						tab, strict = tableOfValue(tv), st
					} else if callee := call.Call.StaticCallee(); callee != nil {
						if h, ok := helpers[callee]; ok {
							args := call.Call.Args
							if callee.Signature.Recv() != nil {
								// Params include the receiver
							}
							if h.param < len(args) {
								tab, strict, base = tableOfValue(args[h.param]), h.strict, h.offs
								via = " (through " + callee.Name() + ")"
							}
						}
					}
					if tab == nil {
						continue
					}
					kind, isTab := kinds[tab]
					if !isTab {
						continue
					}
					c.analysed(qname(fn))
					// offsets with which the result indexes any sequence
					offs := map[int]bool{}
					for _, b2 := range fn.Blocks {
						for _, i2 := range b2.Instrs {
							var idx ssa.Value
							switch x := i2.(type) {
							case *ssa.IndexAddr:
								idx = x.Index
							case *ssa.Index:
								idx = x.Index
							}
							if idx != nil {
								local := map[int]bool{}
								searchOffsets(idx, call, map[ssa.Value]bool{}, 0, local)
								for o := range local {
									for bo := range base {
										offs[o+bo] = true
									}
								}
							}
						}
					}
					key := qname(fn) + " search in " + tab.Name()
					pred := "first T[i] >= x"
					if strict {
						pred = "first T[i] > x"
					}
					pred += via
					how := "raw"
					switch {
					case offs[0] && offs[-1]:
						how = "raw and decremented"
					case offs[-1]:
						how = "decremented"
					case !offs[0]:
						how = "not as an index in this function"
					}
					detail := "table built at " + c.pos(poss[tab]) + " is " + kind.String() + "; search " + pred + "; result used " + how
					switch {
					case kind == cumStart && !strict && offs[0]:
						c.bad(rule, key, call.Pos(), detail+": the raw result of a '>=' search on a table of piece STARTS is the piece after the one containing x (negative offset into it)")
					case kind == cumEnd && offs[-1] && !offs[0]:
						c.bad(rule, key, call.Pos(), detail+": on a table of piece ENDS the decremented result is the piece before the one containing x")
					case kind == cumStart && strict && offs[0] && !offs[-1]:
						c.bad(rule, key, call.Pos(), detail+": on a table of piece STARTS the first entry beyond x is the piece after the one containing x")
					default:
						c.ok(rule, key, call.Pos(), detail)
					}
				}
			}
		}
	}
}
