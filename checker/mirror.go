package main

import (
	"fmt"
	"go/token"
	"go/types"
	"strings"

	"golang.org/x/tools/go/packages"
	"golang.org/x/tools/go/ssa"
)

// MIRRORSWAP: a loop that swaps s[i] with s[len(s)-1-i] reverses s only if i
// stops at the middle; run over the whole of s it swaps every pair twice and
// changes nothing. Reported: the swap is dominated by `i < len(s)` (or is the
// body of `range s`) - a definite whole-range bound; any other bound is
// accepted.
//
// INVORDER: the inverse of a composition applies the members' inverses in the
// opposite order. In a method Inverse whose receiver is a slice of values that
// themselves have an Inverse method, every member inverse must land at the
// mirrored position: appended while the index runs downwards, stored at
// len-1-i, or followed by a (half-range) mirror swap / a call to a reversing
// helper.

type mirrorSwap struct {
	block *ssa.BasicBlock
	seq   ssa.Value // the slice
	iv    ssa.Value // the running index
	pos   token.Pos
	whole bool
}

// ivLin: v = ci*iv + cl*len(seq) + k.
func ivLin(v, iv, seq ssa.Value, depth int) (ci, cl int, k int64, ok bool) {
	if depth > 8 {
		return
	}
	if v == iv {
		return 1, 0, 0, true
	}
	if n, isC := constInt(v); isC {
		return 0, 0, n, true
	}
	switch x := v.(type) {
	case *ssa.Call:
		if bi, isB := x.Call.Value.(*ssa.Builtin); isB && bi.Name() == "len" && len(x.Call.Args) == 1 && sameSeq(x.Call.Args[0], seq) {
			return 0, 1, 0, true
		}
	case *ssa.BinOp:
		a1, b1, k1, ok1 := ivLin(x.X, iv, seq, depth+1)
		a2, b2, k2, ok2 := ivLin(x.Y, iv, seq, depth+1)
		if ok1 && ok2 {
			switch x.Op {
			case token.ADD:
				return a1 + a2, b1 + b2, k1 + k2, true
			case token.SUB:
				return a1 - a2, b1 - b2, k1 - k2, true
			}
		}
	case *ssa.Convert:
		return ivLin(x.X, iv, seq, depth+1)
	}
	return
}

func loadOfIndex(v ssa.Value) *ssa.IndexAddr {
	if un, ok := v.(*ssa.UnOp); ok && un.Op == token.MUL {
		if ia, ok := un.X.(*ssa.IndexAddr); ok {
			return ia
		}
	}
	return nil
}

func mirrorSwaps(fn *ssa.Function) []mirrorSwap {
	var res []mirrorSwap
	for _, b := range fn.Blocks {
		var stores []*ssa.Store
		for _, ins := range b.Instrs {
			if st, ok := ins.(*ssa.Store); ok {
				if _, ok := st.Addr.(*ssa.IndexAddr); ok && loadOfIndex(st.Val) != nil {
					stores = append(stores, st)
				}
			}
		}
		for i, s1 := range stores {
			for _, s2 := range stores[i+1:] {
				d1, d2 := s1.Addr.(*ssa.IndexAddr), s2.Addr.(*ssa.IndexAddr)
				l1, l2 := loadOfIndex(s1.Val), loadOfIndex(s2.Val)
				if !sameSeq(d1.X, d2.X) || !sameSeq(l1.X, d1.X) || !sameSeq(l2.X, d1.X) {
					continue
				}
				if !(equivValue(d1.Index, l2.Index, 0) && equivValue(d2.Index, l1.Index, 0)) || equivValue(d1.Index, d2.Index, 0) {
					continue
				}
				for _, pair := range [][2]ssa.Value{{d1.Index, d2.Index}, {d2.Index, d1.Index}} {
					iv, other := pair[0], pair[1]
					if _, isC := constInt(iv); isC {
						continue
					}
					ci, cl, k, ok := ivLin(other, iv, d1.X, 0)
					if !ok || ci != -1 || cl != 1 || k != -1 {
						continue
					}
					ms := mirrorSwap{block: b, seq: d1.X, iv: iv, pos: s1.Pos()}
					for _, f := range factsAt(b) {
						bin, ok := f.cond.(*ssa.BinOp)
						if !ok || !f.taken {
							continue
						}
						var bound ssa.Value
						switch {
						case bin.Op == token.LSS && bin.X == iv:
							bound = bin.Y
						case bin.Op == token.GTR && bin.Y == iv:
							bound = bin.X
						default:
							continue
						}
						if a, l, kk, ok := ivLin(bound, iv, d1.X, 0); ok && a == 0 && l == 1 && kk == 0 {
							ms.whole = true
						}
					}
					res = append(res, ms)
					break
				}
			}
		}
	}
	return res
}

func (c *Ctx) runMirrorSwap(rule string, pkgs []*packages.Package, filter func(fn *ssa.Function) bool) {
	for _, p := range pkgs {
		if p == nil {
			continue
		}
		for _, fn := range c.srcFuncs(p) {
			if filter != nil && !filter(fn) {
				continue
			}
			for n, ms := range mirrorSwaps(fn) {
				c.analysed(qname(fn))
				key := fmt.Sprintf("%s mirror swap#%d", qname(fn), n+1)
				if ms.whole {
					c.bad(rule, key, ms.pos, "s[i] and s[len(s)-1-i] are swapped for every i below len(s): each pair is swapped twice and the sequence is left as it was (a reversal stops at the middle)")
				} else {
					c.ok(rule, key, ms.pos, "mirror swap is not bounded by the whole length")
				}
			}
		}
	}
}

func hasInverseMethod(t types.Type) bool {
	for _, tt := range []types.Type{t, types.NewPointer(t)} {
		ms := types.NewMethodSet(tt)
		for i := 0; i < ms.Len(); i++ {
			if ms.At(i).Obj().Name() == "Inverse" {
				return true
			}
		}
	}
	return false
}

func (c *Ctx) runInverseOrder(rule string, pkgs []*packages.Package) {
	for _, p := range pkgs {
		if p == nil {
			continue
		}
		for _, fn := range c.srcFuncs(p) {
			var recv ssa.Value
			if fn.Name() == "Inverse" && fn.Signature.Recv() != nil && fn.Parent() == nil {
				if sl, ok := fn.Signature.Recv().Type().Underlying().(*types.Slice); ok && hasInverseMethod(sl.Elem()) {
					recv = fn.Params[0]
				}
			}
			if recv == nil {
				// elsewhere: member inverses collected into a composition type
				// (a named slice type that itself has an Inverse method)
				recv = inverseCollection(fn)
			}
			if recv == nil {
				recv = inverseApplication(fn)
			}
			if recv == nil {
				continue
			}
			c.analysed(qname(fn))
			key := qname(fn) + " members inverted in the opposite order"
			// reversal after the fact
			reversedLater := false
			for _, ms := range mirrorSwaps(fn) {
				if !ms.whole {
					reversedLater = true
				}
			}
			for _, b := range fn.Blocks {
				for _, ins := range b.Instrs {
					if call, ok := ins.(*ssa.Call); ok {
						if f := call.Call.StaticCallee(); f != nil && strings.Contains(strings.ToLower(f.Name()), "reverse") {
							reversedLater = true
						}
					}
				}
			}
			n, badPos := 0, token.NoPos
			why := ""
			for _, b := range fn.Blocks {
				for _, ins := range b.Instrs {
					call, ok := ins.(*ssa.Call)
					if !ok || !call.Call.IsInvoke() || call.Call.Method.Name() != "Inverse" {
						continue
					}
					// the member: recv[idx] (indexed load or range element)
					idx := memberIndex(call.Call.Value, recv)
					if idx == nil {
						continue
					}
					n++
					if reversedLater {
						continue
					}
					okSite := false
					for _, ref := range *call.Referrers() {
						if app, isCall := ref.(*ssa.Call); isCall && accumulates(app) {
							// applied one after the other to a running value: the
							// order of application is the order of the members
							if indexRunsDown(idx) {
								okSite = true
							} else {
								why = "the member inverses are applied one after the other while the index runs upwards"
							}
						}
						switch u := ref.(type) {
						case *ssa.Store:
							// res[k] = inverse, or the one-element array of an append
							if ia, ok := u.Addr.(*ssa.IndexAddr); ok {
								if _, isAlloc := ia.X.(*ssa.Alloc); isAlloc {
									if indexRunsDown(idx) {
										okSite = true
									} else {
										why = "the inverses are appended while the index runs upwards"
									}
								} else if ci, _, _, ok := ivLin(ia.Index, idx, recv, 0); ok && ci == -1 {
									okSite = true
								} else if ci, cl, _, ok := ivLin(ia.Index, idx, ia.X, 0); ok && ci == -1 && cl == 1 {
									okSite = true
								} else if ds, ok1 := indexDirection(ia.Index, 0); ok1 && ds != 0 {
									if dm, ok2 := indexDirection(idx, 0); ok2 && dm*ds < 0 {
										okSite = true
									} else {
										why = "the inverse of member i is stored at a position that does not run against i"
									}
								} else {
									why = "the inverse of member i is stored at a position that does not run against i"
								}
							}
						}
					}
					if !okSite {
						if why == "" {
							why = "the inverse of a member does not reach a mirrored position"
						}
						badPos = call.Pos()
					}
				}
			}
			switch {
			case n == 0:
				c.ok(rule, key, fn.Pos(), "no member inverse is taken here (delegation)")
			case badPos != token.NoPos:
				c.bad(rule, key, badPos, why+": the inverse of a composition A then B is B^-1 then A^-1")
			default:
				c.ok(rule, key, fn.Pos(), "every member inverse lands at the mirrored position")
			}
		}
	}
}

// memberIndex: v is recv[idx] (possibly the element of a range loop); returns
// the index value.
func memberIndex(v ssa.Value, recv ssa.Value) ssa.Value {
	if ia := loadOfIndex(v); ia != nil && sameSeq(ia.X, recv) {
		return ia.Index
	}
	return nil
}

// indexRunsDown: the index decreases from one iteration to the next.
func indexRunsDown(idx ssa.Value) bool {
	d, ok := indexDirection(idx, 0)
	return ok && d < 0
}

// indexDirection: the sign of the change of v per iteration - a loop phi (or
// the incremented value of a range loop) moves by its constant step, values
// that are not built from a phi do not move, sums and differences combine.
func indexDirection(v ssa.Value, depth int) (int, bool) {
	if depth > 6 {
		return 0, false
	}
	switch x := v.(type) {
	case *ssa.Phi:
		dir, seen := 0, false
		for _, e := range x.Edges {
			bin, ok := e.(*ssa.BinOp)
			if !ok || bin.X != ssa.Value(x) {
				continue
			}
			k, isC := constInt(bin.Y)
			if !isC || k == 0 {
				return 0, false
			}
			d := 1
			if bin.Op == token.SUB && k > 0 || bin.Op == token.ADD && k < 0 {
				d = -1
			} else if !(bin.Op == token.ADD && k > 0 || bin.Op == token.SUB && k < 0) {
				return 0, false
			}
			if seen && d != dir {
				return 0, false
			}
			dir, seen = d, true
		}
		return dir, seen
	case *ssa.BinOp:
		a, ok1 := indexDirection(x.X, depth+1)
		b, ok2 := indexDirection(x.Y, depth+1)
		if !ok1 || !ok2 {
			return 0, false
		}
		switch x.Op {
		case token.ADD:
			if a*b < 0 {
				return 0, false
			}
			if a != 0 {
				return a, true
			}
			return b, true
		case token.SUB:
			if a*b > 0 {
				return 0, false
			}
			if a != 0 {
				return a, true
			}
			return -b, true
		}
		return 0, false
	case *ssa.Convert:
		return indexDirection(x.X, depth+1)
	}
	// constants, lengths, values computed before the loop
	return 0, true
}

// inverseCollection: fn stores or appends m.Inverse(), m an element of a slice
// S, into a value of a named slice type that has an Inverse method of its own
// (a composition such as JoinedTransform); returns S.
func inverseCollection(fn *ssa.Function) ssa.Value {
	isComposition := func(t types.Type) bool {
		n, ok := t.(*types.Named)
		if !ok {
			return false
		}
		sl, ok := n.Underlying().(*types.Slice)
		return ok && hasInverseMethod(sl.Elem()) && hasInverseMethod(n)
	}
	for _, b := range fn.Blocks {
		for _, ins := range b.Instrs {
			call, ok := ins.(*ssa.Call)
			if !ok || !call.Call.IsInvoke() || call.Call.Method.Name() != "Inverse" {
				continue
			}
			ia := loadOfIndex(call.Call.Value)
			if ia == nil {
				continue
			}
			if _, isSl := ia.X.Type().Underlying().(*types.Slice); !isSl {
				continue
			}
			for _, ref := range *call.Referrers() {
				st, ok := ref.(*ssa.Store)
				if !ok {
					continue
				}
				dst, ok := st.Addr.(*ssa.IndexAddr)
				if !ok {
					continue
				}
				if isComposition(dst.X.Type()) {
					return ia.X
				}
				// the one-element array of an append: look at what the append yields
				if al, isAl := dst.X.(*ssa.Alloc); isAl {
					for _, r2 := range *al.Referrers() {
						if sl, ok := r2.(*ssa.Slice); ok {
							for _, r3 := range *sl.Referrers() {
								if ap, ok := r3.(*ssa.Call); ok && isComposition(ap.Type()) {
									return ia.X
								}
							}
						}
					}
				}
			}
		}
	}
	return nil
}

// accumulates: the call takes a loop-carried value (a header phi) among its
// operands and its result flows back into that phi.
func accumulates(app *ssa.Call) bool {
	var phis []*ssa.Phi
	ops := append([]ssa.Value{}, app.Call.Args...)
	if app.Call.IsInvoke() {
		ops = append(ops, app.Call.Value)
	}
	for _, o := range ops {
		if phi, ok := o.(*ssa.Phi); ok {
			phis = append(phis, phi)
		}
	}
	for _, phi := range phis {
		for _, e := range phi.Edges {
			if e == ssa.Value(app) {
				return true
			}
			if ex, ok := e.(*ssa.Extract); ok && ex.Tuple == ssa.Value(app) {
				return true
			}
		}
	}
	return false
}

// inverseApplication: fn applies m.Inverse(), m an element of a slice S, to a
// loop-carried value (x = x.Transform(m.Inverse())); returns S.
func inverseApplication(fn *ssa.Function) ssa.Value {
	for _, b := range fn.Blocks {
		for _, ins := range b.Instrs {
			call, ok := ins.(*ssa.Call)
			if !ok || !call.Call.IsInvoke() || call.Call.Method.Name() != "Inverse" {
				continue
			}
			ia := loadOfIndex(call.Call.Value)
			if ia == nil {
				continue
			}
			if _, isSl := ia.X.Type().Underlying().(*types.Slice); !isSl {
				continue
			}
			for _, ref := range *call.Referrers() {
				if app, ok := ref.(*ssa.Call); ok && accumulates(app) {
					return ia.X
				}
			}
		}
	}
	return nil
}
