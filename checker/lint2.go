package main

// Further structural rules found necessary by seeded changes.

import (
	"fmt"
	"go/ast"
	"go/token"
	"go/types"

	"golang.org/x/tools/go/packages"
	"golang.org/x/tools/go/ssa"
)

// ---------------------------------------------------------------------------
// SELFKEY — contradiction: inside "for k := range m" a lookup m[k] always
// succeeds, so a branch on its absence is dead (the wrong map is consulted).

func (c *Ctx) runSelfKey(rule string, pkgs []*packages.Package, filter func(fn *ssa.Function) bool) {
	for _, p := range pkgs {
		if p == nil {
			continue
		}
		for _, fn := range c.srcFuncs(p) {
			if filter != nil && !filter(fn) {
				continue
			}
			n := 0
			for _, b := range fn.Blocks {
				for _, ins := range b.Instrs {
					lk, ok := ins.(*ssa.Lookup)
					if !ok {
						continue
					}
					if _, isMap := lk.X.Type().Underlying().(*types.Map); !isMap {
						continue
					}
					// key comes from a range over a map
					ex, ok := lk.Index.(*ssa.Extract)
					if !ok || ex.Index != 1 {
						continue
					}
					nx, ok := ex.Tuple.(*ssa.Next)
					if !ok {
						continue
					}
					rng, ok := nx.Iter.(*ssa.Range)
					if !ok {
						continue
					}
					if _, isMap := rng.X.Type().Underlying().(*types.Map); !isMap {
						continue
					}
					n++
					c.analysed(qname(fn))
					key := fmt.Sprintf("%s lookup#%d with a range key", qname(fn), n)
					if rng.X == lk.X || sameValue(rng.X, lk.X) {
						c.bad(rule, key, lk.Pos(), "the key of 'for k := range m' is looked up in the same map m: the lookup always succeeds, so the branch for a missing key is dead (another map was meant)")
					} else {
						c.ok(rule, key, lk.Pos(), "the range key is looked up in a different map")
					}
				}
			}
		}
	}
}

// ---------------------------------------------------------------------------
// WRONGVAR — a function literal that ignores a named parameter while using a
// captured variable of exactly the same type operates on the enclosing
// object instead of the one it is handed (e.g. meshing the whole block once
// per piece).

func (c *Ctx) runWrongVar(rule string, pkgs []*packages.Package, filter func(fn *ssa.Function) bool) {
	for _, p := range pkgs {
		if p == nil {
			continue
		}
		for _, fn := range c.srcFuncs(p) {
			if fn.Parent() == nil || (filter != nil && !filter(fn)) {
				continue
			}
			for i, prm := range fn.Params {
				if prm.Name() == "_" || prm.Name() == "" {
					continue
				}
				// only object-like parameters: pointers to named structs
				pt, ok := prm.Type().(*types.Pointer)
				if !ok {
					continue
				}
				if _, ok := pt.Elem().(*types.Named); !ok {
					continue
				}
				used := false
				for _, r := range *prm.Referrers() {
					if _, dbg := r.(*ssa.DebugRef); !dbg {
						used = true
					}
				}
				var same *ssa.FreeVar
				for _, fv := range fn.FreeVars {
					t := fv.Type()
					if ptr, ok := t.(*types.Pointer); ok && types.Identical(ptr.Elem(), prm.Type()) {
						same = fv
					}
					if types.Identical(t, prm.Type()) {
						same = fv
					}
				}
				if same == nil {
					continue
				}
				c.analysed(qname(fn))
				key := fmt.Sprintf("%s parameter#%d %s", qname(fn), i, prm.Name())
				if !used {
					c.bad(rule, key, fn.Pos(), fmt.Sprintf("the callback never uses its parameter %s but works on the captured variable %s of the same type: it processes the enclosing object instead of the one it is given", prm.Name(), same.Name()))
				} else {
					c.ok(rule, key, fn.Pos(), "the parameter is used")
				}
			}
		}
	}
}

// ---------------------------------------------------------------------------
// FIRSTITER — a "first iteration" guard (a conjunction of loopvar == 0 tests)
// that initialises scalar accumulators must test every loop between the
// outermost tested loop and the guard; otherwise the accumulators are reset
// again in the inner iterations and what was accumulated is lost.

func (c *Ctx) runFirstIter(rule string, pkgs []*packages.Package, filter func(fd *ast.FuncDecl, p *packages.Package) bool) {
	for _, p := range pkgs {
		if p == nil {
			continue
		}
		info := p.TypesInfo
		for _, file := range p.Syntax {
			for _, d := range file.Decls {
				fd, ok := d.(*ast.FuncDecl)
				if !ok || fd.Body == nil || (filter != nil && !filter(fd, p)) {
					continue
				}
				name := declName(p, fd)
				var loops []ast.Node
				n := 0
				var walk func(node ast.Node)
				walk = func(node ast.Node) {
					ast.Inspect(node, func(m ast.Node) bool {
						switch x := m.(type) {
						case *ast.FuncLit:
							return false
						case *ast.ForStmt:
							loops = append(loops, x)
							walk(x.Body)
							loops = loops[:len(loops)-1]
							return false
						case *ast.RangeStmt:
							loops = append(loops, x)
							walk(x.Body)
							loops = loops[:len(loops)-1]
							return false
						case *ast.IfStmt:
							c.firstIterIf(rule, info, name, x, loops, &n)
						}
						return true
					})
				}
				walk(fd.Body)
			}
		}
	}
}

func loopVar(info *types.Info, node ast.Node) types.Object {
	if r, ok := node.(*ast.RangeStmt); ok {
		if id, ok := r.Key.(*ast.Ident); ok && r.Tok == token.DEFINE {
			return info.Defs[id]
		}
		return nil
	}
	f, ok := node.(*ast.ForStmt)
	if !ok {
		return nil
	}
	as, ok := f.Init.(*ast.AssignStmt)
	if !ok || as.Tok != token.DEFINE || len(as.Lhs) != 1 {
		return nil
	}
	id, ok := as.Lhs[0].(*ast.Ident)
	if !ok {
		return nil
	}
	return info.Defs[id]
}

func (c *Ctx) firstIterIf(rule string, info *types.Info, fn string, ifs *ast.IfStmt, loops []ast.Node, n *int) {
	if len(loops) < 2 {
		return
	}
	// conjunction of v == 0
	var tested []types.Object
	okShape := true
	var conj func(e ast.Expr)
	conj = func(e ast.Expr) {
		e = ast.Unparen(e)
		be, ok := e.(*ast.BinaryExpr)
		if !ok {
			okShape = false
			return
		}
		switch be.Op {
		case token.LAND:
			conj(be.X)
			conj(be.Y)
		case token.EQL:
			id, ok := ast.Unparen(be.X).(*ast.Ident)
			tv := info.Types[be.Y]
			if !ok || tv.Value == nil || tv.Value.String() != "0" {
				okShape = false
				return
			}
			tested = append(tested, info.Uses[id])
		default:
			okShape = false
		}
	}
	conj(ifs.Cond)
	if !okShape || len(tested) == 0 {
		return
	}
	// the body assigns plain local variables only
	scalarInit := len(ifs.Body.List) > 0
	for _, s := range ifs.Body.List {
		as, ok := s.(*ast.AssignStmt)
		if !ok {
			scalarInit = false
			break
		}
		for _, l := range as.Lhs {
			if _, ok := l.(*ast.Ident); !ok {
				scalarInit = false
			}
		}
	}
	if !scalarInit {
		return
	}
	// loops between the outermost tested loop and the guard
	first := -1
	isTested := func(o types.Object) bool {
		for _, t := range tested {
			if t == o {
				return true
			}
		}
		return false
	}
	for i, l := range loops {
		if v := loopVar(info, l); v != nil && isTested(v) {
			first = i
			break
		}
	}
	if first < 0 {
		return
	}
	*n++
	key := fmt.Sprintf("%s first-iteration guard#%d", fn, *n)
	missing := ""
	for _, l := range loops[first:] {
		v := loopVar(info, l)
		if v == nil || !isTested(v) {
			if v != nil {
				missing = v.Name()
			} else {
				missing = "(inner loop)"
			}
		}
	}
	if missing != "" {
		c.bad(rule, key, ifs.Pos(), fmt.Sprintf("the guard initialises accumulators on the first iteration but does not test the inner loop variable %s: the accumulators are reset again while %s runs and earlier elements are discarded", missing, missing))
	} else {
		c.ok(rule, key, ifs.Pos(), "tests every loop variable of the nest")
	}
}
