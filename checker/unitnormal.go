package main

import (
	"fmt"
	"go/constant"
	"go/token"
	"go/types"
	"strings"

	"golang.org/x/tools/go/packages"
	"golang.org/x/tools/go/ssa"
)

// UNITNORMAL: the Normal of a collision record is a unit vector. A value
// stored into a field named Normal of a ...Collision struct must not be the
// raw result of vector arithmetic (Add, Sub, Scale by anything but +-1, Mul,
// Div, Mid, Cross, a matrix product or a Transform.Apply): such a result has
// to pass through Normalize() first. Values of unknown origin (locals computed
// elsewhere, helper results) are accepted; only the definite case is reported.
const (
	nvUnknown = iota
	nvUnit
	nvRaw
)

func classifyNormal(v ssa.Value, depth int) int {
	if depth > 8 || v == nil {
		return nvUnknown
	}
	switch x := v.(type) {
	case *ssa.Call:
		name := ""
		var recv ssa.Value
		if x.Call.IsInvoke() {
			name = x.Call.Method.Name()
			if name == "Apply" && isTransformType(x.Call.Value.Type()) {
				return nvRaw
			}
		} else if f := x.Call.StaticCallee(); f != nil {
			name = f.Name()
			if f.Signature.Recv() != nil && len(x.Call.Args) > 0 {
				recv = x.Call.Args[0]
				rt := typeNameOf(f.Signature.Recv().Type())
				if isCoordType(f.Signature.Recv().Type()) {
					switch name {
					case "Normalize":
						return nvUnit
					case "Scale":
						if k, ok := x.Call.Args[1].(*ssa.Const); ok && k.Value != nil && (k.Value.Kind() == constant.Float || k.Value.Kind() == constant.Int) {
							if f64, _ := constant.Float64Val(k.Value); f64 == 1 || f64 == -1 {
								return classifyNormal(recv, depth+1)
							}
						}
						return nvRaw
					case "Add", "Sub", "Mul", "Div", "Mid", "Cross", "AddScalar":
						return nvRaw
					}
				}
				if strings.HasPrefix(rt, "Matrix") && (name == "MulColumn" || name == "MulColumnInv") {
					return nvRaw
				}
			}
		}
		if strings.Contains(strings.ToLower(name), "normal") || strings.Contains(name, "RandUnit") {
			return nvUnit
		}
	case *ssa.Phi:
		res := nvUnit
		for _, e := range x.Edges {
			switch classifyNormal(e, depth+1) {
			case nvRaw:
				return nvRaw
			case nvUnknown:
				res = nvUnknown
			}
		}
		return res
	case *ssa.UnOp:
		if x.Op == token.MUL {
			if fa, ok := x.X.(*ssa.FieldAddr); ok {
				if f := fieldOf(fa); f != nil && f.Name() == "Normal" {
					return nvUnit
				}
			}
		}
	case *ssa.Field:
		if st, ok := x.X.Type().Underlying().(*types.Struct); ok && x.Field < st.NumFields() && st.Field(x.Field).Name() == "Normal" {
			return nvUnit
		}
	}
	return nvUnknown
}

func (c *Ctx) runUnitNormal(rule string, pkgs []*packages.Package, filter func(fn *ssa.Function) bool) {
	for _, p := range pkgs {
		if p == nil {
			continue
		}
		for _, fn := range c.srcFuncs(p) {
			if filter != nil && !filter(fn) {
				continue
			}
			n := 0
			for _, b := range fn.Blocks {
				for _, ins := range b.Instrs {
					st, ok := ins.(*ssa.Store)
					if !ok {
						continue
					}
					fa, ok := st.Addr.(*ssa.FieldAddr)
					if !ok {
						continue
					}
					f := fieldOf(fa)
					if f == nil || f.Name() != "Normal" || !isCoordType(f.Type()) {
						continue
					}
					owner := typeNameOf(fa.X.Type())
					if !strings.Contains(owner, "Collision") {
						continue
					}
					n++
					c.analysed(qname(fn))
					key := fmt.Sprintf("%s normal#%d of %s", qname(fn), n, owner)
					switch classifyNormal(st.Val, 0) {
					case nvRaw:
						c.bad(rule, key, st.Pos(), "the Normal of a collision record is the raw result of vector arithmetic (sum, difference, scaling, matrix or transform image): its length is not one unless it passes through Normalize()")
					default:
						c.ok(rule, key, st.Pos(), "normal is normalised, copied from another record, or produced by a normal-valued helper")
					}
				}
			}
		}
	}
}
