package main

// IDX.FLOAT — an index computed by converting a float to int (a parameter t
// scaled by a length, a coordinate divided by a cell size) is unbounded in
// both directions; before it indexes a slice it must be bounded below AND
// above on every path: by dominating comparisons, or by clamping assignments
// (`if i >= len(s) { i = len(s)-1 } else if i < 0 { i = 0 }`). An equality
// test (`i == len(s)`) bounds nothing: JoinedCurve.Eval(1.6) with two curves.

import (
	"fmt"
	"go/token"
	"go/types"
	"strings"

	"golang.org/x/tools/go/packages"
	"golang.org/x/tools/go/ssa"
)

func floatToIntDerived(v ssa.Value, depth int, seen map[ssa.Value]bool) bool {
	if depth > 12 || seen[v] {
		return false
	}
	seen[v] = true
	switch x := v.(type) {
	case *ssa.Convert:
		if isFloat(x.X.Type()) && isIntType(x.Type()) {
			return true
		}
		return floatToIntDerived(x.X, depth+1, seen)
	case *ssa.Phi:
		for _, e := range x.Edges {
			if floatToIntDerived(e, depth+1, seen) {
				return true
			}
		}
	case *ssa.BinOp:
		if x.Op == token.ADD || x.Op == token.SUB {
			if _, ok := x.Y.(*ssa.Const); ok {
				return floatToIntDerived(x.X, depth+1, seen)
			}
		}
	}
	return false
}

func edgeFactOf(pred, succ *ssa.BasicBlock) []fact {
	if len(pred.Instrs) == 0 {
		return nil
	}
	ifi, ok := pred.Instrs[len(pred.Instrs)-1].(*ssa.If)
	if !ok || len(pred.Succs) != 2 || pred.Succs[0] == pred.Succs[1] {
		return nil
	}
	if pred.Succs[0] == succ {
		return []fact{{ifi.Cond, true}}
	}
	return []fact{{ifi.Cond, false}}
}

func idxBounded(v ssa.Value, of ssa.Value, ctx []fact, depth int, seen map[ssa.Value]bool) (lower, upper bool) {
	if depth > 12 {
		return false, false
	}
	if k, ok := constInt(v); ok {
		return k >= 0, true
	}
	switch x := v.(type) {
	case *ssa.BinOp:
		if x.Op == token.SUB && of != nil && isLenOf(x.X, of) {
			if k, ok := constInt(x.Y); ok && k >= 1 {
				return true, true
			}
		}
	case *ssa.Phi:
		if seen[v] {
			return true, true // loop-carried: decided by the other edges
		}
		seen[v] = true
		lower, upper = true, true
		for i, e := range x.Edges {
			pred := x.Block().Preds[i]
			ectx := append(append([]fact{}, factsAt(pred)...), edgeFactOf(pred, x.Block())...)
			// facts known at pred's own start also hold
			l, u := idxBounded(e, of, ectx, depth+1, seen)
			lower, upper = lower && l, upper && u
		}
		l2, u2 := boundFacts(ctx, v, of)
		return lower || l2, upper || u2
	}
	return boundFacts(ctx, v, of)
}

func (c *Ctx) runIdxFloat(rule string, pkgs []*packages.Package, fileOK func(fn *ssa.Function) bool) {
	for _, p := range pkgs {
		if p == nil {
			continue
		}
		for _, fn := range c.srcFuncs(p) {
			if fileOK != nil && !fileOK(fn) {
				continue
			}
			n := 0
			for _, b := range fn.Blocks {
				for _, ins := range b.Instrs {
					var base, idx ssa.Value
					switch x := ins.(type) {
					case *ssa.IndexAddr:
						base, idx = x.X, x.Index
					case *ssa.Index:
						base, idx = x.X, x.Index
					default:
						continue
					}
					if _, ok := base.Type().Underlying().(*types.Slice); !ok {
						continue
					}
					if !floatToIntDerived(idx, 0, map[ssa.Value]bool{}) {
						continue
					}
					n++
					c.analysed(qname(fn))
					key := fmt.Sprintf("%s float-index#%d into %s", qname(fn), n, describeValue(base))
					lower, upper := idxBounded(idx, base, factsAt(b), 0, map[ssa.Value]bool{})
					if lower && upper {
						c.ok(rule, key, ins.Pos(), "the index converted from a float is bounded below and above (tests or clamps) on every path")
					} else {
						var missing []string
						if !lower {
							missing = append(missing, "from below (>= 0)")
						}
						if !upper {
							missing = append(missing, "from above (< len)")
						}
						c.bad(rule, key, ins.Pos(), "an index converted from a float is not bounded "+strings.Join(missing, " and ")+" on every path to this access (an equality test bounds nothing)")
					}
				}
			}
		}
	}
}
