package main

func init() {
	register("C09", &propInfo{
		Explanation: "The twelve generated coordinate-keyed map types implement the fast/slow typestate on all paths: FM.MODE every element access of fastMap is dominated by fastMap != nil and every access of slowMap by fastMap == nil or a preceding fastToSlow(); FM.COLLIDE a cell read from fastMap[hash] reaches a hit result or a delete only through the key-match edge, and an update only through the key-match or absent edge; FM.HASH the probe is hashFor...(key parameter); FM.SWITCH only fastToSlow assigns the mode fields, it copies every cell and nils fastMap after the loop; FM.ZERO the hash canonicalises zero so that == keys hash equally. MI: Mesh.faces is modified only by Add/Remove, the vertex index is published only by the lazy builder, a face is appended to the index only where it is known to be absent. RF: methods returning a derived mesh read their receiver.",
		Trusted:     []string{"go/ssa of the uninstantiated generic method bodies (prog.FuncValue)", "dominating-edge facts and edge-deletion reachability"},
		Fixtures:    []string{"fm", "g"},
		SelfTest: []Mutation{
			{Name: "first-vertex flag of Mesh.Min cleared once per face", File: "model3d/mesh.go",
				Old: "\t\t\tif !firstFlag {\n\t\t\t\tresult = c\n\t\t\t\tfirstFlag = true\n\t\t\t} else {\n\t\t\t\tresult = result.Min(c)\n\t\t\t}\n\t\t}\n", New: "\t\t\tif !firstFlag {\n\t\t\t\tresult = c\n\t\t\t} else {\n\t\t\t\tresult = result.Min(c)\n\t\t\t}\n\t\t}\n\t\tfirstFlag = true\n", Rule: "FIRSTFLAG", Expect: "Min"},
			{Name: "AddMesh copies faces directly when the OTHER mesh has no index", File: "model3d/mesh.go",
				Old: "func (m *Mesh) AddMesh(m1 *Mesh) {\n\tm1.Iterate(m.Add)\n}", New: "func (m *Mesh) AddMesh(m1 *Mesh) {\n\tif m1.getVertexToFaceOrNil() == nil {\n\t\tfor f := range m1.faces {\n\t\t\tm.faces[f] = true\n\t\t}\n\t\treturn\n\t}\n\tm1.Iterate(m.Add)\n}", Rule: "MI.WRITERS", Expect: "AddMesh"},
			{Name: "FlattenBase overwrites the index entry of the target vertex (defect repaired)", File: "model3d/mesh_ops.go",
				Old: "\t\tv2t.Store(newC, merged)\n", New: "\t\tv2t.Store(newC, v2t.Value(c))\n", Rule: "MI.PATCH", Expect: "FlattenBase"},
			{Name: "InvertNormals iterates the new mesh (defect F1)", File: "model3d/mesh.go",
				Old: "\tm1 := NewMesh()\n\tm.Iterate(func(f *Triangle) {\n\t\tf1 := *f\n\t\tf1[0], f1[1] = f1[1], f1[0]", New: "\tm1 := NewMesh()\n\tm1.Iterate(func(f *Triangle) {\n\t\tf1 := *f\n\t\tf1[0], f1[1] = f1[1], f1[0]", Rule: "MI.RECV", Expect: "InvertNormals"},
			{Name: "hash of -0 differs from +0 (defect F13)", File: "model3d/coords.go",
				Old: "\tif sum == 0 {\n\t\t// Negative and positive zero are equal as keys, so\n\t\t// they must hash identically.\n\t\tsum = 0\n\t}\n", New: "", Rule: "FM.ZERO", Expect: "fastHash64"},
			{Name: "Delete drops the key comparison", File: "model2d/fast_maps.go",
				Old: "\t\tif cell, ok := m.fastMap[hash]; ok && cell.Key == key {\n\t\t\tdelete(m.fastMap, hash)\n\t\t}", New: "\t\tif _, ok := m.fastMap[hash]; ok {\n\t\t\tdelete(m.fastMap, hash)\n\t\t}", All: true, Rule: "FM.COLLIDE", Expect: "Delete"},
			{Name: "Load reports a hit for a colliding key", File: "model3d/fast_maps.go",
				Old: "\t\tif !ok || cell.Key != key {\n\t\t\treturn zeroForCoordMap[T](), false\n\t\t}", New: "\t\tif !ok {\n\t\t\treturn zeroForCoordMap[T](), false\n\t\t}", Rule: "FM.COLLIDE", Expect: "CoordMap.Load"},
			{Name: "Store overwrites on collision when the slot is occupied", File: "model3d/fast_maps.go",
				Old: "\t\tcell, ok := m.fastMap[hash]\n\t\tif ok && cell.Key != key {\n\t\t\t// We must switch to a slow map to store colliding values.\n\t\t\tm.fastToSlow()\n\t\t\tm.slowMap[key] = value", New: "\t\tcell, ok := m.fastMap[hash]\n\t\tif !ok && cell.Key != key {\n\t\t\t// We must switch to a slow map to store colliding values.\n\t\t\tm.fastToSlow()\n\t\t\tm.slowMap[key] = value", All: true, Rule: "FM.COLLIDE", Expect: "Store"},
			{Name: "fastToSlow forgets to leave fast mode", File: "model2d/fast_maps.go",
				Old: "\t\tm.slowMap[cell.Key] = cell.Value\n\t}\n\tm.fastMap = nil\n", New: "\t\tm.slowMap[cell.Key] = cell.Value\n\t}\n", All: true, Rule: "FM.SWITCH", Expect: "fastToSlow"},
			{Name: "Len reads the slow map in fast mode", File: "model3d/fast_maps.go",
				Old: "\tif m.fastMap != nil {\n\t\treturn len(m.fastMap)\n\t} else {\n\t\treturn len(m.slowMap)\n\t}", New: "\tif m.fastMap == nil {\n\t\treturn len(m.fastMap)\n\t} else {\n\t\treturn len(m.slowMap)\n\t}", All: true, Rule: "FM.MODE", Expect: "Len"},
			{Name: "Add appends to the index without the presence test", File: "model3d/mesh.go",
				Old: "\t} else if m.faces[f] {\n\t\treturn\n\t}\n\n\tuniqueVertices(f, func(p Coord3D) {\n\t\tv2f.Append(p, f)", New: "\t}\n\n\tuniqueVertices(f, func(p Coord3D) {\n\t\tv2f.Append(p, f)", Rule: "MI.DEDUP", Expect: "Add"},
			{Name: "a mesh operation deletes faces behind the index", File: "model3d/mesh_ops.go",
				Old: "func (m *Mesh) Blur(", New: "func (m *Mesh) dropFace(t *Triangle) {\n\tdelete(m.faces, t)\n}\n\nfunc (m *Mesh) Blur(", Rule: "MI.WRITERS", Expect: "dropFace"},
			{Name: "mcSearch moves vertices without resetting the vertex index", File: "model3d/mc.go",
				Old: "\tmesh.vertexToFace = atomic.Value{}\n", New: "\t_ = atomic.Value{}\n", Rule: "MI.INPLACE", Expect: "mcSearch"},
			{Name: "FlattenBase leaves the old key in the index", File: "model3d/mesh_ops.go",
				Old: "\t\tv2t.Store(newC, merged)\n\t\tv2t.Delete(c)\n", New: "\t\tv2t.Store(newC, merged)\n", Rule: "MI.INPLACE", Expect: "FlattenBase"},
		},
		Run: func(c *Ctx) {
			pkgs := append(c.libPkgs()[:2:2], c.fixturePkg("fm"))
			c.runFastMaps("FM", pkgs)
			c.floor("FM.MODE", 150)
			c.floor("FM.COLLIDE", 36)
			c.floor("FM.HASH", 36)
			c.floor("FM.SWITCH", 24)
			c.runHashCongruence("FM.ZERO", c.libPkgs()[:2])
			c.floor("FM.ZERO", 2)
			c.runMeshRules("MI", "model3d")
			c.runMeshRules("MI", "model2d")
			// bounds of the face set: the "nothing seen yet" flag is cleared where the first vertex is taken
			c.runFirstFlag("FIRSTFLAG", append(c.libPkgs()[:2:2], c.fixturePkg("g")), c.fileFilter("mesh.go"))
			c.floor("FIRSTFLAG", 2)
			c.floor("MI.WRITERS", 5)
			c.floor("MI.OWNER", 2)
			c.floor("MI.DEDUP", 2)
			c.floor("MI.RECV", 20)
			c.runInPlace("MI.INPLACE", "model3d", nil)
			c.runInPlace("MI.INPLACE", "model2d", nil)
			c.runInPlace("MI.INPLACE", "model3d", c.fixturePkg("fm"))
			c.floor("MI.INPLACE", 4)
			c.runIndexPatch("MI.PATCH", c.libPkgs()[:2])
			c.floor("MI.PATCH", 2)
		},
	})
}
