package main

func init() {
	register("C01", &propInfo{
		Explanation: "A1: the literal topology tables are read from the typed AST and decided exhaustively: the two generating rotations are orientation-preserving cube symmetries generating 24 rotations; the 23 base cases have pairwise disjoint orbits covering all 256 configurations; in every case each triangle vertex lies on a sign-changing cube edge and every such edge is used, interior edges cancel, boundary segments lie in cube faces with the inside corner on the inner side; for all 256 configurations x 6 faces the segments on a face depend only on the face's corner bits and are reversed in the neighbour (all two-cell adjacencies); for all sign-changing assignments of the 18 corners around a lattice edge (3 axes) the triangles at the edge vertex form one closed fan. A1.MS: the same for the 16 marching-squares cases (literal cases + complement rule): coverage, sign-changing edges used exactly once, orientation, and in/out agreement across shared cell edges. WRONGVAR: no callback ignores the object it is handed while working on a captured object of the same type (each piece of a block is meshed once). A1.BOX: the six quads of NewMeshRect and RectSet.ExactMesh with AddQuad's split give 12 triangles whose directed edges cancel pairwise with signed volume +1.",
		Trusted:     []string{"go/types constant evaluation of the literals", "the model of the ~40 lines that expand the tables (allMcRotations' closure and sort, mcLookupTable's first-wins fill, Compose/ApplyTriangle/ApplyIntersections, mcTriangle.Triangle's midpoints); each modelled function is resolved on every run"},
		Assumptions: []string{"the lattice scan hands each cell its true corner bits (run-time indexing in Scan/GetCube is not analysed)"},
		Exhaustive:  true,
		Fixtures:    []string{"s", "b"},
		SelfTest: []Mutation{
			{Name: "downsampled image addressed with its height as the row length", File: "render3d/image.go",
				Old: "out.Data[i1*out.Width+j]", New: "out.Data[i1*out.Height+j]", Rule: "ROWMAJOR", Expect: "Downsample"},
			{Name: "single-corner case wound the other way", File: "model3d/mc.go",
				Old: "\tnewMcIntersections(0): {\n\t\t{0, 1, 0, 2, 0, 4},\n\t},", New: "\tnewMcIntersections(0): {\n\t\t{0, 2, 0, 1, 0, 4},\n\t},", Rule: "A1.ORIENT", Expect: "case 00000001"},
			{Name: "one triangle of the two-corner case removed", File: "model3d/mc.go",
				Old: "\t\t{0, 4, 1, 5, 0, 2},\n\t\t{1, 5, 1, 3, 0, 2},\n\t},\n\tnewMcIntersections(0, 5): {", New: "\t\t{0, 4, 1, 5, 0, 2},\n\t},\n\tnewMcIntersections(0, 5): {", Rule: "A1.EDGES", Expect: "case 00000011"},
			{Name: "a vertex on a cube diagonal", File: "model3d/mc.go",
				Old: "\tnewMcIntersections(0, 1, 2, 3): {\n\t\t{0, 4, 1, 5, 3, 7},", New: "\tnewMcIntersections(0, 1, 2, 3): {\n\t\t{0, 4, 1, 5, 0, 7},", Rule: "A1.EDGES", Expect: "case 00001111"},
			{Name: "generator is a reflection", File: "model3d/mc.go",
				Old: "xRotation := mcRotation{2, 3, 6, 7, 0, 1, 4, 5}", New: "xRotation := mcRotation{1, 0, 3, 2, 5, 4, 7, 6}", Rule: "A1.GROUP", Expect: "generator#2"},
			{Name: "a base case listed twice in two orientations", File: "model3d/mc.go",
				Old: "\tnewMcIntersections(0): {\n\t\t{0, 1, 0, 2, 0, 4},\n\t},", New: "\tnewMcIntersections(0): {\n\t\t{0, 1, 0, 2, 0, 4},\n\t},\n\tnewMcIntersections(1): {\n\t\t{1, 3, 0, 1, 1, 5},\n\t},", Rule: "A1.ORBIT", Expect: "orbits"},
			{Name: "square case triangulated along the other diagonal (valid)", File: "model3d/mc.go",
				Old: "\t\t{0, 4, 1, 5, 3, 7},\n\t\t{0, 4, 3, 7, 2, 6},", New: "\t\t{0, 4, 1, 5, 2, 6},\n\t\t{1, 5, 3, 7, 2, 6},", Clean: true},
			{Name: "triangles of a case listed in another order with rotated start vertices (valid)", File: "model3d/mc.go",
				Old: "\t\t{0, 4, 1, 5, 0, 2},\n\t\t{1, 5, 1, 3, 0, 2},\n\t},\n\tnewMcIntersections(0, 5): {", New: "\t\t{1, 3, 0, 2, 1, 5},\n\t\t{1, 5, 0, 2, 0, 4},\n\t},\n\tnewMcIntersections(0, 5): {", Clean: true},
			{Name: "2D ambiguous case leaves a hole", File: "model2d/marching.go",
				Old: "newMsIntersections(0, 3): {{0, 2, 0, 1}, {1, 3, 2, 3}},", New: "newMsIntersections(0, 3): {{0, 2, 0, 1}},", Rule: "A1.MS", Expect: "case 1001"},
			{Name: "2D corner case traversed the other way", File: "model2d/marching.go",
				Old: "newMsIntersections(1):    {{0, 1, 1, 3}},", New: "newMsIntersections(1):    {{1, 3, 0, 1}},", Rule: "A1.MS", Expect: "case 0010"},
			{Name: "a box face wound inwards", File: "model3d/mesh.go",
				Old: "mesh.AddQuad(max, point(1, 1, 0), point(0, 1, 0), point(0, 1, 1))", New: "mesh.AddQuad(max, point(0, 1, 1), point(0, 1, 0), point(1, 1, 0))", Rule: "A1.BOX", Expect: "NewMeshRect"},
			{Name: "AddQuad splits along the wrong diagonal", File: "model3d/mesh.go",
				Old: "\t\t{p1, p2, p4},\n\t\t{p2, p3, p4},", New: "\t\t{p1, p2, p4},\n\t\t{p1, p3, p4},", Rule: "A1.BOX", Expect: "box"},
			{Name: "worker meshes the queued block instead of the piece it is handed", File: "model3d/mc.go",
				Old: "block.Pieces(subDivideVolume, blockFilter, func(block *mcBlock) {", New: "block.Pieces(subDivideVolume, blockFilter, func(piece *mcBlock) {", Rule: "WRONGVAR", Expect: "MarchingCubesFilter"},
			{Name: "torus inner index wrapped with the outer count", File: "model3d/mesh.go",
				Old: "theta := float64(innerIndex%innerStops) * math.Pi * 2 / float64(innerStops)", New: "theta := float64(innerIndex%outerStops) * math.Pi * 2 / float64(innerStops)", Rule: "MODFRAC", Expect: "NewMeshTorus"},
			{Name: "two-corner quad split with a flipped triangle", File: "model3d/mc.go",
				Old: "\t\t{0, 4, 1, 5, 0, 2},\n\t\t{1, 5, 1, 3, 0, 2},\n\t},\n\tnewMcIntersections(0, 5): {", New: "\t\t{0, 4, 1, 5, 0, 2},\n\t\t{1, 3, 1, 5, 0, 2},\n\t},\n\tnewMcIntersections(0, 5): {", Rule: "A1.CLOSED", Expect: "case 00000011"},
		},
		Run: func(c *Ctx) {
			c.runMarchingCubesTable("A1")
			c.floor("A1.GROUP", 3)
			c.floor("A1.ORBIT", 1)
			c.floor("A1.EDGES", 23)
			c.floor("A1.CLOSED", 23)
			c.floor("A1.ORIENT", 23)
			c.floor("A1.FACES", 48)
			c.floor("A1.PINCH", 1)
			c.runMarchingSquaresTable("A1")
			c.floor("A1.MS", 21)
			c.runBoxTables("A1")
			c.floor("A1.BOX", 0)
			c.runWrongVar("WRONGVAR", c.libPkgs()[:3], nil)
			c.floor("WRONGVAR", 2)
			c.runModFrac("MODFRAC", append(c.libPkgs()[:3:3], c.fixturePkg("s")))
			c.floor("MODFRAC", 0)
			c.runCanonFirstFiles("CANON", c.libPkgs()[:1], baseIn("mesh.go"))
			c.floor("CANON", 0)
			c.runRowMajor("ROWMAJOR", append(c.libPkgs(), c.fixturePkg("s")), nil)
			c.floor("ROWMAJOR", 0)
		},
	})
}
