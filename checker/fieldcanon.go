package main

// FIELDCANON — a vector field that one method of a type reads only through
// `.Normalize()` (the caller may supply any length: Teardrop2D.Direction,
// Torus.Axis ...) is a direction, not a displacement: every other geometric
// use of the field in methods of the same type (Scale, Add, Dot, passing it
// on) must go through Normalize() too — otherwise bounds and membership are
// computed from different vectors. Exempt: comparison with the zero value,
// Norm()/NormSquared(), copying the field into another value of the same type,
// and OrthoBasis() (which normalises).

import (
	"go/ast"
	"go/types"
	"sort"

	"golang.org/x/tools/go/packages"
)

func (c *Ctx) runFieldCanon(rule string, pkgs []*packages.Package) {
	for _, p := range pkgs {
		if p == nil {
			continue
		}
		info := p.TypesInfo
		type use struct {
			pos        ast.Node
			normalized bool
			exempt     bool
			fn         string
		}
		uses := map[*types.Var][]use{}
		for _, file := range p.Syntax {
			for _, d := range file.Decls {
				fd, ok := d.(*ast.FuncDecl)
				if !ok || fd.Body == nil || fd.Recv == nil || len(fd.Recv.List) != 1 || len(fd.Recv.List[0].Names) != 1 {
					continue
				}
				recvObj := info.Defs[fd.Recv.List[0].Names[0]]
				if recvObj == nil {
					continue
				}
				fobj, _ := info.Defs[fd.Name].(*types.Func)
				// local aliases: x := t.F
				alias := map[types.Object]*types.Var{}
				ast.Inspect(fd.Body, func(n ast.Node) bool {
					as, ok := n.(*ast.AssignStmt)
					if !ok || len(as.Lhs) != len(as.Rhs) {
						return true
					}
					for i, r := range as.Rhs {
						sel, ok := r.(*ast.SelectorExpr)
						if !ok {
							continue
						}
						id, ok := sel.X.(*ast.Ident)
						if !ok || info.Uses[id] != recvObj {
							continue
						}
						f, ok := info.Uses[sel.Sel].(*types.Var)
						if !ok || !f.IsField() || !isCoordType(f.Type()) {
							continue
						}
						if l, ok := as.Lhs[i].(*ast.Ident); ok {
							if o := info.Defs[l]; o != nil {
								alias[o] = f
							}
						}
					}
					return true
				})
				scaleSensitive := map[string]bool{"Scale": true, "Add": true, "Sub": true, "Dot": true, "Mul": true, "Div": true, "AddScalar": true}
				var stack []ast.Node
				ast.Inspect(fd.Body, func(n ast.Node) bool {
					if n == nil {
						stack = stack[:len(stack)-1]
						return true
					}
					stack = append(stack, n)
					var f *types.Var
					switch x := n.(type) {
					case *ast.SelectorExpr:
						id, ok := x.X.(*ast.Ident)
						if !ok || info.Uses[id] != recvObj {
							return true
						}
						f, _ = info.Uses[x.Sel].(*types.Var)
						if f == nil || !f.IsField() || !isCoordType(f.Type()) {
							return true
						}
					case *ast.Ident:
						f = alias[info.Uses[x]]
						if f == nil {
							return true
						}
					default:
						return true
					}
					u := use{pos: n, fn: objName(fobj), exempt: true}
					if len(stack) >= 2 {
						switch par := stack[len(stack)-2].(type) {
						case *ast.SelectorExpr:
							// F.Method(...): F is the receiver
							if par.X == n {
								switch {
								case par.Sel.Name == "Normalize":
									u.normalized, u.exempt = true, false
								case scaleSensitive[par.Sel.Name]:
									u.exempt = false
								}
							}
						case *ast.CallExpr:
							// v.Add(F), v.Dot(F): F is an argument of a scale-sensitive vocabulary call
							if sel, ok := par.Fun.(*ast.SelectorExpr); ok && scaleSensitive[sel.Sel.Name] && sel.Sel.Name != "Scale" {
								for _, a := range par.Args {
									if a == n {
										u.exempt = false
									}
								}
							}
						}
					}
					uses[f] = append(uses[f], u)
					return true
				})
			}
		}
		var fields []*types.Var
		for f, us := range uses {
			anyNorm := false
			for _, u := range us {
				if u.normalized {
					anyNorm = true
				}
			}
			if anyNorm {
				fields = append(fields, f)
			}
		}
		sort.Slice(fields, func(i, j int) bool { return fields[i].Pos() < fields[j].Pos() })
		for _, f := range fields {
			n := 0
			for _, u := range uses[f] {
				if u.exempt {
					continue
				}
				n++
				c.analysed(u.fn)
				key := u.fn + " use#" + itoa(n) + " of direction field " + f.Name()
				if u.normalized {
					c.ok(rule, key, u.pos.Pos(), "read through Normalize()")
				} else {
					c.bad(rule, key, u.pos.Pos(), "the field "+f.Name()+" is normalised where other methods of the type use it (callers may pass any length), but is used raw here: this method works with a different vector")
				}
			}
		}
	}
}
