package main

// A7 — small structural rules on go/ssa.

import (
	"fmt"
	"go/token"
	"go/types"
	"math"
	"sort"

	"golang.org/x/tools/go/packages"
	"golang.org/x/tools/go/ssa"
)

// ---------------------------------------------------------------------------
// CB — contradiction: a branch condition "x op const" that can never be true
// under the integer constraints its dominating branches already put on the
// same x. The guarded code is dead although its author believed it reachable
// (Engler et al.: contradictory beliefs).

type interval struct{ lo, hi int64 }

func (iv interval) empty() bool { return iv.lo > iv.hi }

func constrain(iv interval, op token.Token, k int64, taken bool) interval {
	if !taken {
		op = map[token.Token]token.Token{token.LSS: token.GEQ, token.LEQ: token.GTR, token.GTR: token.LEQ,
			token.GEQ: token.LSS, token.EQL: token.NEQ, token.NEQ: token.EQL}[op]
	}
	switch op {
	case token.LSS:
		if k-1 < iv.hi {
			iv.hi = k - 1
		}
	case token.LEQ:
		if k < iv.hi {
			iv.hi = k
		}
	case token.GTR:
		if k+1 > iv.lo {
			iv.lo = k + 1
		}
	case token.GEQ:
		if k > iv.lo {
			iv.lo = k
		}
	case token.EQL:
		if k > iv.lo {
			iv.lo = k
		}
		if k < iv.hi {
			iv.hi = k
		}
	case token.NEQ:
		if iv.lo == k {
			iv.lo++
		}
		if iv.hi == k {
			iv.hi--
		}
	}
	return iv
}

// intCmp decomposes "x op const" for an integer x.
func intCmp(v ssa.Value) (x ssa.Value, op token.Token, k int64, ok bool) {
	be, isB := v.(*ssa.BinOp)
	if !isB {
		return
	}
	switch be.Op {
	case token.LSS, token.LEQ, token.GTR, token.GEQ, token.EQL, token.NEQ:
	default:
		return
	}
	if !isIntType(be.X.Type()) {
		return
	}
	if kk, isC := constInt(be.Y); isC {
		return be.X, be.Op, kk, true
	}
	if kk, isC := constInt(be.X); isC {
		flip := map[token.Token]token.Token{token.LSS: token.GTR, token.GTR: token.LSS, token.LEQ: token.GEQ,
			token.GEQ: token.LEQ, token.EQL: token.EQL, token.NEQ: token.NEQ}
		return be.Y, flip[be.Op], kk, true
	}
	return
}

func (c *Ctx) runContradiction(rule string, pkgs []*packages.Package, filter func(fn *ssa.Function) bool) {
	for _, p := range pkgs {
		if p == nil {
			continue
		}
		for _, fn := range c.srcFuncs(p) {
			if filter != nil && !filter(fn) {
				continue
			}
			c.analysed(qname(fn))
			n := 0
			for _, b := range fn.Blocks {
				if len(b.Instrs) == 0 {
					continue
				}
				ifi, ok := b.Instrs[len(b.Instrs)-1].(*ssa.If)
				if !ok {
					continue
				}
				x, op, k, ok := intCmp(ifi.Cond)
				if !ok {
					continue
				}
				iv := interval{math.MinInt64 / 2, math.MaxInt64 / 2}
				nFacts := 0
				for _, f := range factsAt(b) {
					fx, fop, fk, ok := intCmp(f.cond)
					if !ok || fx != x {
						continue
					}
					iv = constrain(iv, fop, fk, f.taken)
					nFacts++
				}
				if nFacts == 0 {
					continue
				}
				n++
				key := fmt.Sprintf("%s nested-test#%d", qname(fn), n)
				pos := ifi.Cond.Pos()
				if !pos.IsValid() {
					pos = firstPos(b)
				}
				if constrain(iv, op, k, true).empty() {
					c.bad(rule, key, pos, fmt.Sprintf("the condition can never hold here: the enclosing branches already imply %s in [%s, %s]; the guarded code is dead although it was written to run", x.Name(), ivs(iv.lo), ivs(iv.hi)))
				} else {
					c.ok(rule, key, pos, "satisfiable under the enclosing conditions")
				}
			}
		}
	}
}

func ivs(v int64) string {
	if v <= math.MinInt64/2 {
		return "-inf"
	}
	if v >= math.MaxInt64/2 {
		return "+inf"
	}
	return fmt.Sprint(v)
}

// ---------------------------------------------------------------------------
// CS — complementary split: when a function cuts a sequence into a prefix
// x[:k] and a suffix x[k':], k and k' are the same value (no element dropped
// or duplicated), and parallel sequences cut for the same call use the same k.

func (c *Ctx) runComplementarySplit(rule string, pkgs []*packages.Package, filter func(fn *ssa.Function) bool) {
	for _, p := range pkgs {
		if p == nil {
			continue
		}
		for _, fn := range c.srcFuncs(p) {
			if filter != nil && !filter(fn) {
				continue
			}
			type cut struct {
				ins    *ssa.Slice
				bound  ssa.Value
				prefix bool
			}
			var cuts []cut
			for _, b := range fn.Blocks {
				for _, ins := range b.Instrs {
					sl, ok := ins.(*ssa.Slice)
					if !ok || sl.Max != nil {
						continue
					}
					if _, isSl := sl.X.Type().Underlying().(*types.Slice); !isSl {
						continue
					}
					switch {
					case sl.Low == nil && sl.High != nil:
						if _, isC := sl.High.(*ssa.Const); !isC {
							cuts = append(cuts, cut{sl, sl.High, true})
						}
					case sl.Low != nil && sl.High == nil:
						if _, isC := sl.Low.(*ssa.Const); !isC {
							cuts = append(cuts, cut{sl, sl.Low, false})
						}
					}
				}
			}
			// group by base
			type group struct {
				base ssa.Value
				cuts []cut
			}
			var groups []*group
			for _, ct := range cuts {
				var g *group
				for _, gg := range groups {
					if sameSeq(gg.base, ct.ins.X) {
						g = gg
					}
				}
				if g == nil {
					g = &group{base: ct.ins.X}
					groups = append(groups, g)
				}
				g.cuts = append(g.cuts, ct)
			}
			n := 0
			var splitBounds []ssa.Value
			for _, g := range groups {
				hasP, hasS := false, false
				for _, ct := range g.cuts {
					if ct.prefix {
						hasP = true
					} else {
						hasS = true
					}
				}
				if !hasP || !hasS {
					continue // a shift (copy(s[i+1:], s[i:])) or a single cut: not a split
				}
				c.analysed(qname(fn))
				n++
				key := fmt.Sprintf("%s split#%d of %s", qname(fn), n, describeValue(g.base))
				first := g.cuts[0].bound
				bad := false
				for _, ct := range g.cuts[1:] {
					if !equivValue(ct.bound, first, 0) {
						bad = true
						c.bad(rule, key, ct.ins.Pos(), fmt.Sprintf("the sequence is cut at %s for one half and at %s for the other: elements are dropped or duplicated", first.Name(), ct.bound.Name()))
						break
					}
				}
				if !bad {
					c.ok(rule, key, g.cuts[0].ins.Pos(), "prefix and suffix are cut at the same index "+first.Name())
					splitBounds = append(splitBounds, first)
				}
			}
			// parallel sequences: all splits of one function use one index
			if len(splitBounds) > 1 {
				key := fmt.Sprintf("%s parallel splits", qname(fn))
				same := true
				for _, b := range splitBounds[1:] {
					if !equivValue(b, splitBounds[0], 0) {
						same = false
					}
				}
				if same {
					c.ok(rule, key, fn.Pos(), fmt.Sprintf("%d parallel sequences are cut at the same index", len(splitBounds)))
				} else {
					c.bad(rule, key, fn.Pos(), "parallel sequences (e.g. objects and their indices) are cut at different indices")
				}
			}
		}
	}
}

// equivValue: the same SSA value or the same pure expression recomputed
// (go/ssa performs no common-subexpression elimination).
func equivValue(a, b ssa.Value, depth int) bool {
	if a == b || sameValue(a, b) {
		return true
	}
	if depth > 6 {
		return false
	}
	if sameConst(a, b) {
		return true
	}
	switch x := a.(type) {
	case *ssa.BinOp:
		y, ok := b.(*ssa.BinOp)
		return ok && x.Op == y.Op && equivValue(x.X, y.X, depth+1) && equivValue(x.Y, y.Y, depth+1)
	case *ssa.Call:
		y, ok := b.(*ssa.Call)
		if !ok {
			return false
		}
		bx, ok1 := x.Call.Value.(*ssa.Builtin)
		by, ok2 := y.Call.Value.(*ssa.Builtin)
		if ok1 && ok2 && bx.Name() == by.Name() && (bx.Name() == "len" || bx.Name() == "cap") {
			return equivValue(x.Call.Args[0], y.Call.Args[0], depth+1) || sameSeq(x.Call.Args[0], y.Call.Args[0])
		}
	case *ssa.Convert:
		y, ok := b.(*ssa.Convert)
		return ok && equivValue(x.X, y.X, depth+1)
	}
	return false
}

// sameSeq: the same sequence value, looking through re-loads and re-indexing
// of the same array-of-slices element.
func sameSeq(a, b ssa.Value) bool {
	if a == b || sameValue(a, b) {
		return true
	}
	ua, ok1 := a.(*ssa.UnOp)
	ub, ok2 := b.(*ssa.UnOp)
	if ok1 && ok2 && ua.Op == token.MUL && ub.Op == token.MUL {
		ia, ok1 := ua.X.(*ssa.IndexAddr)
		ib, ok2 := ub.X.(*ssa.IndexAddr)
		if ok1 && ok2 {
			return ia.X == ib.X && (ia.Index == ib.Index || sameConst(ia.Index, ib.Index))
		}
	}
	ia, ok1 := a.(*ssa.Index)
	ib, ok2 := b.(*ssa.Index)
	if ok1 && ok2 {
		return sameSeq(ia.X, ib.X) && (ia.Index == ib.Index || sameConst(ia.Index, ib.Index))
	}
	return false
}

func sameConst(a, b ssa.Value) bool {
	ka, ok1 := constInt(a)
	kb, ok2 := constInt(b)
	return ok1 && ok2 && ka == kb
}

// ---------------------------------------------------------------------------
// SHIFT — a best-two tracker must save the old best before overwriting it:
// in one block, "slot[1] = slot[0]" has to read slot[0] BEFORE "slot[0] = new".
// (Written the other way round both slots receive the new value.)

func (c *Ctx) runShiftOrder(rule string, pkgs []*packages.Package, filter func(fn *ssa.Function) bool) {
	for _, p := range pkgs {
		if p == nil {
			continue
		}
		for _, fn := range c.srcFuncs(p) {
			if filter != nil && !filter(fn) {
				continue
			}
			n := 0
			for _, b := range fn.Blocks {
				// stores to element k of a small local array
				type st struct {
					idx   int
					arr   ssa.Value
					k     int64
					store *ssa.Store
				}
				var stores []st
				for i, ins := range b.Instrs {
					s, ok := ins.(*ssa.Store)
					if !ok {
						continue
					}
					ia, ok := s.Addr.(*ssa.IndexAddr)
					if !ok {
						continue
					}
					k, ok := constInt(ia.Index)
					if !ok {
						continue
					}
					if pt, ok := ia.X.Type().Underlying().(*types.Pointer); ok {
						if at, ok := pt.Elem().Underlying().(*types.Array); ok && at.Len() <= 4 {
							stores = append(stores, st{i, ia.X, k, s})
						}
					}
				}
				for _, s1 := range stores {
					// s1: slot[j] = load(slot[i]) with i != j
					ld, ok := s1.store.Val.(*ssa.UnOp)
					if !ok || ld.Op != token.MUL {
						continue
					}
					la, ok := ld.X.(*ssa.IndexAddr)
					if !ok || la.X != s1.arr {
						continue
					}
					li, ok := constInt(la.Index)
					if !ok || li == s1.k {
						continue
					}
					// is slot[li] also stored in this block?
					for _, s0 := range stores {
						if s0.arr != s1.arr || s0.k != li || s0.store == s1.store {
							continue
						}
						n++
						c.analysed(qname(fn))
						key := fmt.Sprintf("%s shift#%d slot[%d]<-slot[%d]", qname(fn), n, s1.k, li)
						loadPos := instrIndex(b, ld)
						if loadPos > s0.idx {
							c.bad(rule, key, s1.store.Pos(), fmt.Sprintf("slot[%d] is overwritten before its old value is copied to slot[%d]: both slots end up with the new value and the previous best is lost", li, s1.k))
						} else {
							c.ok(rule, key, s1.store.Pos(), "the old value is read before the slot is overwritten")
						}
					}
				}
			}
		}
	}
}

// ---------------------------------------------------------------------------
// ALLCHILD — a conversion of a tree node visits every child: when a function
// ranges over a slice field of its parameter and recurses on the elements, it
// must not index that field with constants instead (children beyond the
// constant arity would be dropped).

func (c *Ctx) runSortedKeys() {}

var _ = sort.Strings

// ---------------------------------------------------------------------------
// FILL — an output slice allocated with make([]T, n) and filled by index in a
// counted loop receives an element on EVERY path through the loop body that
// reaches the next iteration (a path that skips the store silently leaves the
// zero value — e.g. a vertex moved to the origin).

func (c *Ctx) runFill(rule string, pkgs []*packages.Package, filter func(fn *ssa.Function) bool) {
	for _, p := range pkgs {
		if p == nil {
			continue
		}
		for _, fn := range c.srcFuncs(p) {
			if filter != nil && !filter(fn) {
				continue
			}
			loops := naturalLoops(fn)
			n := 0
			for h, body := range loops {
				// stores out[iv] = ... in the loop where out is a MakeSlice
				// outside the loop and iv the loop's induction variable
				type target struct {
					out ssa.Value
					iv  ssa.Value
				}
				stores := map[target][]*ssa.Store{}
				for b := range body {
					for _, ins := range b.Instrs {
						st, ok := ins.(*ssa.Store)
						if !ok {
							continue
						}
						ia, ok := st.Addr.(*ssa.IndexAddr)
						if !ok {
							continue
						}
						mk := madeSlice(fn, ia.X)
						if mk == nil || body[mk.Block()] {
							continue
						}
						if !isInduction(ia.Index, h, body) {
							continue
						}
						t := target{mk, ia.Index}
						stores[t] = append(stores[t], st)
					}
				}
				for t, sts := range stores {
					n++
					c.analysed(qname(fn))
					key := fmt.Sprintf("%s fill#%d of %s", qname(fn), n, t.out.Name())
					// can a back edge be reached from the header without passing a store block?
					storeBlocks := map[*ssa.BasicBlock]bool{}
					for _, st := range sts {
						storeBlocks[st.Block()] = true
					}
					skipped := false
					seen := map[*ssa.BasicBlock]bool{}
					var walk func(b *ssa.BasicBlock)
					walk = func(b *ssa.BasicBlock) {
						if seen[b] || storeBlocks[b] {
							return
						}
						seen[b] = true
						for _, s := range b.Succs {
							if s == h {
								if b != h {
									skipped = true
								}
								continue
							}
							if body[s] {
								walk(s)
							}
						}
					}
					// start from the body entry (successors of the header inside the loop)
					seen[h] = true
					for _, s := range h.Succs {
						if body[s] {
							walk(s)
						}
					}
					if skipped {
						c.bad(rule, key, sts[0].Pos(), "some path through the loop body reaches the next iteration without storing the element: that entry of the freshly made output keeps its zero value")
					} else {
						c.ok(rule, key, sts[0].Pos(), "every iteration stores its element")
					}
				}
			}
		}
	}
}

// madeSlice: v is a make([]T, n) of this function, directly or through a field
// of a local object the slice was stored into (m.table = make(...); m.table[i]).
func madeSlice(fn *ssa.Function, v ssa.Value) *ssa.MakeSlice {
	if mk, ok := v.(*ssa.MakeSlice); ok {
		return mk
	}
	ld, ok := v.(*ssa.UnOp)
	if !ok || ld.Op != token.MUL {
		return nil
	}
	fa, ok := ld.X.(*ssa.FieldAddr)
	if !ok {
		return nil
	}
	var found *ssa.MakeSlice
	for _, b := range fn.Blocks {
		for _, ins := range b.Instrs {
			st, ok := ins.(*ssa.Store)
			if !ok {
				continue
			}
			fa2, ok := st.Addr.(*ssa.FieldAddr)
			if !ok || fa2.Field != fa.Field || !(fa2.X == fa.X || sameValue(fa2.X, fa.X)) {
				continue
			}
			mk, isMk := st.Val.(*ssa.MakeSlice)
			if !isMk || found != nil {
				return nil // stored something else, or more than once
			}
			found = mk
		}
	}
	return found
}

// isInduction: v is the loop's index (phi of the header, or phi+const for
// range loops).
func isInduction(v ssa.Value, h *ssa.BasicBlock, body map[*ssa.BasicBlock]bool) bool {
	if bo, ok := v.(*ssa.BinOp); ok && bo.Op == token.ADD {
		if _, isC := bo.Y.(*ssa.Const); isC {
			v = bo.X
		}
	}
	phi, ok := v.(*ssa.Phi)
	return ok && phi.Block() == h
}

// ---------------------------------------------------------------------------
// KEEP — the decimation criteria consult the keep-filter before they allow a
// removal: no "true" is returned on a path that neither saw FilterFunc == nil
// nor a true answer of FilterFunc.

func (c *Ctx) runKeepFilter(rule string, pkgShort, ifaceName, method, filterField string) {
	p := c.pkg(pkgShort)
	if p == nil {
		return
	}
	tn, _ := p.Types.Scope().Lookup(ifaceName).(*types.TypeName)
	if tn == nil {
		c.problem("unresolved anchor: %s.%s", pkgShort, ifaceName)
		return
	}
	it, ok := tn.Type().Underlying().(*types.Interface)
	if !ok {
		c.problem("%s.%s is not an interface", pkgShort, ifaceName)
		return
	}
	scope := p.Types.Scope()
	for _, n := range scope.Names() {
		tn2, ok := scope.Lookup(n).(*types.TypeName)
		if !ok {
			continue
		}
		named, ok := tn2.Type().(*types.Named)
		if !ok {
			continue
		}
		if _, isI := named.Underlying().(*types.Interface); isI {
			continue
		}
		ptr := types.NewPointer(named)
		if !types.Implements(ptr, it) && !types.Implements(named, it) {
			continue
		}
		obj, _, _ := types.LookupFieldOrMethod(ptr, true, p.Types, method)
		f, _ := obj.(*types.Func)
		fn := c.ssaFunc(f)
		if fn == nil || fn.Blocks == nil {
			continue
		}
		c.analysed(qname(fn))
		key := fmt.Sprintf("%s.%s.%s consults %s", pkgShort, n, method, filterField)
		// edges that establish "filter absent" or "filter said keep-able (true)"
		type edge struct{ from, to *ssa.BasicBlock }
		isFilterLoad := func(v ssa.Value) bool {
			u, ok := v.(*ssa.UnOp)
			if !ok || u.Op != token.MUL {
				return false
			}
			fa, ok := u.X.(*ssa.FieldAddr)
			return ok && fieldOf(fa) != nil && fieldOf(fa).Name() == filterField
		}
		// analyse(f): does f consult the filter, and where can it return
		// something other than false without having passed an allowed edge?
		// A true answer of a predicate helper that itself passes this analysis
		// (passesFilter() = FilterFunc == nil || FilterFunc(..)) is an allowed edge.
		var analyse func(f *ssa.Function, depth int) (consults bool, bad string)
		analyse = func(f *ssa.Function, depth int) (bool, string) {
			allowed := map[edge]bool{}
			for _, b := range f.Blocks {
				if len(b.Instrs) == 0 {
					continue
				}
				ifi, ok := b.Instrs[len(b.Instrs)-1].(*ssa.If)
				if !ok || len(b.Succs) != 2 {
					continue
				}
				cond, neg := ifi.Cond, false
				if un, ok := cond.(*ssa.UnOp); ok && un.Op == token.NOT {
					cond, neg = un.X, true
				}
				if be, ok := cond.(*ssa.BinOp); ok && (be.Op == token.NEQ || be.Op == token.EQL) {
					if (isFilterLoad(be.X) && isNilConst(be.Y)) || (isFilterLoad(be.Y) && isNilConst(be.X)) {
						nilEdge := 1 // != nil false
						if be.Op == token.EQL {
							nilEdge = 0
						}
						if neg {
							nilEdge = 1 - nilEdge
						}
						allowed[edge{b, b.Succs[nilEdge]}] = true
					}
				}
				if call, ok := cond.(*ssa.Call); ok {
					trueEdge := 0
					if neg {
						trueEdge = 1
					}
					if isFilterLoad(call.Call.Value) {
						allowed[edge{b, b.Succs[trueEdge]}] = true
					} else if h := call.Call.StaticCallee(); h != nil && h.Blocks != nil && h.Pkg == f.Pkg && depth < 2 && h != f {
						if isBool(h.Signature.Results()) {
							if hc, hbad := analyse(h, depth+1); hc && hbad == "" {
								allowed[edge{b, b.Succs[trueEdge]}] = true
							}
						}
					}
				}
			}
			if len(allowed) == 0 {
				return false, ""
			}
			bad := ""
			var rets []*ssa.Return
			seen := map[*ssa.BasicBlock]bool{}
			stack := []*ssa.BasicBlock{f.Blocks[0]}
			for len(stack) > 0 {
				b := stack[len(stack)-1]
				stack = stack[:len(stack)-1]
				if seen[b] {
					continue
				}
				seen[b] = true
				if ret, ok := b.Instrs[len(b.Instrs)-1].(*ssa.Return); ok && len(ret.Results) == 1 {
					rets = append(rets, ret)
				}
				for _, s := range b.Succs {
					if !allowed[edge{b, s}] {
						stack = append(stack, s)
					}
				}
			}
			// a reachable return may hand out false, the filter's own answer, or a
			// merge whose other values arrive over allowed edges only
			isFilterAnswer := func(v ssa.Value) bool {
				call, ok := v.(*ssa.Call)
				return ok && isFilterLoad(call.Call.Value)
			}
			for _, ret := range rets {
				r := ret.Results[0]
				if isConstFalse(r) || isFilterAnswer(r) {
					continue
				}
				if phi, isPhi := r.(*ssa.Phi); isPhi && phi.Block() == ret.Block() {
					okAll := true
					for i, e := range phi.Edges {
						p := phi.Block().Preds[i]
						if isConstFalse(e) || isFilterAnswer(e) || !seen[p] || allowed[edge{p, phi.Block()}] {
							continue
						}
						okAll = false
					}
					if okAll {
						continue
					}
				}
				bad = c.pos(ret.Pos())
			}
			return true, bad
		}
		consults, bad := analyse(fn, 0)
		if !consults {
			c.bad(rule, key, fn.Pos(), "the criterion never tests the keep-filter: vertices the caller asked to keep can be removed")
			continue
		}
		if bad == "" {
			c.ok(rule, key, fn.Pos(), "every result other than false lies behind the 'filter absent' or 'filter returned true' edge")
		} else {
			c.bad(rule, key, fn.Pos(), "a removal can be allowed at "+bad+" on a path that bypasses the keep-filter")
		}
	}
}

// GUARDCALL — every call of callee in the package is dominated by a true
// answer of guard (same receiver family).
func (c *Ctx) runGuardedCall(rule, pkgShort, callee, guard string) {
	p := c.pkg(pkgShort)
	if p == nil {
		return
	}
	n := 0
	for _, fn := range c.srcFuncs(p) {
		for _, b := range fn.Blocks {
			for _, ins := range b.Instrs {
				call, ok := ins.(*ssa.Call)
				if !ok || !callsNamed(call, callee) {
					continue
				}
				n++
				c.analysed(qname(fn))
				key := fmt.Sprintf("%s call#%d of %s", qname(fn), n, callee)
				ok2 := false
				for _, f := range factsAt(b) {
					gc, isCall := f.cond.(*ssa.Call)
					if !isCall || !f.taken {
						continue
					}
					name := ""
					if gc.Call.IsInvoke() {
						name = gc.Call.Method.Name()
					} else if sf := gc.Call.StaticCallee(); sf != nil {
						name = sf.Name()
					}
					if name == guard {
						ok2 = true
					}
				}
				if ok2 {
					c.ok(rule, key, call.Pos(), "dominated by "+guard+"(...) == true")
				} else {
					c.bad(rule, key, call.Pos(), callee+" is reached without a dominating true answer of "+guard)
				}
			}
		}
	}
}

// ---------------------------------------------------------------------------
// ALLCHILD — a function that walks a tree node (a struct with a slice of
// pointers to its own type) visits its children through a loop over the whole
// slice; picking children by constant index is accepted only under an exact
// length test (otherwise children beyond the constant arity are dropped).

func (c *Ctx) runAllChildren(rule string, pkgs []*packages.Package, filter func(fn *ssa.Function) bool) {
	childField := func(t types.Type) int {
		pt, ok := t.Underlying().(*types.Pointer)
		if !ok {
			return -1
		}
		st, ok := pt.Elem().Underlying().(*types.Struct)
		if !ok {
			return -1
		}
		for i := 0; i < st.NumFields(); i++ {
			sl, ok := st.Field(i).Type().Underlying().(*types.Slice)
			if !ok {
				continue
			}
			if ep, ok := sl.Elem().Underlying().(*types.Pointer); ok && types.Identical(ep.Elem(), pt.Elem()) {
				return i
			}
		}
		return -1
	}
	for _, p := range pkgs {
		if p == nil {
			continue
		}
		for _, fn := range c.srcFuncs(p) {
			if filter != nil && !filter(fn) {
				continue
			}
			loops := naturalLoops(fn)
			n := 0
			for _, b := range fn.Blocks {
				for _, ins := range b.Instrs {
					ia, ok := ins.(*ssa.IndexAddr)
					if !ok {
						continue
					}
					ld, ok := ia.X.(*ssa.UnOp)
					if !ok || ld.Op != token.MUL {
						continue
					}
					fa, ok := ld.X.(*ssa.FieldAddr)
					if !ok || childField(fa.X.Type()) != fa.Field {
						continue
					}
					n++
					c.analysed(qname(fn))
					key := fmt.Sprintf("%s child#%d of %s", qname(fn), n, fieldOf(fa).Name())
					if k, isC := constInt(ia.Index); isC {
						// exact-length fact?
						exact := false
						for _, f := range factsAt(b) {
							be, ok := f.cond.(*ssa.BinOp)
							if !ok {
								continue
							}
							if isLenOf(be.X, ld) || isLenOf(be.Y, ld) {
								if (be.Op == token.EQL && f.taken) || (be.Op == token.NEQ && !f.taken) {
									exact = true
								}
							}
						}
						if exact {
							c.ok(rule, key, ia.Pos(), fmt.Sprintf("constant child %d under an exact length test", k))
						} else {
							c.bad(rule, key, ia.Pos(), fmt.Sprintf("child %d is picked by constant index without an exact length test: nodes with more children lose the others (and their subtrees)", k))
						}
						continue
					}
					inLoop := false
					for h, body := range loops {
						if !body[b] || !isInduction(ia.Index, h, body) {
							continue
						}
						// the loop must run over the children slice itself:
						// its exit test compares the index with len(children)
						for hb := range body {
							if len(hb.Instrs) == 0 {
								continue
							}
							ifi, ok := hb.Instrs[len(hb.Instrs)-1].(*ssa.If)
							if !ok {
								continue
							}
							if be, ok := ifi.Cond.(*ssa.BinOp); ok && (isLenOf(be.Y, ld) || isLenOf(be.X, ld)) {
								inLoop = true
							}
						}
					}
					if inLoop {
						c.ok(rule, key, ia.Pos(), "children are visited by a loop over the whole slice")
					} else {
						c.bad(rule, key, ia.Pos(), "children are indexed by something other than a loop over the whole children slice (e.g. a loop over a fixed-size result): nodes with more children lose the others")
					}
				}
			}
		}
	}
}

// ---------------------------------------------------------------------------
// CS.RANGE — a block of lattice cells is split into two index ranges that
// meet: the upper bound written into one half and the lower bound written into
// the other half are the same value on the same axis.

func (c *Ctx) runRangeSplit(rule string, pkgShort, typeName, method string) {
	fn := c.ssaFunc(c.mustFunc(pkgShort, typeName+"."+method))
	if fn == nil {
		return
	}
	c.analysed(qname(fn))
	key := fmt.Sprintf("%s.%s.%s halves meet", pkgShort, typeName, method)
	type cut struct {
		arr ssa.Value
		idx ssa.Value
		val ssa.Value
		st  *ssa.Store
	}
	var cuts []cut
	for _, b := range fn.Blocks {
		for _, ins := range b.Instrs {
			st, ok := ins.(*ssa.Store)
			if !ok {
				continue
			}
			ia, ok := st.Addr.(*ssa.IndexAddr)
			if !ok {
				continue
			}
			// a local array (min1[axis] = ...) or an array field of a local
			// struct (lower.max[axis] = ...)
			switch base := ia.X.(type) {
			case *ssa.Alloc:
			case *ssa.FieldAddr:
				if _, isAlloc := base.X.(*ssa.Alloc); !isAlloc {
					continue
				}
			default:
				continue
			}
			if _, isConst := ia.Index.(*ssa.Const); isConst {
				continue
			}
			cuts = append(cuts, cut{ia.X, ia.Index, st.Val, st})
		}
	}
	if len(cuts) != 2 {
		c.problem("%s: expected two axis-indexed bound stores, found %d", key, len(cuts))
		return
	}
	a, b := cuts[0], cuts[1]
	sameIdx := a.idx == b.idx || equivValue(a.idx, b.idx, 0)
	sameVal := a.val == b.val || equivValue(a.val, b.val, 0)
	// b.val = load of a's slot
	if ld, ok := b.val.(*ssa.UnOp); ok && ld.Op == token.MUL {
		if ia, ok := ld.X.(*ssa.IndexAddr); ok && ia.X == a.arr && (ia.Index == a.idx || equivValue(ia.Index, a.idx, 0)) {
			sameVal = true
		}
	}
	switch {
	case a.arr == b.arr || sameAddr(a.arr, b.arr):
		c.bad(rule, key, b.st.Pos(), "both bound stores go to the same array: one half keeps the parent's full range")
	case !sameIdx:
		c.bad(rule, key, b.st.Pos(), "the two halves are cut on different axes")
	case !sameVal:
		c.bad(rule, key, b.st.Pos(), "the upper bound of one half and the lower bound of the other are different values: cells between them are meshed twice or not at all")
	default:
		c.ok(rule, key, a.st.Pos(), "one value is the upper bound of the first half and the lower bound of the second, on the same axis")
	}
}

// isBool: a single boolean result.
func isBool(res *types.Tuple) bool {
	if res.Len() != 1 {
		return false
	}
	b, ok := res.At(0).Type().Underlying().(*types.Basic)
	return ok && b.Info()&types.IsBoolean != 0
}
