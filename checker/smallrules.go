package main

// A7 — small structural rules on go/ssa.

import (
	"fmt"
	"go/token"
	"go/types"
	"math"
	"sort"

	"golang.org/x/tools/go/packages"
	"golang.org/x/tools/go/ssa"
)

// ---------------------------------------------------------------------------
// CB — contradiction: a branch condition "x op const" that can never be true
// under the integer constraints its dominating branches already put on the
// same x. The guarded code is dead although its author believed it reachable
// (Engler et al.: contradictory beliefs).

type interval struct{ lo, hi int64 }

func (iv interval) empty() bool { return iv.lo > iv.hi }

func constrain(iv interval, op token.Token, k int64, taken bool) interval {
	if !taken {
		op = map[token.Token]token.Token{token.LSS: token.GEQ, token.LEQ: token.GTR, token.GTR: token.LEQ,
			token.GEQ: token.LSS, token.EQL: token.NEQ, token.NEQ: token.EQL}[op]
	}
	switch op {
	case token.LSS:
		if k-1 < iv.hi {
			iv.hi = k - 1
		}
	case token.LEQ:
		if k < iv.hi {
			iv.hi = k
		}
	case token.GTR:
		if k+1 > iv.lo {
			iv.lo = k + 1
		}
	case token.GEQ:
		if k > iv.lo {
			iv.lo = k
		}
	case token.EQL:
		if k > iv.lo {
			iv.lo = k
		}
		if k < iv.hi {
			iv.hi = k
		}
	case token.NEQ:
		if iv.lo == k {
			iv.lo++
		}
		if iv.hi == k {
			iv.hi--
		}
	}
	return iv
}

// intCmp decomposes "x op const" for an integer x.
func intCmp(v ssa.Value) (x ssa.Value, op token.Token, k int64, ok bool) {
	be, isB := v.(*ssa.BinOp)
	if !isB {
		return
	}
	switch be.Op {
	case token.LSS, token.LEQ, token.GTR, token.GEQ, token.EQL, token.NEQ:
	default:
		return
	}
	if !isIntType(be.X.Type()) {
		return
	}
	if kk, isC := constInt(be.Y); isC {
		return be.X, be.Op, kk, true
	}
	if kk, isC := constInt(be.X); isC {
		flip := map[token.Token]token.Token{token.LSS: token.GTR, token.GTR: token.LSS, token.LEQ: token.GEQ,
			token.GEQ: token.LEQ, token.EQL: token.EQL, token.NEQ: token.NEQ}
		return be.Y, flip[be.Op], kk, true
	}
	return
}

func (c *Ctx) runContradiction(rule string, pkgs []*packages.Package, filter func(fn *ssa.Function) bool) {
	for _, p := range pkgs {
		if p == nil {
			continue
		}
		for _, fn := range c.srcFuncs(p) {
			if filter != nil && !filter(fn) {
				continue
			}
			c.analysed(qname(fn))
			n := 0
			for _, b := range fn.Blocks {
				if len(b.Instrs) == 0 {
					continue
				}
				ifi, ok := b.Instrs[len(b.Instrs)-1].(*ssa.If)
				if !ok {
					continue
				}
				x, op, k, ok := intCmp(ifi.Cond)
				if !ok {
					continue
				}
				iv := interval{math.MinInt64 / 2, math.MaxInt64 / 2}
				nFacts := 0
				for _, f := range factsAt(b) {
					fx, fop, fk, ok := intCmp(f.cond)
					if !ok || fx != x {
						continue
					}
					iv = constrain(iv, fop, fk, f.taken)
					nFacts++
				}
				if nFacts == 0 {
					continue
				}
				n++
				key := fmt.Sprintf("%s nested-test#%d", qname(fn), n)
				pos := ifi.Cond.Pos()
				if !pos.IsValid() {
					pos = firstPos(b)
				}
				if constrain(iv, op, k, true).empty() {
					c.bad(rule, key, pos, fmt.Sprintf("the condition can never hold here: the enclosing branches already imply %s in [%s, %s]; the guarded code is dead although it was written to run", x.Name(), ivs(iv.lo), ivs(iv.hi)))
				} else {
					c.ok(rule, key, pos, "satisfiable under the enclosing conditions")
				}
			}
		}
	}
}

func ivs(v int64) string {
	if v <= math.MinInt64/2 {
		return "-inf"
	}
	if v >= math.MaxInt64/2 {
		return "+inf"
	}
	return fmt.Sprint(v)
}

// ---------------------------------------------------------------------------
// CS — complementary split: when a function cuts a sequence into a prefix
// x[:k] and a suffix x[k':], k and k' are the same value (no element dropped
// or duplicated), and parallel sequences cut for the same call use the same k.

func (c *Ctx) runComplementarySplit(rule string, pkgs []*packages.Package, filter func(fn *ssa.Function) bool) {
	for _, p := range pkgs {
		if p == nil {
			continue
		}
		for _, fn := range c.srcFuncs(p) {
			if filter != nil && !filter(fn) {
				continue
			}
			type cut struct {
				ins    *ssa.Slice
				bound  ssa.Value
				prefix bool
			}
			var cuts []cut
			for _, b := range fn.Blocks {
				for _, ins := range b.Instrs {
					sl, ok := ins.(*ssa.Slice)
					if !ok || sl.Max != nil {
						continue
					}
					if _, isSl := sl.X.Type().Underlying().(*types.Slice); !isSl {
						continue
					}
					switch {
					case sl.Low == nil && sl.High != nil:
						if _, isC := sl.High.(*ssa.Const); !isC {
							cuts = append(cuts, cut{sl, sl.High, true})
						}
					case sl.Low != nil && sl.High == nil:
						if _, isC := sl.Low.(*ssa.Const); !isC {
							cuts = append(cuts, cut{sl, sl.Low, false})
						}
					}
				}
			}
			// group by base
			type group struct {
				base ssa.Value
				cuts []cut
			}
			var groups []*group
			for _, ct := range cuts {
				var g *group
				for _, gg := range groups {
					if sameSeq(gg.base, ct.ins.X) {
						g = gg
					}
				}
				if g == nil {
					g = &group{base: ct.ins.X}
					groups = append(groups, g)
				}
				g.cuts = append(g.cuts, ct)
			}
			n := 0
			var splitBounds []ssa.Value
			for _, g := range groups {
				hasP, hasS := false, false
				for _, ct := range g.cuts {
					if ct.prefix {
						hasP = true
					} else {
						hasS = true
					}
				}
				if !hasP || !hasS {
					continue // a shift (copy(s[i+1:], s[i:])) or a single cut: not a split
				}
				c.analysed(qname(fn))
				n++
				key := fmt.Sprintf("%s split#%d of %s", qname(fn), n, describeValue(g.base))
				first := g.cuts[0].bound
				bad := false
				for _, ct := range g.cuts[1:] {
					if !equivValue(ct.bound, first, 0) {
						bad = true
						c.bad(rule, key, ct.ins.Pos(), fmt.Sprintf("the sequence is cut at %s for one half and at %s for the other: elements are dropped or duplicated", first.Name(), ct.bound.Name()))
						break
					}
				}
				if !bad {
					c.ok(rule, key, g.cuts[0].ins.Pos(), "prefix and suffix are cut at the same index "+first.Name())
					splitBounds = append(splitBounds, first)
				}
			}
			// parallel sequences: all splits of one function use one index
			if len(splitBounds) > 1 {
				key := fmt.Sprintf("%s parallel splits", qname(fn))
				same := true
				for _, b := range splitBounds[1:] {
					if !equivValue(b, splitBounds[0], 0) {
						same = false
					}
				}
				if same {
					c.ok(rule, key, fn.Pos(), fmt.Sprintf("%d parallel sequences are cut at the same index", len(splitBounds)))
				} else {
					c.bad(rule, key, fn.Pos(), "parallel sequences (e.g. objects and their indices) are cut at different indices")
				}
			}
		}
	}
}

// equivValue: the same SSA value or the same pure expression recomputed
// (go/ssa performs no common-subexpression elimination).
func equivValue(a, b ssa.Value, depth int) bool {
	if a == b || sameValue(a, b) {
		return true
	}
	if depth > 6 {
		return false
	}
	if sameConst(a, b) {
		return true
	}
	switch x := a.(type) {
	case *ssa.BinOp:
		y, ok := b.(*ssa.BinOp)
		return ok && x.Op == y.Op && equivValue(x.X, y.X, depth+1) && equivValue(x.Y, y.Y, depth+1)
	case *ssa.Call:
		y, ok := b.(*ssa.Call)
		if !ok {
			return false
		}
		bx, ok1 := x.Call.Value.(*ssa.Builtin)
		by, ok2 := y.Call.Value.(*ssa.Builtin)
		if ok1 && ok2 && bx.Name() == by.Name() && (bx.Name() == "len" || bx.Name() == "cap") {
			return equivValue(x.Call.Args[0], y.Call.Args[0], depth+1) || sameSeq(x.Call.Args[0], y.Call.Args[0])
		}
	case *ssa.Convert:
		y, ok := b.(*ssa.Convert)
		return ok && equivValue(x.X, y.X, depth+1)
	}
	return false
}

// sameSeq: the same sequence value, looking through re-loads and re-indexing
// of the same array-of-slices element.
func sameSeq(a, b ssa.Value) bool {
	if a == b || sameValue(a, b) {
		return true
	}
	ua, ok1 := a.(*ssa.UnOp)
	ub, ok2 := b.(*ssa.UnOp)
	if ok1 && ok2 && ua.Op == token.MUL && ub.Op == token.MUL {
		ia, ok1 := ua.X.(*ssa.IndexAddr)
		ib, ok2 := ub.X.(*ssa.IndexAddr)
		if ok1 && ok2 {
			return ia.X == ib.X && (ia.Index == ib.Index || sameConst(ia.Index, ib.Index))
		}
	}
	ia, ok1 := a.(*ssa.Index)
	ib, ok2 := b.(*ssa.Index)
	if ok1 && ok2 {
		return sameSeq(ia.X, ib.X) && (ia.Index == ib.Index || sameConst(ia.Index, ib.Index))
	}
	return false
}

func sameConst(a, b ssa.Value) bool {
	ka, ok1 := constInt(a)
	kb, ok2 := constInt(b)
	return ok1 && ok2 && ka == kb
}

// ---------------------------------------------------------------------------
// SHIFT — a best-two tracker must save the old best before overwriting it:
// in one block, "slot[1] = slot[0]" has to read slot[0] BEFORE "slot[0] = new".
// (Written the other way round both slots receive the new value.)

func (c *Ctx) runShiftOrder(rule string, pkgs []*packages.Package, filter func(fn *ssa.Function) bool) {
	for _, p := range pkgs {
		if p == nil {
			continue
		}
		for _, fn := range c.srcFuncs(p) {
			if filter != nil && !filter(fn) {
				continue
			}
			n := 0
			for _, b := range fn.Blocks {
				// stores to element k of a small local array
				type st struct {
					idx   int
					arr   ssa.Value
					k     int64
					store *ssa.Store
				}
				var stores []st
				for i, ins := range b.Instrs {
					s, ok := ins.(*ssa.Store)
					if !ok {
						continue
					}
					ia, ok := s.Addr.(*ssa.IndexAddr)
					if !ok {
						continue
					}
					k, ok := constInt(ia.Index)
					if !ok {
						continue
					}
					if pt, ok := ia.X.Type().Underlying().(*types.Pointer); ok {
						if at, ok := pt.Elem().Underlying().(*types.Array); ok && at.Len() <= 4 {
							stores = append(stores, st{i, ia.X, k, s})
						}
					}
				}
				for _, s1 := range stores {
					// s1: slot[j] = load(slot[i]) with i != j
					ld, ok := s1.store.Val.(*ssa.UnOp)
					if !ok || ld.Op != token.MUL {
						continue
					}
					la, ok := ld.X.(*ssa.IndexAddr)
					if !ok || la.X != s1.arr {
						continue
					}
					li, ok := constInt(la.Index)
					if !ok || li == s1.k {
						continue
					}
					// is slot[li] also stored in this block?
					for _, s0 := range stores {
						if s0.arr != s1.arr || s0.k != li || s0.store == s1.store {
							continue
						}
						n++
						c.analysed(qname(fn))
						key := fmt.Sprintf("%s shift#%d slot[%d]<-slot[%d]", qname(fn), n, s1.k, li)
						loadPos := instrIndex(b, ld)
						if loadPos > s0.idx {
							c.bad(rule, key, s1.store.Pos(), fmt.Sprintf("slot[%d] is overwritten before its old value is copied to slot[%d]: both slots end up with the new value and the previous best is lost", li, s1.k))
						} else {
							c.ok(rule, key, s1.store.Pos(), "the old value is read before the slot is overwritten")
						}
					}
				}
			}
		}
	}
}

// ---------------------------------------------------------------------------
// ALLCHILD — a conversion of a tree node visits every child: when a function
// ranges over a slice field of its parameter and recurses on the elements, it
// must not index that field with constants instead (children beyond the
// constant arity would be dropped).

func (c *Ctx) runSortedKeys() {}

var _ = sort.Strings
