package main

// UNIFORM — componentwise vector kernels treat every component alike.
//
// In the vector vocabulary (numerical/vecs.go, model2d/coords.go,
// model3d/coords.go and the dense matrix files) a result is built from one
// expression per component: Vec3{v[0]-v1[0], v[1]-v1[1], v[2]-v1[2]},
// XYZ(c.X*c1.X, c.Y*c1.Y, c.Z*c1.Z), c.X*c1.X + c.Y*c1.Y + c.Z*c1.Z. The rule
// abstracts each component expression by replacing the component's own
// selector (index literal k or field X/Y/Z) by a hole and requires all
// components of one construct to have the same abstraction. It only arms a
// construct whose shape shows that it IS componentwise: at least two
// components agree and use only their own selector; a construct where every
// component mixes selectors (cross products, swizzles, rotations) is not an
// instance. For two-component types the sibling of higher dimension with the
// same method name supplies the reference abstraction.

import (
	"go/ast"
	"go/token"
	"go/types"
	"sort"
	"strings"

	"golang.org/x/tools/go/packages"
)

var fieldOrder = map[string]int{"X": 0, "Y": 1, "Z": 2, "W": 3}

// absExpr prints e with the component selector comp replaced by a hole;
// foreign[k] is set when another component's selector occurs.
func absExpr(e ast.Expr, comp int, foreign *bool, own *bool) string {
	var sb strings.Builder
	var pr func(e ast.Expr)
	pr = func(e ast.Expr) {
		switch x := e.(type) {
		case *ast.ParenExpr:
			sb.WriteString("(")
			pr(x.X)
			sb.WriteString(")")
		case *ast.BinaryExpr:
			pr(x.X)
			sb.WriteString(" " + x.Op.String() + " ")
			pr(x.Y)
		case *ast.UnaryExpr:
			sb.WriteString(x.Op.String())
			pr(x.X)
		case *ast.CallExpr:
			pr(x.Fun)
			sb.WriteString("(")
			for i, a := range x.Args {
				if i > 0 {
					sb.WriteString(", ")
				}
				pr(a)
			}
			sb.WriteString(")")
		case *ast.IndexExpr:
			pr(x.X)
			if bl, ok := x.Index.(*ast.BasicLit); ok && bl.Kind == token.INT {
				if bl.Value == itoa(comp) {
					sb.WriteString("[#]")
					*own = true
				} else {
					sb.WriteString("[" + bl.Value + "]")
					*foreign = true
				}
			} else {
				sb.WriteString("[")
				pr(x.Index)
				sb.WriteString("]")
			}
		case *ast.SelectorExpr:
			if k, isComp := fieldOrder[x.Sel.Name]; isComp {
				if _, isPkg := x.X.(*ast.Ident); isPkg || true {
					pr(x.X)
					if k == comp {
						sb.WriteString(".#")
						*own = true
					} else {
						sb.WriteString("." + x.Sel.Name)
						*foreign = true
					}
					return
				}
			}
			pr(x.X)
			sb.WriteString("." + x.Sel.Name)
		default:
			sb.WriteString(types.ExprString(e))
		}
	}
	pr(e)
	return sb.String()
}

type uniConstruct struct {
	what  string
	pos   token.Pos
	comps []ast.Expr
}

func isVectorType(t types.Type) int {
	if strings.HasPrefix(typeNameOf(t), "Matrix") {
		return 0 // a matrix literal is not a list of like components
	}
	switch u := t.Underlying().(type) {
	case *types.Array:
		if isFloat(u.Elem()) && u.Len() >= 2 && u.Len() <= 4 {
			return int(u.Len())
		}
	case *types.Struct:
		n := 0
		for i := 0; i < u.NumFields(); i++ {
			if _, ok := fieldOrder[u.Field(i).Name()]; ok && isFloat(u.Field(i).Type()) && fieldOrder[u.Field(i).Name()] == i {
				n++
			} else {
				return 0
			}
		}
		if n >= 2 && n <= 4 {
			return n
		}
	}
	return 0
}

func plusChain(e ast.Expr) []ast.Expr {
	if be, ok := ast.Unparen(e).(*ast.BinaryExpr); ok && be.Op == token.ADD {
		return append(plusChain(be.X), plusChain(be.Y)...)
	}
	return []ast.Expr{e}
}

func (c *Ctx) runUniform(rule string, pkgs []*packages.Package, fileOK func(name string) bool) {
	type tmplKey struct{ family, method, what string }
	templates := map[tmplKey]string{}
	type pending struct {
		key   tmplKey
		fname string
		con   uniConstruct
		abs   []string
	}
	var pend []pending
	family := func(recv string) string {
		switch recv {
		case "Vec2", "Vec3", "Vec4":
			return "Vec"
		case "Coord", "Coord3D":
			return "Coord"
		case "Matrix2", "Matrix3", "Matrix4":
			return "Matrix"
		}
		return recv
	}
	for _, p := range pkgs {
		if p == nil {
			continue
		}
		info := p.TypesInfo
		for _, file := range p.Syntax {
			fname := c.Fset.Position(file.Pos()).Filename
			if fileOK != nil && !strings.Contains(fname, "/fixtures/") && !fileOK(fname) {
				continue
			}
			for _, d := range file.Decls {
				fd, ok := d.(*ast.FuncDecl)
				if !ok || fd.Body == nil {
					continue
				}
				fobj, _ := info.Defs[fd.Name].(*types.Func)
				recv := ""
				if fd.Recv != nil && len(fd.Recv.List) == 1 {
					recv = typeNameOf(info.TypeOf(fd.Recv.List[0].Type))
				}
				var cons []uniConstruct
				ast.Inspect(fd.Body, func(n ast.Node) bool {
					switch x := n.(type) {
					case *ast.CompositeLit:
						tv := info.TypeOf(x)
						if tv == nil {
							return true
						}
						dim := isVectorType(tv)
						if dim == 0 || len(x.Elts) != dim {
							return true
						}
						comps := make([]ast.Expr, dim)
						for i, el := range x.Elts {
							if kv, ok := el.(*ast.KeyValueExpr); ok {
								id, ok := kv.Key.(*ast.Ident)
								if !ok {
									return true
								}
								k, ok := fieldOrder[id.Name]
								if !ok || k >= dim {
									return true
								}
								comps[k] = kv.Value
							} else {
								comps[i] = el
							}
						}
						for _, ce := range comps {
							if ce == nil {
								return true
							}
						}
						cons = append(cons, uniConstruct{"literal", x.Pos(), comps})
					case *ast.CallExpr:
						// coordinate constructors XY / XYZ
						if id, ok := x.Fun.(*ast.Ident); ok && (id.Name == "XY" && len(x.Args) == 2 || id.Name == "XYZ" && len(x.Args) == 3) {
							cons = append(cons, uniConstruct{"constructor", x.Pos(), x.Args})
						}
					case *ast.ReturnStmt:
						for _, r := range x.Results {
							inner := ast.Unparen(r)
							if call, ok := inner.(*ast.CallExpr); ok && len(call.Args) == 1 {
								// math.Sqrt(sum)
								inner = ast.Unparen(call.Args[0])
							}
							terms := plusChain(inner)
							if len(terms) >= 2 && len(terms) <= 4 {
								cons = append(cons, uniConstruct{"sum", r.Pos(), terms})
							}
						}
					}
					return true
				})
				for ci, con := range cons {
					n := len(con.comps)
					abs := make([]string, n)
					foreign := make([]bool, n)
					own := make([]bool, n)
					for k, e := range con.comps {
						abs[k] = absExpr(e, k, &foreign[k], &own[k])
					}
					// how many components are "pure" (own selector only) and share the majority abstraction
					count := map[string]int{}
					for k := range abs {
						if own[k] && !foreign[k] {
							count[abs[k]]++
						}
					}
					best, bestN := "", 0
					for a, m := range count {
						if m > bestN || m == bestN && a < best {
							best, bestN = a, m
						}
					}
					key := tmplKey{family(recv), fd.Name.Name, "#" + itoa(ci)}
					conKey := objName(fobj) + " " + con.what + " #" + itoa(ci+1)
					switch {
					case bestN == n:
						c.analysed(objName(fobj))
						c.ok(rule, conKey, con.pos, "all "+itoa(n)+" components are "+best)
						if n >= 3 {
							templates[key] = best
						}
					case bestN >= 2:
						c.analysed(objName(fobj))
						var off []string
						for k := range abs {
							if abs[k] != best {
								off = append(off, "component "+itoa(k)+" is "+abs[k])
							}
						}
						sort.Strings(off)
						c.bad(rule, conKey, con.pos, "the other components are "+best+" but "+strings.Join(off, "; ")+": a componentwise kernel treats one component differently")
					case n == 2 && recv != "":
						pend = append(pend, pending{key, objName(fobj), con, abs})
					}
				}
			}
		}
	}
	// two-component types: compare with the higher-dimensional sibling's template
	for _, pd := range pend {
		ref, ok := templates[pd.key]
		if !ok {
			continue
		}
		match := 0
		for _, a := range pd.abs {
			if sameTemplate(a, ref) {
				match++
			}
		}
		conKey := pd.fname + " " + pd.con.what + " (vs. sibling)"
		if match == 1 {
			c.analysed(pd.fname)
			c.bad(rule, conKey, pd.con.pos, "one component is "+ref+" like in the sibling of higher dimension, the other is not ("+strings.Join(pd.abs, " / ")+")")
		}
	}
}

// sameTemplate compares abstractions up to the names of receiver/parameter.
func sameTemplate(a, b string) bool {
	return a == b
}
