package main

// VETO — a veto flag guards the action it was computed for. Shape (enumerated
// from the tree: chart growth in nextMeshPlaneGraphs): inside a loop body
//     flag := false
//     for ... { if <test> { flag = true; break } }
//     if !flag { ... action(...) ... }
// where action is a call of a closure of the enclosing function (the commit
// step). Every such call that follows the scan in the same iteration must lie
// in the then-branch of a test whose condition is `!flag` or a conjunction
// containing `!flag` (or after `if flag { continue }`): a disjunction such as
// `other || !flag` lets the action run although the scan vetoed it.

import (
	"go/ast"
	"go/token"
	"go/types"

	"golang.org/x/tools/go/packages"
)

func condRequiresNot(info *types.Info, e ast.Expr, flag types.Object) bool {
	switch x := ast.Unparen(e).(type) {
	case *ast.UnaryExpr:
		if x.Op == token.NOT {
			if id, ok := ast.Unparen(x.X).(*ast.Ident); ok && info.Uses[id] == flag {
				return true
			}
		}
	case *ast.BinaryExpr:
		if x.Op == token.LAND {
			return condRequiresNot(info, x.X, flag) || condRequiresNot(info, x.Y, flag)
		}
	}
	return false
}

func (c *Ctx) runVeto(rule string, pkgs []*packages.Package, fileOK func(name string) bool) {
	for _, p := range pkgs {
		if p == nil {
			continue
		}
		info := p.TypesInfo
		for _, file := range p.Syntax {
			fname := c.Fset.Position(file.Pos()).Filename
			if fileOK != nil && !fileOK(fname) {
				continue
			}
			for _, d := range file.Decls {
				fd, ok := d.(*ast.FuncDecl)
				if !ok || fd.Body == nil {
					continue
				}
				fobj, _ := info.Defs[fd.Name].(*types.Func)
				// local closures of this function
				closures := map[types.Object]bool{}
				ast.Inspect(fd.Body, func(n ast.Node) bool {
					if as, ok := n.(*ast.AssignStmt); ok && as.Tok == token.DEFINE {
						for i, l := range as.Lhs {
							if i < len(as.Rhs) {
								if _, ok := as.Rhs[i].(*ast.FuncLit); ok {
									if id, ok := l.(*ast.Ident); ok {
										closures[info.Defs[id]] = true
									}
								}
							}
						}
					}
					return true
				})
				if len(closures) == 0 {
					continue
				}
				ast.Inspect(fd.Body, func(n ast.Node) bool {
					var body *ast.BlockStmt
					switch x := n.(type) {
					case *ast.RangeStmt:
						body = x.Body
					case *ast.ForStmt:
						body = x.Body
					}
					if body == nil {
						return true
					}
					for i, st := range body.List {
						// flag := false
						as, ok := st.(*ast.AssignStmt)
						if !ok || as.Tok != token.DEFINE || len(as.Lhs) != 1 || len(as.Rhs) != 1 {
							continue
						}
						id, ok := as.Lhs[0].(*ast.Ident)
						rid, ok2 := as.Rhs[0].(*ast.Ident)
						if !ok || !ok2 || rid.Name != "false" {
							continue
						}
						flag := info.Defs[id]
						if flag == nil {
							continue
						}
						// a following scan loop that sets flag = true (directly in the body, or
						// — reported — nested in an if)
						scan := -1
						conditional := false
						setsFlag := func(st ast.Stmt) bool {
							sets := false
							ast.Inspect(st, func(n2 ast.Node) bool {
								if a2, ok := n2.(*ast.AssignStmt); ok && a2.Tok == token.ASSIGN && len(a2.Lhs) == 1 {
									if l, ok := a2.Lhs[0].(*ast.Ident); ok && info.Uses[l] == flag {
										if r, ok := a2.Rhs[0].(*ast.Ident); ok && r.Name == "true" {
											sets = true
										}
									}
								}
								return true
							})
							return sets
						}
						for j := i + 1; j < len(body.List); j++ {
							switch x := body.List[j].(type) {
							case *ast.RangeStmt, *ast.ForStmt:
								if setsFlag(x) {
									scan = j
								}
							case *ast.IfStmt:
								hasLoop := false
								ast.Inspect(x.Body, func(n2 ast.Node) bool {
									switch l := n2.(type) {
									case *ast.RangeStmt, *ast.ForStmt:
										if setsFlag(l.(ast.Stmt)) {
											hasLoop = true
										}
									}
									return true
								})
								if hasLoop && !condRequiresNot(info, x.Cond, flag) {
									scan = j
									conditional = true
								}
							}
							if scan >= 0 {
								break
							}
						}
						if scan < 0 {
							continue
						}
						if conditional {
							c.analysed(objName(fobj))
							c.bad(rule, objName(fobj)+" scan setting "+flag.Name(), body.List[scan].Pos(), "the scan that computes the veto flag "+flag.Name()+" runs only under a condition: when it is skipped the flag keeps its initial false and the guarded action is never vetoed")
						}
						// actions after the scan
						skipped := false // an `if flag { continue/break/return }` was passed
						var visit func(stmts []ast.Stmt, guarded bool)
						nAct := 0
						visit = func(stmts []ast.Stmt, guarded bool) {
							for _, s := range stmts {
								if ifs, ok := s.(*ast.IfStmt); ok {
									if cid, ok := ast.Unparen(ifs.Cond).(*ast.Ident); ok && info.Uses[cid] == flag && len(ifs.Body.List) > 0 {
										if _, ok := ifs.Body.List[len(ifs.Body.List)-1].(*ast.BranchStmt); ok {
											skipped = true
										}
									}
									visit(ifs.Body.List, guarded || skipped || condRequiresNot(info, ifs.Cond, flag))
									if ifs.Else != nil {
										if eb, ok := ifs.Else.(*ast.BlockStmt); ok {
											visit(eb.List, guarded || skipped)
										} else {
											visit([]ast.Stmt{ifs.Else}, guarded || skipped)
										}
									}
									continue
								}
								g := guarded || skipped
								ast.Inspect(s, func(n2 ast.Node) bool {
									if _, ok := n2.(*ast.FuncLit); ok {
										return false
									}
									if call, ok := n2.(*ast.CallExpr); ok {
										if cid, ok := call.Fun.(*ast.Ident); ok && closures[info.Uses[cid]] {
											nAct++
											c.analysed(objName(fobj))
											key := objName(fobj) + " action " + cid.Name + " after the scan setting " + flag.Name()
											if g {
												c.ok(rule, key, call.Pos(), "reached only where the veto flag is false")
											} else {
												c.bad(rule, key, call.Pos(), "the action is reachable although the scan set the veto flag "+flag.Name()+" (it is not inside a test that requires !"+flag.Name()+")")
											}
										}
									}
									return true
								})
							}
						}
						visit(body.List[scan+1:], false)
					}
					return true
				})
			}
		}
	}
}
