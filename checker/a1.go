package main

// A1 — literal topology tables.
//
// The marching-cubes base table, its two generating rotations, the
// marching-squares table and the six quads of the box generators are read from
// the typed AST (composite literals and constant call arguments). The ~40
// lines that expand them (allMcRotations, mcLookupTable, Compose,
// ApplyTriangle, ApplyIntersections, the inverse rule of msLookupTable,
// AddQuad's split) are MODELLED here; the functions are resolved on every run
// and the run is undecided if one of them disappears. Combinatorial facts are
// then decided exhaustively:
//   A1.GROUP   the generators are orientation-preserving symmetries of the
//              cube and generate exactly 24 rotations;
//   A1.ORBIT   the orbits of the base cases are pairwise disjoint and cover
//              all 256 configurations (so the random map iteration in
//              mcLookupTable cannot change the table);
//   A1.EDGES   every triangle corner is a cube edge with exactly one end
//              inside, and every sign-changing edge of a case is used;
//   A1.CLOSED  inside a cell every directed triangle edge is cancelled by its
//              reverse or lies in a face of the cube;
//   A1.ORIENT  every boundary segment keeps the inside corner on the same
//              side (normals point from inside to outside);
//   A1.FACES   the segments a configuration leaves on a cube face depend only
//              on that face's four corner bits and are the reverses of what
//              the neighbouring cell leaves (all 256 x 6 faces = all two-cell
//              adjacencies);
//   A1.PINCH   around every lattice edge, for all assignments of the 18
//              corners of the four surrounding cells, the triangles at the edge
//              midpoint form a single closed fan;
//   A1.MS      the same facts for the 16 marching-squares cases;
//   A1.BOX     the box generators emit 12 triangles whose directed edges
//              cancel pairwise with positive signed volume.

import (
	"fmt"
	"go/ast"
	"go/constant"
	"go/token"
	"go/types"
	"sort"

	"golang.org/x/tools/go/packages"
)

type mcTri [6]int

func constIntsOf(info *types.Info, lit *ast.CompositeLit) ([]int, bool) {
	var res []int
	for _, e := range lit.Elts {
		tv := info.Types[e]
		if tv.Value == nil {
			return nil, false
		}
		k, ok := constant.Int64Val(constant.ToInt(tv.Value))
		if !ok {
			return nil, false
		}
		res = append(res, int(k))
	}
	return res, true
}

func callArgsInts(info *types.Info, call *ast.CallExpr) ([]int, bool) {
	var res []int
	for _, a := range call.Args {
		tv := info.Types[a]
		if tv.Value == nil {
			return nil, false
		}
		k, _ := constant.Int64Val(constant.ToInt(tv.Value))
		res = append(res, int(k))
	}
	return res, true
}

func findVarInit(p *packages.Package, name string) ast.Expr {
	for _, f := range p.Syntax {
		for _, d := range f.Decls {
			gd, ok := d.(*ast.GenDecl)
			if !ok {
				continue
			}
			for _, s := range gd.Specs {
				vs, ok := s.(*ast.ValueSpec)
				if !ok {
					continue
				}
				for i, n := range vs.Names {
					if n.Name == name && i < len(vs.Values) {
						return vs.Values[i]
					}
				}
			}
		}
	}
	return nil
}

type rot [8]int

func (r rot) compose(r1 rot) rot {
	var res rot
	for i := range res {
		res[i] = r[r1[i]]
	}
	return res
}
func (r rot) applyMask(m int) int {
	res := 0
	for c := 0; c < 8; c++ {
		if m&(1<<uint(c)) != 0 {
			res |= 1 << uint(r[c])
		}
	}
	return res
}
func (r rot) applyTri(t mcTri) mcTri {
	var res mcTri
	for i, c := range t {
		res[i] = r[c]
	}
	return res
}

func cornerXYZ(c int) [3]int { return [3]int{c & 1, (c >> 1) & 1, (c >> 2) & 1} }

type pt [3]int // doubled coordinates inside one cell (0..2)

func edgeMid(a, b int) pt {
	ca, cb := cornerXYZ(a), cornerXYZ(b)
	return pt{ca[0] + cb[0], ca[1] + cb[1], ca[2] + cb[2]}
}

func sub(a, b pt) pt { return pt{a[0] - b[0], a[1] - b[1], a[2] - b[2]} }
func cross(a, b pt) pt {
	return pt{a[1]*b[2] - a[2]*b[1], a[2]*b[0] - a[0]*b[2], a[0]*b[1] - a[1]*b[0]}
}
func dot(a, b pt) int { return a[0]*b[0] + a[1]*b[1] + a[2]*b[2] }

// runMarchingCubesOrbit emits only the GROUP/ORBIT obligations (used by C12).
func (c *Ctx) runMarchingCubesOrbit(prefix string) {
	c.orbitOnly = true
	c.runMarchingCubesTable(prefix)
	c.orbitOnly = false
}

func (c *Ctx) runMarchingCubesTable(prefix string) {
	p := c.pkg("model3d")
	if p == nil {
		return
	}
	info := p.TypesInfo
	// anchors of the modelled expansion code
	for _, n := range []string{"allMcRotations", "mcLookupTable", "mcRotation.Compose", "mcRotation.ApplyTriangle", "mcRotation.ApplyIntersections", "mcTriangle.Triangle", "newMcIntersections", "mcCornerCoordinates"} {
		c.mustFunc("model3d", n)
	}
	c.analysed("model3d.baseTriangleTable")
	c.analysed("model3d.allMcRotations")
	// base table
	init, _ := findVarInit(p, "baseTriangleTable").(*ast.CompositeLit)
	if init == nil {
		c.problem("unresolved anchor: model3d.baseTriangleTable literal")
		return
	}
	type row struct {
		mask int
		tris []mcTri
		pos  ast.Node
	}
	var rows []row
	for _, e := range init.Elts {
		kv, ok := e.(*ast.KeyValueExpr)
		if !ok {
			c.problem("baseTriangleTable: unexpected element")
			return
		}
		kc, ok := kv.Key.(*ast.CallExpr)
		if !ok {
			c.problem("baseTriangleTable: key is not a newMcIntersections call")
			return
		}
		corners, ok := callArgsInts(info, kc)
		if !ok {
			c.problem("baseTriangleTable: non-constant key")
			return
		}
		mask := 0
		for _, k := range corners {
			mask |= 1 << uint(k)
		}
		vl, ok := kv.Value.(*ast.CompositeLit)
		if !ok {
			c.problem("baseTriangleTable: value is not a literal")
			return
		}
		r := row{mask: mask, pos: kv}
		for _, te := range vl.Elts {
			tl, ok := te.(*ast.CompositeLit)
			if !ok {
				c.problem("baseTriangleTable: triangle is not a literal")
				return
			}
			ints, ok := constIntsOf(info, tl)
			if !ok || len(ints) != 6 {
				c.problem("baseTriangleTable: triangle without six constant corners")
				return
			}
			var t mcTri
			copy(t[:], ints)
			r.tris = append(r.tris, t)
		}
		rows = append(rows, r)
	}
	// generators
	var gens []rot
	fd, _ := c.funcDecl(c.mustFunc("model3d", "allMcRotations"))
	if fd != nil {
		// every literal of type mcRotation in the function (assigned to a
		// variable or listed in an array of generators), except the identity the
		// search starts from
		ast.Inspect(fd.Body, func(n ast.Node) bool {
			cl, ok := n.(*ast.CompositeLit)
			if !ok {
				return true
			}
			if nt, ok := info.TypeOf(cl).(*types.Named); !ok || nt.Obj().Name() != "mcRotation" {
				return true
			}
			ints, ok := constIntsOf(info, cl)
			if ok && len(ints) == 8 {
				var r rot
				copy(r[:], ints)
				identity := true
				for i, x := range r {
					if x != i {
						identity = false
					}
				}
				if !identity {
					gens = append(gens, r)
				}
			}
			return true
		})
	}
	if len(gens) < 2 {
		c.problem("allMcRotations: generator literals not found")
		return
	}
	// A1.GROUP
	for gi, g := range gens {
		key := fmt.Sprintf("generator#%d %v", gi+1, g)
		seen := map[int]bool{}
		perm := true
		for _, x := range g {
			if x < 0 || x > 7 || seen[x] {
				perm = false
			}
			seen[x] = true
		}
		adj := true
		if perm {
			for a := 0; a < 8; a++ {
				for _, bit := range []int{1, 2, 4} {
					d := g[a] ^ g[a^bit]
					if d != 1 && d != 2 && d != 4 {
						adj = false
					}
				}
			}
		}
		// orientation: images of the three axes from corner 0 form a right-handed frame
		orient := false
		if perm && adj {
			o := cornerXYZ(g[0])
			ax := func(c int) pt {
				x := cornerXYZ(g[c])
				return pt{x[0] - o[0], x[1] - o[1], x[2] - o[2]}
			}
			orient = dot(cross(ax(1), ax(2)), ax(4)) == 1
		}
		switch {
		case !perm:
			c.bad(prefix+".GROUP", key, fd.Pos(), "not a permutation of the eight corners")
		case !adj:
			c.bad(prefix+".GROUP", key, fd.Pos(), "does not map cube edges to cube edges")
		case !orient:
			c.bad(prefix+".GROUP", key, fd.Pos(), "is a reflection, not a rotation: rotated cases would come out inside-out")
		default:
			c.ok(prefix+".GROUP", key, fd.Pos(), "an orientation-preserving symmetry of the cube")
		}
	}
	id := rot{0, 1, 2, 3, 4, 5, 6, 7}
	group := map[rot]bool{id: true}
	queue := []rot{id}
	for len(queue) > 0 {
		nx := queue[0]
		queue = queue[1:]
		for _, g := range gens {
			r := g.compose(nx)
			if !group[r] {
				group[r] = true
				queue = append(queue, r)
			}
		}
		if len(group) > 48 {
			break
		}
	}
	if len(group) == 24 {
		c.ok(prefix+".GROUP", "generated group", fd.Pos(), "the generators produce exactly the 24 rotations of the cube")
	} else {
		c.bad(prefix+".GROUP", "generated group", fd.Pos(), fmt.Sprintf("the generators produce %d permutations instead of the 24 rotations", len(group)))
	}
	var rots []rot
	for r := range group {
		rots = append(rots, r)
	}
	sort.Slice(rots, func(i, j int) bool {
		for k := range rots[i] {
			if rots[i][k] != rots[j][k] {
				return rots[i][k] < rots[j][k]
			}
		}
		return false
	})
	// A1.ORBIT
	owner := map[int]int{}
	overlap := ""
	for ri, r := range rows {
		for _, g := range rots {
			m := g.applyMask(r.mask)
			if o, ok := owner[m]; ok && o != ri {
				overlap = fmt.Sprintf("configuration %08b is claimed by base cases %08b and %08b", m, rows[o].mask, r.mask)
			}
			owner[m] = ri
		}
	}
	switch {
	case overlap != "":
		c.bad(prefix+".ORBIT", "orbits of the base cases", init.Pos(), overlap+": which triangulation wins depends on Go's random map iteration order")
	case len(owner) != 256:
		c.bad(prefix+".ORBIT", "orbits of the base cases", init.Pos(), fmt.Sprintf("only %d of the 256 configurations are covered: the others produce no triangles", len(owner)))
	default:
		c.ok(prefix+".ORBIT", "orbits of the base cases", init.Pos(), fmt.Sprintf("%d base cases, pairwise disjoint orbits covering all 256 configurations", len(rows)))
	}
	if c.orbitOnly {
		return
	}
	// per-row checks
	for _, r := range rows {
		key := fmt.Sprintf("case %08b", r.mask)
		c.checkCellPatch(prefix, key, r.mask, r.tris, r.pos.Pos())
	}
	if overlap != "" || len(owner) != 256 {
		return
	}
	// expanded table as the program builds it: first rotation (sorted order) wins
	var table [256][]mcTri
	var filled [256]bool
	for _, r := range rows {
		for _, g := range rots {
			m := g.applyMask(r.mask)
			if !filled[m] {
				filled[m] = true
				for _, t := range r.tris {
					table[m] = append(table[m], g.applyTri(t))
				}
			}
		}
	}
	c.checkFaceAgreement(prefix, table, init.Pos())
	c.checkPinch(prefix, table, init.Pos())
	c.Extra["table_configurations"] = 256
}

type dedge struct{ a, b pt }

// boundary: directed triangle edges of a patch that are not cancelled.
func boundary(tris []mcTri) (map[dedge]int, bool) {
	cnt := map[dedge]int{}
	for _, t := range tris {
		v := [3]pt{edgeMid(t[0], t[1]), edgeMid(t[2], t[3]), edgeMid(t[4], t[5])}
		for i := 0; i < 3; i++ {
			cnt[dedge{v[i], v[(i+1)%3]}]++
		}
	}
	ok := true
	res := map[dedge]int{}
	for e, n := range cnt {
		if n > 1 {
			ok = false
		}
		rev := dedge{e.b, e.a}
		if cnt[rev] > 0 {
			if cnt[rev] != n {
				ok = false
			}
			continue
		}
		res[e] = n
	}
	return res, ok
}

func onFace(e dedge) (axis, side int, ok bool) {
	for a := 0; a < 3; a++ {
		if e.a[a] == e.b[a] && (e.a[a] == 0 || e.a[a] == 2) {
			return a, e.a[a] / 2, true
		}
	}
	return 0, 0, false
}

func (c *Ctx) checkCellPatch(prefix, key string, mask int, tris []mcTri, pos token.Pos) {
	p := c.pkg("model3d")
	fpos := findVarInit(p, "baseTriangleTable").Pos()
	inside := func(k int) bool { return mask&(1<<uint(k)) != 0 }
	// EDGES
	used := map[[2]int]bool{}
	bad := ""
	for _, t := range tris {
		for i := 0; i < 3; i++ {
			a, b := t[2*i], t[2*i+1]
			d := a ^ b
			if a < 0 || a > 7 || b < 0 || b > 7 || (d != 1 && d != 2 && d != 4) {
				bad = fmt.Sprintf("triangle %v names (%d,%d), which is not an edge of the cube", t, a, b)
				continue
			}
			if inside(a) == inside(b) {
				bad = fmt.Sprintf("triangle %v has a vertex on edge (%d,%d) whose ends are on the same side", t, a, b)
			}
			if a > b {
				a, b = b, a
			}
			used[[2]int{a, b}] = true
		}
	}
	for a := 0; a < 8; a++ {
		for _, bit := range []int{1, 2, 4} {
			b := a ^ bit
			if a < b && inside(a) != inside(b) && !used[[2]int{a, b}] {
				bad = fmt.Sprintf("sign-changing edge (%d,%d) carries no vertex: the surface has a hole there", a, b)
			}
		}
	}
	if bad != "" {
		c.bad(prefix+".EDGES", key, fpos, bad)
		return
	}
	c.ok(prefix+".EDGES", key, fpos, fmt.Sprintf("%d triangles, every vertex on a sign-changing edge, every sign-changing edge used", len(tris)))
	// CLOSED
	bd, ok := boundary(tris)
	closedBad := ""
	if !ok {
		closedBad = "a directed edge is used twice (two triangles traverse it in the same direction)"
	}
	for e := range bd {
		if _, _, on := onFace(e); !on {
			closedBad = fmt.Sprintf("open edge %v->%v lies inside the cell, not in a face: the patch has a hole", e.a, e.b)
		}
	}
	if closedBad != "" {
		c.bad(prefix+".CLOSED", key, fpos, closedBad)
		return
	}
	c.ok(prefix+".CLOSED", key, fpos, fmt.Sprintf("all interior edges cancel; %d boundary segments lie in cube faces", len(bd)))
	// ORIENT: for a boundary segment p->q in face F, the inside end of p's
	// cube edge is on the fixed side: cross(q-p, i-p).n_F < 0
	orientBad := ""
	edgeOf := map[pt][2]int{}
	for _, t := range tris {
		for i := 0; i < 3; i++ {
			edgeOf[edgeMid(t[2*i], t[2*i+1])] = [2]int{t[2*i], t[2*i+1]}
		}
	}
	for e := range bd {
		axis, side, _ := onFace(e)
		n := pt{}
		n[axis] = 2*side - 1
		for _, end := range []struct {
			p, q pt
			sgn  int
		}{{e.a, e.b, 1}, {e.b, e.a, -1}} {
			ed := edgeOf[end.p]
			// only if the cube edge itself lies in this face
			ca, cb := cornerXYZ(ed[0]), cornerXYZ(ed[1])
			if ca[axis] != side || cb[axis] != side {
				continue
			}
			in := ed[0]
			if !inside(in) {
				in = ed[1]
			}
			ci := cornerXYZ(in)
			ip := pt{2*ci[0] - end.p[0], 2*ci[1] - end.p[1], 2*ci[2] - end.p[2]}
			s := dot(cross(sub(end.q, end.p), ip), n) * end.sgn
			if s >= 0 {
				orientBad = fmt.Sprintf("boundary segment %v->%v on face axis=%d side=%d has the inside corner %d on the wrong side: this patch is oriented inside-out", e.a, e.b, axis, side, in)
			}
		}
	}
	if orientBad != "" {
		c.bad(prefix+".ORIENT", key, fpos, orientBad)
	} else {
		c.ok(prefix+".ORIENT", key, fpos, "every boundary segment keeps the inside corner on the inner side")
	}
}

// faceSegments: boundary segments of a configuration on one face, projected
// to the face's (u,v) coordinates.
func faceSegments(tris []mcTri, axis, side int) []string {
	bd, _ := boundary(tris)
	var res []string
	for e := range bd {
		a, s, ok := onFace(e)
		if !ok || a != axis || s != side {
			continue
		}
		u, v := (axis+1)%3, (axis+2)%3
		res = append(res, fmt.Sprintf("%d,%d>%d,%d", e.a[u], e.a[v], e.b[u], e.b[v]))
	}
	sort.Strings(res)
	return res
}

func reverseSegs(s []string) []string {
	var res []string
	for _, x := range s {
		var a, b, cc, d int
		fmt.Sscanf(x, "%d,%d>%d,%d", &a, &b, &cc, &d)
		res = append(res, fmt.Sprintf("%d,%d>%d,%d", cc, d, a, b))
	}
	sort.Strings(res)
	return res
}

func (c *Ctx) checkFaceAgreement(prefix string, table [256][]mcTri, pos interface{}) {
	p := c.pkg("model3d")
	fpos := findVarInit(p, "baseTriangleTable").Pos()
	nChecked := 0
	for axis := 0; axis < 3; axis++ {
		u, v := (axis+1)%3, (axis+2)%3
		faceBits := func(mask, side int) int {
			bits := 0
			for cu := 0; cu < 2; cu++ {
				for cv := 0; cv < 2; cv++ {
					var xyz [3]int
					xyz[axis], xyz[u], xyz[v] = side, cu, cv
					corner := xyz[0] | xyz[1]<<1 | xyz[2]<<2
					if mask&(1<<uint(corner)) != 0 {
						bits |= 1 << uint(cu*2+cv)
					}
				}
			}
			return bits
		}
		hi := map[int]map[string]int{} // pattern -> segment-set -> example mask
		lo := map[int]map[string]int{}
		for mask := 0; mask < 256; mask++ {
			for side, m := range []map[int]map[string]int{lo, hi} {
				bits := faceBits(mask, side)
				segs := fmt.Sprint(faceSegments(table[mask], axis, side))
				if m[bits] == nil {
					m[bits] = map[string]int{}
				}
				if _, ok := m[bits][segs]; !ok {
					m[bits][segs] = mask
				}
				nChecked++
			}
		}
		for bits := 0; bits < 16; bits++ {
			key := fmt.Sprintf("faces across axis %d, corner pattern %04b", axis, bits)
			switch {
			case len(hi[bits]) != 1 || len(lo[bits]) != 1:
				ex := []int{}
				for _, m := range hi[bits] {
					ex = append(ex, m)
				}
				for _, m := range lo[bits] {
					ex = append(ex, m)
				}
				c.bad(prefix+".FACES", key, fpos, fmt.Sprintf("the segments left on the face are not a function of the face's corner bits (e.g. configurations %v disagree): neighbouring cells do not line up and the surface cracks", ex))
			default:
				var hs, ls []string
				for s := range hi[bits] {
					hs = parseSegList(s)
				}
				for s := range lo[bits] {
					ls = parseSegList(s)
				}
				if fmt.Sprint(hs) != fmt.Sprint(reverseSegs(ls)) {
					c.bad(prefix+".FACES", key, fpos, fmt.Sprintf("a cell leaves %v on its upper face but its neighbour leaves %v on the matching lower face: the shared edges are not traversed in opposite directions", hs, ls))
				} else {
					c.ok(prefix+".FACES", key, fpos, fmt.Sprintf("%d segment(s), identical for all configurations with this pattern and reversed in the neighbour", len(hs)))
				}
			}
		}
	}
	c.Extra["face_patterns_checked"] = nChecked
}

func parseSegList(s string) []string {
	// "[a b c]" -> fields
	if len(s) >= 2 {
		s = s[1 : len(s)-1]
	}
	if s == "" {
		return nil
	}
	var res []string
	cur := ""
	for _, r := range s {
		if r == ' ' {
			res = append(res, cur)
			cur = ""
		} else {
			cur += string(r)
		}
	}
	res = append(res, cur)
	sort.Strings(res)
	return res
}

// checkPinch: four cells around a lattice edge along each axis; all 2^18
// corner assignments with a sign change on the edge.
func (c *Ctx) checkPinch(prefix string, table [256][]mcTri, pos interface{}) {
	p := c.pkg("model3d")
	fpos := findVarInit(p, "baseTriangleTable").Pos()
	total, badN := 0, 0
	example := ""
	for axis := 0; axis < 3; axis++ {
		u, v := (axis+1)%3, (axis+2)%3
		// lattice: a in {0,1}, u,v in {0,1,2}; the edge runs from (a=0,u=1,v=1) to (a=1,u=1,v=1)
		idx := func(a, cu, cv int) int { return a*9 + cu*3 + cv }
		for assign := 0; assign < 1<<18; assign++ {
			if (assign>>uint(idx(0, 1, 1)))&1 == (assign>>uint(idx(1, 1, 1)))&1 {
				continue
			}
			total++
			// link graph at the midpoint of the edge
			type gp [3]int // global doubled coordinates (a, u, v)
			link := map[gp][]gp{}
			centre := gp{1, 2, 2}
			for du := 0; du < 2; du++ {
				for dv := 0; dv < 2; dv++ {
					mask := 0
					for corner := 0; corner < 8; corner++ {
						xyz := cornerXYZ(corner)
						if (assign>>uint(idx(xyz[axis], du+xyz[u], dv+xyz[v])))&1 == 1 {
							mask |= 1 << uint(corner)
						}
					}
					for _, t := range table[mask] {
						var vs [3]gp
						hit := -1
						for i := 0; i < 3; i++ {
							m := edgeMid(t[2*i], t[2*i+1])
							vs[i] = gp{m[axis], m[u] + 2*du, m[v] + 2*dv}
							if vs[i] == centre {
								hit = i
							}
						}
						if hit < 0 {
							continue
						}
						a, b := vs[(hit+1)%3], vs[(hit+2)%3]
						link[a] = append(link[a], b)
						link[b] = append(link[b], a)
					}
				}
			}
			// single cycle: every node degree 2 and connected
			ok := len(link) >= 3
			for _, nb := range link {
				if len(nb) != 2 {
					ok = false
				}
			}
			if ok {
				seen := map[gp]bool{}
				var start gp
				for k := range link {
					start = k
					break
				}
				stack := []gp{start}
				for len(stack) > 0 {
					x := stack[len(stack)-1]
					stack = stack[:len(stack)-1]
					if seen[x] {
						continue
					}
					seen[x] = true
					stack = append(stack, link[x]...)
				}
				ok = len(seen) == len(link)
			}
			if !ok {
				badN++
				if example == "" {
					example = fmt.Sprintf("axis %d, corner assignment %018b", axis, assign)
				}
			}
		}
	}
	key := "fans around lattice edges"
	if badN == 0 {
		c.ok(prefix+".PINCH", key, fpos, fmt.Sprintf("all %d sign-changing assignments of the 18 corners around a lattice edge give a single closed triangle fan at the edge vertex", total))
	} else {
		c.bad(prefix+".PINCH", key, fpos, fmt.Sprintf("%d of %d assignments give an open or pinched fan at the edge vertex (e.g. %s): the surface is not a manifold there", badN, total, example))
	}
	c.Extra["pinch_assignments"] = total
}

// ---------------------------------------------------------------------------
// A1.MS — marching squares.

func (c *Ctx) runMarchingSquaresTable(prefix string) {
	p := c.pkg("model2d")
	if p == nil {
		return
	}
	info := p.TypesInfo
	for _, n := range []string{"msLookupTable", "newMsIntersections", "msSegment.Segment"} {
		c.mustFunc("model2d", n)
	}
	fd, _ := c.funcDecl(c.mustFunc("model2d", "msLookupTable"))
	if fd == nil {
		return
	}
	c.analysed("model2d.msLookupTable")
	var lit *ast.CompositeLit
	ast.Inspect(fd.Body, func(n ast.Node) bool {
		if cl, ok := n.(*ast.CompositeLit); ok && lit == nil {
			if _, isMap := info.TypeOf(cl).Underlying().(*types.Map); isMap {
				lit = cl
			}
		}
		return true
	})
	if lit == nil {
		c.problem("msLookupTable: mapping literal not found")
		return
	}
	type seg [4]int
	table := map[int][]seg{}
	for _, e := range lit.Elts {
		kv, ok := e.(*ast.KeyValueExpr)
		if !ok {
			continue
		}
		kc, ok := kv.Key.(*ast.CallExpr)
		if !ok {
			c.problem("msLookupTable: key is not a call")
			return
		}
		corners, _ := callArgsInts(info, kc)
		mask := 0
		for _, k := range corners {
			mask |= 1 << uint(k)
		}
		vl, ok := kv.Value.(*ast.CompositeLit)
		if !ok {
			c.problem("msLookupTable: value is not a literal")
			return
		}
		segs := []seg{}
		for _, se := range vl.Elts {
			sl, ok := se.(*ast.CompositeLit)
			if !ok {
				continue
			}
			ints, ok := constIntsOf(info, sl)
			if !ok || len(ints) != 4 {
				c.problem("msLookupTable: segment without four constant corners")
				return
			}
			var s seg
			copy(s[:], ints)
			segs = append(segs, s)
		}
		table[mask] = segs
	}
	nLit := len(table)
	// the inverse rule (modelled): reversed segments for the complement
	keys := []int{}
	for k := range table {
		keys = append(keys, k)
	}
	sort.Ints(keys)
	for _, k := range keys {
		inv := 0xf ^ k
		if _, ok := table[inv]; !ok {
			var rev []seg
			for _, s := range table[k] {
				rev = append(rev, seg{s[2], s[3], s[0], s[1]})
			}
			table[inv] = rev
		}
	}
	pos := lit.Pos()
	if len(table) == 16 {
		c.ok(prefix+".MS", "coverage", pos, fmt.Sprintf("%d literal cases and their complements cover all 16 configurations", nLit))
	} else {
		c.bad(prefix+".MS", "coverage", pos, fmt.Sprintf("only %d of 16 configurations are defined", len(table)))
		return
	}
	xy := func(k int) [2]int { return [2]int{k & 1, (k >> 1) & 1} }
	mid := func(a, b int) [2]int { pa, pb := xy(a), xy(b); return [2]int{pa[0] + pb[0], pa[1] + pb[1]} }
	cross2 := func(a, b [2]int) int { return a[0]*b[1] - a[1]*b[0] }
	// role of the vertex on each cell edge: +1 start, -1 end
	type edgeKey struct{ a, b int }
	role := map[int]map[edgeKey]int{}
	for mask := 0; mask < 16; mask++ {
		inside := func(k int) bool { return mask&(1<<uint(k)) != 0 }
		key := fmt.Sprintf("case %04b", mask)
		bad := ""
		use := map[edgeKey]int{}
		role[mask] = map[edgeKey]int{}
		for _, s := range table[mask] {
			for half := 0; half < 2; half++ {
				a, b := s[2*half], s[2*half+1]
				d := a ^ b
				if a < 0 || a > 3 || b < 0 || b > 3 || (d != 1 && d != 2) {
					bad = fmt.Sprintf("segment %v names (%d,%d), not an edge of the square", s, a, b)
					continue
				}
				if inside(a) == inside(b) {
					bad = fmt.Sprintf("segment %v ends on edge (%d,%d) whose ends are on the same side", s, a, b)
				}
				if a > b {
					a, b = b, a
				}
				use[edgeKey{a, b}]++
				role[mask][edgeKey{a, b}] = 1 - 2*half
			}
			if bad != "" {
				continue
			}
			// orientation
			p0, q0 := mid(s[0], s[1]), mid(s[2], s[3])
			dir := [2]int{q0[0] - p0[0], q0[1] - p0[1]}
			for _, end := range [][3]int{{s[0], s[1], 0}, {s[2], s[3], 1}} {
				in := end[0]
				if !inside(in) {
					in = end[1]
				}
				pi := xy(in)
				base := p0
				if end[2] == 1 {
					base = q0
				}
				if cross2(dir, [2]int{2*pi[0] - base[0], 2*pi[1] - base[1]}) >= 0 {
					bad = fmt.Sprintf("segment %v keeps the inside corner %d on the wrong side: the outline is traversed the other way round", s, in)
				}
			}
		}
		for a := 0; a < 4; a++ {
			for _, bit := range []int{1, 2} {
				b := a ^ bit
				if a < b && inside(a) != inside(b) && use[edgeKey{a, b}] != 1 {
					bad = fmt.Sprintf("sign-changing edge (%d,%d) carries %d segment ends instead of exactly one", a, b, use[edgeKey{a, b}])
				}
			}
		}
		if bad != "" {
			c.bad(prefix+".MS", key, pos, bad)
		} else {
			c.ok(prefix+".MS", key, pos, fmt.Sprintf("%d segment(s): ends on sign-changing edges, each such edge used once, inside on the inner side", len(table[mask])))
		}
	}
	// gluing: right edge (1,3) of a cell <-> left edge (0,2) of its neighbour; top (2,3) <-> bottom (0,1)
	for _, g := range []struct {
		name   string
		hi, lo edgeKey
	}{{"x", edgeKey{1, 3}, edgeKey{0, 2}}, {"y", edgeKey{2, 3}, edgeKey{0, 1}}} {
		for pat := 1; pat <= 2; pat++ { // bit0: first corner inside, bit1: second corner inside
			key := fmt.Sprintf("edges across %s, pattern %02b", g.name, pat)
			roles := map[int]bool{}
			rolesLo := map[int]bool{}
			for mask := 0; mask < 16; mask++ {
				bitsOf := func(e edgeKey) int {
					b := 0
					if mask&(1<<uint(e.a)) != 0 {
						b |= 1
					}
					if mask&(1<<uint(e.b)) != 0 {
						b |= 2
					}
					return b
				}
				if bitsOf(g.hi) == pat {
					roles[role[mask][g.hi]] = true
				}
				if bitsOf(g.lo) == pat {
					rolesLo[role[mask][g.lo]] = true
				}
			}
			okG := len(roles) == 1 && len(rolesLo) == 1
			if okG {
				var r1, r2 int
				for r := range roles {
					r1 = r
				}
				for r := range rolesLo {
					r2 = r
				}
				okG = r1 == -r2 && r1 != 0
			}
			if okG {
				c.ok(prefix+".MS", key, pos, "the vertex is a segment start in one cell and a segment end in its neighbour for every configuration")
			} else {
				c.bad(prefix+".MS", key, pos, "the shared vertex is not exactly once incoming and once outgoing for some pair of neighbouring cells: the outline breaks or branches there")
			}
		}
	}
}

// ---------------------------------------------------------------------------
// A1.BOX — box generators.

func (c *Ctx) runBoxTables(prefix string) {
	type site struct{ pkg, fn string }
	// AddQuad's split (modelled from its literal)
	m3 := c.pkg("model3d")
	if m3 == nil {
		return
	}
	split := [][3]int{}
	if fd, p := c.funcDecl(c.mustFunc("model3d", "Mesh.AddQuad")); fd != nil {
		params := map[types.Object]int{}
		idx := 0
		for _, f := range fd.Type.Params.List {
			for _, n := range f.Names {
				params[p.TypesInfo.Defs[n]] = idx
				idx++
			}
		}
		ast.Inspect(fd.Body, func(n ast.Node) bool {
			cl, ok := n.(*ast.CompositeLit)
			if !ok || len(cl.Elts) != 3 {
				return true
			}
			var t [3]int
			for i, e := range cl.Elts {
				id, ok := e.(*ast.Ident)
				if !ok {
					return true
				}
				k, ok := params[p.TypesInfo.Uses[id]]
				if !ok {
					return true
				}
				t[i] = k
			}
			split = append(split, t)
			return true
		})
	}
	if len(split) != 2 {
		c.problem("AddQuad: the two-triangle split was not recognised")
		return
	}
	// Sites are found by shape, not by name: a function of model3d/toolbox3d (or
	// the fixture package) that defines a local corner selector
	//     sel := func(x, y, z int) Coord3D { res := LO; if x == 1 { res.X = HI.X } ...; return res }
	// and lists quads (AddQuad calls or four-element literals) whose corners are
	// LO, HI or sel(i, j, k) with constant arguments.
	type boxSite struct {
		fd    *ast.FuncDecl
		p     *packages.Package
		quads [][4]int
	}
	var sites []boxSite
	for _, p := range []*packages.Package{c.pkg("model3d"), c.pkg("toolbox3d"), c.fixturePkg("b")} {
		if p == nil {
			continue
		}
		info := p.TypesInfo
		for _, file := range p.Syntax {
			for _, d := range file.Decls {
				fd, ok := d.(*ast.FuncDecl)
				if !ok || fd.Body == nil {
					continue
				}
				var selObj, loObj, hiObj types.Object
				ast.Inspect(fd.Body, func(n ast.Node) bool {
					as, ok := n.(*ast.AssignStmt)
					if !ok || len(as.Lhs) != 1 || len(as.Rhs) != 1 || selObj != nil {
						return true
					}
					fl, ok := as.Rhs[0].(*ast.FuncLit)
					if !ok || fl.Type.Params.NumFields() != 3 || fl.Type.Results.NumFields() != 1 || len(fl.Body.List) < 2 {
						return true
					}
					id, ok := as.Lhs[0].(*ast.Ident)
					if !ok {
						return true
					}
					first, ok := fl.Body.List[0].(*ast.AssignStmt)
					if !ok || len(first.Lhs) != 1 || len(first.Rhs) != 1 {
						return true
					}
					resID, ok1 := first.Lhs[0].(*ast.Ident)
					loID, ok2 := ast.Unparen(first.Rhs[0]).(*ast.Ident)
					if !ok1 || !ok2 || !isCoordType(info.TypeOf(loID)) {
						return true
					}
					resObj := info.Defs[resID]
					var hi types.Object
					consistent := true
					ast.Inspect(fl.Body, func(m ast.Node) bool {
						a2, ok := m.(*ast.AssignStmt)
						if !ok || len(a2.Lhs) != 1 || len(a2.Rhs) != 1 {
							return true
						}
						ls, ok1 := a2.Lhs[0].(*ast.SelectorExpr)
						rs, ok2 := ast.Unparen(a2.Rhs[0]).(*ast.SelectorExpr)
						if !ok1 || !ok2 {
							return true
						}
						lb, ok1 := ls.X.(*ast.Ident)
						rb, ok2 := rs.X.(*ast.Ident)
						if !ok1 || !ok2 || info.Uses[lb] != resObj {
							return true
						}
						if ls.Sel.Name != rs.Sel.Name || (hi != nil && info.Uses[rb] != hi) {
							consistent = false
						}
						hi = info.Uses[rb]
						return true
					})
					if hi == nil || !consistent {
						return true
					}
					selObj, loObj, hiObj = info.Defs[id], info.Uses[loID], hi
					return true
				})
				if selObj == nil {
					continue
				}
				cornerOf := func(e ast.Expr) (int, bool) {
					switch x := ast.Unparen(e).(type) {
					case *ast.Ident:
						switch info.Uses[x] {
						case loObj:
							return 0, true
						case hiObj:
							return 7, true
						}
					case *ast.CallExpr:
						if id, ok := x.Fun.(*ast.Ident); ok && info.Uses[id] == selObj {
							if a, ok := callArgsInts(info, x); ok && len(a) == 3 {
								return a[0] | a[1]<<1 | a[2]<<2, true
							}
						}
					}
					return 0, false
				}
				var quads [][4]int
				ast.Inspect(fd.Body, func(n ast.Node) bool {
					var elts []ast.Expr
					switch x := n.(type) {
					case *ast.CallExpr:
						if sel, ok := x.Fun.(*ast.SelectorExpr); ok && sel.Sel.Name == "AddQuad" && len(x.Args) == 4 {
							elts = x.Args
						}
					case *ast.CompositeLit:
						if len(x.Elts) == 4 {
							elts = x.Elts
						}
					}
					if len(elts) == 4 {
						var q [4]int
						okAll := true
						for i, a := range elts {
							k, ok := cornerOf(a)
							q[i] = k
							okAll = okAll && ok
						}
						if okAll {
							quads = append(quads, q)
						}
					}
					return true
				})
				if len(quads) > 0 {
					sites = append(sites, boxSite{fd, p, quads})
				}
			}
		}
	}
	for _, st := range sites {
		fd, quads := st.fd, st.quads
		name := declName(st.p, fd)
		c.analysed(name)
		key := name + " box"
		if len(quads) != 6 {
			c.bad(prefix+".BOX", key, fd.Pos(), fmt.Sprintf("a box is listed with %d quads instead of six: the surface is open or doubly covered", len(quads)))
			continue
		}
		cnt := map[[2]int]int{}
		vol := 0
		for _, q := range quads {
			for _, t := range split {
				v := [3]int{q[t[0]], q[t[1]], q[t[2]]}
				for i := 0; i < 3; i++ {
					cnt[[2]int{v[i], v[(i+1)%3]}]++
				}
				a, b, cc := cornerXYZ(v[0]), cornerXYZ(v[1]), cornerXYZ(v[2])
				vol += dot(pt(a), cross(pt(b), pt(cc)))
			}
		}
		bad := ""
		for e, n := range cnt {
			if n != 1 || cnt[[2]int{e[1], e[0]}] != 1 {
				bad = fmt.Sprintf("directed edge %d->%d occurs %d times and its reverse %d times", e[0], e[1], n, cnt[[2]int{e[1], e[0]}])
			}
		}
		switch {
		case bad != "":
			c.bad(prefix+".BOX", key, fd.Pos(), bad+": the box is not a closed, consistently oriented surface")
		case vol != 6:
			c.bad(prefix+".BOX", key, fd.Pos(), fmt.Sprintf("six times the signed volume of the unit box is %d instead of 6: the faces point inwards", vol))
		default:
			c.ok(prefix+".BOX", key, fd.Pos(), "12 triangles, every directed edge matched by its reverse, signed volume +1")
		}
	}
}
