package main

import (
	"fmt"
	"go/token"

	"golang.org/x/tools/go/packages"
	"golang.org/x/tools/go/ssa"
)

// AXISCMP: interval tests between two boxes / points compare like with like.
// A comparison a.K1 <op> b.K2 of components of two DIFFERENT coordinate values
// (K in X, Y, Z) must use the same component on both sides; comparing
// components of one and the same vector (size.X > size.Y, "longest axis") is
// a different idiom and creates no obligation.
func (c *Ctx) runAxisCompare(rule string, pkgs []*packages.Package, filter func(fn *ssa.Function) bool) {
	comp := func(v ssa.Value) (base ssa.Value, name string, ok bool) {
		switch x := v.(type) {
		case *ssa.Field:
			if isCoordType(x.X.Type()) {
				return x.X, coordFieldName(x.X.Type(), x.Field), true
			}
		case *ssa.UnOp:
			if x.Op == token.MUL {
				if fa, isFA := x.X.(*ssa.FieldAddr); isFA && isCoordType(fa.X.Type()) {
					return fa.X, coordFieldName(fa.X.Type(), fa.Field), true
				}
			}
		}
		return nil, "", false
	}
	for _, p := range pkgs {
		if p == nil {
			continue
		}
		for _, fn := range c.srcFuncs(p) {
			if filter != nil && !filter(fn) {
				continue
			}
			n := 0
			for _, b := range fn.Blocks {
				for _, ins := range b.Instrs {
					bin, ok := ins.(*ssa.BinOp)
					if !ok {
						continue
					}
					switch bin.Op {
					case token.LSS, token.GTR, token.LEQ, token.GEQ:
					default:
						continue
					}
					b1, k1, ok1 := comp(bin.X)
					b2, k2, ok2 := comp(bin.Y)
					if !ok1 || !ok2 || b1 == b2 || equivValue(b1, b2, 0) || sameValue(b1, b2) {
						continue
					}
					n++
					c.analysed(qname(fn))
					key := fmt.Sprintf("%s component comparison#%d", qname(fn), n)
					if k1 != k2 {
						c.bad(rule, key, bin.Pos(), fmt.Sprintf("the %s component of one coordinate is compared with the %s component of another: an interval test has to compare the same axis on both sides", k1, k2))
					} else {
						c.ok(rule, key, bin.Pos(), "same component on both sides")
					}
				}
			}
		}
	}
}

func coordFieldName(t interface{ String() string }, i int) string {
	if i >= 0 && i < 3 {
		return []string{"X", "Y", "Z"}[i]
	}
	return "?"
}
