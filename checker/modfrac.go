package main

// MODFRAC — a wrapped index turned into a fraction of a full turn:
// float64(i % N) * 2π / float64(M). The index is wrapped so that stop N and
// stop 0 are the same point; that is only true when N and M are the same
// count. With the count of the OTHER loop (outerStops for innerStops) the seam
// vertex is computed at angle 2π instead of 0 and differs in the last bits —
// the surface is silently open — or the tube folds back on itself.

import (
	"go/ast"
	"go/token"
	"go/types"

	"golang.org/x/tools/go/packages"
)

func (c *Ctx) runModFrac(rule string, pkgs []*packages.Package) {
	for _, p := range pkgs {
		if p == nil {
			continue
		}
		info := p.TypesInfo
		for _, file := range p.Syntax {
			for _, d := range file.Decls {
				fd, ok := d.(*ast.FuncDecl)
				if !ok || fd.Body == nil {
					continue
				}
				fobj, _ := info.Defs[fd.Name].(*types.Func)
				n := 0
				ast.Inspect(fd.Body, func(nd ast.Node) bool {
					be, ok := nd.(*ast.BinaryExpr)
					if !ok || be.Op != token.QUO {
						return true
					}
					// denominator float64(M)
					den, ok := ast.Unparen(be.Y).(*ast.CallExpr)
					if !ok || len(den.Args) != 1 {
						return true
					}
					if id, ok := den.Fun.(*ast.Ident); !ok || id.Name != "float64" {
						return true
					}
					m := exprObj(info, den.Args[0])
					if m == nil {
						return true
					}
					// numerator contains float64(x % N)
					var mod *ast.BinaryExpr
					ast.Inspect(be.X, func(n2 ast.Node) bool {
						if b2, ok := n2.(*ast.BinaryExpr); ok && b2.Op == token.REM && mod == nil {
							mod = b2
						}
						return true
					})
					if mod == nil {
						return true
					}
					nObj := exprObj(info, mod.Y)
					if nObj == nil {
						return true
					}
					n++
					c.analysed(objName(fobj))
					key := objName(fobj) + " wrapped fraction #" + itoa(n)
					if nObj == m {
						c.ok(rule, key, be.Pos(), "the index is wrapped by the count it is divided by ("+m.Name()+")")
					} else {
						c.bad(rule, key, be.Pos(), "the index is wrapped modulo "+nObj.Name()+" but turned into a fraction of "+m.Name()+": stop "+m.Name()+" is not mapped onto stop 0, the seam is open or the surface folds over")
					}
					return false
				})
			}
		}
	}
}
