package main

import (
	"fmt"
	"go/token"
	"go/types"

	"golang.org/x/tools/go/packages"
	"golang.org/x/tools/go/ssa"
)

// DIAGADD: adding one and the same scalar to several entries of a flat N x N
// matrix ([4], [9], [16] arrays) is adding a multiple of the identity (a ridge
// term, a shift): the entries must be diagonal ones, index k with
// k mod (N+1) == 0. Reported: `m[c] += s` at two or more constant indices with
// the same s of which one is off the diagonal, and `m[i*K] += s` in a loop
// with K != N+1.
func (c *Ctx) runDiagAdd(rule string, pkgs []*packages.Package, filter func(fn *ssa.Function) bool) {
	side := func(t types.Type) int {
		if p, ok := t.Underlying().(*types.Pointer); ok {
			t = p.Elem()
		}
		arr, ok := t.Underlying().(*types.Array)
		if !ok {
			return 0
		}
		if b, ok := arr.Elem().Underlying().(*types.Basic); !ok || b.Info()&types.IsFloat == 0 {
			return 0
		}
		switch arr.Len() {
		case 4:
			return 2
		case 9:
			return 3
		case 16:
			return 4
		}
		return 0
	}
	for _, p := range pkgs {
		if p == nil {
			continue
		}
		for _, fn := range c.srcFuncs(p) {
			if filter != nil && !filter(fn) {
				continue
			}
			type upd struct {
				st    *ssa.Store
				idx   ssa.Value
				n     int
				addnd ssa.Value
			}
			groups := map[ssa.Value]map[ssa.Value][]upd{} // matrix -> scalar -> updates
			for _, b := range fn.Blocks {
				for _, ins := range b.Instrs {
					st, ok := ins.(*ssa.Store)
					if !ok {
						continue
					}
					ia, ok := st.Addr.(*ssa.IndexAddr)
					if !ok {
						continue
					}
					n := side(ia.X.Type())
					if n == 0 {
						continue
					}
					bin, ok := st.Val.(*ssa.BinOp)
					if !ok || bin.Op != token.ADD {
						continue
					}
					var s ssa.Value
					if ld := loadOfIndex(bin.X); ld != nil && ld.X == ia.X && equivValue(ld.Index, ia.Index, 0) {
						s = bin.Y
					} else if ld := loadOfIndex(bin.Y); ld != nil && ld.X == ia.X && equivValue(ld.Index, ia.Index, 0) {
						s = bin.X
					} else {
						continue
					}
					if groups[ia.X] == nil {
						groups[ia.X] = map[ssa.Value][]upd{}
					}
					groups[ia.X][s] = append(groups[ia.X][s], upd{st, ia.Index, n, s})
				}
			}
			k := 0
			for _, byS := range groups {
				for s, ups := range byS {
					// the scalar must not itself vary with the entry
					if _, isC := s.(*ssa.Const); !isC {
						if ins, ok := s.(ssa.Instruction); ok {
							inLoop := false
							for _, body := range naturalLoops(fn) {
								if body[ins.Block()] && body[ups[0].st.Block()] {
									inLoop = true
								}
							}
							if inLoop {
								continue
							}
						}
					}
					n := ups[0].n
					var consts []int64
					var strided []upd
					for _, u := range ups {
						if v, ok := constInt(u.idx); ok {
							consts = append(consts, v)
						} else if bin, ok := u.idx.(*ssa.BinOp); ok && bin.Op == token.MUL {
							strided = append(strided, u)
						}
					}
					if len(consts) >= 2 {
						k++
						c.analysed(qname(fn))
						key := fmt.Sprintf("%s scalar added to entries#%d", qname(fn), k)
						off := false
						for _, v := range consts {
							if v%int64(n+1) != 0 {
								off = true
							}
						}
						if off {
							c.bad(rule, key, ups[0].st.Pos(), fmt.Sprintf("the same scalar is added to entries %v of a %dx%d matrix: not all of them are on the diagonal (indices divisible by %d)", consts, n, n, n+1))
						} else {
							c.ok(rule, key, ups[0].st.Pos(), "scalar added to diagonal entries")
						}
					}
					for _, u := range strided {
						bin := u.idx.(*ssa.BinOp)
						var kk int64
						var ok bool
						if kk, ok = constInt(bin.Y); !ok {
							if kk, ok = constInt(bin.X); !ok {
								continue
							}
						}
						k++
						c.analysed(qname(fn))
						key := fmt.Sprintf("%s scalar added to entries#%d", qname(fn), k)
						if kk != int64(n+1) {
							c.bad(rule, key, u.st.Pos(), fmt.Sprintf("a scalar is added to the entries i*%d of a %dx%d matrix: that is a column (or row), the diagonal has stride %d", kk, n, n, n+1))
						} else {
							c.ok(rule, key, u.st.Pos(), "scalar added along the diagonal")
						}
					}
				}
			}
		}
	}
}
