package main

import (
	"fmt"
	"go/token"
	"go/types"

	"golang.org/x/tools/go/packages"
	"golang.org/x/tools/go/ssa"
)

// SEARCHALL: a recursive search over the children of a node - a function that
// can answer "not found" (nil, false) and calls itself on the elements of a
// loop - tries the next child when one child finds nothing. Returning a
// child's answer from inside the loop without having tested it makes the first
// candidate final: siblings whose regions overlap the first one are never
// asked (bounding boxes of hierarchy nodes overlap).
func (c *Ctx) runSearchAll(rule string, pkgs []*packages.Package, filter func(fn *ssa.Function) bool) {
	notFound := func(v ssa.Value) bool {
		k, ok := v.(*ssa.Const)
		if !ok {
			return false
		}
		if k.IsNil() {
			return true
		}
		if b, isB := k.Type().Underlying().(*types.Basic); isB && b.Kind() == types.Bool && k.Value != nil {
			return k.Value.String() == "false"
		}
		return false
	}
	for _, p := range pkgs {
		if p == nil {
			continue
		}
		for _, fn := range c.srcFuncs(p) {
			if (filter != nil && !filter(fn)) || fn.Signature.Results().Len() == 0 {
				continue
			}
			canMiss := false
			for _, b := range fn.Blocks {
				if ret, ok := b.Instrs[len(b.Instrs)-1].(*ssa.Return); ok && len(ret.Results) > 0 && notFound(ret.Results[0]) {
					canMiss = true
				}
			}
			if !canMiss {
				continue
			}
			loops := naturalLoops(fn)
			n := 0
			for head, natural := range loops {
				// the loop's region including blocks that leave it by returning:
				// everything dominated by a body-entry successor of the header
				body := map[*ssa.BasicBlock]bool{}
				for _, entry := range head.Succs {
					if !natural[entry] || entry == head {
						continue
					}
					for _, b := range fn.Blocks {
						if entry.Dominates(b) {
							body[b] = true
						}
					}
				}
				for b := range body {
					for _, ins := range b.Instrs {
						call, ok := ins.(*ssa.Call)
						if !ok || call.Call.StaticCallee() != fn {
							continue
						}
						n++
						c.analysed(qname(fn))
						key := fmt.Sprintf("%s recursive search#%d", qname(fn), n)
						// the first result of the call
						var first ssa.Value = call
						if fn.Signature.Results().Len() > 1 {
							first = nil
							for _, ref := range *call.Referrers() {
								if ex, ok := ref.(*ssa.Extract); ok && ex.Index == 0 {
									first = ex
								}
							}
						}
						if first == nil {
							continue
						}
						// returned as it is, from inside the loop, untested?
						bad := token.NoPos
						for _, ref := range *first.Referrers() {
							ret, ok := ref.(*ssa.Return)
							if !ok || !body[ret.Block()] || len(ret.Results) == 0 || ret.Results[0] != first {
								continue
							}
							tested := false
							for _, f := range factsAt(ret.Block()) {
								if dependsOn(f.cond, first, 0) {
									tested = true
								}
							}
							if !tested {
								bad = ret.Pos()
							}
						}
						if bad != token.NoPos {
							c.bad(rule, key, bad, "the answer of the first child that is asked is returned from inside the loop without being tested: when that child finds nothing the remaining children are never searched")
						} else {
							c.ok(rule, key, call.Pos(), "a child's answer is returned only after it was tested")
						}
					}
				}
			}
		}
	}
}
