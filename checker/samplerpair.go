package main

// SAMPLERPAIR — a sampler and its density are two views of one distribution:
// SampleSource/SourceDensity, SampleDest/DestDensity, SampleFocus/FocusDensity
// of one type. Where both call the same helper (reflectAmount, refractInverse,
// normal.Reflect ...) the probability or direction must be computed from the
// same arguments, otherwise the density no longer describes what the sampler
// draws (importance weights are wrong although each function looks fine
// alone). Obligation per helper that both methods of a pair call: every
// argument list used by the density also occurs in the sampler.

import (
	"go/ast"
	"go/types"
	"sort"
	"strings"

	"golang.org/x/tools/go/packages"
	"golang.org/x/tools/go/types/typeutil"
)

var samplerPairs = [][2]string{{"SampleSource", "SourceDensity"}, {"SampleDest", "DestDensity"}, {"SampleFocus", "FocusDensity"}}

func (c *Ctx) runSamplerPair(rule string, pkgs []*packages.Package) {
	for _, p := range pkgs {
		if p == nil {
			continue
		}
		info := p.TypesInfo
		methods := map[string]map[string]*ast.FuncDecl{} // recv type -> method -> decl
		for _, file := range p.Syntax {
			for _, d := range file.Decls {
				fd, ok := d.(*ast.FuncDecl)
				if !ok || fd.Recv == nil || fd.Body == nil || len(fd.Recv.List) != 1 {
					continue
				}
				tn := typeNameOf(info.TypeOf(fd.Recv.List[0].Type))
				if methods[tn] == nil {
					methods[tn] = map[string]*ast.FuncDecl{}
				}
				methods[tn][fd.Name.Name] = fd
			}
		}
		var tnames []string
		for tn := range methods {
			tnames = append(tnames, tn)
		}
		sort.Strings(tnames)
		calls := func(fd *ast.FuncDecl) map[types.Object][]string {
			res := map[types.Object][]string{}
			ast.Inspect(fd.Body, func(n ast.Node) bool {
				call, ok := n.(*ast.CallExpr)
				if !ok {
					return true
				}
				fn, ok := typeutil.Callee(info, call).(*types.Func)
				if !ok || fn.Pkg() == nil || fn.Pkg() != p.Types {
					return true // only helpers of this package: the vector vocabulary is used differently by design
				}
				var parts []string
				if sel, ok := call.Fun.(*ast.SelectorExpr); ok {
					if _, isPkg := info.Uses[identOf(sel.X)].(*types.PkgName); !isPkg {
						parts = append(parts, types.ExprString(sel.X))
					}
				}
				for _, a := range call.Args {
					parts = append(parts, types.ExprString(a))
				}
				res[fn] = append(res[fn], strings.Join(parts, ", "))
				return true
			})
			return res
		}
		for _, tn := range tnames {
			for _, pair := range samplerPairs {
				s, d := methods[tn][pair[0]], methods[tn][pair[1]]
				if s == nil || d == nil {
					continue
				}
				// GUARD: both fall back on the material under the same condition
				fallback := func(fd *ast.FuncDecl, names ...string) (string, bool) {
					for _, st := range fd.Body.List {
						ifs, ok := st.(*ast.IfStmt)
						if !ok || len(ifs.Body.List) == 0 {
							continue
						}
						ret, ok := ifs.Body.List[len(ifs.Body.List)-1].(*ast.ReturnStmt)
						if !ok || len(ret.Results) != 1 {
							continue
						}
						call, ok := ret.Results[0].(*ast.CallExpr)
						if !ok {
							continue
						}
						sel, ok := call.Fun.(*ast.SelectorExpr)
						if !ok {
							continue
						}
						for _, n := range names {
							if sel.Sel.Name == n {
								return types.ExprString(ifs.Cond), true
							}
						}
					}
					return "", false
				}
				gs, okS := fallback(s, "SampleSource", "SampleDest")
				gd, okD := fallback(d, "SourceDensity", "DestDensity")
				if okS || okD {
					key := shortPkg(p.PkgPath) + "." + tn + " " + pair[0] + "/" + pair[1] + " fallback guard"
					c.analysed(shortPkg(p.PkgPath) + "." + tn + "." + pair[1])
					switch {
					case okS && okD && gs == gd:
						c.ok(rule, key, d.Pos(), "sampler and density fall back on the material under the same condition")
					case okS && okD:
						c.bad(rule, key, d.Pos(), "the sampler falls back on the material when ("+gs+") but the density when ("+gd+"): for inputs where the two differ the density does not describe the sampler")
					case fallsBackSomewhere(s, "SampleSource", "SampleDest") && fallsBackSomewhere(d, "SourceDensity", "DestDensity"):
						// both fall back, but one of them not in the "if cond { return
						// mat.X(..) }" form (e.g. the fallback is the final return and
						// the guard is inverted): the conditions are not comparable
						// as text, no claim
						c.ok(rule, key, d.Pos(), "sampler and density both fall back on the material; the guards are written in different forms and are not compared")
					default:
						c.bad(rule, key, d.Pos(), "only one of sampler and density falls back on the material's own distribution")
					}
				}
				sc, dc := calls(s), calls(d)
				var shared []types.Object
				for fn := range dc {
					if _, ok := sc[fn]; ok {
						shared = append(shared, fn)
					}
				}
				sort.Slice(shared, func(i, j int) bool { return shared[i].Name() < shared[j].Name() })
				for _, fn := range shared {
					if fn.Name() == pair[0] || fn.Name() == pair[1] {
						continue
					}
					// skip the vector vocabulary with receivers that differ by design (Dot, Scale ...):
					// only helpers whose every argument list is made of parameters/receiver names
					key := shortPkg(p.PkgPath) + "." + tn + " " + pair[0] + "/" + pair[1] + " calls of " + fn.Name()
					c.analysed(shortPkg(p.PkgPath) + "." + tn + "." + pair[1])
					inS := map[string]bool{}
					for _, a := range sc[fn] {
						inS[a] = true
					}
					var odd []string
					for _, a := range dc[fn] {
						if !inS[a] {
							odd = append(odd, "("+a+")")
						}
					}
					if len(odd) == 0 {
						c.ok(rule, key, d.Pos(), "the density calls the helper with the argument lists the sampler uses")
					} else {
						sort.Strings(sc[fn])
						c.bad(rule, key, d.Pos(), pair[1]+" calls "+fn.Name()+" with "+strings.Join(odd, ", ")+", "+pair[0]+" only with ("+strings.Join(sc[fn], "), (")+"): the density is computed from other quantities than the sampler's choice")
					}
				}
			}
		}
	}
}

func identOf(e ast.Expr) *ast.Ident {
	id, _ := ast.Unparen(e).(*ast.Ident)
	return id
}

// runSamplerPairFuncs: the package-level adapters of a sampler/density pair
// (SampleDest / DestDensity built on SampleSource / SourceDensity of an
// interface): in both adapters the argument bound to a parameter of the SAME
// NAME of the methods they delegate to is the same expression - the density
// has to be evaluated for the very direction the sampler was conditioned on.
func (c *Ctx) runSamplerPairFuncs(rule string, pkgs []*packages.Package) {
	for _, p := range pkgs {
		if p == nil {
			continue
		}
		info := p.TypesInfo
		funcs := map[string]*ast.FuncDecl{}
		for _, file := range p.Syntax {
			for _, d := range file.Decls {
				if fd, ok := d.(*ast.FuncDecl); ok && fd.Recv == nil && fd.Body != nil {
					funcs[fd.Name.Name] = fd
				}
			}
		}
		// argument expression per (delegate pair member, parameter name)
		bound := func(fd *ast.FuncDecl, method string) map[string]string {
			res := map[string]string{}
			ast.Inspect(fd.Body, func(n ast.Node) bool {
				call, ok := n.(*ast.CallExpr)
				if !ok {
					return true
				}
				fn, ok := typeutil.Callee(info, call).(*types.Func)
				if !ok || fn.Name() != method {
					return true
				}
				sig := fn.Type().(*types.Signature)
				if sig.Recv() == nil {
					return true
				}
				if _, isI := sig.Recv().Type().Underlying().(*types.Interface); !isI {
					return true
				}
				for i, a := range call.Args {
					if i < sig.Params().Len() {
						res[sig.Params().At(i).Name()] = types.ExprString(a)
					}
				}
				return true
			})
			return res
		}
		for _, pair := range samplerPairs {
			fs, fdn := funcs[pair[0]], funcs[pair[1]]
			if fs == nil || fdn == nil {
				continue
			}
			for _, inner := range samplerPairs {
				if inner == pair {
					continue
				}
				a, b := bound(fs, inner[0]), bound(fdn, inner[1])
				if len(a) == 0 || len(b) == 0 {
					continue
				}
				var names []string
				for n := range a {
					if _, ok := b[n]; ok && n != "" && n != "_" {
						names = append(names, n)
					}
				}
				sort.Strings(names)
				for _, n := range names {
					key := p.Types.Name() + "." + pair[0] + "/" + pair[1] + " via " + inner[0] + "/" + inner[1] + " parameter " + n
					c.analysed(p.Types.Name() + "." + pair[0])
					if a[n] == b[n] {
						c.ok(rule, key, fs.Pos(), "both adapters pass "+a[n])
					} else {
						c.bad(rule, key, fdn.Pos(), "the sampler adapter passes "+a[n]+" for the delegate's parameter "+n+" but the density adapter passes "+b[n]+": the reported density is not the density of the distribution that is sampled")
					}
				}
			}
		}
	}
}

// fallsBackSomewhere: some return statement of fd hands back the result of a
// call of one of the named methods.
func fallsBackSomewhere(fd *ast.FuncDecl, names ...string) bool {
	found := false
	ast.Inspect(fd.Body, func(n ast.Node) bool {
		if _, ok := n.(*ast.FuncLit); ok {
			return false
		}
		ret, ok := n.(*ast.ReturnStmt)
		if !ok || len(ret.Results) != 1 {
			return true
		}
		call, ok := ast.Unparen(ret.Results[0]).(*ast.CallExpr)
		if !ok {
			return true
		}
		sel, ok := call.Fun.(*ast.SelectorExpr)
		if !ok {
			return true
		}
		for _, nm := range names {
			if sel.Sel.Name == nm {
				found = true
			}
		}
		return true
	})
	return found
}
