package main

func init() {
	register("C18", &propInfo{
		Explanation: "Structural clauses of the surface parameterisation code (model3d/parameterization.go): AXIS no purely X-derived quantity is added to, compared with or put in the slot of a purely Y-derived one in the atlas packing and boundary code.",
		Trusted:     []string{"go/types, go/ssa"},
		Fixtures:    []string{"s", "n", "u"},
		Run:         runC18,
		SelfTest: []Mutation{
			{Name: "UV lookup trusts the first child whose box contains the point", File: "model3d/parameterization.go",
				Old: "\t\tif tri, bary := ch.findContains(c); tri != nil {\n\t\t\treturn tri, bary\n\t\t}", New: "\t\tif ch.bounds.Contains(c) {\n\t\t\treturn ch.findContains(c)\n\t\t}", Rule: "SEARCHALL", Expect: "findContains"},
			{Name: "p-norm of the raw coordinates", File: "model3d/parameterization.go",
				Old: "\t\tabs := v.Abs()\n", New: "\t\tabs := v\n", Rule: "POWABS", Expect: "PNormBoundary"},
			{Name: "transposed Floater system", File: "model3d/parameterization.go",
				Old: "matrix.Set(i, j, weight)", New: "matrix.Set(j, i, weight)", Rule: "ROWIDX", Expect: "floater97"},
			{Name: "tall split starts at the x midpoint", File: "model3d/parameterization.go",
				Old: "p.Branches[1].Joined(border, model2d.XY(min.X, mp), max),", New: "p.Branches[1].Joined(border, model2d.XY(min.X, (min.X+max.X)/2), max),", Rule: "AXIS", Expect: "Joined"},
			{Name: "boundary veto ignored for existing boundaries", File: "model3d/parameterization.go",
				Old: "\t\tif !wouldDivideBoundary {", New: "\t\tif hasExistingBoundary || !wouldDivideBoundary {", Rule: "VETO", Expect: "addTriangle"},
			{Name: "sphere split clamped only from above (defect repaired)", File: "model3d/parameterization.go",
				Old: "\t\tif index < 1 {\n", New: "\t\tif index < 0 {\n", Rule: "SPLIT2", Expect: "nextMeshPlaneGraphs"},
			{Name: "behaviour-preserving: midpoint hoisted into a variable per axis", File: "model3d/parameterization.go",
				Old: "\t\t\tmp := (min.Y + max.Y) / 2\n", New: "\t\t\tsum := min.Y + max.Y\n\t\t\tmp := sum / 2\n", Rule: "AXIS", Clean: true},
		},
	})
}

func runC18(c *Ctx) {
	ff := c.fileFilter("model3d/parameterization.go")
	axisSlotsOnly = true
	c.runAxisTags("AXIS", c.libPkgs()[:1], ff)
	axisSlotsOnly = false
	// distances and squared distances are not mixed (nearest-triangle search, stretch)
	c.runUnits("UNIT", c.unitPkgs("u"), ff)
	c.floor("UNIT", 0)
	c.runRowIdx("ROWIDX", c.libPkgs()[:1], baseIn("parameterization.go"))
	c.floor("ROWIDX", 0)
	// (floor 0: extracting the scan into a predicate function removes the shape
	// without changing behaviour; the fixture keeps the rule exercised)
	c.runVeto("VETO", append(c.libPkgs(), c.fixturePkg("s")), nil)
	c.floor("VETO", 0)
	c.runSplit2("SPLIT2", append(c.libPkgs(), c.fixturePkg("n")), nil)
	c.floor("SPLIT2", 0)
	c.floor("AXIS", 4)
	// the p-norm boundary raises absolute coordinates to the power p
	// the UV lookup tries every child whose box contains the point
	c.runSearchAll("SEARCHALL", append(c.libPkgs()[:1:1], c.fixturePkg("s")), ff)
	c.floor("SEARCHALL", 0)
	c.runPowAbs("POWABS", append(c.libPkgs()[:1:1], c.fixturePkg("n")), nil)
	c.floor("POWABS", 0)
}
