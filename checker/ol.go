package main

// OL — option liveness: every exported field of the named option structs is
// read somewhere in non-test library code (a selector that is not merely the
// target of an assignment). An option nobody reads cannot be honoured.

import (
	"go/ast"
	"go/types"
)

func (c *Ctx) runOptionLiveness(rule, pkgShort string, typeNames ...string) {
	p := c.pkg(pkgShort)
	if p == nil {
		c.problem("OL: package %s not loaded", pkgShort)
		return
	}
	for _, tn := range typeNames {
		obj, _ := p.Types.Scope().Lookup(tn).(*types.TypeName)
		if obj == nil {
			c.problem("unresolved anchor: type %s.%s", pkgShort, tn)
			continue
		}
		st, ok := obj.Type().Underlying().(*types.Struct)
		if !ok {
			c.problem("unresolved anchor: %s.%s is not a struct", pkgShort, tn)
			continue
		}
		for i := 0; i < st.NumFields(); i++ {
			f := st.Field(i)
			if !f.Exported() || f.Embedded() {
				continue
			}
			reads := c.fieldReads(f)
			key := pkgShort + "." + tn + "." + f.Name()
			if reads > 0 {
				c.ok(rule, key, f.Pos(), "read at "+itoa(reads)+" site(s) in library code")
			} else {
				c.bad(rule, key, f.Pos(), "exported option field is never read by library code: the option cannot have any effect")
			}
		}
	}
}

func itoa(n int) string {
	return types.ExprString(&ast.BasicLit{Value: intStr(n)})
}

func intStr(n int) string {
	if n == 0 {
		return "0"
	}
	s := ""
	for n > 0 {
		s = string(rune('0'+n%10)) + s
		n /= 10
	}
	return s
}

func (c *Ctx) fieldReads(f *types.Var) int {
	reads := 0
	for _, p := range c.libPkgs() {
		for _, file := range p.Syntax {
			// collect selector expressions that are assignment targets
			writes := map[ast.Expr]bool{}
			ast.Inspect(file, func(n ast.Node) bool {
				if as, ok := n.(*ast.AssignStmt); ok {
					for _, l := range as.Lhs {
						writes[ast.Unparen(l)] = true
					}
				}
				return true
			})
			ast.Inspect(file, func(n ast.Node) bool {
				sel, ok := n.(*ast.SelectorExpr)
				if !ok {
					return true
				}
				if p.TypesInfo.Uses[sel.Sel] == f && !writes[sel] {
					reads++
				}
				return true
			})
		}
	}
	return reads
}

// runOptionLivenessFields checks the named fields only.
func (c *Ctx) runOptionLivenessFields(rule, pkgShort, typeName string, fields ...string) {
	for _, fname := range fields {
		f := c.mustField(pkgShort, typeName+"."+fname)
		if f == nil {
			continue
		}
		key := pkgShort + "." + typeName + "." + fname
		if n := c.fieldReads(f); n > 0 {
			c.ok(rule, key, f.Pos(), "read at "+itoa(n)+" site(s) in library code")
		} else {
			c.bad(rule, key, f.Pos(), "the documented option is never read by library code: it cannot have any effect")
		}
	}
}
