package main

func init() {
	register("C13", &propInfo{
		Explanation: "W: for every worker of the library (go statements in loops and callbacks of the concurrent runners; found in the SSA of all library packages) every write to memory shared between workers, direct or through callees (effect summaries over the VTA call graph), is index-addressed by the worker's own index/received item or performed under a held sync.Mutex. Q: the query methods of the interfaces documented as safe for concurrent use have no unlocked write effect on receiver-reachable or global memory. PUBLISH: a value put into a sync.Map or atomic.Value is not written through after the call, and nothing is written through a pointer that came out of such a container. Z: the lazily built vertex index of Mesh is only touched through atomic Load/Store outside mutators, built under the creation lock after a re-check, and not written after it is published.",
		Trusted:     []string{"go/ssa and the VTA call graph of x/tools v0.29.0", "reachability-based aliasing of checker/effects.go (no points-to analysis available)", "the runner table (validated: each runner reaches a go statement)", "packages outside the descend list (sync, sync/atomic, runtime, fmt, os, math, ...) do not write memory reachable from their arguments, except sort.* (hand summary)"},
		Assumptions: []string{"user-supplied function values (FuncSolid etc.) are pure, as the Solid contract demands", "worker indices are distinct per worker (injectivity of index expressions is not proved)"},
		Fixtures:    []string{"w"},
		Run:         runC13,
		SelfTest: []Mutation{
			{Name: "k-means adds the shared partial sums before taking the lock", File: "numerical/k_means.go",
				Old: "\t\t\tresultLock.Lock()\n\t\t\tdefer resultLock.Unlock()\n\t\t\tfor i, c := range localCenterCount {", New: "\t\t\tfor i, s := range localCenterSum {\n\t\t\t\tlocalCenterSum[i] = centerSum[i].Add(s)\n\t\t\t}\n\t\t\tresultLock.Lock()\n\t\t\tdefer resultLock.Unlock()\n\t\t\tfor i, c := range localCenterCount {", Rule: "W.READ", Expect: "KMeans"},
			{Name: "memoised scalar function publishes an empty slot and fills it later", File: "model2d/curves.go",
				Old: "\t\tvalue, ok := cache.Load(x)\n\t\tif ok {\n\t\t\treturn value.(float64)\n\t\t} else {\n\t\t\ty := f(x)\n\t\t\tcache.Store(x, y)\n\t\t\treturn y\n\t\t}", New: "\t\tslot, loaded := cache.LoadOrStore(x, new(float64))\n\t\ty := slot.(*float64)\n\t\tif !loaded {\n\t\t\t*y = f(x)\n\t\t}\n\t\treturn *y", Rule: "PUBLISH", Expect: "CacheScalarFunc"},
			{Name: "AddSpheresSDF without the mutex (defect F5 re-introduced)", File: "toolbox3d/height_map.go",
				Old: "\t\t\tlock.Lock()\n\t\t\tdefer lock.Unlock()\n", New: "",
				More: [][2]string{{"\tvar lock sync.Mutex\n", ""}, {"\t\"sync\"\n", ""}}, Rule: "W", Expect: "AddSpheresSDF"},
			{Name: "nearest-child ordering swaps the shared children array", File: "model3d/sdf.go",
				Old: "iterates := m.children\n", New: "iterates := m.children[:]\n", Rule: "Q", Expect: "meshSDF"},
			{Name: "vertex index published before it is filled", File: "model3d/mesh.go",
				Old: "\tm.vertexToFace.Store(v2f)\n\n\treturn v2f", New: "\treturn v2f",
				More: [][2]string{{"\tv2f = NewCoordToSlice[*Triangle]()\n", "\tv2f = NewCoordToSlice[*Triangle]()\n\tm.vertexToFace.Store(v2f)\n"}},
				Rule: "Z.PUBLISH", Expect: "getVertexToFace"},
			{Name: "vertex index built without the creation lock", File: "model2d/mesh.go",
				Old: "\tm.v2fCreateLock.Lock()\n\tdefer m.v2fCreateLock.Unlock()\n", New: "", Rule: "Z.LOCKED", Expect: "getVertexToFace"},
			{Name: "ray caster writes one pixel from all workers", File: "render3d/raycast.go",
				Old: "img.Data[idx] = color", New: "img.Data[len(img.Data)-1] = color", Rule: "W", Expect: "RayCaster"},
			{Name: "k-means merges partial sums outside the lock", File: "numerical/k_means.go",
				Old: "\t\t\tresultLock.Lock()\n\t\t\tdefer resultLock.Unlock()\n\t\t\tfor i, c := range localCenterCount {\n\t\t\t\tcenterCount[i] += c\n\t\t\t}\n",
				New: "\t\t\tfor i, c := range localCenterCount {\n\t\t\t\tcenterCount[i] += c\n\t\t\t}\n\t\t\tresultLock.Lock()\n\t\t\tdefer resultLock.Unlock()\n", Rule: "W", Expect: "KMeans"},
			{Name: "dual contouring worker appends to the shared interior list", File: "model3d/dc.go",
				Old: "localInterior = append(localInterior, edge.Coord)", New: "*interior = append(*interior, edge.Coord)", Rule: "W", Expect: "populateEdges"},
			{Name: "collider caches its last ray in the receiver", File: "model3d/collisions.go",
				Old: "func (j *JoinedCollider) RayCollisions(r *Ray, f func(RayCollision)) int {\n", New: "func (j *JoinedCollider) RayCollisions(r *Ray, f func(RayCollision)) int {\n\tj.min = j.min.Min(r.Origin)\n", Rule: "Q", Expect: "JoinedCollider"},
		},
	})
}

func runC13(c *Ctx) {
	eng := newEffEngine(c)
	pkgs := append(c.libPkgs(), c.fixturePkg("w"))
	c.runWorkerWrites(eng, pkgs, "W", nil)
	c.floor("W", 25)
	c.runWorkerReads(eng, pkgs, "W.READ", nil)
	c.floor("W.READ", 0)
	c.runQueryPurity(eng, pkgs, "Q")
	c.floor("Q", 300)
	c.runLazyInit(eng, pkgs, "Z")
	c.floor("Z.ACCESS", 7)
	c.floor("Z.LOCKED", 2)
	c.floor("Z.RECHECK", 2)
	c.floor("Z.PUBLISH", 2)
	c.runTicket("TICKET", pkgs)
	c.floor("TICKET", 0)
	c.runPublish("PUBLISH", pkgs)
	c.floor("PUBLISH", 2)
	c.runLoopCapture("GO", pkgs)
	c.floor("GO.CAPTURE", 1)
	c.floor("GO.STRIDE", 0)
}
