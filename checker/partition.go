package main

// PARTITION — work split into chunks of c items: with numChunks = total / c
// (integer division) and chunk k covering [k*c, k*c+c) the last total % c
// items belong to no chunk unless the count is rounded up
// ((total + c - 1) / c), the remainder is handled (total % c appears), or the
// chunk bounds are computed as k*total/numChunks. A render that hands out
// pixels this way leaves the trailing pixels black for every image size that
// is not a multiple of the chunk size.

import (
	"fmt"
	"go/token"
	"go/types"

	"golang.org/x/tools/go/packages"
	"golang.org/x/tools/go/ssa"
)

func (c *Ctx) runPartition(rule string, pkgs []*packages.Package, fileOK func(fn *ssa.Function) bool) {
	isInt := func(v ssa.Value) bool {
		b, ok := v.Type().Underlying().(*types.Basic)
		return ok && b.Info()&types.IsInteger != 0
	}
	for _, p := range pkgs {
		if p == nil {
			continue
		}
		for _, top := range c.srcFuncs(p) {
			if top.Parent() != nil || (fileOK != nil && !fileOK(top)) {
				continue
			}
			// the function together with its closures
			var fns []*ssa.Function
			var add func(f *ssa.Function)
			add = func(f *ssa.Function) {
				fns = append(fns, f)
				for _, a := range f.AnonFuncs {
					add(a)
				}
			}
			add(top)
			// resolve a value through captured cells to what is stored into them
			resolve := func(v ssa.Value) ssa.Value {
				for depth := 0; depth < 4; depth++ {
					ld, ok := v.(*ssa.UnOp)
					if !ok || ld.Op != token.MUL {
						return v
					}
					var cell ssa.Value = ld.X
					if fv, ok := cell.(*ssa.FreeVar); ok {
						cell = freeVarBinding(fv)
					}
					al, ok := cell.(*ssa.Alloc)
					if !ok {
						return v
					}
					var stored ssa.Value
					for _, ref := range *al.Referrers() {
						if st, ok := ref.(*ssa.Store); ok && st.Addr == ssa.Value(al) {
							if stored != nil {
								return v
							}
							stored = st.Val
						}
					}
					if stored == nil {
						return v
					}
					v = stored
				}
				return v
			}
			lenArg := func(v ssa.Value) ssa.Value {
				if call, ok := v.(*ssa.Call); ok {
					if bi, isB := call.Call.Value.(*ssa.Builtin); isB && bi.Name() == "len" && len(call.Call.Args) == 1 {
						return call.Call.Args[0]
					}
				}
				return nil
			}
			same := func(a, b ssa.Value) bool {
				a, b = resolve(a), resolve(b)
				if a == b || equivValue(a, b, 0) {
					return true
				}
				// len(x) in a closure and len(x) in the enclosing function
				if la, lb := lenArg(a), lenArg(b); la != nil && lb != nil {
					la, lb = resolve(la), resolve(lb)
					return la == lb || equivValue(la, lb, 0)
				}
				return false
			}
			type quo struct {
				ins  *ssa.BinOp
				t, c ssa.Value
			}
			var quos []quo
			var muls, rems []*ssa.BinOp
			for _, fn := range fns {
				for _, b := range fn.Blocks {
					for _, ins := range b.Instrs {
						be, ok := ins.(*ssa.BinOp)
						if !ok || !isInt(be) {
							continue
						}
						switch be.Op {
						case token.QUO:
							if _, isC := resolve(be.Y).(*ssa.Const); !isC {
								quos = append(quos, quo{be, be.X, be.Y})
							}
						case token.MUL:
							muls = append(muls, be)
						case token.REM:
							rems = append(rems, be)
						}
					}
				}
			}
			n := 0
			for _, q := range quos {
				// a chunk start k*c with the same c
				// a chunk start k*c with the same c, where k is an index that is
				// compared with the quotient (k < numChunks / k >= numChunks)
				var start *ssa.BinOp
				for _, m := range muls {
					var k ssa.Value
					switch {
					case same(m.Y, q.c):
						k = m.X
					case same(m.X, q.c):
						k = m.Y
					default:
						continue
					}
					for _, fn := range fns {
						for _, b := range fn.Blocks {
							for _, ins := range b.Instrs {
								cmp, ok := ins.(*ssa.BinOp)
								if !ok {
									continue
								}
								switch cmp.Op {
								case token.LSS, token.LEQ, token.GTR, token.GEQ, token.EQL, token.NEQ:
								default:
									continue
								}
								if (same(cmp.X, k) && same(cmp.Y, q.ins)) || (same(cmp.Y, k) && same(cmp.X, q.ins)) {
									start = m
								}
							}
						}
					}
				}
				transposed := false
				if start == nil {
					// the transposed split: chunk SIZE = total / count, chunk k
					// covers [k*size, (k+1)*size)
					for _, m := range muls {
						if same(m.X, q.ins) || same(m.Y, q.ins) {
							start, transposed = m, true
						}
					}
				}
				if start == nil {
					continue
				}
				tailHandled := false
				if transposed {
					// the last chunk may be extended to the total explicitly
					for _, fn := range fns {
						for _, b := range fn.Blocks {
							for _, ins := range b.Instrs {
								switch x := ins.(type) {
								case *ssa.BinOp:
									switch x.Op {
									case token.LSS, token.LEQ, token.GTR, token.GEQ:
										if same(x.X, q.t) || same(x.Y, q.t) {
											tailHandled = true // some bound is compared with the total
										}
									}
								case *ssa.Phi:
									for _, e := range x.Edges {
										if same(e, q.t) {
											tailHandled = true // `end = total` on some path
										}
									}
								}
							}
						}
					}
				}
				n++
				c.analysed(qname(top))
				key := fmt.Sprintf("%s chunk count#%d", qname(top), n)
				// rounded up?
				ceil := false
				if add, ok := resolve(q.t).(*ssa.BinOp); ok && add.Op == token.ADD {
					for _, side := range []ssa.Value{add.X, add.Y} {
						if sub, ok := side.(*ssa.BinOp); ok && sub.Op == token.SUB && same(sub.X, q.c) {
							ceil = true
						}
					}
					// (t + c) - 1
				}
				if sub, ok := resolve(q.t).(*ssa.BinOp); ok && sub.Op == token.SUB {
					if add, ok := sub.X.(*ssa.BinOp); ok && add.Op == token.ADD && (same(add.X, q.c) || same(add.Y, q.c)) {
						ceil = true
					}
				}
				handled := false
				for _, r := range rems {
					if same(r.Y, q.c) {
						handled = true
					}
				}
				switch {
				case tailHandled:
					c.ok(rule, key, q.ins.Pos(), "a chunk bound is compared with or set to the total: the tail is covered")
				case ceil:
					c.ok(rule, key, q.ins.Pos(), "the number of chunks is rounded up")
				case handled:
					c.ok(rule, key, q.ins.Pos(), "the remainder of the division is used")
				case transposed:
					c.bad(rule, key, q.ins.Pos(), "the chunk size is total/count rounded DOWN and chunk k covers k*size up to (k+1)*size: the last total%count items belong to no chunk (no remainder, no comparison with the total, no rounding up)")
				default:
					c.bad(rule, key, q.ins.Pos(), "the number of chunks is total/size rounded DOWN while chunk k starts at k*size: the last total%size items belong to no chunk")
				}
			}
		}
	}
}
