package main

func init() {
	register("C16", &propInfo{
		Explanation: "Decoder totality rules over the SSA of every repository function reachable (VTA call graph) from the decoding entry points: DP every explicit panic is below a recover barrier or in a switch default made unreachable by validation (DX/DV); DE nil-able co-results of calls returning an error are dereferenced only where err == nil is established; DA every make size is a constant, a len/cap, byte-sized, clamped or equal to a length of data held; DI constant indices into slices are covered by a dominating length test on every incoming edge and input-derived indices by both bounds; DL every unbounded loop passes, on every iteration, a consuming read whose result is tested with an exit; DT type assertions on decoded PLY values agree with what the validators admit; DX the PLY type tables agree.",
		Trusted:     []string{"go/ssa dominators", "VTA call graph for the scope", "the list of decoding entry points (resolved each run)"},
		Assumptions: []string{"readers passed by the caller return io errors on exhaustion (a Reader that returns (0, nil) forever is outside the contract)"},
		Fixtures:    []string{"dec"},
		Run:         runC16,
		SelfTest: []Mutation{
			{Name: "PLY reader skips comment lines by calling itself (defect repaired)", File: "fileformats/ply.go",
				Old: "\t\t\tif len(line) == 0 || strings.Fields(line)[0] != \"comment\" {\n\t\t\t\tbreak\n\t\t\t}\n", New: "\t\t\tif len(line) > 0 && strings.Fields(line)[0] == \"comment\" {\n\t\t\t\treturn p.Read()\n\t\t\t}\n\t\t\tbreak\n", Rule: "DL.RECURSE", Expect: "PLYReader"},
			{Name: "OFF header checks the sign of the vertex count only", File: "fileformats/off.go",
				Old: "if numVerts < 0 || numFaces < 0 {", New: "if numVerts < 0 {", Rule: "DA.SIGN", Expect: "ReadOFF"},
			{Name: "CSV reader accepts rows of any width", File: "fileformats/segment_csv.go",
				Old: "csvReader.FieldsPerRecord = 4", New: "csvReader.FieldsPerRecord = -1", Rule: "DI.RANGE", Expect: "SegmentCSVReader"},
			{Name: "fourth vertex of an ASCII facet stored without a bound test", File: "fileformats/stl.go",
				Old: "\t\t\t} else if vertexIndex == 3 {\n\t\t\t\treturn normal, vertices, errors.New(\"more than three vertices in a facet\")\n\t\t\t}", New: "\t\t\t}", Rule: "DI.COUNTER", Expect: "readASCII"},
			{Name: "zero-property rows decoded without consuming (defect repaired)", File: "fileformats/ply.go",
				Old: "\tif len(p.Properties) == 0 {\n", New: "\tif len(p.Properties) < 0 {\n", Rule: "DL.CONSUME", Expect: "PLYReader"},
			{Name: "the empty-element skip loop forgets to advance", File: "fileformats/ply.go",
				Old: "\t\tp.curElementRead = 0\n\t\tp.curElement++\n\t}\n\tcurElem", New: "\t\tp.curElementRead = 0\n\t}\n\tcurElem", Rule: "DL", Expect: "PLYReader"},
			{Name: "readColorPLY tests only EOF (defect F6)", File: "model3d/import.go",
				Old: "\t\t} else if err != nil {\n\t\t\treturn nil, nil, err\n\t\t}\n\t\tif element.Name == \"face\" {", New: "\t\t}\n\t\tif element.Name == \"face\" {", Rule: "DE", Expect: "readColorPLY"},
			{Name: "negative vertex index accepted (defect F7)", File: "model3d/import.go",
				Old: "if v < 0 || v >= len(vertices) {", New: "if v >= len(vertices) {", Rule: "DI.INPUT", Expect: "readColorPLY"},
			{Name: "IsStandardFace guard with && (defect F8)", File: "fileformats/ply.go",
				Old: "if p.Name != \"face\" || len(p.Properties) != 1 {", New: "if p.Name != \"face\" && len(p.Properties) != 1 {", Rule: "DI.CONST", Expect: "IsStandardFace"},
			{Name: "face validator admits uint indices", File: "fileformats/ply.go",
				Old: "if prop.ElemType != PLYPropertyTypeInt && prop.ElemType != PLYPropertyTypeInt32 {", New: "if prop.ElemType != PLYPropertyTypeInt && prop.ElemType != PLYPropertyTypeInt32 && prop.ElemType != PLYPropertyTypeUint {", Rule: "DT.ASSERT", Expect: "PLYValueInt32"},
			{Name: "any non-face row decoded as vertex (defect F10)", File: "model3d/import.go",
				Old: "} else if element.Name == \"vertex\" {", New: "} else {", Rule: "DT.ASSERT", Expect: "no validator"},
			{Name: "STL triangle count sizes the slice (defect F9)", File: "model3d/import.go",
				Old: "\tif capHint > maxImportPrealloc {\n\t\tcapHint = maxImportPrealloc\n\t}\n\ttris :=", New: "\ttris :=", Rule: "DA", Expect: "readSTL"},
			{Name: "ASCII STL skips blank lines before looking at the read error", File: "fileformats/stl.go",
				Old: "\t\tnextLine = strings.TrimSpace(nextLine)\n", New: "\t\tnextLine = strings.TrimSpace(nextLine)\n\t\tif nextLine == \"\" {\n\t\t\tcontinue\n\t\t}\n", Rule: "DL", Expect: "readASCII"},
			{Name: "OFF faces triangulated without the recover barrier (defect F10b)", File: "model3d/import.go",
				Old: "tris, err := triangulateImportedFace(poly)", New: "tris, err := TriangulateFace(poly), error(nil)", Rule: "DP", Expect: "Triangulate"},
			{Name: "element type not validated", File: "fileformats/ply.go",
				Old: "\t\tif err == nil {\n\t\t\terr = prop.ElemType.Validate()\n\t\t}\n", New: "", Rule: "DV", Expect: "ElemType"},
			{Name: "Size forgets uint16", File: "fileformats/ply.go",
				Old: "\tcase PLYPropertyTypeShort, PLYPropertyTypeInt16, PLYPropertyTypeUshort, PLYPropertyTypeUint16:\n\t\treturn 2", New: "\tcase PLYPropertyTypeShort, PLYPropertyTypeInt16, PLYPropertyTypeUshort:\n\t\treturn 2", Rule: "DP", Expect: "Size"},
		},
	})
}

func runC16(c *Ctx) {
	s := c.decoderScope("dec")
	tables := c.runPLYTables("DX")
	dx := map[string]bool{"Size": tables.casesOK, "Parse": tables.casesOK, "DecodeBinary": tables.casesOK}
	for _, holder := range tables.switchIn {
		dx[holder] = tables.casesOK
	}
	c.floor("DX.CASES", 3)
	c.floor("DX.TYPE", 16)
	c.floor("DX.SIZE", 16)
	c.floor("DX.PARSE", 16)
	s.ruleDP("DP", dx)
	s.ruleDE("DE")
	s.ruleDA("DA")
	s.ruleDL("DL")
	s.ruleDIConst("DI.CONST")
	c.floor("DI.CONST", 20)
	c.runValidatorConsumer("DT", tables)
	c.floor("DT.VALID", 2)
	c.floor("DT.ASSERT", 11)
	s.ruleDV("DV")
	c.floor("DV", 3)
	s.ruleDIInput("DI.INPUT")
	c.floor("DI.INPUT", 2)
	c.floor("DP", 3)
	c.floor("DE", 1)
	c.floor("DA", 8)
	c.floor("DA.SIGN", 8)
	c.floor("DL", 4)
	s.ruleDICounter("DI.COUNTER")
	c.floor("DI.COUNTER", 0)
	s.ruleDLRecurse("DL.RECURSE")
	c.floor("DL.RECURSE", 0)
	s.ruleDIRange("DI.RANGE")
	c.floor("DI.RANGE", 0)
	s.ruleConsume("DL.CONSUME")
	c.floor("DL.CONSUME", 1)
	// (DR.SHORT / DR.LINE belong to the round-trip property C15: a short read or
	// a split line mis-decodes but neither panics, spins nor over-allocates)
}
