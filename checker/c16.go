package main

func init() {
	register("C16", &propInfo{
		Explanation: "Decoder totality rules over the SSA of every repository function reachable (VTA call graph) from the decoding entry points: DP every explicit panic is below a recover barrier or in a switch default made unreachable by validation (DX/DV); DE nil-able co-results of calls returning an error are dereferenced only where err == nil is established; DA every make size is a constant, a len/cap, byte-sized, clamped or equal to a length of data held; DI constant indices into slices are covered by a dominating length test on every incoming edge and input-derived indices by both bounds; DL every unbounded loop passes, on every iteration, a consuming read whose result is tested with an exit; DT type assertions on decoded PLY values agree with what the validators admit; DX the PLY type tables agree.",
		Trusted:     []string{"go/ssa dominators", "VTA call graph for the scope", "the list of decoding entry points (resolved each run)"},
		Assumptions: []string{"readers passed by the caller return io errors on exhaustion (a Reader that returns (0, nil) forever is outside the contract)"},
		Fixtures:    []string{"dec"},
		Run:         runC16,
	})
}

func runC16(c *Ctx) {
	s := c.decoderScope("dec")
	dx := map[string]bool{"Size": true, "Parse": true, "DecodeBinary": true}
	s.ruleDP("DP", dx)
	s.ruleDE("DE")
	s.ruleDA("DA")
	s.ruleDL("DL")
	s.ruleDIConst("DI.CONST")
	c.floor("DI.CONST", 20)
	s.ruleDIInput("DI.INPUT")
	c.floor("DI.INPUT", 2)
	c.floor("DP", 3)
	c.floor("DE", 1)
	c.floor("DA", 8)
	c.floor("DL", 4)
}
