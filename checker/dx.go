package main

// DX / DF / DV — agreement of the PLY type tables and of writer/reader layouts
// (typed AST of package fileformats).
//
//   DX.CASES  Size, Parse and DecodeBinary switch over exactly the type names
//             Validate accepts;
//   DX.TYPE   for every type name, Parse and DecodeBinary construct the same
//             PLYValue type;
//   DX.SIZE   Size(name) == width of that type's Value field == number of bytes
//             its EncodeBinary returns == width DecodeBinary reads;
//   DX.PARSE  Parse uses ParseInt/ParseUint/ParseFloat according to the
//             signedness of the constructed type, with its bit size;
//   DF        every strconv.FormatFloat of a writer uses precision -1 (shortest
//             representation that reads back exactly) with the bit size of the
//             value's static type;
//   DX.STL    the binary STL writer and reader agree on header and record sizes;
//   DV        every property type stored into a PLYProperty by the header
//             decoder is passed through Validate before the property is
//             returned.

import (
	"fmt"
	"go/ast"
	"go/constant"
	"go/token"
	"go/types"
	"sort"
	"strings"

	"golang.org/x/tools/go/packages"
	"golang.org/x/tools/go/ssa"
)

type plyTables struct {
	ok      bool
	casesOK bool
	// switchIn: for each table method, the name of the function that holds its
	// switch over the receiver (the method itself or a helper it delegates to)
	switchIn map[string]string
	accepted map[types.Object]bool         // Validate
	parseTy  map[types.Object]*types.Named // label -> PLYValue type built by Parse
	decTy    map[types.Object]*types.Named // label -> type built by DecodeBinary
	size     map[types.Object]int64        // Size
	labels   map[string][]types.Object     // per method
}

func findMethodDecl(p *packages.Package, recv, name string) *ast.FuncDecl {
	for _, f := range p.Syntax {
		for _, d := range f.Decls {
			fd, ok := d.(*ast.FuncDecl)
			if !ok || fd.Recv == nil || fd.Name.Name != name || len(fd.Recv.List) != 1 {
				continue
			}
			t := fd.Recv.List[0].Type
			if st, ok := t.(*ast.StarExpr); ok {
				t = st.X
			}
			if id, ok := t.(*ast.Ident); ok && id.Name == recv {
				return fd
			}
		}
	}
	return nil
}

func findFuncDecl(p *packages.Package, name string) *ast.FuncDecl {
	for _, f := range p.Syntax {
		for _, d := range f.Decls {
			if fd, ok := d.(*ast.FuncDecl); ok && fd.Recv == nil && fd.Name.Name == name {
				return fd
			}
		}
	}
	return nil
}

// receiverSwitch finds "switch <receiver> { ... }" in fd.
func receiverSwitch(info *types.Info, fd *ast.FuncDecl) *ast.SwitchStmt {
	if fd == nil || fd.Recv == nil || len(fd.Recv.List[0].Names) == 0 {
		return nil
	}
	recv := info.Defs[fd.Recv.List[0].Names[0]]
	var res *ast.SwitchStmt
	ast.Inspect(fd.Body, func(n ast.Node) bool {
		if sw, ok := n.(*ast.SwitchStmt); ok && res == nil {
			if id, ok := ast.Unparen(sw.Tag).(*ast.Ident); ok && info.Uses[id] == recv {
				res = sw
			}
		}
		return true
	})
	return res
}

// tableSwitch: the switch over the receiver in fd, or in a helper with the
// same receiver that fd delegates to (p.helper(...)); with the name of the
// function that holds it.
func tableSwitch(info *types.Info, fd *ast.FuncDecl) (*ast.SwitchStmt, string) {
	if fd == nil {
		return nil, ""
	}
	if sw := receiverSwitch(info, fd); sw != nil {
		return sw, fd.Name.Name
	}
	if fd.Recv == nil || len(fd.Recv.List[0].Names) == 0 || dxFuncDecl == nil {
		return nil, fd.Name.Name
	}
	recv := info.Defs[fd.Recv.List[0].Names[0]]
	var res *ast.SwitchStmt
	holder := fd.Name.Name
	// the delegate is the helper whose result the method returns; the other
	// table methods (p.Size() in a length test) are not delegates
	tableMethods := map[string]bool{"Validate": true, "Size": true, "Parse": true, "DecodeBinary": true}
	try := func(root ast.Node) {
		ast.Inspect(root, func(n ast.Node) bool {
			call, ok := n.(*ast.CallExpr)
			if !ok || res != nil {
				return true
			}
			sel, ok := call.Fun.(*ast.SelectorExpr)
			if !ok {
				return true
			}
			if id, ok := ast.Unparen(sel.X).(*ast.Ident); !ok || info.Uses[id] != recv {
				return true
			}
			if fn := calleeFunc(info, call); fn != nil && !tableMethods[fn.Name()] {
				if hd := dxFuncDecl(fn); hd != nil {
					if hs := receiverSwitch(info, hd); hs != nil {
						res, holder = hs, fn.Name()
					}
				}
			}
			return true
		})
	}
	ast.Inspect(fd.Body, func(n ast.Node) bool {
		if ret, ok := n.(*ast.ReturnStmt); ok && res == nil {
			try(ret)
		}
		return true
	})
	if res == nil {
		try(fd.Body)
	}
	return res, holder
}

func constObj(info *types.Info, e ast.Expr) types.Object {
	if id, ok := ast.Unparen(e).(*ast.Ident); ok {
		if c, ok := info.Uses[id].(*types.Const); ok {
			return c
		}
	}
	return nil
}

// returnedComposite: the named type of a composite literal returned as first
// result somewhere in the clause body.
// dxFuncDecl resolves a function of the loaded packages to its declaration
// (set by runPLYTables; used to look through pass-through helpers).
var dxFuncDecl func(*types.Func) *ast.FuncDecl

// returnedComposite: the named struct type of the value a clause returns as
// its first result — a composite literal, a local holding one, or a call of a
// helper that hands one of its arguments back as its first result
// (return wrap(PLYValueInt8{...}, err)).
func returnedComposite(info *types.Info, body []ast.Stmt) *types.Named {
	var res *types.Named
	returned := false
	var lastAssigned *types.Named
	locals := map[types.Object]*types.Named{}
	litType := func(e ast.Expr) *types.Named {
		e = ast.Unparen(e)
		if cl, ok := e.(*ast.CompositeLit); ok {
			nt, _ := info.TypeOf(cl).(*types.Named)
			return nt
		}
		if id, ok := e.(*ast.Ident); ok {
			return locals[info.Uses[id]]
		}
		return nil
	}
	for _, s := range body {
		ast.Inspect(s, func(n ast.Node) bool {
			if as, ok := n.(*ast.AssignStmt); ok && len(as.Lhs) == len(as.Rhs) {
				for i, l := range as.Lhs {
					if id, ok := l.(*ast.Ident); ok {
						if nt := litType(as.Rhs[i]); nt != nil {
							o := info.Defs[id]
							if o == nil {
								o = info.Uses[id]
							}
							locals[o] = nt
							lastAssigned = nt
						}
					}
				}
			}
			ret, ok := n.(*ast.ReturnStmt)
			if !ok || len(ret.Results) == 0 {
				return true
			}
			returned = true
			if nt := litType(ret.Results[0]); nt != nil {
				res = nt
				return true
			}
			if call, ok := ast.Unparen(ret.Results[0]).(*ast.CallExpr); ok && dxFuncDecl != nil {
				if fn := calleeFunc(info, call); fn != nil {
					if k := passThroughParam(dxFuncDecl(fn)); k >= 0 && k < len(call.Args) {
						if nt := litType(call.Args[k]); nt != nil {
							res = nt
						}
					}
				}
			}
			return true
		})
	}
	if res == nil && !returned {
		// "result = PLYValueInt8{...}" in the clause, returned after the switch
		return lastAssigned
	}
	return res
}

// passThroughParam: the index of the parameter that every value-returning
// return statement of fd hands back as its first result (other returns give
// nil there), or -1.
func passThroughParam(fd *ast.FuncDecl) int {
	if fd == nil || fd.Body == nil || fd.Type.Params == nil {
		return -1
	}
	idx := map[string]int{}
	i := 0
	for _, fl := range fd.Type.Params.List {
		for _, n := range fl.Names {
			idx[n.Name] = i
			i++
		}
	}
	res := -1
	bad := false
	ast.Inspect(fd.Body, func(n ast.Node) bool {
		if _, ok := n.(*ast.FuncLit); ok {
			return false
		}
		ret, ok := n.(*ast.ReturnStmt)
		if !ok || len(ret.Results) == 0 {
			return true
		}
		id, ok := ast.Unparen(ret.Results[0]).(*ast.Ident)
		if !ok {
			bad = true
			return true
		}
		if id.Name == "nil" {
			return true
		}
		k, isParam := idx[id.Name]
		if !isParam || (res >= 0 && res != k) {
			bad = true
			return true
		}
		res = k
		return true
	})
	// the parameter must not be assigned in the helper
	ast.Inspect(fd.Body, func(n ast.Node) bool {
		if as, ok := n.(*ast.AssignStmt); ok {
			for _, l := range as.Lhs {
				if id, ok := l.(*ast.Ident); ok {
					if k, isParam := idx[id.Name]; isParam && k == res {
						bad = true
					}
				}
			}
		}
		return true
	})
	if bad {
		return -1
	}
	return res
}

func valueFieldType(nt *types.Named) *types.Basic {
	st, ok := nt.Underlying().(*types.Struct)
	if !ok {
		return nil
	}
	for i := 0; i < st.NumFields(); i++ {
		if st.Field(i).Name() == "Value" {
			b, _ := st.Field(i).Type().Underlying().(*types.Basic)
			return b
		}
	}
	return nil
}

func basicWidth(b *types.Basic) int64 {
	switch b.Kind() {
	case types.Int8, types.Uint8:
		return 1
	case types.Int16, types.Uint16:
		return 2
	case types.Int32, types.Uint32, types.Float32:
		return 4
	case types.Int64, types.Uint64, types.Float64:
		return 8
	}
	return -1
}

func objNames(objs []types.Object) string {
	var n []string
	for _, o := range objs {
		n = append(n, strings.TrimPrefix(o.Name(), "PLYPropertyType"))
	}
	sort.Strings(n)
	return strings.Join(n, ",")
}

func (c *Ctx) runPLYTables(prefix string) *plyTables {
	t := &plyTables{accepted: map[types.Object]bool{}, parseTy: map[types.Object]*types.Named{},
		decTy: map[types.Object]*types.Named{}, size: map[types.Object]int64{}, labels: map[string][]types.Object{}}
	p := c.pkg("fileformats")
	if p == nil {
		c.problem("fileformats not loaded")
		return t
	}
	info := p.TypesInfo
	dxFuncDecl = func(f *types.Func) *ast.FuncDecl {
		d, _ := c.funcDecl(f)
		return d
	}
	decls := map[string]*ast.FuncDecl{}
	for _, m := range []string{"Validate", "Size", "Parse", "DecodeBinary"} {
		fd := findMethodDecl(p, "PLYPropertyType", m)
		if fd == nil {
			c.problem("unresolved anchor: fileformats.PLYPropertyType.%s", m)
			return t
		}
		c.analysed("fileformats.PLYPropertyType." + m)
		decls[m] = fd
	}
	// Validate: clauses that return nil
	clauseLabels := func(m string) [][]types.Object {
		sw, holder := tableSwitch(info, decls[m])
		if t.switchIn == nil {
			t.switchIn = map[string]string{}
		}
		t.switchIn[m] = holder
		if sw == nil {
			c.problem("%s: no switch over the receiver found", m)
			return nil
		}
		var res [][]types.Object
		for _, cc := range sw.Body.List {
			cl := cc.(*ast.CaseClause)
			var objs []types.Object
			for _, e := range cl.List {
				if o := constObj(info, e); o != nil {
					objs = append(objs, o)
				} else {
					c.problem("%s: case label %s is not a named constant", m, types.ExprString(e))
				}
			}
			if cl.List != nil {
				res = append(res, objs)
			}
			switch m {
			case "Validate":
				// accepted iff the clause returns nil
				for _, s := range cl.Body {
					if ret, ok := s.(*ast.ReturnStmt); ok && len(ret.Results) == 1 && isNilIdent(info, ret.Results[0]) {
						for _, o := range objs {
							t.accepted[o] = true
						}
					}
				}
			case "Size":
				for _, s := range cl.Body {
					if ret, ok := s.(*ast.ReturnStmt); ok && len(ret.Results) == 1 {
						if tv := info.Types[ret.Results[0]]; tv.Value != nil {
							k, _ := constant.Int64Val(constant.ToInt(tv.Value))
							for _, o := range objs {
								t.size[o] = k
							}
						}
					}
				}
			case "Parse":
				if nt := returnedComposite(info, cl.Body); nt != nil {
					for _, o := range objs {
						t.parseTy[o] = nt
					}
				}
			case "DecodeBinary":
				if nt := returnedComposite(info, cl.Body); nt != nil {
					for _, o := range objs {
						t.decTy[o] = nt
					}
				}
			}
			for _, o := range objs {
				t.labels[m] = append(t.labels[m], o)
			}
		}
		return res
	}
	clauses := map[string][][]types.Object{}
	for _, m := range []string{"Validate", "Size", "Parse", "DecodeBinary"} {
		clauses[m] = clauseLabels(m)
	}
	var acc []types.Object
	for o := range t.accepted {
		acc = append(acc, o)
	}
	want := objNames(acc)
	t.ok = true
	t.casesOK = true
	for _, m := range []string{"Size", "Parse", "DecodeBinary"} {
		got := objNames(t.labels[m])
		key := "PLYPropertyType." + m + " case set"
		if got == want && len(acc) > 0 {
			c.ok(prefix+".CASES", key, decls[m].Pos(), fmt.Sprintf("switches over exactly the %d type names Validate accepts", len(acc)))
		} else {
			t.ok = false
			t.casesOK = false
			c.bad(prefix+".CASES", key, decls[m].Pos(), fmt.Sprintf("case labels {%s} differ from the names Validate accepts {%s}: a validated name reaches the panicking default, or a name is decoded that Validate rejects", got, want))
		}
	}
	// per label
	sort.Slice(acc, func(i, j int) bool { return acc[i].Name() < acc[j].Name() })
	encWidth := c.encodeWidths(p)
	decWidth := c.decodeWidths(p, decls["DecodeBinary"])
	parseFn := c.parseCalls(p, decls["Parse"])
	for _, o := range acc {
		name := strings.TrimPrefix(o.Name(), "PLYPropertyType")
		pt, dt := t.parseTy[o], t.decTy[o]
		key := "type name " + name
		switch {
		case pt == nil || dt == nil:
			c.bad(prefix+".TYPE", key, o.Pos(), "Parse or DecodeBinary does not construct a PLYValue for this name")
			t.ok = false
			continue
		case pt != dt:
			c.bad(prefix+".TYPE", key, o.Pos(), fmt.Sprintf("Parse builds %s but DecodeBinary builds %s: ASCII and binary files of the same header decode to different values", pt.Obj().Name(), dt.Obj().Name()))
			t.ok = false
		default:
			c.ok(prefix+".TYPE", key, o.Pos(), "Parse and DecodeBinary both build "+pt.Obj().Name())
		}
		vb := valueFieldType(pt)
		if vb == nil {
			c.bad(prefix+".SIZE", key, o.Pos(), "constructed type has no basic Value field")
			continue
		}
		w := basicWidth(vb)
		sz, hasSz := t.size[o]
		ew, hasEw := encWidth[pt.Obj()]
		dw, hasDw := decWidth[o]
		switch {
		case !hasSz || !hasEw:
			c.bad(prefix+".SIZE", key, o.Pos(), "Size or EncodeBinary width not found")
		case sz != w || ew != w || (hasDw && dw != w):
			c.bad(prefix+".SIZE", key, o.Pos(), fmt.Sprintf("Size()=%d, Value field %s is %d bytes, EncodeBinary writes %d bytes, DecodeBinary reads %d bytes: reader and writer disagree on the record layout", sz, vb.Name(), w, ew, dw))
			t.ok = false
		default:
			c.ok(prefix+".SIZE", key, o.Pos(), fmt.Sprintf("Size, Value field (%s), EncodeBinary and DecodeBinary all use %d byte(s)", vb.Name(), w))
		}
		// Parse call
		pc, ok := parseFn[o]
		wantFn := "ParseInt"
		if vb.Info()&types.IsUnsigned != 0 {
			wantFn = "ParseUint"
		} else if vb.Info()&types.IsFloat != 0 {
			wantFn = "ParseFloat"
		}
		switch {
		case !ok:
			c.bad(prefix+".PARSE", key, o.Pos(), "no strconv.Parse* call found in the Parse clause")
		case pc.fn != wantFn || pc.bits != w*8:
			c.bad(prefix+".PARSE", key, o.Pos(), fmt.Sprintf("Parse uses strconv.%s(..., %d) for a %s value: text written by EncodeString does not read back (or overflows silently)", pc.fn, pc.bits, vb.Name()))
		default:
			c.ok(prefix+".PARSE", key, o.Pos(), fmt.Sprintf("strconv.%s with bit size %d matches %s", pc.fn, pc.bits, vb.Name()))
		}
	}
	return t
}

type parseCall struct {
	fn   string
	bits int64
}

func (c *Ctx) parseCalls(p *packages.Package, fd *ast.FuncDecl) map[types.Object]parseCall {
	info := p.TypesInfo
	res := map[types.Object]parseCall{}
	sw, _ := tableSwitch(info, fd)
	if sw == nil {
		return res
	}
	for _, cc := range sw.Body.List {
		cl := cc.(*ast.CaseClause)
		var pc *parseCall
		for _, s := range cl.Body {
			ast.Inspect(s, func(n ast.Node) bool {
				call, ok := n.(*ast.CallExpr)
				if !ok {
					return true
				}
				f := calleeFunc(info, call)
				if f == nil || f.Pkg() == nil || f.Pkg().Path() != "strconv" || !strings.HasPrefix(f.Name(), "Parse") {
					return true
				}
				last := call.Args[len(call.Args)-1]
				if tv := info.Types[last]; tv.Value != nil {
					k, _ := constant.Int64Val(constant.ToInt(tv.Value))
					pc = &parseCall{f.Name(), k}
				}
				return true
			})
		}
		if pc != nil {
			for _, e := range cl.List {
				if o := constObj(info, e); o != nil {
					res[o] = *pc
				}
			}
		}
	}
	return res
}

// encodeWidths: number of bytes returned by each PLYValue*.EncodeBinary.
func (c *Ctx) encodeWidths(p *packages.Package) map[types.Object]int64 {
	info := p.TypesInfo
	res := map[types.Object]int64{}
	declOf := map[*types.Func]*ast.FuncDecl{}
	for _, f := range p.Syntax {
		for _, d := range f.Decls {
			if fd, ok := d.(*ast.FuncDecl); ok && fd.Body != nil {
				if o, _ := info.Defs[fd.Name].(*types.Func); o != nil {
					declOf[o] = fd
				}
			}
		}
	}
	// returnedWidth: the length of the byte slice every return of body yields:
	// a composite literal, a whole fixed-size array sliced, or the result of a
	// package function for which the same holds (an encoder moved into a helper).
	var returnedWidth func(body *ast.BlockStmt, depth int) (int64, bool)
	returnedWidth = func(body *ast.BlockStmt, depth int) (int64, bool) {
		width, found, consistent := int64(0), false, true
		ast.Inspect(body, func(n ast.Node) bool {
			if _, isLit := n.(*ast.FuncLit); isLit {
				return false
			}
			ret, ok := n.(*ast.ReturnStmt)
			if !ok || len(ret.Results) != 1 {
				return true
			}
			w, okW := int64(0), false
			switch x := ast.Unparen(ret.Results[0]).(type) {
			case *ast.CompositeLit:
				w, okW = int64(len(x.Elts)), true
			case *ast.SliceExpr:
				if at, ok := info.TypeOf(x.X).Underlying().(*types.Array); ok && x.Low == nil && x.High == nil {
					w, okW = at.Len(), true
				}
			case *ast.CallExpr:
				if fn := calleeFunc(info, x); fn != nil && depth < 3 {
					if hd := declOf[fn]; hd != nil {
						w, okW = returnedWidth(hd.Body, depth+1)
					}
				}
			}
			if !okW || (found && w != width) {
				consistent = false
			}
			width, found = w, true
			return true
		})
		return width, found && consistent
	}
	for _, f := range p.Syntax {
		for _, d := range f.Decls {
			fd, ok := d.(*ast.FuncDecl)
			if !ok || fd.Recv == nil || fd.Name.Name != "EncodeBinary" || fd.Body == nil {
				continue
			}
			rt := info.TypeOf(fd.Recv.List[0].Type)
			nt, ok := rt.(*types.Named)
			if !ok {
				continue
			}
			if w, ok := returnedWidth(fd.Body, 0); ok {
				res[nt.Obj()] = w
			}
		}
	}
	return res
}

// decodeWidths: per label, the width read by DecodeBinary (b.Uint16 -> 2 ...;
// data[0] -> 1).
func (c *Ctx) decodeWidths(p *packages.Package, fd *ast.FuncDecl) map[types.Object]int64 {
	info := p.TypesInfo
	res := map[types.Object]int64{}
	sw, _ := tableSwitch(info, fd)
	if sw == nil {
		return res
	}
	for _, cc := range sw.Body.List {
		cl := cc.(*ast.CaseClause)
		w := int64(0)
		for _, s := range cl.Body {
			ast.Inspect(s, func(n ast.Node) bool {
				switch x := n.(type) {
				case *ast.CallExpr:
					if sel, ok := x.Fun.(*ast.SelectorExpr); ok {
						switch sel.Sel.Name {
						case "Uint16":
							w = 2
						case "Uint32":
							w = 4
						case "Uint64":
							w = 8
						}
					}
				case *ast.IndexExpr:
					if tv := info.Types[x.Index]; tv.Value != nil && w == 0 {
						w = 1
					}
				}
				return true
			})
		}
		if w > 0 {
			for _, e := range cl.List {
				if o := constObj(info, e); o != nil {
					res[o] = w
				}
			}
		}
	}
	return res
}

// ---------------------------------------------------------------------------
// DF — float text formats of writers.

func (c *Ctx) runFloatFormat(rule string, pkgShort ...string) {
	for _, short := range pkgShort {
		p := c.pkg(short)
		if p == nil {
			continue
		}
		info := p.TypesInfo
		// the writers' methods and the package functions they call (two levels)
		declOf := map[*types.Func]*ast.FuncDecl{}
		for _, f := range p.Syntax {
			for _, d := range f.Decls {
				if fd, ok := d.(*ast.FuncDecl); ok && fd.Body != nil {
					if o, _ := info.Defs[fd.Name].(*types.Func); o != nil {
						declOf[o] = fd
					}
				}
			}
		}
		type scoped struct {
			fd    *ast.FuncDecl
			owner string
		}
		var work []scoped
		inScope := map[*ast.FuncDecl]bool{}
		for _, f := range p.Syntax {
			for _, d := range f.Decls {
				if fd, ok := d.(*ast.FuncDecl); ok && fd.Body != nil && hasLibraryReader(fd) {
					work = append(work, scoped{fd, declName(p, fd)})
					inScope[fd] = true
				}
			}
		}
		for level := 0; level < 2; level++ {
			for _, w := range append([]scoped(nil), work...) {
				ast.Inspect(w.fd.Body, func(nd ast.Node) bool {
					if call, ok := nd.(*ast.CallExpr); ok {
						if fn := calleeFunc(info, call); fn != nil && fn.Pkg() == p.Types {
							if sig, _ := fn.Type().(*types.Signature); sig != nil && sig.Recv() == nil {
								if hd := declOf[fn]; hd != nil && !inScope[hd] {
									inScope[hd] = true
									work = append(work, scoped{hd, w.owner + " via " + fn.Name()})
								}
							}
						}
					}
					return true
				})
			}
		}
		{
			for _, w := range work {
				fd := w.fd
				n := 0
				ast.Inspect(fd.Body, func(nd ast.Node) bool {
					call, ok := nd.(*ast.CallExpr)
					if !ok {
						return true
					}
					fn := calleeFunc(info, call)
					if fn != nil && fn.Pkg() != nil && fn.Pkg().Path() == "strconv" && (fn.Name() == "FormatInt" || fn.Name() == "Itoa" || fn.Name() == "FormatUint") && len(call.Args) >= 1 {
						// a float written through an integer conversion
						if conv, ok := ast.Unparen(call.Args[0]).(*ast.CallExpr); ok && len(conv.Args) == 1 {
							if tv, ok := info.Types[conv.Fun]; ok && tv.IsType() {
								if b, ok := info.TypeOf(conv.Args[0]).Underlying().(*types.Basic); ok && b.Info()&types.IsFloat != 0 {
									n++
									c.analysed(w.owner)
									c.bad(rule, fmt.Sprintf("%s FormatInt#%d", w.owner, n), call.Pos(), "a floating-point value is written through an integer conversion: magnitudes from 2^63, infinities and negative zero do not read back to the same value")
								}
							}
						}
						return true
					}
					if fn == nil || fn.Pkg() == nil || fn.Pkg().Path() != "strconv" {
						return true
					}
					// FormatFloat(f, fmt, prec, bits) or AppendFloat(dst, f, fmt, prec, bits)
					args := call.Args
					switch {
					case fn.Name() == "FormatFloat" && len(args) == 4:
					case fn.Name() == "AppendFloat" && len(args) == 5:
						args = args[1:]
					default:
						return true
					}
					n++
					name := w.owner
					c.analysed(name)
					key := fmt.Sprintf("%s FormatFloat#%d", name, n)
					// static type of the value before conversion to float64
					arg := ast.Unparen(args[0])
					bits := int64(64)
					if conv, ok := arg.(*ast.CallExpr); ok && len(conv.Args) == 1 {
						if tv, ok := info.Types[conv.Fun]; ok && tv.IsType() {
							if b, ok := info.TypeOf(conv.Args[0]).Underlying().(*types.Basic); ok && b.Kind() == types.Float32 {
								bits = 32
							}
						}
					}
					prec, pok := constant.Int64Val(constant.ToInt(info.Types[args[2]].Value))
					bs, bok := constant.Int64Val(constant.ToInt(info.Types[args[3]].Value))
					if info.Types[args[2]].Value == nil || info.Types[args[3]].Value == nil {
						pok, bok = false, false
					}
					minDigits := int64(17)
					if bits == 32 {
						minDigits = 9
					}
					switch {
					case !pok || !bok:
						c.bad(rule, key, call.Pos(), "precision or bit size of FormatFloat is not a constant")
					case bs != bits:
						c.bad(rule, key, call.Pos(), fmt.Sprintf("a float%d value is formatted with bit size %d: the shortest representation is computed for the wrong width, so the text does not read back to the same value", bits, bs))
					case prec != -1 && prec < minDigits-1:
						c.bad(rule, key, call.Pos(), fmt.Sprintf("fixed precision %d loses digits (needs -1 or >= %d significant digits)", prec, minDigits))
					default:
						c.ok(rule, key, call.Pos(), fmt.Sprintf("precision %d with bit size %d for a float%d value reads back exactly", prec, bs, bits))
					}
					return true
				})
			}
		}
	}
}

// hasLibraryReader: writers whose output the library itself reads back (PLY
// values through PLYPropertyType.Parse, segment CSV through
// SegmentCSVReader). OBJ/MTL/3MF/SVG text has no reader in the library and is
// deliberately written with reduced precision; it is not a round-trip format.
func hasLibraryReader(fd *ast.FuncDecl) bool {
	if fd.Recv == nil || len(fd.Recv.List) != 1 {
		return false
	}
	t := fd.Recv.List[0].Type
	if st, ok := t.(*ast.StarExpr); ok {
		t = st.X
	}
	id, ok := t.(*ast.Ident)
	return ok && (strings.HasPrefix(id.Name, "PLYValue") || id.Name == "SegmentCSVWriter")
}

// ---------------------------------------------------------------------------
// DX.STL — binary STL layout.

// ioSizes sums the byte sizes moved by binary.Write/binary.Read/io.ReadFull/
// Write calls in a function.
func (c *Ctx) ioSizes(p *packages.Package, fd *ast.FuncDecl) (int64, []string) {
	return c.ioSizesDepth(p, fd, 0)
}

func (c *Ctx) ioSizesDepth(p *packages.Package, fd *ast.FuncDecl, depth int) (int64, []string) {
	info := p.TypesInfo
	total := int64(0)
	var parts []string
	sizes := types.SizesFor("gc", "amd64")
	byteLen := func(e ast.Expr) int64 {
		e = ast.Unparen(e)
		// a value of fixed size (binary.Write(w, order, count) with count uint32)
		if t := info.TypeOf(e); t != nil {
			switch u := t.Underlying().(type) {
			case *types.Basic:
				if u.Info()&(types.IsInteger|types.IsFloat) != 0 && u.Kind() != types.Int && u.Kind() != types.Uint && u.Kind() != types.Uintptr && u.Info()&types.IsUntyped == 0 {
					return sizes.Sizeof(t)
				}
			case *types.Array:
				if _, isCall := e.(*ast.CallExpr); !isCall {
					return sizes.Sizeof(t)
				}
			}
		}
		switch x := e.(type) {
		case *ast.SliceExpr:
			if at, ok := info.TypeOf(x.X).Underlying().(*types.Array); ok && x.Low == nil && x.High == nil {
				return at.Len() * sizes.Sizeof(at.Elem())
			}
		case *ast.CompositeLit:
			if sl, ok := info.TypeOf(x).Underlying().(*types.Slice); ok {
				return int64(len(x.Elts)) * sizes.Sizeof(sl.Elem())
			}
		case *ast.CallExpr:
			if id, ok := x.Fun.(*ast.Ident); ok && id.Name == "make" && len(x.Args) == 2 {
				if tv := info.Types[x.Args[1]]; tv.Value != nil {
					k, _ := constant.Int64Val(constant.ToInt(tv.Value))
					if sl, ok := info.TypeOf(x).Underlying().(*types.Slice); ok {
						return k * sizes.Sizeof(sl.Elem())
					}
				}
			}
			// conversion uint32(x)
			if tv, ok := info.Types[x.Fun]; ok && tv.IsType() {
				return sizes.Sizeof(tv.Type)
			}
		case *ast.UnaryExpr:
			if x.Op == token.AND {
				return sizes.Sizeof(info.TypeOf(x.X))
			}
		case *ast.Ident:
			// a slice variable assigned from make([]byte, N) in this function
			if v, ok := info.Uses[x].(*types.Var); ok {
				n := int64(-1)
				ast.Inspect(fd.Body, func(m ast.Node) bool {
					as, ok := m.(*ast.AssignStmt)
					if !ok || len(as.Lhs) != 1 || len(as.Rhs) != 1 {
						return true
					}
					if id, ok := as.Lhs[0].(*ast.Ident); ok && identObj(info, id) == v {
						if call, ok := as.Rhs[0].(*ast.CallExpr); ok {
							if mk, ok := call.Fun.(*ast.Ident); ok && mk.Name == "make" && len(call.Args) == 2 {
								if tv := info.Types[call.Args[1]]; tv.Value != nil {
									n, _ = constant.Int64Val(constant.ToInt(tv.Value))
								}
							}
						}
					}
					return true
				})
				return n
			}
		}
		return -1
	}
	ast.Inspect(fd.Body, func(n ast.Node) bool {
		call, ok := n.(*ast.CallExpr)
		if !ok {
			return true
		}
		var data ast.Expr
		if f := calleeFunc(info, call); f != nil && f.Pkg() != nil {
			switch {
			case f.Pkg().Path() == "encoding/binary" && (f.Name() == "Write" || f.Name() == "Read") && len(call.Args) == 3:
				data = call.Args[2]
			case f.Pkg().Path() == "io" && f.Name() == "ReadFull" && len(call.Args) == 2:
				data = call.Args[1]
			case f.Name() == "Write" && len(call.Args) == 1 && f.Pkg().Path() != "encoding/binary":
				data = call.Args[0]
			}
		}
		if data == nil {
			// a helper of the same package that does part of the i/o
			if f := calleeFunc(info, call); f != nil && f.Pkg() == p.Types && depth < 3 {
				if hd, hp := c.funcDecl(f); hd != nil && hd != fd && hd.Body != nil {
					if k, hparts := c.ioSizesDepth(hp, hd, depth+1); len(hparts) > 0 {
						if k < 0 {
							total = -1 << 40
						} else {
							total += k
						}
						parts = append(parts, hparts...)
					}
				}
			}
			return true
		}
		k := byteLen(data)
		if k < 0 {
			parts = append(parts, "?")
			total = -1 << 40
			return true
		}
		total += k
		parts = append(parts, fmt.Sprint(k))
		return true
	})
	return total, parts
}

func (c *Ctx) runSTLLayout(rule string) {
	p := c.pkg("fileformats")
	if p == nil {
		return
	}
	pairs := []struct{ what, w, r string }{
		{"header", "NewSTLWriter", "newSTLReaderBinary"},
		{"record", "STLWriter.WriteTriangle", "STLReader.readBinary"},
	}
	find := func(name string) *ast.FuncDecl {
		if i := strings.Index(name, "."); i >= 0 {
			return findMethodDecl(p, name[:i], name[i+1:])
		}
		return findFuncDecl(p, name)
	}
	for _, pr := range pairs {
		wd, rd := find(pr.w), find(pr.r)
		if wd == nil || rd == nil {
			c.problem("unresolved anchor: %s / %s", pr.w, pr.r)
			continue
		}
		c.analysed("fileformats." + pr.w)
		c.analysed("fileformats." + pr.r)
		ws, wp := c.ioSizes(p, wd)
		rs, rp := c.ioSizes(p, rd)
		key := "binary STL " + pr.what
		switch {
		case ws < 0 || rs < 0:
			c.problem("%s: cannot determine the sizes written/read (%v / %v)", key, wp, rp)
		case ws != rs:
			c.bad(rule, key, wd.Pos(), fmt.Sprintf("%s writes %d bytes (%s) but %s reads %d bytes (%s)", pr.w, ws, strings.Join(wp, "+"), pr.r, rs, strings.Join(rp, "+")))
		default:
			c.ok(rule, key, wd.Pos(), fmt.Sprintf("%s writes and %s reads %d bytes (%s)", pr.w, pr.r, ws, strings.Join(wp, "+")))
		}
	}
}

// ---------------------------------------------------------------------------
// DX.CURSOR — the PLY writer and reader walk the declared elements with the
// same cursor discipline: a row is emitted / consumed only where "rows done <
// declared count" of the current element has been established (so elements
// declared with a count of zero are skipped by BOTH sides; otherwise a stream
// the writer produced is misread).

func (c *Ctx) runPLYCursor(rule string) {
	sites := []struct {
		fn      string
		counter string
		rowCall func(call *ssa.Call) bool
	}{
		{"PLYWriter.nextElement", "curElementWritten", nil},
		{"PLYReader.Read", "curElementRead", func(call *ssa.Call) bool {
			f := call.Call.StaticCallee()
			return f != nil && strings.HasPrefix(f.Name(), "DecodeInstance")
		}},
	}
	countF := c.mustField("fileformats", "PLYElement.Count")
	for _, s := range sites {
		fn := c.ssaFunc(c.mustFunc("fileformats", s.fn))
		if fn == nil || countF == nil {
			continue
		}
		c.analysed(qname(fn))
		key := "fileformats." + s.fn + " consumes rows only below the declared count"
		type edge struct{ from, to *ssa.BasicBlock }
		isCounter := func(v ssa.Value) bool {
			u, ok := v.(*ssa.UnOp)
			if !ok || u.Op != token.MUL {
				return false
			}
			fa, ok := u.X.(*ssa.FieldAddr)
			return ok && fieldOf(fa) != nil && fieldOf(fa).Name() == s.counter
		}
		isCount := func(v ssa.Value) bool {
			u, ok := v.(*ssa.UnOp)
			if !ok || u.Op != token.MUL {
				return false
			}
			fa, ok := u.X.(*ssa.FieldAddr)
			return ok && fieldOf(fa) == countF
		}
		// analyse: with the "rows remain" edges of f removed (tests of the cursor
		// against the declared count, plus the edges in extra), is a row site
		// still reachable from the entry?
		analyse := func(f *ssa.Function, rowCall func(call *ssa.Call) bool, extra map[edge]bool) (nTests int, bad, noRow bool) {
			blocked := map[edge]bool{}
			for e := range extra {
				blocked[e] = true
				nTests++
			}
			for _, b := range f.Blocks {
				if len(b.Instrs) == 0 {
					continue
				}
				ifi, ok := b.Instrs[len(b.Instrs)-1].(*ssa.If)
				if !ok || len(b.Succs) != 2 {
					continue
				}
				be, ok := ifi.Cond.(*ssa.BinOp)
				if !ok || !isCounter(be.X) || !isCount(be.Y) {
					continue
				}
				switch be.Op {
				case token.LSS: // counter < Count: rows remain on the true edge
					blocked[edge{b, b.Succs[0]}] = true
					nTests++
				case token.GEQ: // counter >= Count: rows remain on the false edge
					blocked[edge{b, b.Succs[1]}] = true
					nTests++
				}
			}
			var rowBlocks []*ssa.BasicBlock
			for _, b := range f.Blocks {
				for _, ins := range b.Instrs {
					switch x := ins.(type) {
					case *ssa.Call:
						if rowCall != nil && rowCall(x) {
							rowBlocks = append(rowBlocks, b)
						}
					case *ssa.Return:
						if rowCall == nil && len(x.Results) > 0 && !isNilConst(x.Results[0]) {
							if _, isCall := x.Results[0].(*ssa.Call); !isCall { // not the recursive advance
								if _, isEx := x.Results[0].(*ssa.Extract); !isEx {
									rowBlocks = append(rowBlocks, b)
								}
							}
						}
					}
				}
			}
			if len(rowBlocks) == 0 {
				return nTests, false, true
			}
			seen := map[*ssa.BasicBlock]bool{}
			stack := []*ssa.BasicBlock{f.Blocks[0]}
			for len(stack) > 0 {
				b := stack[len(stack)-1]
				stack = stack[:len(stack)-1]
				if seen[b] {
					continue
				}
				seen[b] = true
				for _, succ := range b.Succs {
					if !blocked[edge{b, succ}] {
						stack = append(stack, succ)
					}
				}
			}
			for _, b := range rowBlocks {
				if seen[b] {
					bad = true
				}
			}
			return nTests, bad, false
		}
		nTests, bad, noRow := analyse(fn, s.rowCall, nil)
		if nTests == 0 && s.rowCall != nil {
			// the cursor test may live in a helper that hands out the current
			// element only where rows remain and nil otherwise: then "result !=
			// nil" is the rows-remain edge in this function
			extra := map[edge]bool{}
			for _, b := range fn.Blocks {
				if len(b.Instrs) == 0 {
					continue
				}
				ifi, ok := b.Instrs[len(b.Instrs)-1].(*ssa.If)
				if !ok || len(b.Succs) != 2 {
					continue
				}
				be, ok := ifi.Cond.(*ssa.BinOp)
				if !ok || (be.Op != token.EQL && be.Op != token.NEQ) || !isNilConst(be.Y) {
					continue
				}
				hc, ok := be.X.(*ssa.Call)
				if !ok {
					continue
				}
				h := hc.Call.StaticCallee()
				if h == nil || h.Blocks == nil || h.Pkg != fn.Pkg {
					continue
				}
				if hn, hbad, hnoRow := analyse(h, nil, nil); hn > 0 && !hbad && !hnoRow {
					if be.Op == token.NEQ {
						extra[edge{b, b.Succs[0]}] = true
					} else {
						extra[edge{b, b.Succs[1]}] = true
					}
				}
			}
			if len(extra) > 0 {
				nTests, bad, noRow = analyse(fn, s.rowCall, extra)
			}
		}
		if noRow {
			c.problem("%s: no row site found", key)
			continue
		}
		switch {
		case nTests == 0 || bad:
			c.bad(rule, key, fn.Pos(), "a row is emitted/consumed on a path that never established 'rows done < declared count' for the current element: an element declared with a count of zero is handled differently by writer and reader, so a stream the writer produced is misread")
		default:
			c.ok(rule, key, fn.Pos(), "every row site lies behind the 'rows remain' edge of a test of the cursor against the declared count")
		}
	}
}
