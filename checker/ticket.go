package main

import (
	"fmt"
	"go/token"

	"golang.org/x/tools/go/packages"
	"golang.org/x/tools/go/ssa"
)

// TICKET: workers that claim positions from a shared counter with
// atomic.AddIntNN(&next, k) receive the NEW value: the first ticket is k, not
// 0. Used as a zero-based position it must have k subtracted first. Reported:
// the result of atomic.Add*(p, k), k a positive constant, reaches an index, a
// remainder/quotient or an upper-bound comparison (>= / < a count) without a
// subtraction of a constant on the way - position 0 is then never handed out.
func (c *Ctx) runTicket(rule string, pkgs []*packages.Package) {
	for _, p := range pkgs {
		if p == nil {
			continue
		}
		for _, fn := range c.srcFuncs(p) {
			n := 0
			for _, b := range fn.Blocks {
				for _, ins := range b.Instrs {
					call, ok := ins.(*ssa.Call)
					if !ok {
						continue
					}
					f := call.Call.StaticCallee()
					if f == nil || f.Pkg == nil || f.Pkg.Pkg.Path() != "sync/atomic" || len(call.Call.Args) != 2 {
						continue
					}
					switch f.Name() {
					case "AddInt32", "AddInt64", "AddUint32", "AddUint64", "AddUintptr":
					default:
						continue
					}
					k, isC := constInt(call.Call.Args[1])
					if !isC || k <= 0 {
						continue
					}
					n++
					c.analysed(qname(fn))
					key := fmt.Sprintf("%s ticket#%d", qname(fn), n)
					usedAsPosition, pos := false, token.NoPos
					seen := map[ssa.Value]bool{}
					var walk func(v ssa.Value)
					walk = func(v ssa.Value) {
						if seen[v] || v.Referrers() == nil {
							return
						}
						seen[v] = true
						for _, ref := range *v.Referrers() {
							switch u := ref.(type) {
							case *ssa.Convert:
								walk(u)
							case *ssa.Phi:
								walk(u)
							case *ssa.IndexAddr:
								if u.Index == v {
									usedAsPosition, pos = true, u.Pos()
								}
							case *ssa.BinOp:
								switch u.Op {
								case token.SUB:
									if _, isK := constInt(u.Y); isK && u.X == v {
										continue // made zero-based
									}
								case token.REM, token.QUO:
									if u.X == v {
										usedAsPosition, pos = true, u.Pos()
									}
								case token.GEQ, token.LSS:
									if u.X == v {
										if _, isK := constInt(u.Y); !isK {
											usedAsPosition, pos = true, u.Pos()
										}
									}
								}
							}
						}
					}
					walk(call)
					if usedAsPosition {
						c.bad(rule, key, pos, fmt.Sprintf("atomic.%s returns the new value, so the first ticket is %d; it is used as a zero-based position without subtracting %d: position 0 is never processed (and the last one is claimed one step late)", f.Name(), k, k))
					} else {
						c.ok(rule, key, call.Pos(), "ticket made zero-based (or not used as a position)")
					}
				}
			}
		}
	}
}
