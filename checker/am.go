package main

// AM — arg-min selection of the nearest collision.
//
// An instance is an if-statement whose condition compares two ray parameters
// (RayCollision.Scale values, or a float variable that the body assigns from
// one) and whose body replaces the "best so far" by the "candidate". The rule
// demands (a) the comparison keeps the candidate only when it is smaller
// (cand < best or cand <= best, in either spelling) and (b) the comparison is
// or-ed with a "nothing found yet" flag that the body sets.

import (
	"fmt"
	"go/ast"
	"go/token"
	"go/types"

	"golang.org/x/tools/go/packages"
)

func isRayCollisionType(t types.Type) bool {
	if p, ok := t.(*types.Pointer); ok {
		t = p.Elem()
	}
	named, ok := t.(*types.Named)
	if !ok || named.Obj().Pkg() == nil {
		return false
	}
	path := named.Obj().Pkg().Path()
	return named.Obj().Name() == "RayCollision" && (path == repoMod+"/model3d" || path == repoMod+"/model2d")
}

func rootIdent(e ast.Expr) *ast.Ident {
	for {
		switch x := ast.Unparen(e).(type) {
		case *ast.Ident:
			return x
		case *ast.SelectorExpr:
			e = x.X
		case *ast.IndexExpr:
			e = x.X
		case *ast.StarExpr:
			e = x.X
		default:
			return nil
		}
	}
}

func identObj(info *types.Info, id *ast.Ident) types.Object {
	if id == nil {
		return nil
	}
	if o := info.Uses[id]; o != nil {
		return o
	}
	return info.Defs[id]
}

func (c *Ctx) runArgMin(pkgs []*packages.Package, rule string) {
	for _, p := range pkgs {
		if p == nil {
			continue
		}
		info := p.TypesInfo
		for _, file := range p.Syntax {
			for _, d := range file.Decls {
				fd, ok := d.(*ast.FuncDecl)
				if !ok || fd.Body == nil {
					continue
				}
				// scope: functions that hand out a collision ("first collision"
				// contract): a RayCollision among the results.
				obj, _ := info.Defs[fd.Name].(*types.Func)
				if obj == nil {
					continue
				}
				res := obj.Type().(*types.Signature).Results()
				inScope := false
				for i := 0; i < res.Len(); i++ {
					if isRayCollisionType(res.At(i).Type()) {
						inScope = true
					}
				}
				if !inScope {
					continue
				}
				name := declName(p, fd)
				c.analysed(name)
				n := 0
				restOf := map[ast.Stmt][]ast.Stmt{}
				ast.Inspect(fd.Body, func(m ast.Node) bool {
					var list []ast.Stmt
					switch x := m.(type) {
					case *ast.BlockStmt:
						list = x.List
					case *ast.CaseClause:
						list = x.Body
					}
					for i, st := range list {
						restOf[st] = list[i+1:]
					}
					return true
				})
				ast.Inspect(fd.Body, func(m ast.Node) bool {
					ifs, ok := m.(*ast.IfStmt)
					if !ok {
						return true
					}
					if acc := skipFormAsAcceptForm(ifs, restOf[ifs]); acc != nil {
						// "if found && !(cand < best) { continue }; best = cand; found = true"
						// is "if !found || cand < best { best = cand; found = true }"
						c.argMinIf(info, acc, name, rule, &n)
						return true
					}
					c.argMinIf(info, ifs, name, rule, &n)
					return true
				})
			}
		}
	}
}

func isScaleSel(info *types.Info, e ast.Expr) bool {
	sel, ok := ast.Unparen(e).(*ast.SelectorExpr)
	if !ok || sel.Sel.Name != "Scale" {
		return false
	}
	t := info.TypeOf(sel.X)
	return t != nil && isRayCollisionType(t)
}

func (c *Ctx) argMinIf(info *types.Info, ifs *ast.IfStmt, fn, rule string, n *int) {
	// collect comparisons in the condition
	var cmps []*ast.BinaryExpr
	ast.Inspect(ifs.Cond, func(m ast.Node) bool {
		if _, ok := m.(*ast.FuncLit); ok {
			return false
		}
		if be, ok := m.(*ast.BinaryExpr); ok {
			switch be.Op {
			case token.LSS, token.LEQ, token.GTR, token.GEQ:
				cmps = append(cmps, be)
			}
		}
		return true
	})
	if len(cmps) == 0 {
		return
	}
	// assignments directly in the body
	type asg struct{ l, r ast.Expr }
	var asgs []asg
	for _, s := range ifs.Body.List {
		if as, ok := s.(*ast.AssignStmt); ok && as.Tok == token.ASSIGN && len(as.Lhs) == len(as.Rhs) {
			for i := range as.Lhs {
				asgs = append(asgs, asg{as.Lhs[i], as.Rhs[i]})
			}
		}
	}
	for _, be := range cmps {
		xs, ys := isScaleSel(info, be.X), isScaleSel(info, be.Y)
		if !xs && !ys {
			continue
		}
		// which side is the candidate? the side whose root is copied into the
		// other side's root (or into the plain float on the other side).
		side := func(cand, best ast.Expr) bool {
			if !isScaleSel(info, cand) {
				return false
			}
			cr := identObj(info, rootIdent(cand))
			br := identObj(info, rootIdent(best))
			if cr == nil || br == nil || cr == br {
				return false
			}
			for _, a := range asgs {
				lr := identObj(info, rootIdent(a.l))
				rr := identObj(info, rootIdent(a.r))
				if lr == br && rr == cr {
					return true
				}
			}
			return false
		}
		var op token.Token
		switch {
		case side(be.X, be.Y):
			op = be.Op // cand OP best
		case side(be.Y, be.X):
			// best OP cand  ==  cand OP' best
			op = map[token.Token]token.Token{token.LSS: token.GTR, token.LEQ: token.GEQ, token.GTR: token.LSS, token.GEQ: token.LEQ}[be.Op]
		default:
			continue
		}
		*n++
		key := fmt.Sprintf("%s select#%d", fn, *n)
		if op != token.LSS && op != token.LEQ {
			c.bad(rule, key, be.Pos(), fmt.Sprintf("candidate replaces the best collision when its ray parameter is LARGER (%s)", types.ExprString(be)))
			continue
		}
		// nothing-found-yet disjunct
		if !hasNotFoundDisjunct(info, ifs.Cond, be, ifs.Body) {
			c.bad(rule, key, be.Pos(), fmt.Sprintf("comparison %s is not or-ed with a 'nothing found yet' flag set by the body (the zero-valued best would win)", types.ExprString(be)))
			continue
		}
		c.ok(rule, key, be.Pos(), "keeps the candidate iff nothing was found yet or its ray parameter is smaller: "+types.ExprString(ifs.Cond))
	}
}

func hasNotFoundDisjunct(info *types.Info, cond ast.Expr, cmp *ast.BinaryExpr, body *ast.BlockStmt) bool {
	// find the chain of || operands that contains cmp
	var disj []ast.Expr
	var collect func(e ast.Expr) bool // returns whether e contains cmp
	collect = func(e ast.Expr) bool {
		e = ast.Unparen(e)
		if e == ast.Expr(cmp) {
			return true
		}
		be, ok := e.(*ast.BinaryExpr)
		if !ok {
			return false
		}
		switch be.Op {
		case token.LOR:
			l, r := collect(be.X), collect(be.Y)
			if l || r {
				if l {
					disj = append(disj, be.Y)
				} else {
					disj = append(disj, be.X)
				}
				return true
			}
		case token.LAND:
			return collect(be.X) || collect(be.Y)
		}
		return false
	}
	collect(cond)
	for _, d := range disj {
		// flatten nested ors
		var parts []ast.Expr
		var flat func(e ast.Expr)
		flat = func(e ast.Expr) {
			e = ast.Unparen(e)
			if be, ok := e.(*ast.BinaryExpr); ok && be.Op == token.LOR {
				flat(be.X)
				flat(be.Y)
				return
			}
			parts = append(parts, e)
		}
		flat(d)
		for _, part := range parts {
			un, ok := part.(*ast.UnaryExpr)
			if !ok || un.Op != token.NOT {
				continue
			}
			flag := identObj(info, rootIdent(un.X))
			if flag == nil {
				continue
			}
			for _, s := range body.List {
				as, ok := s.(*ast.AssignStmt)
				if !ok {
					continue
				}
				for i, l := range as.Lhs {
					if identObj(info, rootIdent(l)) == flag && i < len(as.Rhs) {
						if id, ok := ast.Unparen(as.Rhs[i]).(*ast.Ident); ok && id.Name == "true" {
							return true
						}
					}
				}
			}
		}
	}
	return false
}

// skipFormAsAcceptForm: ifs is a guard "if C { continue }" (or a bare return)
// without else whose condition is a conjunction; the statements that follow it
// in the block are what happens when C is false. Returns the equivalent
// "if !C { rest }" with !C pushed through the conjunction (De Morgan) and
// through the comparisons, or nil if ifs is not such a guard.
func skipFormAsAcceptForm(ifs *ast.IfStmt, rest []ast.Stmt) *ast.IfStmt {
	if ifs.Else != nil || ifs.Init != nil || len(ifs.Body.List) != 1 || len(rest) == 0 {
		return nil
	}
	switch x := ifs.Body.List[0].(type) {
	case *ast.BranchStmt:
		if x.Tok != token.CONTINUE || x.Label != nil {
			return nil
		}
	case *ast.ReturnStmt:
		if len(x.Results) != 0 {
			return nil
		}
	default:
		return nil
	}
	var conj []ast.Expr
	var flat func(e ast.Expr)
	flat = func(e ast.Expr) {
		e = ast.Unparen(e)
		if be, ok := e.(*ast.BinaryExpr); ok && be.Op == token.LAND {
			flat(be.X)
			flat(be.Y)
			return
		}
		conj = append(conj, e)
	}
	flat(ifs.Cond)
	negate := func(e ast.Expr) ast.Expr {
		e = ast.Unparen(e)
		if un, ok := e.(*ast.UnaryExpr); ok && un.Op == token.NOT {
			return ast.Unparen(un.X)
		}
		if be, ok := e.(*ast.BinaryExpr); ok {
			flip := map[token.Token]token.Token{token.LSS: token.GEQ, token.GEQ: token.LSS, token.GTR: token.LEQ, token.LEQ: token.GTR}
			if op, ok := flip[be.Op]; ok {
				// (for NaN the two forms differ; the rule is about which of two
				// proper ray parameters is kept)
				return &ast.BinaryExpr{X: be.X, OpPos: be.OpPos, Op: op, Y: be.Y}
			}
		}
		return &ast.UnaryExpr{OpPos: e.Pos(), Op: token.NOT, X: e}
	}
	hasCmp := false
	var cond ast.Expr
	for _, cj := range conj {
		ne := negate(cj)
		if be, ok := ne.(*ast.BinaryExpr); ok {
			switch be.Op {
			case token.LSS, token.LEQ, token.GTR, token.GEQ:
				hasCmp = true
			}
		}
		if cond == nil {
			cond = ne
		} else {
			cond = &ast.BinaryExpr{X: cond, OpPos: ne.Pos(), Op: token.LOR, Y: ne}
		}
	}
	if !hasCmp {
		return nil
	}
	return &ast.IfStmt{If: ifs.If, Cond: cond, Body: &ast.BlockStmt{Lbrace: ifs.Body.Lbrace, List: rest, Rbrace: ifs.Body.Rbrace}}
}
