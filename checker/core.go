// mvcheck: static checks of the model3d properties (see /verif/DESIGN.md).
//
// Nothing of /repo is executed: the repository is parsed, type-checked and
// converted to SSA from its working tree on every run.
package main

import (
	"encoding/json"
	"fmt"
	"go/ast"
	"go/token"
	"go/types"
	"os"
	"path/filepath"
	"sort"
	"strings"
	"time"

	"golang.org/x/tools/go/callgraph"
	"golang.org/x/tools/go/packages"
	"golang.org/x/tools/go/ssa"
)

const repoMod = "github.com/unixpickle/model3d"

// Status of an obligation.
const (
	Discharged = "discharged"
	Violated   = "violated"
	Excepted   = "excepted"
)

// Ob is one rule instance (an obligation).
type Ob struct {
	Rule    string `json:"rule"`
	Key     string `json:"key"` // rule + package.Func + construct, never a line number
	Pos     string `json:"pos"` // file:line (diagnostic only)
	Status  string `json:"status"`
	Detail  string `json:"detail,omitempty"`
	Fixture bool   `json:"fixture,omitempty"`
	Trivial bool   `json:"-"`
	tpos    token.Pos
}

// Ctx is the state of one check run.
type Ctx struct {
	Prop     string
	Tier     string
	Repo     string
	VerifDir string

	Fset  *token.FileSet
	Pkgs  []*packages.Package          // all loaded root packages
	ByPat map[string]*packages.Package // by import path
	Prog  *ssa.Program
	cg    *callgraph.Graph
	chaCG *callgraph.Graph

	Obs      []Ob
	Floors   map[string]int // rule -> minimal number of non-fixture instances
	Notes    []string
	Problems []string // reasons the check could not decide (exit 2)
	Extra    map[string]interface{}

	FuncsAnalysed map[string]bool
	SelfTest      *SelfTestResult
	orbitOnly     bool
	memoMode      bool
	seenKeys      map[string]int
}

func (c *Ctx) isFixturePos(p token.Pos) bool {
	if !p.IsValid() {
		return false
	}
	f := c.Fset.Position(p).Filename
	return strings.Contains(f, "/fixtures/")
}

func (c *Ctx) pos(p token.Pos) string {
	if !p.IsValid() {
		return "-"
	}
	pp := c.Fset.Position(p)
	f := pp.Filename
	if i := strings.Index(f, "/fixtures/"); i >= 0 && strings.Contains(f, "mvharness") {
		f = "fixtures/" + f[i+len("/fixtures/"):]
	}
	return fmt.Sprintf("%s:%d", f, pp.Line)
}

// add records an obligation. Keys are made unique by an occurrence suffix.
func (c *Ctx) add(rule, key string, p token.Pos, status, detail string) {
	if c.seenKeys == nil {
		c.seenKeys = map[string]int{}
	}
	full := rule + " " + key
	c.seenKeys[full]++
	if n := c.seenKeys[full]; n > 1 {
		key = fmt.Sprintf("%s #%d", key, n)
	}
	c.Obs = append(c.Obs, Ob{Rule: rule, Key: key, Pos: c.pos(p), Status: status,
		Detail: detail, Fixture: c.isFixturePos(p), tpos: p})
}

func (c *Ctx) ok(rule, key string, p token.Pos, detail string) {
	c.add(rule, key, p, Discharged, detail)
}
func (c *Ctx) bad(rule, key string, p token.Pos, detail string) {
	c.add(rule, key, p, Violated, detail)
}
func (c *Ctx) except(rule, key string, p token.Pos, reason string) {
	c.add(rule, key, p, Excepted, reason)
}

// okNoPos etc. are for obligations about tables (no single position).
func (c *Ctx) problem(format string, args ...interface{}) {
	c.Problems = append(c.Problems, fmt.Sprintf(format, args...))
}
func (c *Ctx) note(format string, args ...interface{}) {
	c.Notes = append(c.Notes, fmt.Sprintf(format, args...))
}
func (c *Ctx) floor(rule string, n int) {
	if c.Floors == nil {
		c.Floors = map[string]int{}
	}
	c.Floors[rule] = n
}
func (c *Ctx) analysed(fn string) {
	if c.FuncsAnalysed == nil {
		c.FuncsAnalysed = map[string]bool{}
	}
	c.FuncsAnalysed[fn] = true
}

// ---------------------------------------------------------------------------
// Lookup helpers (resolved objects, never text).

// pkg returns the loaded package "model3d", "model2d", ... or a fixture package.
func (c *Ctx) pkg(short string) *packages.Package {
	if p, ok := c.ByPat[repoMod+"/"+short]; ok {
		return p
	}
	if p, ok := c.ByPat[short]; ok {
		return p
	}
	return nil
}

// libPkgs are the six library packages.
var libShort = []string{"model3d", "model2d", "toolbox3d", "render3d", "numerical", "fileformats"}

func (c *Ctx) libPkgs() []*packages.Package {
	var res []*packages.Package
	for _, s := range libShort {
		if p := c.pkg(s); p != nil {
			res = append(res, p)
		}
	}
	return res
}

// fixturePkgs returns loaded fixture packages whose path has the given suffix
// element (e.g. "a3").
func (c *Ctx) fixturePkg(name string) *packages.Package {
	return c.ByPat["verif/fixtures/"+name]
}

func (c *Ctx) isRepoPkg(p *types.Package) bool {
	return p != nil && strings.HasPrefix(p.Path(), repoMod)
}

// lookupFunc finds a package-level function or a method "T.M" / "(*T).M" in pkg.
func lookupObj(pkg *types.Package, name string) types.Object {
	name = strings.TrimPrefix(name, "(*")
	name = strings.Replace(name, ").", ".", 1)
	if i := strings.Index(name, "."); i >= 0 {
		tn, _ := pkg.Scope().Lookup(name[:i]).(*types.TypeName)
		if tn == nil {
			return nil
		}
		named, _ := tn.Type().(*types.Named)
		if named == nil {
			return nil
		}
		for j := 0; j < named.NumMethods(); j++ {
			if named.Method(j).Name() == name[i+1:] {
				return named.Method(j)
			}
		}
		if st, ok := named.Underlying().(*types.Struct); ok {
			for j := 0; j < st.NumFields(); j++ {
				if st.Field(j).Name() == name[i+1:] {
					return st.Field(j)
				}
			}
		}
		return nil
	}
	return pkg.Scope().Lookup(name)
}

// mustFunc resolves an anchor; an unresolved anchor makes the run undecided.
func (c *Ctx) mustFunc(short, name string) *types.Func {
	p := c.pkg(short)
	if p == nil {
		c.problem("unresolved anchor: package %s not loaded", short)
		return nil
	}
	f, _ := lookupObj(p.Types, name).(*types.Func)
	if f == nil {
		c.problem("unresolved anchor: %s.%s not found", short, name)
	}
	return f
}

func (c *Ctx) optFunc(short, name string) *types.Func {
	p := c.pkg(short)
	if p == nil {
		return nil
	}
	f, _ := lookupObj(p.Types, name).(*types.Func)
	return f
}

func (c *Ctx) mustField(short, name string) *types.Var {
	p := c.pkg(short)
	if p == nil {
		c.problem("unresolved anchor: package %s not loaded", short)
		return nil
	}
	f, _ := lookupObj(p.Types, name).(*types.Var)
	if f == nil {
		c.problem("unresolved anchor: field %s.%s not found", short, name)
	}
	return f
}

// ssaFunc gives the SSA function (with body) for a source function, including
// uninstantiated generic methods.
func (c *Ctx) ssaFunc(f *types.Func) *ssa.Function {
	if f == nil {
		return nil
	}
	return c.Prog.FuncValue(f)
}

// funcDecl finds the syntax of a function object.
func (c *Ctx) funcDecl(f *types.Func) (*ast.FuncDecl, *packages.Package) {
	if f == nil || f.Pkg() == nil {
		return nil, nil
	}
	p := c.ByPat[f.Pkg().Path()]
	if p == nil {
		return nil, nil
	}
	for _, file := range p.Syntax {
		if file.Pos() <= f.Pos() && f.Pos() <= file.End() {
			for _, d := range file.Decls {
				if fd, ok := d.(*ast.FuncDecl); ok && fd.Name.Pos() == f.Pos() {
					return fd, p
				}
			}
		}
	}
	return nil, nil
}

// qname is a stable, line-free name for a function: pkg.(*T).M or pkg.F$1.
func qname(fn *ssa.Function) string {
	if fn == nil {
		return "<nil>"
	}
	s := fn.String()
	s = strings.ReplaceAll(s, repoMod+"/", "")
	s = strings.ReplaceAll(s, "verif/fixtures/", "fx/")
	return s
}

func objName(o types.Object) string {
	if o == nil {
		return "<nil>"
	}
	if f, ok := o.(*types.Func); ok {
		s := f.FullName()
		s = strings.ReplaceAll(s, repoMod+"/", "")
		s = strings.ReplaceAll(s, "verif/fixtures/", "fx/")
		return s
	}
	if o.Pkg() != nil {
		return shortPkg(o.Pkg().Path()) + "." + o.Name()
	}
	return o.Name()
}

func shortPkg(path string) string {
	path = strings.TrimPrefix(path, repoMod+"/")
	path = strings.TrimPrefix(path, "verif/fixtures/")
	return path
}

// srcFuncs returns all source-level SSA functions (incl. anonymous ones and
// generic method bodies) of a package, in deterministic order.
func (c *Ctx) srcFuncs(p *packages.Package) []*ssa.Function {
	var res []*ssa.Function
	seen := map[*ssa.Function]bool{}
	var addFn func(fn *ssa.Function)
	addFn = func(fn *ssa.Function) {
		if fn == nil || seen[fn] || fn.Blocks == nil {
			return
		}
		seen[fn] = true
		res = append(res, fn)
		for _, a := range fn.AnonFuncs {
			addFn(a)
		}
	}
	for _, file := range p.Syntax {
		for _, d := range file.Decls {
			fd, ok := d.(*ast.FuncDecl)
			if !ok {
				continue
			}
			obj, _ := p.TypesInfo.Defs[fd.Name].(*types.Func)
			if obj == nil {
				continue
			}
			addFn(c.Prog.FuncValue(obj))
		}
	}
	// package initialiser (var initialisers with function literals)
	if sp := c.Prog.Package(p.Types); sp != nil {
		if init := sp.Func("init"); init != nil {
			for _, a := range init.AnonFuncs {
				addFn(a)
			}
		}
	}
	return res
}

// ---------------------------------------------------------------------------
// Known findings.

type knownFinding struct {
	Prop, Key, Desc string
}

func loadKnown(verifDir string) ([]knownFinding, error) {
	data, err := os.ReadFile(filepath.Join(verifDir, "known_findings.txt"))
	if err != nil {
		if os.IsNotExist(err) {
			return nil, nil
		}
		return nil, err
	}
	var res []knownFinding
	for _, line := range strings.Split(string(data), "\n") {
		line = strings.TrimSpace(line)
		if !strings.HasPrefix(line, "known:") {
			continue // "fixed:" lines and comments suppress nothing
		}
		rest := strings.TrimSpace(strings.TrimPrefix(line, "known:"))
		// known: property=C16 key=<rule key...> :: description
		var kf knownFinding
		parts := strings.SplitN(rest, "::", 2)
		if len(parts) == 2 {
			kf.Desc = strings.TrimSpace(parts[1])
		}
		head := strings.TrimSpace(parts[0])
		if !strings.HasPrefix(head, "property=") {
			continue
		}
		sp := strings.SplitN(head, " ", 2)
		kf.Prop = strings.TrimPrefix(sp[0], "property=")
		if len(sp) == 2 {
			kf.Key = strings.TrimSpace(strings.TrimPrefix(strings.TrimSpace(sp[1]), "key="))
		}
		res = append(res, kf)
	}
	return res, nil
}

// ---------------------------------------------------------------------------
// Finishing: fixtures, floors, evidence, exit code.

type SelfTestResult struct {
	Tried    int      `json:"variants_tried"`
	Detected int      `json:"variants_detected"`
	Stale    int      `json:"variants_stale"`
	Missed   []string `json:"missed,omitempty"`
	Details  []string `json:"details,omitempty"`
}

type propInfo struct {
	Explanation string
	Trusted     []string
	Assumptions []string
	Exhaustive  bool
	Fixtures    []string // fixture packages (under testdata/fixtures) this property uses
	Run         func(c *Ctx)
	SelfTest    []Mutation
}

func (c *Ctx) finish(info *propInfo, start time.Time) int {
	sort.SliceStable(c.Obs, func(i, j int) bool {
		if c.Obs[i].Rule != c.Obs[j].Rule {
			return c.Obs[i].Rule < c.Obs[j].Rule
		}
		return c.Obs[i].Key < c.Obs[j].Key
	})
	known, err := loadKnown(c.VerifDir)
	if err != nil {
		c.problem("known_findings.txt: %v", err)
	}

	// Fixtures: every "want" marker must be hit, and no "ok" function flagged.
	fixtureHits, fixtureProblems := c.checkFixtures(info)
	for _, p := range fixtureProblems {
		c.problem("%s", p)
	}

	perRule := map[string]map[string]int{}
	var violations, knownHits []Ob
	nonTrivial := map[string]bool{}
	total, discharged := 0, 0
	for _, o := range c.Obs {
		if o.Fixture {
			continue
		}
		total++
		if perRule[o.Rule] == nil {
			perRule[o.Rule] = map[string]int{}
		}
		perRule[o.Rule][o.Status]++
		perRule[o.Rule]["instances"]++
		if !o.Trivial {
			nonTrivial[o.Rule+" "+o.Key] = true
		}
		switch o.Status {
		case Discharged, Excepted:
			discharged++
		case Violated:
			isKnown := false
			for _, k := range known {
				if k.Prop == c.Prop && k.Key == o.Rule+" "+o.Key {
					isKnown = true
					o.Detail = k.Desc
				}
			}
			if isKnown {
				knownHits = append(knownHits, o)
			} else {
				violations = append(violations, o)
			}
		}
	}
	// Floors.
	floorReport := map[string]interface{}{}
	rules := make([]string, 0, len(c.Floors))
	for r := range c.Floors {
		rules = append(rules, r)
	}
	sort.Strings(rules)
	for _, r := range rules {
		n := 0
		if perRule[r] != nil {
			n = perRule[r]["instances"]
		}
		// The floor guards against a rule that silently stopped finding its
		// instances. A refactoring that legitimately removes one instance must
		// not turn the check undecided: a rule whose want:/clean: fixtures were
		// both exercised in this run is known to be alive, so a small floor is
		// waived for it; large floors keep 20% slack.
		eff := c.Floors[r]
		backed := fixtureHits["want:"+r] > 0 && fixtureHits["clean:"+r] > 0
		switch {
		case eff < 10 && backed:
			eff = 0
		case eff >= 10:
			eff = eff * 4 / 5
		}
		floorReport[r] = map[string]int{"instances": n, "floor": c.Floors[r], "effective_floor": eff}
		if n < eff {
			c.problem("rule %s matched %d instances, below its floor %d (rule would pass vacuously)", r, n, eff)
		}
	}

	// Output.
	fmt.Printf("== %s tier=%s repo=%s: %d packages, %d functions analysed, %d obligations (%d discharged/excepted, %d violated, %d known)\n",
		c.Prop, c.Tier, c.Repo, len(c.Pkgs), len(c.FuncsAnalysed), total, discharged, len(violations), len(knownHits))
	ruleNames := make([]string, 0, len(perRule))
	for r := range perRule {
		ruleNames = append(ruleNames, r)
	}
	sort.Strings(ruleNames)
	for _, r := range ruleNames {
		m := perRule[r]
		fmt.Printf("   rule %-28s instances=%d discharged=%d excepted=%d violated=%d\n", r, m["instances"], m[Discharged], m[Excepted], m[Violated])
	}
	for _, n := range c.Notes {
		fmt.Println("   note:", n)
	}
	for _, o := range knownHits {
		fmt.Printf("KNOWN-FINDING: property=%s %s %s at %s: %s\n", c.Prop, o.Rule, o.Key, o.Pos, o.Detail)
	}
	violDir := filepath.Join(c.VerifDir, "evidence", c.Prop+".violations")
	os.RemoveAll(violDir)
	for i, o := range violations {
		os.MkdirAll(violDir, 0o755)
		path := filepath.Join(violDir, fmt.Sprintf("%d.json", i+1))
		data, _ := json.MarshalIndent(map[string]interface{}{
			"property": c.Prop, "rule": o.Rule, "key": o.Key, "pos": o.Pos, "detail": o.Detail,
			"replay": fmt.Sprintf("./check.sh %s quick", c.Prop),
		}, "", " ")
		os.WriteFile(path, data, 0o644)
		fmt.Printf("   violated: [%s] %s at %s: %s\n", o.Rule, o.Key, o.Pos, o.Detail)
		fmt.Printf("VIOLATION property=%s replay=%s\n", c.Prop, path)
	}
	for _, p := range c.Problems {
		fmt.Printf("CHECK-UNDECIDED: %s\n", p)
	}
	if os.Getenv("MVCHECK_VERBOSE") != "" {
		for _, o := range c.Obs {
			if o.Fixture || os.Getenv("MVCHECK_VERBOSE") == "2" {
				fmt.Printf("   [%s] %s %s at %s: %s\n", o.Status, o.Rule, o.Key, o.Pos, o.Detail)
			}
		}
	}

	// Evidence.
	samples := []interface{}{}
	seenRule := map[string]int{}
	for _, o := range c.Obs {
		if o.Fixture {
			continue
		}
		if seenRule[o.Rule] < 3 || o.Status == Violated {
			seenRule[o.Rule]++
			samples = append(samples, o)
		}
		if len(samples) >= 40 {
			break
		}
	}
	var exceptions []Ob
	for _, o := range c.Obs {
		if !o.Fixture && o.Status == Excepted {
			exceptions = append(exceptions, o)
		}
	}
	pkgNames := []string{}
	for _, p := range c.Pkgs {
		pkgNames = append(pkgNames, shortPkg(p.PkgPath))
	}
	sort.Strings(pkgNames)
	if len(pkgNames) > 30 {
		pkgNames = append(pkgNames[:30], fmt.Sprintf("... (%d in total)", len(c.Pkgs)))
	}
	cov := map[string]interface{}{
		"explanation":         info.Explanation,
		"obligations":         total,
		"discharged":          discharged,
		"checker_cmd":         fmt.Sprintf("bin/mvcheck -prop %s -tier %s -repo %s", c.Prop, c.Tier, c.Repo),
		"trusted_base":        info.Trusted,
		"exhaustive":          info.Exhaustive,
		"evaluations":         total,
		"distinct_nontrivial": len(nonTrivial),
		"rule":                "one obligation per rule instance found in the current source (key = rule + function + construct); non-trivial = the construct has at least one path/site/row the rule had to examine",
		"samples":             samples,
		"packages":            pkgNames,
		"packages_loaded":     len(c.Pkgs),
		"functions_analysed":  len(c.FuncsAnalysed),
		"rule_instances":      perRule,
		"floors":              floorReport,
		"exceptions":          exceptions,
		"fixture_hits":        fixtureHits,
		"known_findings_hit":  len(knownHits),
		"notes":               c.Notes,
		"undecided":           c.Problems,
	}
	for k, v := range c.Extra {
		cov[k] = v
	}
	if c.SelfTest != nil {
		cov["self_test"] = c.SelfTest
	}
	if info.Assumptions == nil {
		info.Assumptions = []string{"the type-checked source of /repo's working tree is what gets built (no build tags, no generated sources outside the tree)"}
	}
	if info.Trusted == nil {
		info.Trusted = []string{"go/types", "go/ssa"}
		cov["trusted_base"] = info.Trusted
	}
	seed := 0
	fmt.Sscanf(os.Getenv("VERIF_SEED"), "%d", &seed)
	ev := map[string]interface{}{
		"property_id": c.Prop,
		"tier":        c.Tier,
		"seed":        seed,
		"level":       "other",
		"coverage":    cov,
		"assumptions": info.Assumptions,
		"wall_s":      time.Since(start).Seconds(),
		"violations":  len(violations),
	}
	if os.Getenv("MVCHECK_NO_EVIDENCE") == "" {
		data, _ := json.MarshalIndent(ev, "", " ")
		os.MkdirAll(filepath.Join(c.VerifDir, "evidence"), 0o755)
		if err := os.WriteFile(filepath.Join(c.VerifDir, "evidence", c.Prop+".json"), data, 0o644); err != nil {
			fmt.Println("CHECK-UNDECIDED: cannot write evidence:", err)
			return 2
		}
	}
	if len(violations) > 0 {
		return 1
	}
	if len(c.Problems) > 0 {
		return 2
	}
	fmt.Printf("OK property=%s\n", c.Prop)
	return 0
}
