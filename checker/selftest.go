package main

import (
	"fmt"
	"os"
	"os/exec"
	"path/filepath"
	"strings"
	"sync"
)

// Mutation is a single-edit variant of the real source used to test that a
// rule fires (thorough tier). The edit is located by a source fragment; if the
// fragment no longer occurs exactly Count times (the repository moved on), the variant
// is reported as stale, not as a failure: the rules themselves never match text.
type Mutation struct {
	Name   string
	File   string // relative to the repository root
	Old    string
	New    string
	Rule   string      // rule expected to report
	Expect string      // substring expected in the reported key
	All    bool        // replace all occurrences (else exactly one must exist)
	More   [][2]string // further (old, new) edits in the same file, each must occur exactly once
	Clean  bool        // the variant is a behaviour-preserving edit: the check must stay silent (exit 0)
}

func copyTree(src, dst string) error {
	return filepath.Walk(src, func(path string, info os.FileInfo, err error) error {
		if err != nil {
			return err
		}
		rel, _ := filepath.Rel(src, path)
		if info.IsDir() {
			return os.MkdirAll(filepath.Join(dst, rel), 0o755)
		}
		if !strings.HasSuffix(path, ".go") || strings.HasSuffix(path, "_test.go") {
			return nil
		}
		return copyFile(path, filepath.Join(dst, rel))
	})
}

func runSelfTest(c *Ctx, info *propInfo) *SelfTestResult {
	res := &SelfTestResult{}
	self, err := os.Executable()
	if err != nil {
		c.problem("self-test: %v", err)
		return res
	}
	type outcome struct {
		m      Mutation
		status string // detected | missed | stale | error
		detail string
	}
	outs := make([]outcome, len(info.SelfTest))
	sem := make(chan struct{}, 6)
	var wg sync.WaitGroup
	for i, m := range info.SelfTest {
		wg.Add(1)
		go func(i int, m Mutation) {
			defer wg.Done()
			sem <- struct{}{}
			defer func() { <-sem }()
			o := outcome{m: m}
			defer func() { outs[i] = o }()
			data, err := os.ReadFile(filepath.Join(c.Repo, m.File))
			if err != nil {
				o.status, o.detail = "stale", err.Error()
				return
			}
			n := strings.Count(string(data), m.Old)
			if n == 0 || (n != 1 && !m.All) {
				o.status, o.detail = "stale", fmt.Sprintf("fragment occurs %d times", n)
				return
			}
			tmp, err := os.MkdirTemp("", "mvvariant")
			if err != nil {
				o.status, o.detail = "error", err.Error()
				return
			}
			defer os.RemoveAll(tmp)
			for _, d := range libShort {
				if err := copyTree(filepath.Join(c.Repo, d), filepath.Join(tmp, d)); err != nil {
					o.status, o.detail = "error", err.Error()
					return
				}
			}
			copyFile(filepath.Join(c.Repo, "go.mod"), filepath.Join(tmp, "go.mod"))
			copyFile(filepath.Join(c.Repo, "go.sum"), filepath.Join(tmp, "go.sum"))
			mutated := strings.Replace(string(data), m.Old, m.New, -1)
			for _, ed := range m.More {
				if strings.Count(mutated, ed[0]) != 1 {
					o.status, o.detail = "stale", "secondary fragment not unique"
					return
				}
				mutated = strings.Replace(mutated, ed[0], ed[1], 1)
			}
			if err := os.WriteFile(filepath.Join(tmp, m.File), []byte(mutated), 0o644); err != nil {
				o.status, o.detail = "error", err.Error()
				return
			}
			cmd := exec.Command(self, "-prop", c.Prop, "-tier", "quick", "-repo", tmp, "-verif", c.VerifDir)
			cmd.Env = append(os.Environ(), "MVCHECK_NO_EVIDENCE=1")
			out, _ := cmd.CombinedOutput()
			code := cmd.ProcessState.ExitCode()
			text := string(out)
			found := false
			for _, line := range strings.Split(text, "\n") {
				if strings.Contains(line, "violated: ["+m.Rule+"]") && strings.Contains(line, m.Expect) {
					found = true
				}
			}
			switch {
			case m.Clean && code == 0:
				o.status = "detected"
			case m.Clean:
				o.status = "missed"
				o.detail = fmt.Sprintf("a behaviour-preserving edit raised an alarm or broke the check (exit %d): %s", code, lastLines(text, 3))
			case code == 1 && found:
				o.status = "detected"
			case code == 2:
				o.status = "error"
				o.detail = lastLines(text, 4)
			default:
				o.status = "missed"
				o.detail = fmt.Sprintf("exit %d; %s", code, lastLines(text, 3))
			}
		}(i, m)
	}
	wg.Wait()
	for _, o := range outs {
		switch o.status {
		case "stale":
			res.Stale++
			res.Details = append(res.Details, fmt.Sprintf("%s: stale (%s)", o.m.Name, o.detail))
		case "detected":
			res.Tried++
			res.Detected++
			if o.m.Clean {
				res.Details = append(res.Details, fmt.Sprintf("%s: stays silent (behaviour-preserving edit)", o.m.Name))
			} else {
				res.Details = append(res.Details, fmt.Sprintf("%s: detected by %s", o.m.Name, o.m.Rule))
			}
		default:
			res.Tried++
			res.Missed = append(res.Missed, o.m.Name)
			res.Details = append(res.Details, fmt.Sprintf("%s: %s (%s)", o.m.Name, o.status, o.detail))
			c.problem("self-test variant %q not detected by rule %s: %s %s", o.m.Name, o.m.Rule, o.status, o.detail)
		}
	}
	fmt.Printf("   self-test: %d variants tried, %d detected, %d stale\n", res.Tried, res.Detected, res.Stale)
	return res
}

func lastLines(s string, n int) string {
	lines := strings.Split(strings.TrimSpace(s), "\n")
	if len(lines) > n {
		lines = lines[len(lines)-n:]
	}
	return strings.Join(lines, " | ")
}
