package main

// BP — bisection polarity.
//
// A bisection keeps two loop-carried ends and replaces one of them by the
// midpoint depending on Solid.Contains(midpoint). The end replaced on the TRUE
// edge is the "inside" end. For the tabled functions the rule demands
//   BP.OUT   the output documented as contained (a result, or the point
//            stored through an out-parameter) is that inside end — not the
//            other end, not a recomputed value;
//   BP.PRE   where the ends are validated before the loop by a Contains test
//            and swapped, the value that test found contained becomes the
//            inside end (mcSearchPoint), resp. is passed as the end the callee
//            treats as inside (Bisect, BisectInterior -> BisectInterpRange);
//   BP.SEL   BisectInterior takes the inside result of BisectInterpRange.

import (
	"fmt"
	"go/token"
	"strings"

	"golang.org/x/tools/go/ssa"
)

type bpSite struct {
	pkg, fn string
	out     string // "result:N" or "param:NAME" (stored through that pointer parameter)
}

var bpSites = []bpSite{
	{"model3d", "SolidSurfaceEstimator.BisectInterpRange", "result:1"},
	{"model2d", "SolidSurfaceEstimator.BisectInterpRange", "result:1"},
	{"model3d", "mcSearchPoint", "param:interiorPoint"},
	{"model3d", "SolidCollider.bisectCollision", "result:0"},
}

func isContainsCall(v ssa.Value) *ssa.Call {
	if un, ok := v.(*ssa.UnOp); ok && un.Op == token.NOT {
		v = un.X
	}
	call, ok := v.(*ssa.Call)
	if !ok {
		return nil
	}
	name := ""
	if call.Call.IsInvoke() {
		name = call.Call.Method.Name()
	} else if f := call.Call.StaticCallee(); f != nil {
		name = f.Name()
	}
	if name != "Contains" {
		// a wrapper of the package that returns the answer of one Contains call
		if inner, _ := containsWrapper(call); inner != nil {
			return call
		}
		return nil
	}
	return call
}

// containsWrapper: call invokes a single-block repository function whose
// result is (the negation of) one Contains call; that inner call.
func containsWrapper(call *ssa.Call) (inner *ssa.Call, negated bool) {
	f := call.Call.StaticCallee()
	if f == nil || len(f.Blocks) != 1 || f.Pkg == nil || !strings.HasPrefix(f.Pkg.Pkg.Path(), repoMod) {
		return nil, false
	}
	ret, ok := f.Blocks[0].Instrs[len(f.Blocks[0].Instrs)-1].(*ssa.Return)
	if !ok || len(ret.Results) != 1 {
		return nil, false
	}
	v := ret.Results[0]
	if un, ok := v.(*ssa.UnOp); ok && un.Op == token.NOT {
		v, negated = un.X, true
	}
	c2, ok := v.(*ssa.Call)
	if !ok {
		return nil, false
	}
	name := ""
	if c2.Call.IsInvoke() {
		name = c2.Call.Method.Name()
	} else if g := c2.Call.StaticCallee(); g != nil {
		name = g.Name()
	}
	if name != "Contains" {
		return nil, false
	}
	return c2, negated
}

// testedPointArgs: the values the tested point is computed from at this
// (possibly wrapped) Contains call: the point itself, or all arguments of the
// wrapper.
func testedPointArgs(call *ssa.Call) []ssa.Value {
	if inner, _ := containsWrapper(call); inner != nil {
		return call.Call.Args
	}
	return call.Call.Args[len(call.Call.Args)-1:]
}

// containsEdges: for an If on Contains (possibly negated) the successor taken
// when the point IS contained and the other one.
func containsEdges(b *ssa.BasicBlock) (call *ssa.Call, yes, no *ssa.BasicBlock) {
	if len(b.Instrs) == 0 {
		return
	}
	ifi, ok := b.Instrs[len(b.Instrs)-1].(*ssa.If)
	if !ok || len(b.Succs) != 2 {
		return
	}
	call = isContainsCall(ifi.Cond)
	if call == nil {
		return
	}
	yes, no = b.Succs[0], b.Succs[1]
	if un, ok := ifi.Cond.(*ssa.UnOp); ok && un.Op == token.NOT {
		yes, no = no, yes
	}
	if _, neg := containsWrapper(call); neg {
		yes, no = no, yes
	}
	return
}

// bisectionEnds finds, in fn, the loop-carried inside/outside ends.
func bisectionEnds(fn *ssa.Function) (inside, outside *ssa.Phi, ok bool) {
	loops := naturalLoops(fn)
	for h, body := range loops {
		for b := range body {
			call, yes, no := containsEdges(b)
			if call == nil || !body[yes] || !body[no] {
				continue
			}
			// merge phis fed from the yes/no branches
			for mb := range body {
				for _, ins := range mb.Instrs {
					phi, isPhi := ins.(*ssa.Phi)
					if !isPhi || mb == h {
						continue
					}
					var fromYes, fromNo ssa.Value
					for i, p := range mb.Preds {
						if p == yes || yes.Dominates(p) && p != b {
							fromYes = phi.Edges[i]
						}
						if p == no || no.Dominates(p) && p != b {
							fromNo = phi.Edges[i]
						}
						// branches without own block: edge directly from b
						if p == b {
							if mb == yes {
								fromYes = phi.Edges[i]
							}
							if mb == no {
								fromNo = phi.Edges[i]
							}
						}
					}
					if fromYes == nil || fromNo == nil {
						continue
					}
					// the header phi that this merge phi feeds on the back edge
					for _, hi := range h.Instrs {
						hp, isPhi := hi.(*ssa.Phi)
						if !isPhi {
							continue
						}
						feeds := false
						for _, e := range hp.Edges {
							if e == ssa.Value(phi) {
								feeds = true
							}
						}
						if !feeds {
							continue
						}
						switch {
						case fromNo == ssa.Value(hp) && fromYes != ssa.Value(hp):
							inside = hp
						case fromYes == ssa.Value(hp) && fromNo != ssa.Value(hp):
							outside = hp
						}
					}
				}
			}
			if inside != nil && outside != nil {
				return inside, outside, true
			}
		}
	}
	return nil, nil, false
}

// dependsOnValue: v is computed from target (through arithmetic, calls, local
// arrays).
func dependsOnValue(v, target ssa.Value, depth int, seen map[ssa.Value]bool) bool {
	if v == target {
		return true
	}
	if depth > 12 || seen[v] {
		return false
	}
	seen[v] = true
	switch x := v.(type) {
	case *ssa.BinOp:
		return dependsOnValue(x.X, target, depth+1, seen) || dependsOnValue(x.Y, target, depth+1, seen)
	case *ssa.UnOp:
		if x.Op == token.MUL {
			switch a := x.X.(type) {
			case *ssa.Alloc:
				return allocDependsOn(a, x, target, depth+1, seen)
			case *ssa.IndexAddr:
				if al, ok := a.X.(*ssa.Alloc); ok {
					return allocDependsOn(al, x, target, depth+1, seen)
				}
			}
			return false
		}
		return dependsOnValue(x.X, target, depth+1, seen)
	case *ssa.Call:
		for _, a := range x.Call.Args {
			if dependsOnValue(a, target, depth+1, seen) {
				return true
			}
		}
	case *ssa.Convert:
		return dependsOnValue(x.X, target, depth+1, seen)
	case *ssa.Phi:
		for _, e := range x.Edges {
			if dependsOnValue(e, target, depth+1, seen) {
				return true
			}
		}
	case *ssa.Extract:
		return dependsOnValue(x.Tuple, target, depth+1, seen)
	}
	return false
}

// allocDependsOn: some store into the local that is executed before the load
// (dominates it) stores a value computed from target.
func allocDependsOn(al *ssa.Alloc, load ssa.Instruction, target ssa.Value, depth int, seen map[ssa.Value]bool) bool {
	for _, ref := range *al.Referrers() {
		switch r := ref.(type) {
		case *ssa.Store:
			if r.Addr == ssa.Value(al) && instrDominates(r, load) && dependsOnValue(r.Val, target, depth+1, seen) {
				return true
			}
		case *ssa.IndexAddr:
			for _, r2 := range *r.Referrers() {
				if st, ok := r2.(*ssa.Store); ok && st.Addr == ssa.Value(r) && instrDominates(st, load) && dependsOnValue(st.Val, target, depth+1, seen) {
					return true
				}
			}
		}
	}
	return false
}

func (c *Ctx) runBisectionPolarity(prefix string) {
	for _, site := range bpSites {
		fn := c.ssaFunc(c.mustFunc(site.pkg, site.fn))
		if fn == nil {
			continue
		}
		c.analysed(qname(fn))
		key := site.pkg + "." + site.fn + " " + site.out
		inside, outside, ok := bisectionEnds(fn)
		if !ok {
			c.problem("%s: no bisection loop (Contains test replacing one of two loop-carried ends) found", key)
			continue
		}
		// value of the ends after the loop: the header phis themselves
		// the output must BE the end (a copy of the loop-carried value), not a
		// value computed from it
		derivedFrom := func(v ssa.Value) (in, out bool) {
			v = stripConv(v)
			return v == ssa.Value(inside), v == ssa.Value(outside)
		}
		var verdictIn, verdictOut bool
		found := false
		switch {
		case strings.HasPrefix(site.out, "result:"):
			idx := int(site.out[len("result:")] - '0')
			for _, b := range fn.Blocks {
				if ret, isRet := b.Instrs[len(b.Instrs)-1].(*ssa.Return); isRet && idx < len(ret.Results) {
					verdictIn, verdictOut = derivedFrom(ret.Results[idx])
					found = true
				}
			}
		case strings.HasPrefix(site.out, "param:"):
			pname := site.out[len("param:"):]
			for _, b := range fn.Blocks {
				for _, ins := range b.Instrs {
					st, isSt := ins.(*ssa.Store)
					if !isSt {
						continue
					}
					if p, isP := st.Addr.(*ssa.Parameter); isP && p.Name() == pname {
						// the stored point is built from a local array: look at
						// the last store into it in this block before the call
						found = true
						verdictIn, verdictOut = false, false
						for _, prev := range b.Instrs {
							if prev == ins {
								break
							}
							if ps, ok := prev.(*ssa.Store); ok {
								if _, isIdx := ps.Addr.(*ssa.IndexAddr); isIdx {
									i2, o2 := derivedFrom(ps.Val)
									verdictIn, verdictOut = i2, o2
								}
							}
						}
					}
				}
			}
		}
		switch {
		case !found:
			c.problem("%s: designated output not found", key)
		case verdictIn && !verdictOut:
			c.ok(prefix+".OUT", key, fn.Pos(), fmt.Sprintf("the contained output is the end (%s) that Contains-true replaces", inside.Comment))
		default:
			c.bad(prefix+".OUT", key, fn.Pos(), fmt.Sprintf("the output documented as contained is not exactly the end (%s) that the Contains-true branch updates (is the inside end: %v, is the outside end: %v): a point outside the solid is reported as interior", inside.Comment, verdictIn, verdictOut))
		}
		// BP.PRE for functions that validate before the loop
		if site.fn == "mcSearchPoint" {
			c.bpPreLoop(prefix, key, fn, inside)
		}
	}
	// Bisect / BisectInterior: the contained endpoint is passed as p2
	for _, pkg := range []string{"model3d", "model2d"} {
		for _, name := range []string{"Bisect", "BisectInterior"} {
			fn := c.ssaFunc(c.mustFunc(pkg, "SolidSurfaceEstimator."+name))
			if fn == nil {
				continue
			}
			c.analysed(qname(fn))
			key := pkg + ".SolidSurfaceEstimator." + name
			var callee *ssa.Call
			for _, b := range fn.Blocks {
				for _, ins := range b.Instrs {
					if call, ok := ins.(*ssa.Call); ok {
						if f := call.Call.StaticCallee(); f != nil && (f.Name() == "BisectInterp" || f.Name() == "BisectInterpRange") {
							callee = call
						}
					}
				}
			}
			if callee == nil || len(callee.Call.Args) < 3 {
				c.problem("%s: bisection call not found", key)
				continue
			}
			insideArg := callee.Call.Args[2] // p2: the end reached as the parameter goes to max
			// the pre-test may sit in this function (a phi selects the swapped
			// ends) or in a helper that returns the ordered pair
			prePos, okPre, found := swappedByPreTest(fn, insideArg)
			if !found {
				c.problem("%s: pre-validation not found", key)
				continue
			}
			if okPre {
				c.ok(prefix+".PRE", key+" swap", prePos, "when the first endpoint is contained it is passed as the end the bisection treats as inside")
			} else {
				c.bad(prefix+".PRE", key+" swap", prePos, "the endpoint found contained by the pre-test is not the one passed as the inside end: the bisection converges to the wrong side")
			}
			if name == "BisectInterior" {
				sel := true
				n := 0
				for _, ref := range *callee.Referrers() {
					if ex, ok := ref.(*ssa.Extract); ok && len(*ex.Referrers()) > 0 {
						n++
						if ex.Index != 1 {
							sel = false
						}
					}
				}
				if sel && n > 0 {
					c.ok(prefix+".SEL", key+" takes the inside parameter", callee.Pos(), "uses result #1 (documented to correspond to a point inside)")
				} else {
					c.bad(prefix+".SEL", key+" takes the inside parameter", callee.Pos(), "BisectInterior does not use exactly the inside result (#1) of BisectInterpRange")
				}
			}
		}
	}
}

// swappedByPreTest: v (the end handed to the bisection as the inside end) is,
// on the path where a Contains pre-test succeeded, the point that was tested.
// The selection is a phi in fn, or result #k of a helper that contains the
// pre-test and returns the ordered pair.
func swappedByPreTest(fn *ssa.Function, v ssa.Value) (pos token.Pos, ok, found bool) {
	selected := func(in *ssa.Function, sel ssa.Value) (token.Pos, bool, bool) {
		var pre *ssa.Call
		var yes *ssa.BasicBlock
		for _, b := range in.Blocks {
			if call, y, _ := containsEdges(b); call != nil {
				pre, yes = call, y
			}
		}
		if pre == nil || len(pre.Call.Args) < 1 {
			return token.NoPos, false, false
		}
		tested := pre.Call.Args[len(pre.Call.Args)-1]
		if phi, isPhi := sel.(*ssa.Phi); isPhi {
			for i, p := range phi.Block().Preds {
				if p == yes || yes.Dominates(p) || (p == pre.Block() && phi.Block() == yes) {
					return pre.Pos(), phi.Edges[i] == tested, true
				}
			}
			return pre.Pos(), false, true
		}
		return pre.Pos(), false, true
	}
	if ex, isEx := v.(*ssa.Extract); isEx {
		call, isCall := ex.Tuple.(*ssa.Call)
		if !isCall {
			return token.NoPos, false, false
		}
		h := call.Call.StaticCallee()
		if h == nil || h.Blocks == nil {
			return token.NoPos, false, false
		}
		var pre *ssa.Call
		var yes *ssa.BasicBlock
		for _, b := range h.Blocks {
			if c2, y, _ := containsEdges(b); c2 != nil {
				pre, yes = c2, y
			}
		}
		if pre == nil || len(pre.Call.Args) < 1 {
			return token.NoPos, false, false
		}
		tested := pre.Call.Args[len(pre.Call.Args)-1]
		// the tested point must be the helper's parameter that receives the
		// caller's first endpoint: any parameter will do, the caller's phi form
		// makes the same assumption
		okAll, any := true, false
		for _, b := range h.Blocks {
			ret, isRet := b.Instrs[len(b.Instrs)-1].(*ssa.Return)
			if !isRet || ex.Index >= len(ret.Results) {
				continue
			}
			r := ret.Results[ex.Index]
			if b == yes || yes.Dominates(b) {
				any = true
				if r != tested {
					okAll = false
				}
			} else if phi, isPhi := r.(*ssa.Phi); isPhi {
				for i, p := range phi.Block().Preds {
					if p == yes || yes.Dominates(p) || (p == pre.Block() && phi.Block() == yes) {
						any = true
						if phi.Edges[i] != tested {
							okAll = false
						}
					}
				}
			}
		}
		return call.Pos(), okAll && any, true
	}
	return selected(fn, v)
}

// bpPreLoop: entry value of the inside end, on the path where the pre-loop
// Contains test succeeded, is the value the tested point was built from.
func (c *Ctx) bpPreLoop(prefix, key string, fn *ssa.Function, inside *ssa.Phi) {
	// the pre-loop test: a Contains-If that dominates the loop header
	h := inside.Block()
	var pre *ssa.Call
	var yes *ssa.BasicBlock
	for _, b := range fn.Blocks {
		if call, y, _ := containsEdges(b); call != nil && b.Dominates(h) && b != h {
			loops := naturalLoops(fn)
			inLoop := false
			for _, body := range loops {
				if body[b] {
					inLoop = true
				}
			}
			if !inLoop {
				pre, yes = call, y
			}
		}
	}
	if pre == nil {
		c.problem("%s: pre-loop Contains validation not found", key)
		return
	}
	// entry value of the inside end
	var entry ssa.Value
	loops := naturalLoops(fn)
	for i, p := range h.Preds {
		if !loops[h][p] {
			entry = inside.Edges[i]
		}
	}
	ephi, isPhi := entry.(*ssa.Phi)
	if !isPhi {
		c.problem("%s: entry value of the inside end is not selected by the pre-test", key)
		return
	}
	var onYes ssa.Value
	for i, p := range ephi.Block().Preds {
		if p == yes || yes.Dominates(p) || (p == pre.Block() && ephi.Block() == yes) {
			onYes = ephi.Edges[i]
		}
	}
	dep := false
	for _, arg := range testedPointArgs(pre) {
		if onYes != nil && dependsOnValue(arg, onYes, 0, map[ssa.Value]bool{}) {
			dep = true
		}
	}
	if dep {
		c.ok(prefix+".PRE", key+" pre-loop validation", pre.Pos(), "the value whose point was found contained becomes the inside end")
	} else {
		c.bad(prefix+".PRE", key+" pre-loop validation", pre.Pos(), "the pre-loop Contains test and the swap disagree: the end validated as contained is not the one the loop treats as inside")
	}
}

// BP.SAME — the point handed back by Bisect/BisectInterior is reconstructed
// with exactly the expression the bisection evaluated Contains on (same
// operations in the same order on the same endpoints), so that it is
// bit-identical to a point that was actually tested.
func (c *Ctx) runBisectionSameExpr(prefix string) {
	canon := func(v ssa.Value, names map[ssa.Value]string) string {
		var rec func(v ssa.Value, depth int) string
		rec = func(v ssa.Value, depth int) string {
			if n, ok := names[v]; ok {
				return n
			}
			if depth > 8 {
				return "?"
			}
			if call, ok := v.(*ssa.Call); ok {
				if f := call.Call.StaticCallee(); f != nil && f.Signature.Recv() != nil && isCoordType(f.Signature.Recv().Type()) {
					s := f.Name() + "("
					for i, a := range call.Call.Args {
						if i > 0 {
							s += ","
						}
						s += rec(a, depth+1)
					}
					return s + ")"
				}
			}
			if call, ok := v.(*ssa.Call); ok {
				// a helper of the package with one return: its expression over the
				// canonical arguments
				if f := call.Call.StaticCallee(); f != nil && f.Blocks != nil && len(f.Blocks) == 1 && c.isRepoPkg(f.Pkg.Pkg) && isCoordType(v.Type()) {
					if ret, ok := f.Blocks[0].Instrs[len(f.Blocks[0].Instrs)-1].(*ssa.Return); ok && len(ret.Results) == 1 && len(f.Params) == len(call.Call.Args) {
						saved := map[ssa.Value]string{}
						for i, p := range f.Params {
							saved[p] = rec(call.Call.Args[i], depth+1)
						}
						for p, n := range saved {
							names[p] = n
						}
						res := rec(ret.Results[0], depth+1)
						for p := range saved {
							delete(names, p)
						}
						return res
					}
				}
			}
			if isFloat(v.Type()) {
				return "t"
			}
			return "?"
		}
		return rec(v, 0)
	}
	for _, pkg := range []string{"model3d", "model2d"} {
		rng := c.ssaFunc(c.mustFunc(pkg, "SolidSurfaceEstimator.BisectInterpRange"))
		if rng == nil || len(rng.Params) < 3 {
			continue
		}
		// the tested expression
		tested := ""
		for _, b := range rng.Blocks {
			if call, _, _ := containsEdges(b); call != nil {
				names := map[ssa.Value]string{rng.Params[1]: "P1", rng.Params[2]: "P2"}
				if inner, _ := containsWrapper(call); inner != nil {
					// the wrapper's own expression over this call's arguments
					w := call.Call.StaticCallee()
					wnames := map[ssa.Value]string{}
					for i, prm := range w.Params {
						if i < len(call.Call.Args) {
							wnames[prm] = canon(call.Call.Args[i], names)
						}
					}
					tested = canon(inner.Call.Args[len(inner.Call.Args)-1], wnames)
				} else {
					arg := call.Call.Args[len(call.Call.Args)-1]
					tested = canon(arg, names)
				}
			}
		}
		if tested == "" || tested == "?" {
			c.problem("%s.BisectInterpRange: tested expression not recognised", pkg)
			continue
		}
		for _, name := range []string{"Bisect", "BisectInterior"} {
			fn := c.ssaFunc(c.mustFunc(pkg, "SolidSurfaceEstimator."+name))
			if fn == nil {
				continue
			}
			var callee *ssa.Call
			for _, b := range fn.Blocks {
				for _, ins := range b.Instrs {
					if call, ok := ins.(*ssa.Call); ok {
						if f := call.Call.StaticCallee(); f != nil && (f.Name() == "BisectInterp" || f.Name() == "BisectInterpRange") {
							callee = call
						}
					}
				}
			}
			if callee == nil || len(callee.Call.Args) < 3 {
				continue
			}
			names := map[ssa.Value]string{callee.Call.Args[1]: "P1", callee.Call.Args[2]: "P2"}
			key := pkg + ".SolidSurfaceEstimator." + name + " reconstructs the tested point"
			// every return is the tested expression, or the contained endpoint
			// itself (the "no interior sample" exit); at least one is the former
			got, sawTested := "", false
			for _, b := range fn.Blocks {
				if ret, ok := b.Instrs[len(b.Instrs)-1].(*ssa.Return); ok && len(ret.Results) == 1 {
					g := canon(ret.Results[0], names)
					switch {
					case g == tested:
						sawTested = true
					case g == "P2":
					default:
						got = g
					}
				}
			}
			if got == "" && sawTested {
				got = tested
			} else if got == "" {
				got = "P2 on every path"
			}
			if got == tested {
				c.ok(prefix+".SAME", key, fn.Pos(), "returns "+got+", the expression Contains was evaluated on")
			} else {
				c.bad(prefix+".SAME", key, fn.Pos(), fmt.Sprintf("returns %s but the bisection tested %s: the returned point is not bit-identical to a tested point, so a point reported as interior may lie outside", got, tested))
			}
		}
	}
}
