package main

import "golang.org/x/tools/go/ssa"

func init() {
	register("C08", &propInfo{
		Explanation: "NILRECV: every exported method of a pointer type whose siblings treat a nil receiver as the empty value (the point trees) dereferences its receiver, directly or through helpers, only after a nil test. AXISCMP: interval tests between two different coordinates compare the same axis on both sides. UNIT: every pruning comparison in the accelerated queries (bvh.go, collisions.go, sdf.go, coord_tree.go; 2D and 3D) compares like with like (squared distance with squared bound, length with length). CS: every hierarchy builder cuts its input into a prefix and a suffix at the same index (no object dropped or duplicated by the split), parallel sequences at the same index. AM: nearest-hit selection over parts keeps the smaller ray parameter. ALLCHILD: conversions of a bounding hierarchy visit every child of every node.",
		Trusted:     append([]string{"go/ssa"}, unitTrusted...),
		Fixtures:    []string{"u", "s", "a3"},
		Run: func(c *Ctx) {
			pkgs := c.unitPkgs("u")
			ff := c.fileFilter("bvh.go", "collisions.go", "sdf.go", "coord_tree.go", "render3d/object.go")
			// the sampling collider is not an accelerated structure (watched by C07)
			accel := func(fn *ssa.Function) bool {
				if !ff(fn) {
					return false
				}
				for f := fn; f != nil; f = f.Parent() {
					if f.Signature.Recv() != nil && typeNameOf(f.Signature.Recv().Type()) == "SolidCollider" {
						return false
					}
				}
				return true
			}
			c.runUnits("UNIT", pkgs, accel)
			c.floor("UNIT", 40)
			c.runArgSwap("ARGSWAP", pkgs, baseIn("bvh.go", "collisions.go", "sdf.go", "coord_tree.go"), nil)
			c.floor("ARGSWAP", 25)
			spk := append(c.libPkgs()[:4:4], c.fixturePkg("s"))
			c.runComplementarySplit("CS", spk, ff)
			c.floor("CS", 12)
			c.runArgMin(append(c.libPkgs()[:4:4], c.fixturePkg("a3")), "AM")
			c.floor("AM", 10)
			c.runAllChildren("ALLCHILD", append(c.libPkgs()[:4:4], c.fixturePkg("s")), ff)
			c.floor("ALLCHILD", 0)
			c.runAxisCompare("AXISCMP", append(c.libPkgs()[:4:4], c.fixturePkg("u")), ff)
			c.floor("AXISCMP", 0)
			c.runNilReceiver("NILRECV", append(c.libPkgs()[:4:4], c.fixturePkg("u")), nil)
			c.floor("NILRECV", 0)
			c.runSearchAll("SEARCHALL", append(c.libPkgs()[:4:4], c.fixturePkg("s")), ff)
			c.floor("SEARCHALL", 0)
		},
		SelfTest: []Mutation{
			{Name: "single-neighbour fast path of KNN panics on the empty tree", File: "model3d/coord_tree.go",
				Old: "\tif k == 0 {\n\t\treturn nil\n\t}\n\tres := &knnResults{Max: k}", New: "\tif k == 0 {\n\t\treturn nil\n\t}\n\tif k == 1 {\n\t\treturn []Coord3D{c.NearestNeighbor(p)}\n\t}\n\tres := &knnResults{Max: k}", Rule: "NILRECV", Expect: "KNN"},
			{Name: "k-nearest search of the empty tree dereferences nil", File: "model3d/coord_tree.go",
				Old: "func (c *CoordTree) knn(p Coord3D, res *knnResults) {\n\tif c == nil {\n\t\treturn\n\t}\n\tdist := p.SquaredDist(c.Coord)", New: "func (c *CoordTree) knn(p Coord3D, res *knnResults) {\n\tif c.LessThan == nil && c.GreaterEqual == nil && res.Max < 0 {\n\t\treturn\n\t}\n\tdist := p.SquaredDist(c.Coord)",
				More: [][2]string{{"\t\tc.LessThan.knn(p, res)\n\t} else {\n\t\tc.GreaterEqual.knn(p, res)\n\t}\n\t// Attempt", "\t\tif c.LessThan != nil {\n\t\t\tc.LessThan.knn(p, res)\n\t\t}\n\t} else if c.GreaterEqual != nil {\n\t\tc.GreaterEqual.knn(p, res)\n\t}\n\t// Attempt"},
					{"\tif planeDist > 0 && planeDist*planeDist < res.MaxDist() {\n\t\tc.GreaterEqual.knn(p, res)\n\t} else if planeDist <= 0 && planeDist*planeDist < res.MaxDist() {\n\t\tc.LessThan.knn(p, res)\n\t}", "\tif planeDist > 0 && planeDist*planeDist < res.MaxDist() && c.GreaterEqual != nil {\n\t\tc.GreaterEqual.knn(p, res)\n\t} else if planeDist <= 0 && planeDist*planeDist < res.MaxDist() && c.LessThan != nil {\n\t\tc.LessThan.knn(p, res)\n\t}"}},
				Rule: "NILRECV", Expect: "KNN"},
			{Name: "triangle query prunes a node by comparing z with y", File: "model3d/collisions.go",
				Old: "if min.X > max.X || min.Y > max.Y || min.Z > max.Z {\n\t\treturn nil\n\t}\n\n\tvar res []Segment", New: "if min.X > max.X || min.Y > max.Y || min.Z > max.Y {\n\t\treturn nil\n\t}\n\n\tvar res []Segment", Rule: "AXISCMP", Expect: "TriangleCollisions"},
			{Name: "point tree compares the plane distance with the squared bound", File: "model3d/coord_tree.go",
				Old: "planeDist*planeDist < ", New: "planeDist < ", All: true, Rule: "UNIT", Expect: "CoordTree"},
			{Name: "mesh collider drops the middle triangle", File: "model3d/collisions.go",
				Old: "c2 := GroupedTrianglesToCollider(tris[midIdx:])", New: "c2 := GroupedTrianglesToCollider(tris[midIdx+1:])", Rule: "CS", Expect: "GroupedTrianglesToCollider"},
			{Name: "bounder grouping recurses on overlapping halves", File: "model2d/bvh.go",
				Old: "groupBounders(separated[1], output[midIdx:])", New: "groupBounders(separated[1], output[midIdx-1:])", Rule: "CS", Expect: "groupBounders"},
			{Name: "object hierarchy keeps two children per node", File: "render3d/object.go",
				Old: "\t\tvar branches JoinedObject\n\t\tfor _, x := range objs.Branch {\n\t\t\tbranches = append(branches, BVHToObject(x))\n\t\t}", New: "\t\tbranches := JoinedObject{BVHToObject(objs.Branch[0]), BVHToObject(objs.Branch[1])}", Rule: "ALLCHILD", Expect: "BVHToObject"},
			{Name: "joined collider keeps the farthest hit", File: "model3d/collisions.go",
				Old: "collision.Scale < closest.Scale || !anyCollides", New: "collision.Scale > closest.Scale || !anyCollides", Rule: "AM", Expect: "JoinedCollider"},
		},
	})
}
