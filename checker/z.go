package main

// Z — lazy-initialisation protocol for atomic.Value fields (Mesh.vertexToFace).
//
//   Z.ACCESS   the field is only touched as the receiver of atomic Load/Store,
//              or overwritten as a whole (reset) — never read or written
//              piecewise;
//   Z.LOCKED   every Store happens where a sync.Mutex is held on every path;
//   Z.RECHECK  between taking that lock and the Store the field is loaded again
//              (the re-check that keeps two goroutines from building twice);
//   Z.PUBLISH  after the Store, the published object is not written any more in
//              the same function (readers on the lock-free fast path may
//              already hold it).

import (
	"fmt"
	"go/types"

	"golang.org/x/tools/go/packages"
	"golang.org/x/tools/go/ssa"
)

func isAtomicValueType(t types.Type) bool {
	n, ok := t.(*types.Named)
	return ok && n.Obj().Pkg() != nil && n.Obj().Pkg().Path() == "sync/atomic" && n.Obj().Name() == "Value"
}

func atomicValueMethod(common *ssa.CallCommon) string {
	f := common.StaticCallee()
	if f == nil || f.Object() == nil || f.Object().Pkg() == nil || f.Object().Pkg().Path() != "sync/atomic" {
		return ""
	}
	if recv := f.Signature.Recv(); recv != nil && recv.Type().String() == "*sync/atomic.Value" {
		return f.Name()
	}
	return ""
}

func fieldOf(fa *ssa.FieldAddr) *types.Var {
	pt, ok := fa.X.Type().Underlying().(*types.Pointer)
	if !ok {
		return nil
	}
	st, ok := pt.Elem().Underlying().(*types.Struct)
	if !ok {
		return nil
	}
	return st.Field(fa.Field)
}

func (c *Ctx) runLazyInit(eng *effEngine, pkgs []*packages.Package, prefix string) {
	for _, p := range pkgs {
		if p == nil {
			continue
		}
		for _, fn := range c.srcFuncs(p) {
			// functions whose body loads the field (helpers for RECHECK)
			for _, b := range fn.Blocks {
				for _, ins := range b.Instrs {
					fa, ok := ins.(*ssa.FieldAddr)
					if !ok {
						continue
					}
					fld := fieldOf(fa)
					if fld == nil || !isAtomicValueType(fld.Type()) {
						continue
					}
					c.analysed(qname(fn))
					c.lazyAccess(eng, fn, fa, fld, prefix)
				}
			}
		}
	}
}

func (c *Ctx) loadsField(fn *ssa.Function, fld *types.Var) bool {
	if fn == nil {
		return false
	}
	for _, b := range fn.Blocks {
		for _, ins := range b.Instrs {
			call, ok := ins.(*ssa.Call)
			if !ok || atomicValueMethod(call.Common()) != "Load" || len(call.Call.Args) == 0 {
				continue
			}
			if fa, ok := call.Call.Args[0].(*ssa.FieldAddr); ok && fieldOf(fa) == fld {
				return true
			}
		}
	}
	return false
}

func instrIndex(b *ssa.BasicBlock, ins ssa.Instruction) int {
	for i, x := range b.Instrs {
		if x == ins {
			return i
		}
	}
	return -1
}

// before reports whether a is executed before b on every path to b.
func instrDominates(a, b ssa.Instruction) bool {
	if a.Block() == b.Block() {
		return instrIndex(a.Block(), a) < instrIndex(b.Block(), b)
	}
	return a.Block().Dominates(b.Block())
}

func (c *Ctx) lazyAccess(eng *effEngine, fn *ssa.Function, fa *ssa.FieldAddr, fld *types.Var, prefix string) {
	fname := fld.Name()
	for _, ref := range *fa.Referrers() {
		key := fmt.Sprintf("%s uses %s", qname(fn), fname)
		switch x := ref.(type) {
		case *ssa.Call:
			m := atomicValueMethod(x.Common())
			if m == "" || len(x.Call.Args) == 0 || x.Call.Args[0] != ssa.Value(fa) {
				c.bad(prefix+".ACCESS", key, x.Pos(), "atomic.Value field passed to something other than its Load/Store methods")
				continue
			}
			c.ok(prefix+".ACCESS", key+" via "+m, x.Pos(), "accessed through atomic."+m)
			if m == "Store" {
				c.lazyStore(eng, fn, x, fld, prefix)
			}
		case *ssa.Store:
			if x.Addr == ssa.Value(fa) {
				// whole-value reset
				c.ok(prefix+".ACCESS", key+" reset", x.Pos(), "overwritten as a whole (reset); callers are mutators (Q checks that no query method does this)")
			} else {
				c.bad(prefix+".ACCESS", key, x.Pos(), "atomic.Value field copied")
			}
		default:
			c.bad(prefix+".ACCESS", key, ref.Pos(), fmt.Sprintf("atomic.Value field used by %T outside Load/Store", ref))
		}
	}
}

func (c *Ctx) lazyStore(eng *effEngine, fn *ssa.Function, store *ssa.Call, fld *types.Var, prefix string) {
	key := fmt.Sprintf("%s Store to %s", qname(fn), fld.Name())
	held := eng.lockHeld(fn)
	if held[store] {
		c.ok(prefix+".LOCKED", key, store.Pos(), "a sync.Mutex is held on every path to the Store")
	} else {
		c.bad(prefix+".LOCKED", key, store.Pos(), "lazily built value published without holding the creation lock on every path")
	}
	// RECHECK: some Lock call L and some Load call C with L dom C dom Store.
	recheck := false
	for _, b := range fn.Blocks {
		for _, ins := range b.Instrs {
			l, ok := ins.(*ssa.Call)
			if !ok || !isMutexCall(l.Common(), "Lock") || !instrDominates(l, store) {
				continue
			}
			for _, b2 := range fn.Blocks {
				for _, ins2 := range b2.Instrs {
					cl, ok := ins2.(*ssa.Call)
					if !ok || cl == store || !instrDominates(l, cl) || !instrDominates(cl, store) {
						continue
					}
					if atomicValueMethod(cl.Common()) == "Load" {
						if fa, ok := cl.Call.Args[0].(*ssa.FieldAddr); ok && fieldOf(fa) == fld {
							recheck = true
						}
					} else if callee := cl.Call.StaticCallee(); callee != nil && c.loadsField(callee, fld) {
						recheck = true
					}
				}
			}
		}
	}
	if recheck {
		c.ok(prefix+".RECHECK", key, store.Pos(), "the field is loaded again between taking the lock and the Store")
	} else {
		c.bad(prefix+".RECHECK", key, store.Pos(), "no re-check of the field between taking the lock and the Store: two goroutines can both build and publish")
	}
	// PUBLISH: no write through the published object after the Store.
	if len(store.Call.Args) < 2 {
		return
	}
	pub := store.Call.Args[1]
	if mi, ok := pub.(*ssa.MakeInterface); ok {
		pub = mi.X
	}
	alias := map[ssa.Value]bool{pub: true}
	holders := map[ssa.Value]bool{}
	for changed := true; changed; {
		changed = false
		add := func(v ssa.Value, m map[ssa.Value]bool) {
			if !m[v] {
				m[v] = true
				changed = true
			}
		}
		for _, b := range fn.Blocks {
			for _, ins := range b.Instrs {
				switch x := ins.(type) {
				case *ssa.Store:
					if alias[x.Val] {
						if _, ok := x.Addr.(*ssa.Alloc); ok {
							add(x.Addr, holders)
						}
					}
					// the published value was loaded from a holder before
					if al, ok := x.Addr.(*ssa.Alloc); ok && holders[al] {
						add(x.Val, alias)
					}
				case *ssa.UnOp:
					if holders[x.X] {
						add(x, alias)
					}
					if alias[x] {
						if al, ok := x.X.(*ssa.Alloc); ok {
							add(al, holders)
						}
					}
				case *ssa.Phi:
					for _, e := range x.Edges {
						if alias[e] {
							add(x, alias)
						}
					}
				case *ssa.ChangeType:
					if alias[x.X] {
						add(x, alias)
					}
				}
			}
		}
	}
	baseOf := func(v ssa.Value) ssa.Value {
		for i := 0; i < 50; i++ {
			switch x := v.(type) {
			case *ssa.FieldAddr:
				v = x.X
			case *ssa.IndexAddr:
				v = x.X
			case *ssa.Field:
				v = x.X
			case *ssa.Index:
				v = x.X
			case *ssa.Slice:
				v = x.X
			case *ssa.UnOp:
				if alias[x] {
					return x
				}
				v = x.X
			default:
				return v
			}
		}
		return v
	}
	// instructions reachable after the Store
	after := map[ssa.Instruction]bool{}
	sb := store.Block()
	for i := instrIndex(sb, store) + 1; i < len(sb.Instrs); i++ {
		after[sb.Instrs[i]] = true
	}
	seenB := map[*ssa.BasicBlock]bool{}
	stack := append([]*ssa.BasicBlock{}, sb.Succs...)
	for len(stack) > 0 {
		b := stack[len(stack)-1]
		stack = stack[:len(stack)-1]
		if seenB[b] {
			continue
		}
		seenB[b] = true
		for _, ins := range b.Instrs {
			after[ins] = true
		}
		stack = append(stack, b.Succs...)
	}
	var late []string
	for _, b := range fn.Blocks {
		for _, ins := range b.Instrs {
			if !after[ins] || ins == ssa.Instruction(store) {
				continue
			}
			switch x := ins.(type) {
			case *ssa.Store:
				if bv := baseOf(x.Addr); alias[bv] && !holders[x.Addr] {
					late = append(late, "store at "+c.pos(x.Pos()))
				}
			case *ssa.MapUpdate:
				if alias[baseOf(x.Map)] {
					late = append(late, "map update at "+c.pos(x.Pos()))
				}
			case ssa.CallInstruction:
				common := x.Common()
				args := actualArgs(common)
				for _, callee := range eng.callees(x) {
					if callee.Blocks == nil || !descendPkg(pkgPathOf(callee)) {
						continue
					}
					eng.solve(callee)
					for _, ef := range eng.summaries[callee] {
						if ef.root.kind == rkParam && ef.root.idx < len(args) && alias[baseOf(args[ef.root.idx])] {
							late = append(late, fmt.Sprintf("%s writes it (call at %s)", callee.Name(), c.pos(x.Pos())))
						}
					}
				}
				for _, a := range common.Args {
					mc, ok := a.(*ssa.MakeClosure)
					if !ok {
						continue
					}
					cl := mc.Fn.(*ssa.Function)
					eng.solve(cl)
					for _, ef := range eng.summaries[cl] {
						if ef.root.kind == rkFree && ef.root.idx < len(mc.Bindings) {
							bnd := mc.Bindings[ef.root.idx]
							if alias[bnd] || holders[bnd] {
								late = append(late, fmt.Sprintf("closure passed at %s writes it (%s)", c.pos(x.Pos()), ef.via))
							}
						}
					}
				}
			}
		}
	}
	if len(late) == 0 {
		c.ok(prefix+".PUBLISH", key, store.Pos(), "no write through the published object is reachable after the Store")
	} else {
		c.bad(prefix+".PUBLISH", key, store.Pos(), "the object is still written after it was published to lock-free readers: "+late[0])
	}
}
