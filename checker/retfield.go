package main

import (
	"fmt"
	"go/token"
	"go/types"

	"golang.org/x/tools/go/packages"
	"golang.org/x/tools/go/ssa"
)

// RETFIELD: a method that hands out a piece of its receiver's state - at least
// two of its returns are loads of one and the same receiver field - returns
// that field on every path. A return of a freshly computed value next to them
// means the value was not stored first: the caller sees the new iterate once
// and every later call continues from the old state (a lost update).
func (c *Ctx) runRetField(rule string, pkgs []*packages.Package, filter func(fn *ssa.Function) bool) {
	for _, p := range pkgs {
		if p == nil {
			continue
		}
		for _, fn := range c.srcFuncs(p) {
			if (filter != nil && !filter(fn)) || fn.Signature.Recv() == nil || fn.Parent() != nil || fn.Signature.Results().Len() != 1 {
				continue
			}
			if _, isPtr := fn.Signature.Recv().Type().(*types.Pointer); !isPtr {
				continue
			}
			recv := ssa.Value(fn.Params[0])
			fieldRets := map[int]int{}
			var others []*ssa.Return
			var rets []*ssa.Return
			for _, b := range fn.Blocks {
				ret, ok := b.Instrs[len(b.Instrs)-1].(*ssa.Return)
				if !ok || len(ret.Results) != 1 {
					continue
				}
				rets = append(rets, ret)
				if ld, ok := ret.Results[0].(*ssa.UnOp); ok && ld.Op == token.MUL {
					if fa, ok := ld.X.(*ssa.FieldAddr); ok && fa.X == recv {
						fieldRets[fa.Field]++
						continue
					}
				}
				if _, isC := ret.Results[0].(*ssa.Const); isC {
					continue // nil / zero results of error paths
				}
				others = append(others, ret)
			}
			best, bestN := -1, 0
			for f, n := range fieldRets {
				if n > bestN {
					best, bestN = f, n
				}
			}
			if bestN < 2 || len(fieldRets) != 1 {
				continue
			}
			// the field must be written by this method (it is state that evolves)
			written := false
			for _, b := range fn.Blocks {
				for _, ins := range b.Instrs {
					if st, ok := ins.(*ssa.Store); ok {
						if fa, ok := st.Addr.(*ssa.FieldAddr); ok && fa.X == recv && fa.Field == best {
							written = true
						}
					}
				}
			}
			if !written {
				continue
			}
			c.analysed(qname(fn))
			key := fmt.Sprintf("%s returns its state field on every path", qname(fn))
			if len(others) > 0 {
				at := others[0].Pos()
				if !at.IsValid() {
					at = fn.Pos()
				}
				c.bad(rule, key, at, fmt.Sprintf("%d returns of this method hand out the receiver's field it updates, but this one returns a freshly computed value: it was not stored, so the next call continues from the old state", bestN))
			} else {
				c.ok(rule, key, fn.Pos(), "every return hands out the stored state")
			}
		}
	}
}
