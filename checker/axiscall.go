package main

import (
	"fmt"
	"go/ast"
	"go/types"

	"golang.org/x/tools/go/packages"
)

// AXISCALL: where a function calls the same callee once per axis - f(d.Xs,
// c.X), f(d.Ys, c.Y), f(d.Zs, c.Z) - every call is about one axis: the
// axis-tagged arguments of one call (selectors or identifiers named X, Y, Z,
// Xs, Ys, Zs) carry the same letter. A call is reported when it mixes letters
// while a sibling call of the same callee in the same function is single-axis
// (constructors such as XYZ(a.X, a.Y, a.Z), all of whose calls mix, are not
// per-axis calls and create no obligation).
func (c *Ctx) runAxisCall(rule string, pkgs []*packages.Package, fileOK func(name string) bool) {
	tagOf := func(e ast.Expr) string {
		var name string
		switch x := ast.Unparen(e).(type) {
		case *ast.SelectorExpr:
			name = x.Sel.Name
		case *ast.Ident:
			name = x.Name
		default:
			return ""
		}
		switch name {
		case "X", "Xs":
			return "X"
		case "Y", "Ys":
			return "Y"
		case "Z", "Zs":
			return "Z"
		}
		return ""
	}
	for _, p := range pkgs {
		if p == nil {
			continue
		}
		info := p.TypesInfo
		for _, f := range p.Syntax {
			if fileOK != nil && !fileOK(c.Fset.Position(f.Pos()).Filename) {
				continue
			}
			for _, d := range f.Decls {
				fd, ok := d.(*ast.FuncDecl)
				if !ok || fd.Body == nil {
					continue
				}
				type site struct {
					call *ast.CallExpr
					tags []string
					pos  string // which argument positions carry a tag
				}
				byCallee := map[*types.Func][]site{}
				ast.Inspect(fd.Body, func(nd ast.Node) bool {
					call, ok := nd.(*ast.CallExpr)
					if !ok {
						return true
					}
					fn := calleeFunc(info, call)
					if fn == nil {
						return true
					}
					var tags []string
					pos := ""
					for i, a := range call.Args {
						if t := tagOf(a); t != "" {
							tags = append(tags, t)
							pos += fmt.Sprintf("%d,", i)
						}
					}
					if len(tags) >= 2 {
						byCallee[fn] = append(byCallee[fn], site{call, tags, pos})
					}
					return true
				})
				n := 0
				for fn, all := range byCallee {
					// per-axis evidence: a call that is single-axis in the SAME
					// argument positions
					singleAt := map[string]bool{}
					for _, s := range all {
						same := true
						for _, t := range s.tags {
							same = same && t == s.tags[0]
						}
						if same {
							singleAt[s.pos] = true
						}
					}
					var sites []site
					for _, s := range all {
						if singleAt[s.pos] {
							sites = append(sites, s)
						}
					}
					if len(sites) < 2 {
						continue
					}
					for _, s := range sites {
						n++
						name := declName(p, fd)
						c.analysed(name)
						key := fmt.Sprintf("%s per-axis call#%d of %s", name, n, fn.Name())
						same := true
						for _, t := range s.tags {
							same = same && t == s.tags[0]
						}
						if same {
							c.ok(rule, key, s.call.Pos(), "all axis-tagged arguments name the "+s.tags[0]+" axis")
						} else {
							c.bad(rule, key, s.call.Pos(), fmt.Sprintf("this call of %s mixes arguments of different axes %v while its sibling calls are about one axis each", fn.Name(), s.tags))
						}
					}
				}
			}
		}
	}
}
