package main

// ZEROSLOT — a "first n" tracker array: inside a loop over a sequence of
// unknown length, slot i of a local fixed-size array A is stored only while
// i < n (`if i < 2 { A[i] = d ... }`), and A[k] (k >= 1 constant) is read
// after the loop. When the sequence is shorter than k+1, slot k is never
// stored and the read sees whatever A was declared with. Declared as
// `var A [n]T` that is Go's zero value — which in a tracker of distances is a
// perfectly plausible sample ("a second operand whose surface passes through
// the query point"), not "no operand". The obligation: such an array carries
// an explicit initialiser that states its "nothing yet" value.
// (SmoothJoin(r, a) with a single operand grew a by r: repaired.)

import (
	"go/ast"
	"go/token"
	"go/types"
	"strings"

	"golang.org/x/tools/go/packages"
)

func (c *Ctx) runZeroSlot(rule string, pkgs []*packages.Package, fileOK func(name string) bool) {
	for _, p := range pkgs {
		if p == nil {
			continue
		}
		info := p.TypesInfo
		for _, file := range p.Syntax {
			fname := c.Fset.Position(file.Pos()).Filename
			if fileOK != nil && !strings.Contains(fname, "/fixtures/") && !fileOK(fname) {
				continue
			}
			for _, d := range file.Decls {
				fd, ok := d.(*ast.FuncDecl)
				if !ok || fd.Body == nil {
					continue
				}
				fobj, _ := info.Defs[fd.Name].(*types.Func)
				// local arrays and how they were declared
				type decl struct {
					explicit bool
					pos      token.Pos
				}
				arrays := map[types.Object]decl{}
				ast.Inspect(fd.Body, func(n ast.Node) bool {
					switch x := n.(type) {
					case *ast.DeclStmt:
						if gd, ok := x.Decl.(*ast.GenDecl); ok && gd.Tok == token.VAR {
							for _, sp := range gd.Specs {
								vs := sp.(*ast.ValueSpec)
								for _, nm := range vs.Names {
									if o := info.Defs[nm]; o != nil {
										if _, isArr := o.Type().Underlying().(*types.Array); isArr {
											arrays[o] = decl{len(vs.Values) > 0, nm.Pos()}
										}
									}
								}
							}
						}
					case *ast.AssignStmt:
						if x.Tok == token.DEFINE {
							for _, l := range x.Lhs {
								if id, ok := l.(*ast.Ident); ok {
									if o := info.Defs[id]; o != nil {
										if _, isArr := o.Type().Underlying().(*types.Array); isArr {
											arrays[o] = decl{true, id.Pos()}
										}
									}
								}
							}
						}
					}
					return true
				})
				if len(arrays) == 0 {
					continue
				}
				// range loops with an index variable i in which A[i] is stored under `i < n`
				ast.Inspect(fd.Body, func(n ast.Node) bool {
					rs, ok := n.(*ast.RangeStmt)
					if !ok || rs.Key == nil {
						return true
					}
					kid, ok := rs.Key.(*ast.Ident)
					if !ok {
						return true
					}
					iv := info.Defs[kid]
					if iv == nil {
						return true
					}
					// arrays stored inside the loop, at the loop index or at a constant
					// index, under a condition (the loop may end before a slot is stored)
					tracked := map[types.Object]bool{}
					if t := info.TypeOf(rs.X); t != nil {
						if _, isSlice := t.Underlying().(*types.Slice); !isSlice {
							return true // arrays, maps, strings: not a sequence of unknown length
						}
					}
					ast.Inspect(rs.Body, func(n2 ast.Node) bool {
						var body []ast.Stmt
						switch x := n2.(type) {
						case *ast.IfStmt:
							body = x.Body.List
						case *ast.CaseClause:
							body = x.Body
						default:
							return true
						}
						for _, st := range body {
							ast.Inspect(st, func(n3 ast.Node) bool {
								as, ok := n3.(*ast.AssignStmt)
								if !ok {
									return true
								}
								for _, l := range as.Lhs {
									if ix, ok := l.(*ast.IndexExpr); ok {
										if o := exprObj(info, ix.X); o != nil {
											if _, isArr := arrays[o]; isArr {
												tracked[o] = true
											}
										}
									}
								}
								return true
							})
						}
						return true
					})
					_ = iv
					for o := range tracked {
						// a read A[k], k >= 1 constant, after the loop
						var readPos token.Pos
						ast.Inspect(fd.Body, func(n2 ast.Node) bool {
							ix, ok := n2.(*ast.IndexExpr)
							if !ok || ix.Pos() < rs.End() {
								return true
							}
							if exprObj(info, ix.X) != o {
								return true
							}
							if bl, ok := ix.Index.(*ast.BasicLit); ok && bl.Kind == token.INT && bl.Value != "0" && !readPos.IsValid() {
								readPos = ix.Pos()
							}
							return true
						})
						if !readPos.IsValid() {
							continue
						}
						c.analysed(objName(fobj))
						key := objName(fobj) + " first-n tracker " + o.Name()
						if arrays[o].explicit {
							c.ok(rule, key, arrays[o].pos, "the tracker array is declared with an explicit initial value for slots that are never stored")
						} else {
							c.bad(rule, key, readPos, "slot "+o.Name()+"[k>=1] is read after the loop but only stored while the loop index is below the array length: for a shorter sequence the read sees the implicit zero value of `var "+o.Name()+"`, which is a plausible sample rather than \"nothing yet\"")
						}
					}
					return true
				})
			}
		}
	}
}
