package main

import (
	"path/filepath"
	"strings"

	"golang.org/x/tools/go/packages"
	"golang.org/x/tools/go/ssa"
)

// fileFilter selects functions by the base name of the file they are declared
// in (2D and 3D copies share names), optionally restricted to package
// directories ("render3d/light.go").
func (c *Ctx) fileFilter(files ...string) func(fn *ssa.Function) bool {
	set := map[string]bool{}
	for _, f := range files {
		set[f] = true
	}
	return func(fn *ssa.Function) bool {
		for f := fn; f != nil; f = f.Parent() {
			if f.Pos().IsValid() {
				name := c.Fset.Position(f.Pos()).Filename
				if strings.Contains(name, "/fixtures/") {
					return true
				}
				base := filepath.Base(name)
				dir := filepath.Base(filepath.Dir(name))
				return set[base] || set[dir+"/"+base]
			}
		}
		return false
	}
}

func (c *Ctx) unitPkgs(fixture string) []*packages.Package {
	return append(c.libPkgs()[:4:4], c.fixturePkg(fixture))
}

var unitTrusted = []string{"go/ssa", "the seed table of checker/units.go (fields of Ray, RayCollision, LinearConstraint, shape centres/radii, DualContouring.Delta/CubeMargin/RepairEpsilon, light areas; query-method parameters; the Coord/Coord3D vocabulary; math and math/rand)", "only conflicts between two known dimensions are reported; literals are dimension-polymorphic"}

func init() {
	register("C05", &propInfo{
		Explanation: "UNIT: units/kinds dataflow over the transform code (transform.go, matrix.go, metaball.go, squeeze.go, render3d/transform.go; 2D and 3D): directions, normals and ray parameters are not pushed through point/length maps (Transform.Apply on a vector without the image-difference idiom; DistTransform.ApplyDistance on anything but a length); sums, comparisons, distances and stores into seeded fields are dimensionally consistent; all returns of a function agree on their dimension. ABSORB: no transformed bound is computed as x.Max(y.Min(x)). FIRSTITER: the first-corner initialisation of the bounds enumeration tests every loop variable of its nest. DISTINV: every concrete value returned by the Inverse method of a type that implements DistTransform implements DistTransform too. IDBOUNDS: no ApplyBounds returns its box unchanged while the sibling Apply moves points. INVORDER: the inverse of a composition (an Inverse method on a slice of invertible members) puts every member inverse at the mirrored position. MIRRORSWAP: no s[i] <-> s[len(s)-1-i] swap loop runs over the whole length. SIGNMAP: an ApplyBounds that multiplies its corners by a factor of unknown sign orders the result with Min/Max, and an ApplyDistance that multiplies by such a factor uses its magnitude. FRAME: in every transformed wrapper (methods of structs holding a Transform, closures capturing one) world-frame query values reach the wrapped object only through the inverse transform and forward maps are applied only to object-frame values.",
		Trusted:     unitTrusted,
		Assumptions: []string{"model coordinates are lengths; a Transform value obtained from X.Inverse() is the inverse of X"},
		Fixtures:    []string{"u", "g"},
		Run: func(c *Ctx) {
			pkgs := c.unitPkgs("u")
			c.runUnits("UNIT", pkgs, c.fileFilter("transform.go", "matrix.go", "metaball.go", "squeeze.go"))
			c.floor("UNIT", 10)
			c.runFrames("FRAME", pkgs)
			c.floor("FRAME", 30)
			c.runAbsorption("ABSORB", append(c.libPkgs()[:3:3], c.fixturePkg("g")), c.fileFilter("transform.go", "matrix.go", "squeeze.go"))
			c.floor("ABSORB", 10)
			c.runFirstIter("FIRSTITER", append(c.libPkgs()[:3:3], c.fixturePkg("g")), nil)
			c.floor("FIRSTITER", 2)
			c.runSignMap("SIGNMAP", append(c.libPkgs()[:3:3], c.fixturePkg("g")))
			c.floor("SIGNMAP", 0)
			c.runIdentityBounds("IDBOUNDS", append(c.libPkgs()[:3:3], c.fixturePkg("g")))
			c.floor("IDBOUNDS", 8)
			c.runDistInverse("DISTINV", c.libPkgs()[:2])
			c.floor("DISTINV", 6)
			c.runInverseOrder("INVORDER", append(c.libPkgs()[:3:3], c.fixturePkg("g")))
			c.floor("INVORDER", 2)
			c.runMirrorSwap("MIRRORSWAP", append(c.libPkgs()[:3:3], c.fixturePkg("g")), c.fileFilter("transform.go", "matrix.go", "squeeze.go"))
			c.floor("MIRRORSWAP", 0)
		},
		SelfTest: []Mutation{
			{Name: "inverse of a rotation loses its distance map", File: "model3d/transform.go",
				Old: "\treturn &orthoMatrix3Transform{*m.Matrix3Transform.Inverse().(*Matrix3Transform)}", New: "\treturn &Matrix3Transform{Matrix: m.Matrix.Transpose()}", Rule: "DISTINV", Expect: "orthoMatrix3Transform"},
			{Name: "conjugated meshing maps back with the inverses in forward order", File: "model3d/mc.go",
				Old: "\treturn mesh.Transform(joined.Inverse())", New: "\tinverse := make(JoinedTransform, len(xforms))\n\tfor i, x := range xforms {\n\t\tinverse[i] = x.Inverse()\n\t}\n\treturn mesh.Transform(inverse)", Rule: "INVORDER", Expect: "MarchingCubesConj"},
			{Name: "pinch reports the box it was given", File: "toolbox3d/squeeze.go",
				Old: "func (a *AxisPinch) ApplyBounds(min, max model3d.Coord3D) (newMin, newMax model3d.Coord3D) {\n\treturn a.Apply(min), a.Apply(max)", New: "func (a *AxisPinch) ApplyBounds(min, max model3d.Coord3D) (newMin, newMax model3d.Coord3D) {\n\treturn min, max", Rule: "IDBOUNDS", Expect: "AxisPinch"},
			{Name: "joined transform inverts its members in place", File: "model3d/transform.go",
				Old: "\tres := JoinedTransform{}\n\tfor i := len(j) - 1; i >= 0; i-- {\n\t\tres = append(res, j[i].Inverse())\n\t}", New: "\tres := make(JoinedTransform, len(j))\n\tfor i, t := range j {\n\t\tres[i] = t.Inverse()\n\t}", Rule: "INVORDER", Expect: "JoinedTransform"},
			{Name: "joined transform appends the inverses front to back", File: "model2d/transform.go",
				Old: "\tfor i := len(j) - 1; i >= 0; i-- {\n\t\tres = append(res, j[i].Inverse())\n\t}", New: "\tfor i := 0; i < len(j); i++ {\n\t\tres = append(res, j[i].Inverse())\n\t}", Rule: "INVORDER", Expect: "JoinedTransform"},
			{Name: "mirrored uniform scale returns swapped corners", File: "model3d/transform.go",
				Old: "\tmin, max = min.Scale(s.Scale), max.Scale(s.Scale)\n\t// Handle negative scales.\n\treturn min.Min(max), max.Max(min)", New: "\treturn min.Scale(s.Scale), max.Scale(s.Scale)", Rule: "SIGNMAP", Expect: "ApplyBounds"},
			{Name: "mirrored uniform scale maps distances to negative lengths", File: "model2d/transform.go",
				Old: "return d * math.Abs(s.Scale)", New: "return d * s.Scale * math.Abs(1)", Rule: "SIGNMAP", Expect: "ApplyDistance"},
			{Name: "matrix bounds reset on every first-two-axes corner", File: "model3d/transform.go",
				Old: "if i == 0 && j == 0 && k == 0 {", New: "if i == 0 && j == 0 {",
				More: [][2]string{{"for k, z := range []float64{min.Z, max.Z} {\n\t\t\t\tc := m.Matrix.MulColumn", "for _, z := range []float64{min.Z, max.Z} {\n\t\t\t\tc := m.Matrix.MulColumn"}}, Rule: "FIRSTITER", Expect: "Matrix3Transform"},
			{Name: "mirrored scale collapses its bounds", File: "model2d/transform.go",
				Old: "\treturn min.Min(max), max.Max(min)", New: "\tmin = min.Min(max)\n\tmax = max.Max(min)\n\treturn min, max", All: true, Rule: "ABSORB", Expect: "ApplyBounds"},
			{Name: "direction pushed through the point map (defect F4)", File: "model3d/transform.go",
				Old: "Direction: t.inv.Apply(r.Origin.Add(r.Direction)).Sub(origin),", New: "Direction: t.inv.Apply(r.Direction),", Rule: "UNIT", Expect: "innerRay"},
			{Name: "ray parameter scaled like a length (defect F4)", File: "model2d/transform.go",
				Old: "Scale:  rc.Scale,", New: "Scale:  t.t.ApplyDistance(rc.Scale),", Rule: "UNIT", Expect: "outerCollision"},
			{Name: "normal translated (defect F4)", File: "model3d/transform.go",
				Old: "Normal: t.t.Apply(rc.Normal).Sub(t.t.Apply(zero)).Normalize(),", New: "Normal: t.t.Apply(rc.Normal).Add(zero),", Rule: "UNIT", Expect: "outerCollision"},
			{Name: "query radius mapped with the forward transform", File: "model3d/transform.go",
				Old: "t.c.SphereCollision(t.inv.Apply(c), t.inv.ApplyDistance(r))", New: "t.c.SphereCollision(t.inv.Apply(c), t.t.ApplyDistance(r))", Rule: "FRAME", Expect: "SphereCollision"},
			{Name: "TransformSolid forgets the inverse", File: "model3d/transform.go",
				Old: "\t\treturn s.Contains(inv.Apply(c))", New: "\t\t_ = inv\n\t\treturn s.Contains(c)", Rule: "FRAME", Expect: "TransformSolid"},
			{Name: "TransformSDF applies the forward map to the query point", File: "model2d/transform.go",
				Old: "return t.ApplyDistance(s.SDF(inv.Apply(c)))", New: "_ = inv\n\t\treturn t.ApplyDistance(s.SDF(t.Apply(c)))", Rule: "FRAME", Expect: "TransformSDF"},
			{Name: "metaball distance bound through the forward transform", File: "model3d/transform.go",
				Old: "t.wrapped.MetaballDistBound(t.invTransform.ApplyDistance(d))", New: "t.wrapped.MetaballDistBound(t.transform.(DistTransform).ApplyDistance(d))", Rule: "FRAME", Expect: "MetaballDistBound"},
		},
	})
	register("C06", &propInfo{
		Explanation: "UNIT over the distance-field code (shapes.go, sdf.go, primitives.go, transform.go; 2D and 3D): no signed-distance or nearest-point routine compares, adds or takes min/max of a squared length with a length or a length with a dimensionless quantity; every function returns the same dimension on all paths. FRAME for the transformed distance fields and colliders used by ColliderToSDF. MEMO: no distance/containment query stores into its receiver (shapes are plain structs with assignable fields: a cached basis or bound goes stale when a field changes).",
		Trusted:     unitTrusted,
		Assumptions: []string{"model coordinates are lengths"},
		Fixtures:    []string{"u"},
		Run: func(c *Ctx) {
			pkgs := c.unitPkgs("u")
			c.runUnits("UNIT", pkgs, c.fileFilter("shapes.go", "sdf.go", "primitives.go", "transform.go"))
			c.floor("UNIT", 100)
			c.runFrames("FRAME", pkgs)
			c.floor("FRAME", 30)
			eng := newEffEngine(c)
			c.runMemo(eng, c.libPkgs()[:2], "MEMO", map[string][]string{
				"model3d": {"SDF", "PointSDF", "NormalSDF", "FaceSDF", "Solid", "Metaball"},
				"model2d": {"SDF", "PointSDF", "NormalSDF", "FaceSDF", "Solid", "Metaball"},
			})
			c.floor("MEMO", 150)
		},
		SelfTest: []Mutation{
			{Name: "mesh distance search hands back the squared distance", File: "model3d/sdf.go",
				Old: "\t\t\t*curDist = dist\n", New: "\t\t\t*curDist = dist * dist\n", Rule: "UNIT", Expect: "SDF"},
			{Name: "torus memoises its basis in the receiver", File: "model3d/shapes.go",
				Old: "func (t *Torus) SDF(c Coord3D) float64 {\n", New: "func (t *Torus) SDF(c Coord3D) float64 {\n\tt.once.Do(func() { t.cachedAxis = t.Axis.Normalize() })\n",
				More: [][2]string{{"type Torus struct {\n", "type Torus struct {\n\tonce       sync.Once\n\tcachedAxis Coord3D\n"}, {"import (\n", "import (\n\t\"sync\"\n"}}, Rule: "MEMO", Expect: "Torus"},
			{Name: "sphere containment compares a squared distance with the radius", File: "model3d/shapes.go",
				Old: "return coord.Dist(s.Center) <= s.Radius", New: "return coord.SquaredDist(s.Center) <= s.Radius", Rule: "UNIT", Expect: "Sphere"},
			{Name: "circle SDF subtracts the squared radius", File: "model2d/shapes.go",
				Old: "return c.Radius - coord.Dist(c.Center)", New: "return c.Radius*c.Radius - coord.Dist(c.Center)", Rule: "UNIT", Expect: "Circle"},
			{Name: "collider SDF radius through the forward transform", File: "model2d/transform.go",
				Old: "t.c.CircleCollision(t.inv.Apply(c), t.inv.ApplyDistance(r))", New: "t.c.CircleCollision(t.inv.Apply(c), t.t.ApplyDistance(r))", Rule: "FRAME", Expect: "CircleCollision"},
		},
	})
	register("C19", &propInfo{
		Explanation: "UNIT over render3d/light.go, focus_point.go and material.go: points sampled on area lights are a light's point plus length-valued offsets (a unit direction must be scaled by a radius or length before it is added), areas used for emission and part selection are lengths squared, focus-point tests compare like with like.",
		Trusted:     unitTrusted,
		Assumptions: []string{"model coordinates are lengths; random numbers are dimensionless fractions"},
		Fixtures:    []string{"u", "f"},
		Run: func(c *Ctx) {
			pkgs := c.unitPkgs("u")
			c.runUnits("UNIT", pkgs, c.fileFilter("render3d/light.go", "render3d/focus_point.go", "render3d/material.go"))
			c.floor("UNIT", 12)
			c.runArgSwap("ARGSWAP", pkgs, baseIn("light.go", "focus_point.go", "material.go"), nil)
			c.floor("ARGSWAP", 40)
			c.floor("ARGROLE", 40)
			c.runRoulette("ROULETTE", append(c.libPkgs()[3:4:4], c.fixturePkg("u")))
			c.floor("ROULETTE", 0)
			c.runSamplerPair("SAMPLERPAIR", c.libPkgs()[3:4])
			c.runThresholds("THRESH", append(c.libPkgs()[3:4:4], c.fixturePkg("u")), nil)
			c.floor("THRESH", 0)
			c.runSamplerPairFuncs("SAMPLERPAIR", c.libPkgs()[3:4])
			c.floor("SAMPLERPAIR", 3)
			// area-proportional selection of a triangle / sub-light
			c.runCumTab("CUMTAB", c.libPkgs()[3:4], nil)
			c.floor("CUMTAB", 2)
			// a cumulative table has an entry for every light / triangle
			c.runFill("FILL", append(c.libPkgs()[3:4:4], c.fixturePkg("f")), c.fileFilter("render3d/light.go", "render3d/material.go"))
			c.floor("FILL", 0)
		},
		SelfTest: []Mutation{
			{Name: "destination sampler of symmetric materials forgets to reverse the fixed direction", File: "render3d/material.go",
				Old: "return mat.SampleSource(gen, normal, source.Scale(-1)).Scale(-1)", New: "return mat.SampleSource(gen, normal, source).Scale(-1)", Rule: "SAMPLERPAIR", Expect: "SampleDest"},
			{Name: "mixture sampler compares the draw with each probability alone", File: "render3d/material.go",
				Old: "\t\tp -= subProb\n\t\tif p < 0 || i == len(j.Probs)-1 {\n\t\t\treturn j.Materials[i].SampleSource(gen, normal, dest)", New: "\t\tif p < subProb || i == len(j.Probs)-1 {\n\t\t\treturn j.Materials[i].SampleSource(gen, normal, dest)", Rule: "ROULETTE", Expect: "SampleSource"},
			{Name: "focus density drops the inside-the-sphere fallback", File: "render3d/focus_point.go",
				Old: "\tif s.Center.Dist(point) < s.Radius || !s.focusMaterial(mat) {\n\t\treturn mat.SourceDensity(normal, source, dest)", New: "\tif !s.focusMaterial(mat) {\n\t\treturn mat.SourceDensity(normal, source, dest)", Rule: "SAMPLERPAIR", Expect: "SphereFocusPoint"},
			{Name: "refraction density uses the source direction for the Fresnel term", File: "render3d/material.go",
				Old: "\treflect := r.reflectAmount(normal, dest)\n\treflected := normal.Reflect(dest).Scale(-1)\n\trefracted := r.refractInverse(normal, dest)\n\tvar density float64", New: "\treflect := r.reflectAmount(normal, source)\n\treflected := normal.Reflect(dest).Scale(-1)\n\trefracted := r.refractInverse(normal, dest)\n\tvar density float64", Rule: "SAMPLERPAIR", Expect: "reflectAmount"},
			{Name: "cylinder shaft sampled at radius 1 (defect F12)", File: "render3d/light.go",
				Old: ".Add(radialPart.Scale(c.cylinder.Radius))", New: ".Add(radialPart)", Rule: "UNIT", Expect: "CylinderAreaLight"},
			{Name: "cylinder shaft sampled along the unit axis", File: "render3d/light.go",
				Old: "c.cylinder.P1.Add(unscaledAxis.Scale(y))", New: "c.cylinder.P1.Add(axis.Scale(y))", Rule: "UNIT", Expect: "CylinderAreaLight"},
			{Name: "focus point compares a squared distance with the radius", File: "render3d/focus_point.go",
				Old: "if s.Center.Dist(point) < s.Radius || !s.focusMaterial(mat) {", New: "if s.Center.SquaredDist(point) < s.Radius || !s.focusMaterial(mat) {", All: true, Rule: "UNIT", Expect: "SphereFocusPoint"},
			{Name: "cylinder face area uses the radius, not its square", File: "render3d/light.go",
				Old: "sideArea:  c.Radius * c.Radius * math.Pi,", New: "sideArea:  c.Radius * math.Pi,", Rule: "UNIT", Expect: "CylinderAreaLight"},
		},
	})
}
