package main

import (
	"go/types"

	"golang.org/x/tools/go/packages"
	"golang.org/x/tools/go/ssa"
)

// BOUNDFOLD: the box of a combinator over a list of operands depends on every
// operand in every component. In a Min/Max method whose receiver is a slice
// and that asks the members for their Min/Max inside a loop, the members'
// bounds have to be combined with the running result through Coord.Min or
// Coord.Max inside that loop; a loop that merely overwrites the running result
// lets the last operand decide (components that are not carried along are
// lost).
func (c *Ctx) runBoundFold(rule string, pkgs []*packages.Package, filter func(fn *ssa.Function) bool) {
	for _, p := range pkgs {
		if p == nil {
			continue
		}
		for _, fn := range c.srcFuncs(p) {
			if filter != nil && !filter(fn) {
				continue
			}
			if fn.Signature.Recv() == nil || fn.Parent() != nil || (fn.Name() != "Min" && fn.Name() != "Max") {
				continue
			}
			if _, ok := fn.Signature.Recv().Type().Underlying().(*types.Slice); !ok {
				continue
			}
			if fn.Signature.Results().Len() != 1 || !isCoordType(fn.Signature.Results().At(0).Type()) {
				continue
			}
			loops := naturalLoops(fn)
			// member bound queries inside loops
			for head, body := range loops {
				member, fold := false, false
				var at *ssa.Call
				for b := range body {
					for _, ins := range b.Instrs {
						call, ok := ins.(*ssa.Call)
						if !ok {
							continue
						}
						if call.Call.IsInvoke() && (call.Call.Method.Name() == "Min" || call.Call.Method.Name() == "Max") && isCoordType(call.Type()) {
							member = true
							if at == nil {
								at = call
							}
						}
						if f := call.Call.StaticCallee(); f != nil && f.Signature.Recv() != nil && isCoordType(f.Signature.Recv().Type()) && (f.Name() == "Min" || f.Name() == "Max") && len(call.Call.Args) == 2 {
							fold = true
						}
					}
				}
				if !member {
					continue
				}
				_ = head
				c.analysed(qname(fn))
				key := qname(fn) + " members' bounds folded"
				if fold {
					c.ok(rule, key, at.Pos(), "the loop over the operands combines their bounds with Coord.Min/Max")
				} else {
					c.bad(rule, key, at.Pos(), "the loop over the operands asks each for its bound but never combines it with the running result through Coord.Min/Max: the last operand alone decides the components that are not carried along")
				}
			}
		}
	}
}
