package main

// CONGRUENT — a function that reduces its float64 parameter theta modulo a
// constant M (it calls math.Mod(·, M)) must return a value congruent to theta:
// built from theta only by math.Mod(·, M), by adding or subtracting integer
// multiples of M, by joining such values, or by recursion on such a value.
// `2*pi - theta` is congruent to -theta, not to theta: the defect repaired in
// toolbox3d.CanonicalAngle.

import (
	"go/token"
	"math"

	"golang.org/x/tools/go/packages"
	"golang.org/x/tools/go/ssa"
)

func (c *Ctx) runCongruent(rule string, pkgs []*packages.Package, fileOK func(fn *ssa.Function) bool) {
	for _, p := range pkgs {
		if p == nil {
			continue
		}
		for _, fn := range c.srcFuncs(p) {
			if fileOK != nil && !fileOK(fn) {
				continue
			}
			if fn.Parent() != nil || len(fn.Params) == 0 || fn.Signature.Results().Len() != 1 || !isFloat64(fn.Signature.Results().At(0).Type()) {
				continue
			}
			// the modulus
			var M float64
			found := false
			for _, b := range fn.Blocks {
				for _, ins := range b.Instrs {
					if call, ok := ins.(*ssa.Call); ok {
						if f := call.Call.StaticCallee(); f != nil && f.Pkg != nil && f.Pkg.Pkg.Path() == "math" && f.Name() == "Mod" {
							if m, ok := constFloat(call.Call.Args[1]); ok && m > 0 {
								if found && m != M {
									found = false
									goto next
								}
								M, found = m, true
							}
						}
					}
				}
			}
		next:
			if !found {
				continue
			}
			var theta *ssa.Parameter
			for _, prm := range fn.Params {
				if isFloat64(prm.Type()) {
					if theta != nil {
						theta = nil
						break
					}
					theta = prm
				}
			}
			if theta == nil {
				continue
			}
			c.analysed(qname(fn))
			// parameters of package helpers called from fn, bound to the
			// caller's values while the helper is looked at
			bind := map[*ssa.Parameter]ssa.Value{}
			resolve := func(v ssa.Value) ssa.Value {
				for i := 0; i < 4; i++ {
					p, ok := v.(*ssa.Parameter)
					if !ok {
						break
					}
					b, ok := bind[p]
					if !ok {
						break
					}
					v = b
				}
				return v
			}
			helperDepth := 0
			multiple := func(v ssa.Value) bool {
				v = resolve(v)
				f, ok := constFloat(v)
				if !ok {
					return false
				}
				q := f / M
				return q == math.Round(q)
			}
			memo := map[ssa.Value]int{} // 1 congruent, 2 not
			var cong func(v ssa.Value) bool
			cong = func(v ssa.Value) bool {
				if r, ok := memo[v]; ok {
					return r == 1
				}
				memo[v] = 1 // optimistic for loops
				res := false
				switch x := v.(type) {
				case *ssa.Parameter:
					if b, ok := bind[x]; ok {
						res = cong(b)
						break
					}
					res = x == theta
				case *ssa.Phi:
					res = true
					for _, e := range x.Edges {
						if !cong(e) {
							res = false
						}
					}
				case *ssa.BinOp:
					switch x.Op {
					case token.ADD:
						res = cong(x.X) && multiple(x.Y) || cong(x.Y) && multiple(x.X)
					case token.SUB:
						res = cong(x.X) && multiple(x.Y)
					}
				case *ssa.Call:
					if f := x.Call.StaticCallee(); f != nil {
						if f.Pkg != nil && f.Pkg.Pkg.Path() == "math" && f.Name() == "Mod" {
							res = cong(x.Call.Args[0]) && multiple(x.Call.Args[1])
						} else if f != fn && f.Blocks != nil && c.isRepoPkg(f.Pkg.Pkg) && helperDepth < 2 && f.Signature.Results().Len() == 1 && len(f.Params) == len(x.Call.Args) {
							// a helper: every value it returns, with its parameters
							// bound to this call's arguments
							helperDepth++
							for i, prm := range f.Params {
								bind[prm] = x.Call.Args[i]
							}
							res = true
							any := false
							for _, hb := range f.Blocks {
								if ret, ok := hb.Instrs[len(hb.Instrs)-1].(*ssa.Return); ok {
									any = true
									if !cong(ret.Results[0]) {
										res = false
									}
								}
							}
							res = res && any
							for _, prm := range f.Params {
								delete(bind, prm)
								delete(memo, prm)
							}
							for k := range memo {
								if ins, ok := k.(ssa.Instruction); ok && ins.Parent() == f {
									delete(memo, k)
								}
							}
							helperDepth--
						} else if f == fn {
							for i, prm := range fn.Params {
								if prm == theta {
									res = cong(x.Call.Args[i])
								}
							}
						}
					}
				}
				if res {
					memo[v] = 1
				} else {
					memo[v] = 2
				}
				return res
			}
			n := 0
			for _, b := range fn.Blocks {
				for _, ins := range b.Instrs {
					switch x := ins.(type) {
					case *ssa.Return:
						n++
						key := qname(fn) + " result"
						if n > 1 {
							key += " #" + itoa(n)
						}
						if cong(x.Results[0]) {
							c.ok(rule, key, x.Pos(), "the result is the parameter reduced by math.Mod and shifted by whole multiples of the modulus")
						} else {
							c.bad(rule, key, x.Pos(), "the returned value is not congruent to the parameter modulo the constant this function reduces by (it is built with something other than math.Mod and ± whole multiples of the modulus, e.g. M - theta)")
						}
					case *ssa.Call:
						if x.Call.StaticCallee() == fn {
							n++
							key := qname(fn) + " recursion"
							for i, prm := range fn.Params {
								if prm == theta {
									if cong(x.Call.Args[i]) {
										c.ok(rule, key, x.Pos(), "recursion on a congruent value")
									} else {
										c.bad(rule, key, x.Pos(), "the function recurses on a value that is not congruent to its parameter modulo the constant it reduces by (e.g. M - theta is congruent to -theta)")
									}
								}
							}
						}
					}
				}
			}
		}
	}
}
