package main

// PAIR — parallel local arrays stay in step. Two local arrays (or slices) A
// and B of one function are "parallel" when at least two statement lists of
// the function store into both at exactly the same index expressions
// (closestDists[k] / closestNormals[k] in the smooth joins). For a parallel
// pair every statement list that stores into one of them must store into the
// other at the same indices: a swap, shift or insertion applied to one array
// only leaves the k-th entries of the two arrays describing different
// operands.

import (
	"go/ast"
	"go/token"
	"go/types"
	"sort"
	"strings"

	"golang.org/x/tools/go/packages"
)

type pairStores struct {
	pos token.Pos
	idx map[types.Object][]string // variable -> sorted index texts stored in this statement list
}

func (c *Ctx) runPair(rule string, pkgs []*packages.Package, fileOK func(name string) bool) {
	for _, p := range pkgs {
		if p == nil {
			continue
		}
		info := p.TypesInfo
		for _, file := range p.Syntax {
			fname := c.Fset.Position(file.Pos()).Filename
			if fileOK != nil && !strings.Contains(fname, "/fixtures/") && !fileOK(fname) {
				continue
			}
			for _, d := range file.Decls {
				fd, ok := d.(*ast.FuncDecl)
				if !ok || fd.Body == nil {
					continue
				}
				obj, _ := info.Defs[fd.Name].(*types.Func)
				c.pairInFunc(rule, info, objName(obj), fd.Body)
			}
		}
	}
}

func (c *Ctx) pairInFunc(rule string, info *types.Info, fname string, body *ast.BlockStmt) {
	var lists []pairStores
	isLocalArr := func(e ast.Expr) types.Object {
		id, ok := ast.Unparen(e).(*ast.Ident)
		if !ok {
			return nil
		}
		o, _ := info.Uses[id].(*types.Var)
		if o == nil || o.IsField() || o.Parent() == nil || o.Parent() == o.Pkg().Scope() {
			return nil
		}
		switch o.Type().Underlying().(type) {
		case *types.Array, *types.Slice:
			return o
		}
		return nil
	}
	var visitList func(stmts []ast.Stmt, pos token.Pos)
	visitList = func(stmts []ast.Stmt, pos token.Pos) {
		ps := pairStores{pos: pos, idx: map[types.Object][]string{}}
		for _, st := range stmts {
			if as, ok := st.(*ast.AssignStmt); ok {
				for _, l := range as.Lhs {
					if ix, ok := l.(*ast.IndexExpr); ok {
						if o := isLocalArr(ix.X); o != nil {
							ps.idx[o] = append(ps.idx[o], types.ExprString(ix.Index))
						}
					}
				}
			}
		}
		if len(ps.idx) > 0 {
			for o := range ps.idx {
				sort.Strings(ps.idx[o])
			}
			lists = append(lists, ps)
		}
	}
	ast.Inspect(body, func(n ast.Node) bool {
		switch x := n.(type) {
		case *ast.BlockStmt:
			visitList(x.List, x.Pos())
		case *ast.CaseClause:
			visitList(x.Body, x.Pos())
		case *ast.CommClause:
			visitList(x.Body, x.Pos())
		}
		return true
	})
	// co-written pairs
	type pr struct{ a, b types.Object }
	co := map[pr]int{}
	for _, l := range lists {
		var vars []types.Object
		for o := range l.idx {
			vars = append(vars, o)
		}
		sort.Slice(vars, func(i, j int) bool { return vars[i].Pos() < vars[j].Pos() })
		for i := 0; i < len(vars); i++ {
			for j := i + 1; j < len(vars); j++ {
				if strings.Join(l.idx[vars[i]], ",") == strings.Join(l.idx[vars[j]], ",") {
					co[pr{vars[i], vars[j]}]++
				}
			}
		}
	}
	var pairs []pr
	for k, n := range co {
		if n >= 2 {
			pairs = append(pairs, k)
		}
	}
	sort.Slice(pairs, func(i, j int) bool { return pairs[i].a.Pos() < pairs[j].a.Pos() })
	for _, k := range pairs {
		c.analysed(fname)
		n := 0
		for _, l := range lists {
			ia, ib := l.idx[k.a], l.idx[k.b]
			if len(ia) == 0 && len(ib) == 0 {
				continue
			}
			n++
			key := fname + " " + k.a.Name() + "/" + k.b.Name() + " stores"
			if strings.Join(ia, ",") == strings.Join(ib, ",") {
				c.ok(rule, key, l.pos, "both arrays are stored at ["+strings.Join(ia, ",")+"]")
			} else {
				c.bad(rule, key, l.pos, k.a.Name()+" is stored at ["+strings.Join(ia, ",")+"] but "+k.b.Name()+" at ["+strings.Join(ib, ",")+"]: the parallel arrays no longer describe the same entries")
			}
		}
	}
}
