package main

// STALECOPY — a method that works on a copy of its receiver
// (`res := m.Copy()`) and mutates the copy in a loop (res.Remove / res.Add ...)
// must take its adjacency queries inside that loop from the copy: the
// receiver still describes the mesh as it was before the first mutation, so
// neighbours, segment counts and eligibility read from it go stale after one
// iteration (a collapse that creates a duplicate segment, a loop that never
// terminates because the "removed" vertex is still there).

import (
	"go/ast"
	"go/token"
	"go/types"
	"strings"

	"golang.org/x/tools/go/packages"
)

func (c *Ctx) runStaleCopy(rule string, pkgs []*packages.Package, fileOK func(name string) bool) {
	mutator := func(name string) bool {
		for _, p := range []string{"Add", "Remove", "Delete", "Insert", "Store"} {
			if strings.HasPrefix(name, p) {
				return true
			}
		}
		return false
	}
	for _, p := range pkgs {
		if p == nil {
			continue
		}
		info := p.TypesInfo
		for _, file := range p.Syntax {
			fname := c.Fset.Position(file.Pos()).Filename
			if fileOK != nil && !strings.Contains(fname, "/fixtures/") && !fileOK(fname) {
				continue
			}
			for _, d := range file.Decls {
				fd, ok := d.(*ast.FuncDecl)
				if !ok || fd.Body == nil || fd.Recv == nil || len(fd.Recv.List) != 1 || len(fd.Recv.List[0].Names) != 1 {
					continue
				}
				recv := info.Defs[fd.Recv.List[0].Names[0]]
				if recv == nil {
					continue
				}
				fobj, _ := info.Defs[fd.Name].(*types.Func)
				// res := m.Copy()
				var copyObj types.Object
				var copyPos token.Pos
				ast.Inspect(fd.Body, func(n ast.Node) bool {
					as, ok := n.(*ast.AssignStmt)
					if !ok || len(as.Lhs) != 1 || len(as.Rhs) != 1 {
						return true
					}
					call, ok := as.Rhs[0].(*ast.CallExpr)
					if !ok {
						return true
					}
					sel, ok := call.Fun.(*ast.SelectorExpr)
					if !ok || sel.Sel.Name != "Copy" {
						return true
					}
					if id, ok := sel.X.(*ast.Ident); !ok || info.Uses[id] != recv {
						return true
					}
					if l, ok := as.Lhs[0].(*ast.Ident); ok && copyObj == nil {
						if o := info.Defs[l]; o != nil {
							copyObj, copyPos = o, as.Pos()
						}
					}
					return true
				})
				if copyObj == nil {
					continue
				}
				n := 0
				ast.Inspect(fd.Body, func(nd ast.Node) bool {
					var body *ast.BlockStmt
					switch x := nd.(type) {
					case *ast.ForStmt:
						body = x.Body
					case *ast.RangeStmt:
						body = x.Body
					}
					if body == nil || nd.Pos() < copyPos {
						return true
					}
					mutates := false
					ast.Inspect(body, func(n2 ast.Node) bool {
						if call, ok := n2.(*ast.CallExpr); ok {
							if sel, ok := call.Fun.(*ast.SelectorExpr); ok && mutator(sel.Sel.Name) {
								if id, ok := sel.X.(*ast.Ident); ok && info.Uses[id] == copyObj {
									mutates = true
								}
							}
						}
						return true
					})
					if !mutates {
						return true
					}
					n++
					c.analysed(objName(fobj))
					key := objName(fobj) + " loop#" + itoa(n) + " mutating the copy " + copyObj.Name()
					var stale token.Pos
					ast.Inspect(body, func(n2 ast.Node) bool {
						if id, ok := n2.(*ast.Ident); ok && info.Uses[id] == recv && !stale.IsValid() {
							stale = id.Pos()
						}
						return true
					})
					if stale.IsValid() {
						c.bad(rule, key, stale, "the loop mutates the copy "+copyObj.Name()+" but reads the receiver "+recv.Name()+" here: after the first mutation the receiver no longer describes the mesh being edited")
					} else {
						c.ok(rule, key, nd.Pos(), "the loop reads only the copy it mutates")
					}
					return false
				})
			}
		}
	}
}
