package main

// ROWIDX — assembling a sparse linear system row by row: in a loop whose
// iteration stores the diagonal entry M.Set(i, i, d), i is the equation
// (row) being assembled; every other entry stored into the same matrix in
// that iteration belongs to that equation, so its row argument is i as well
// (M.Set(i, j, w)). M.Set(j, i, w) assembles the transposed system, which is
// a different system whenever the weights are not symmetric.

import (
	"go/ast"
	"go/types"
	"path/filepath"

	"golang.org/x/tools/go/packages"
)

func (c *Ctx) runRowIdx(rule string, pkgs []*packages.Package, fileOK func(name string) bool) {
	for _, p := range pkgs {
		if p == nil {
			continue
		}
		info := p.TypesInfo
		for _, file := range p.Syntax {
			fname := c.Fset.Position(file.Pos()).Filename
			if fileOK != nil && !fileOK(filepath.Base(fname)) {
				continue
			}
			for _, d := range file.Decls {
				fd, ok := d.(*ast.FuncDecl)
				if !ok || fd.Body == nil {
					continue
				}
				fobj, _ := info.Defs[fd.Name].(*types.Func)
				ast.Inspect(fd.Body, func(n ast.Node) bool {
					var body *ast.BlockStmt
					switch x := n.(type) {
					case *ast.RangeStmt:
						body = x.Body
					case *ast.ForStmt:
						body = x.Body
					}
					if body == nil {
						return true
					}
					// Set calls on sparse matrices anywhere in this loop body
					type setCall struct {
						call *ast.CallExpr
						mat  types.Object
					}
					var sets []setCall
					ast.Inspect(body, func(n2 ast.Node) bool {
						call, ok := n2.(*ast.CallExpr)
						if !ok || len(call.Args) != 3 {
							return true
						}
						sel, ok := call.Fun.(*ast.SelectorExpr)
						if !ok || sel.Sel.Name != "Set" {
							return true
						}
						fn, _ := info.Uses[sel.Sel].(*types.Func)
						if fn == nil || fn.Type().(*types.Signature).Recv() == nil {
							return true
						}
						if typeNameOf(fn.Type().(*types.Signature).Recv().Type()) != "SparseMatrix" {
							return true
						}
						if m := exprObj(info, sel.X); m != nil {
							sets = append(sets, setCall{call, m})
						}
						return true
					})
					// the diagonal entries directly in this loop's body (not nested loops)
					for _, st := range body.List {
						es, ok := st.(*ast.ExprStmt)
						if !ok {
							continue
						}
						dc, ok := es.X.(*ast.CallExpr)
						if !ok {
							continue
						}
						var diag *setCall
						for i := range sets {
							if sets[i].call == dc {
								diag = &sets[i]
							}
						}
						if diag == nil {
							continue
						}
						r := exprObj(info, dc.Args[0])
						if r == nil || r != exprObj(info, dc.Args[1]) {
							continue
						}
						for _, s := range sets {
							if s.call == dc || s.mat != diag.mat {
								continue
							}
							c.analysed(objName(fobj))
							key := objName(fobj) + " entry of " + s.mat.Name() + " in the row loop over " + r.Name()
							if exprObj(info, s.call.Args[0]) == r {
								c.ok(rule, key, s.call.Pos(), "the entry is stored in the row whose diagonal this iteration sets")
							} else {
								c.bad(rule, key, s.call.Pos(), "the iteration assembles equation "+r.Name()+" (it stores the diagonal "+s.mat.Name()+".Set("+r.Name()+", "+r.Name()+", ·)) but this entry goes to row "+types.ExprString(s.call.Args[0])+": the transposed system is assembled, which differs whenever the weights are not symmetric")
							}
						}
					}
					return true
				})
			}
		}
	}
}
