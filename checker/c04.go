package main

func init() {
	register("C04", &propInfo{
		Explanation: "CB: no branch in the solid combinators (solid.go, 2D and 3D; toolbox3d/rect_set.go) is guarded by an integer condition that its enclosing branches make unsatisfiable (the operand fold of the smooth joins must be able to order its first two distances). SHIFT: a best-two tracker saves the old best before overwriting it. CS: the accelerated join and the containment multiplexer recurse on complementary halves, and parallel slices (solids and their indices) are cut at the same index. A3: IterContains invokes its callback only when non-nil and returns the number of invocations on every path.",
		Trusted:     []string{"go/ssa dominators", "interval reasoning on comparisons of one SSA value with integer constants", "the statement semantics of checker/a3.go"},
		Fixtures:    []string{"s"},
		Run: func(c *Ctx) {
			pkgs := append(c.libPkgs()[:3:3], c.fixturePkg("s"))
			ff := c.fileFilter("solid.go", "rect_set.go")
			c.runContradiction("CB", pkgs, ff)
			c.floor("CB", 4)
			c.runShiftOrder("SHIFT", pkgs, ff)
			c.floor("SHIFT", 4)
			c.runComplementarySplit("CS", pkgs, ff)
			c.floor("CS", 4)
			c.runZeroSlot("ZEROSLOT", append(c.libPkgs(), c.fixturePkg("s")), nil)
			c.floor("ZEROSLOT", 2)
			c.runPair("PAIR", append(c.libPkgs(), c.fixturePkg("s")), nil)
			c.floor("PAIR", 2)
			c.runCallbackCount(iterFamily, pkgs)
			c.floor("A3.CNT", 4)
			c.floor("A3.GUARD", 2)
			c.floor("A3.NILDEP", 2)
			// combinators leave their operand lists as they were given: no exported
			// method of a solid type writes receiver-reachable memory
			qAllExported = true
			c.runQueryPurityFor(newEffEngine(c), c.libPkgs()[:2], "Q", map[string][]string{
				"model3d": {"Solid"},
				"model2d": {"Solid"},
			})
			qAllExported = false
			c.floor("Q", 100)
		},
		SelfTest: []Mutation{
			{Name: "Optimize regroups the caller's operand slice in place", File: "model3d/solid.go",
				Old: "\tgrouped := append([]Solid{}, j...)\n\tGroupBounders(grouped)\n\treturn groupedSolidsToSolid(grouped)", New: "\tgrouped := []Solid(j)\n\tGroupBounders(grouped)\n\treturn groupedSolidsToSolid(grouped)", Rule: "Q", Expect: "Optimize"},
			{Name: "first two distances never sorted (defect F2)", File: "model3d/solid.go",
				Old: "if i == 1 {", New: "if i == 2 {", All: true, Rule: "CB", Expect: "SmoothJoin"},
			{Name: "new closest overwrites before shifting", File: "model2d/solid.go",
				Old: "\t\t\t\t\t\tclosestDists[1] = closestDists[0]\n\t\t\t\t\t\tclosestDists[0] = d\n", New: "\t\t\t\t\t\tclosestDists[0] = d\n\t\t\t\t\t\tclosestDists[1] = closestDists[0]\n", Rule: "SHIFT", Expect: "SmoothJoin"},
			{Name: "mux indices split one later than the solids", File: "model3d/solid.go",
				Old: "groupedSolidsToSolidMux(solids[splitIdx:], indices[splitIdx:])", New: "groupedSolidsToSolidMux(solids[splitIdx:], indices[splitIdx+1:])", Rule: "CS", Expect: "groupedSolidsToSolidMux"},
			{Name: "IterContains counts only with a callback", File: "model3d/solid.go",
				Old: "\t\t\tif f != nil {\n\t\t\t\tf(s.leafIndex)\n\t\t\t}\n\t\t\treturn 1", New: "\t\t\tif f != nil {\n\t\t\t\tf(s.leafIndex)\n\t\t\t\treturn 1\n\t\t\t}\n\t\t\treturn 0", Rule: "A3.NILDEP", Expect: "IterContains"},
		},
	})
}
