package main

func init() {
	register("C10", &propInfo{
		Explanation: "KEEP: both decimation criteria return 'removable' only behind the keep-filter (absent, or answered true). GUARDCALL: the vertex removal routine is only reached behind canRemoveVertex. OL: every exported Decimator option is read. SELFKEY: no lookup of a range key in the map being ranged over (the ARAP operator must compare the new constraint set with the cached one). FILL: in the mesh processing files (mesh_ops.go, smooth.go, subdivision.go, deformation.go, decimate.go; 2D and 3D) an output slice made with its final length and filled by index receives an element on every path of every iteration (a skipped store leaves a vertex at the origin).",
		Trusted:     []string{"go/ssa dominators, edge-deletion reachability", "natural-loop detection of checker/dec_index.go"},
		Fixtures:    []string{"f", "g", "w"},
		Run: func(c *Ctx) {
			c.runKeepFilter("KEEP", "model3d", "decCriterion", "canRemoveVertex", "FilterFunc")
			c.floor("KEEP", 2)
			c.runGuardedCall("GUARDCALL", "model3d", "attemptRemoveVertex", "canRemoveVertex")
			c.floor("GUARDCALL", 1)
			c.runOptionLiveness("OL", "model3d", "Decimator")
			c.floor("OL", 8)
			pkgs := append(c.libPkgs()[:2:2], c.fixturePkg("f"))
			c.runFill("FILL", pkgs, c.fileFilter("mesh_ops.go", "smooth.go", "subdivision.go", "deformation.go", "decimate.go", "ptr_mesh.go"))
			c.floor("FILL", 3)
			c.runSelfKey("SELFKEY", c.libPkgs()[:3], nil)
			c.floor("SELFKEY", 3)
			c.runStaleCopy("STALECOPY", c.libPkgs()[:3], nil)
			c.floor("STALECOPY", 1)
			// ARAP assembles its sparse system row by row
			c.runRowIdx("ROWIDX", c.libPkgs()[:1], baseIn("deformation.go"))
			c.floor("ROWIDX", 0)
			// divideSegment reverses its result in place
			c.runMirrorSwap("MIRRORSWAP", append(c.libPkgs()[:2:2], c.fixturePkg("g")), c.fileFilter("mesh_ops.go", "smooth.go", "subdivision.go", "deformation.go", "decimate.go", "ptr_mesh.go"))
			c.floor("MIRRORSWAP", 0)
			c.runPureCall("PURECALL", newEffEngine(c), append(c.libPkgs()[:2:2], c.fixturePkg("w")), c.fileFilter("mesh_ops.go", "smooth.go", "subdivision.go", "deformation.go", "decimate.go", "ptr_mesh.go"))
			c.floor("PURECALL", 0)
		},
		SelfTest: []Mutation{
			{Name: "edge points of a reversed segment are swapped back again", File: "model3d/subdivision.go",
				Old: "for i := 0; i < len(result)/2; i++ {", New: "for i := 0; i < len(result); i++ {", Rule: "MIRRORSWAP", Expect: "divideSegment"},
			{Name: "2D decimation reads neighbours from the input mesh", File: "model2d/mesh_ops.go",
				Old: "n1, n2, _ := vertexNeighbors(res, next)\n\t\tif len(res.Find(n1, n2)) > 0 {", New: "n1, n2, _ := vertexNeighbors(res, next)\n\t\tif len(m.Find(n1, n2)) > 0 {", Rule: "STALECOPY", Expect: "Decimate"},
			{Name: "normal criterion ignores the keep-filter", File: "model3d/decimate.go",
				Old: "\tif n.FilterFunc != nil && !n.FilterFunc(v.Vertex.Coord3D) {\n\t\treturn false\n\t}\n", New: "", Rule: "KEEP", Expect: "normalDecCriterion"},
			{Name: "distance criterion asks the filter only for corners", File: "model3d/decimate.go",
				Old: "\tif d.FilterFunc != nil && !d.FilterFunc(v.Vertex.Coord3D) {\n\t\treturn false\n\t}\n", New: "\tif d.FilterFunc != nil && d.EliminateCorners && !d.FilterFunc(v.Vertex.Coord3D) {\n\t\treturn false\n\t}\n", Rule: "KEEP", Expect: "distanceDecCriterion"},
			{Name: "removal attempted before the criterion", File: "model3d/decimate.go",
				Old: "if d.Criterion.canRemoveVertex(v) && d.attemptRemoveVertex(p, v) {", New: "if d.attemptRemoveVertex(p, v) && d.Criterion.canRemoveVertex(v) {", Rule: "GUARDCALL", Expect: "attemptRemoveVertex"},
			{Name: "ARAP operator compares the new constraint set with itself", File: "model3d/deformation.go",
				Old: "if _, ok := a.constraints[k]; !ok {", New: "if _, ok := constraints[k]; !ok {", Rule: "SELFKEY", Expect: "arapOperator"},
			{Name: "isolated vertices are not copied by the filtered blur", File: "model3d/mesh_ops.go",
				Old: "\t\t\tif len(ns) == 0 {\n\t\t\t\tnewCoords[i] = c\n\t\t\t\tcontinue\n\t\t\t}", New: "\t\t\tif len(ns) == 0 {\n\t\t\t\tcontinue\n\t\t\t}", Rule: "FILL", Expect: "BlurFiltered"},
		},
	})
}
