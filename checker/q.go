package main

// Q — query purity.
//
// The methods of the interfaces documented as safe for concurrent use (Solid,
// Collider, SDF, ... 2D and 3D, render3d.Object/Material/...) and the read
// methods of Mesh must not write memory reachable from their receiver or
// global memory, except where a sync.Mutex is held (and through sync/atomic,
// which the effect engine treats as synchronisation). Otherwise two
// goroutines querying the same object race.

import (
	"fmt"
	"go/types"
	"sort"
	"strings"

	"golang.org/x/tools/go/packages"
	"golang.org/x/tools/go/ssa"
)

var queryInterfaces = map[string][]string{
	"model3d":   {"Bounder", "Collider", "TriangleCollider", "SegmentCollider", "RectCollider", "MultiCollider", "Metaball", "SDF", "PointSDF", "NormalSDF", "FaceSDF", "Solid", "Transform", "DistTransform"},
	"model2d":   {"Bounder", "Collider", "SegmentCollider", "RectCollider", "MultiCollider", "Metaball", "SDF", "PointSDF", "NormalSDF", "FaceSDF", "Solid", "Transform", "DistTransform", "Curve"},
	"render3d":  {"FocusPoint", "AreaLight", "Material", "AsymMaterial", "Object"},
	"toolbox3d": {"GearProfile"},
}

// queryTypes: concrete types outside those interfaces whose exported methods
// are all read-only queries over an immutable structure built once.
var queryTypes = map[string]string{
	"SolidMux":   "the containment multiplexer answers for the solids it was built from",
	"CoordTree":  "the point tree is built once by NewCoordTree and only searched afterwards",
	"Polynomial": "a coefficient list; evaluation and root finding leave the caller's coefficients alone",
}

// meshMutators: methods of Mesh that are documented to modify the mesh (not
// safe for concurrent use by contract). Everything else is a read method.
var meshMutators = map[string]bool{
	"Add": true, "AddMesh": true, "AddQuad": true, "Remove": true,
	"clearVertexToFace": true,
}

func (c *Ctx) runQueryPurity(eng *effEngine, pkgs []*packages.Package, rule string) {
	c.runQueryPurityFor(eng, pkgs, rule, queryInterfaces)
}

// runMemo: like Q, but synchronised writes count as well: a query method that
// stores into its receiver keeps a cache, and a cache of values derived from
// exported, assignable fields goes stale when a field is changed.
func (c *Ctx) runMemo(eng *effEngine, pkgs []*packages.Package, rule string, ifaces map[string][]string) {
	c.memoMode = true
	c.runQueryPurityFor(eng, pkgs, rule, ifaces)
	c.memoMode = false
}

func (c *Ctx) runQueryPurityFor(eng *effEngine, pkgs []*packages.Package, rule string, queryInterfaces map[string][]string) {
	// collect the interfaces
	type iface struct {
		name string
		t    *types.Interface
	}
	var ifaces []iface
	for short, names := range queryInterfaces {
		p := c.pkg(short)
		if p == nil {
			continue
		}
		for _, n := range names {
			tn, _ := p.Types.Scope().Lookup(n).(*types.TypeName)
			if tn == nil {
				c.problem("unresolved anchor: interface %s.%s", short, n)
				continue
			}
			it, ok := tn.Type().Underlying().(*types.Interface)
			if !ok {
				c.problem("unresolved anchor: %s.%s is not an interface", short, n)
				continue
			}
			ifaces = append(ifaces, iface{short + "." + n, it})
		}
	}
	sort.Slice(ifaces, func(i, j int) bool { return ifaces[i].name < ifaces[j].name })

	type target struct {
		fn   *ssa.Function
		why  string
		name string
	}
	var targets []target
	seen := map[*types.Func]bool{}
	for _, p := range pkgs {
		if p == nil {
			continue
		}
		scope := p.Types.Scope()
		names := scope.Names()
		for _, n := range names {
			tn, ok := scope.Lookup(n).(*types.TypeName)
			if !ok || tn.IsAlias() {
				continue
			}
			named, ok := tn.Type().(*types.Named)
			if !ok {
				continue
			}
			if _, isI := named.Underlying().(*types.Interface); isI {
				continue
			}
			ptr := types.NewPointer(named)
			for _, it := range ifaces {
				if named.TypeParams().Len() > 0 {
					continue // generic containers are covered through their instantiations' callers
				}
				if !types.Implements(ptr, it.t) && !types.Implements(named, it.t) {
					continue
				}
				if _, all := queryInterfaces["toolbox3d"]; all || qAllExported {
					// every exported method of a type that answers queries, not only
					// the interface's own methods (Optimize, Solids, ...)
					ms := types.NewMethodSet(ptr)
					for i := 0; i < ms.Len(); i++ {
						f, _ := ms.At(i).Obj().(*types.Func)
						if f == nil || !f.Exported() || seen[f] || qMutators[n][f.Name()] {
							continue
						}
						fn := c.Prog.FuncValue(f)
						if fn == nil || fn.Blocks == nil {
							continue
						}
						seen[f] = true
						targets = append(targets, target{fn, "exported method of a type that implements " + it.name, objName(f)})
					}
				}
				for i := 0; i < it.t.NumMethods(); i++ {
					m := it.t.Method(i)
					obj, _, _ := types.LookupFieldOrMethod(ptr, true, m.Pkg(), m.Name())
					f, _ := obj.(*types.Func)
					if f == nil || seen[f] {
						continue
					}
					// promoted methods of embedded interfaces have no body here
					fn := c.Prog.FuncValue(f)
					if fn == nil || fn.Blocks == nil {
						continue
					}
					seen[f] = true
					targets = append(targets, target{fn, "implements " + it.name, objName(f)})
				}
			}
			// query-only concrete types
			if why, isQ := queryTypes[n]; isQ && (qAllExported || queryInterfaces["toolbox3d"] != nil) && (p.PkgPath == repoMod+"/model3d" || p.PkgPath == repoMod+"/model2d" || p.PkgPath == repoMod+"/numerical") {
				if _, all := queryInterfaces["toolbox3d"]; all || qAllExported {
					ms := types.NewMethodSet(ptr)
					for i := 0; i < ms.Len(); i++ {
						f, _ := ms.At(i).Obj().(*types.Func)
						if f == nil || !f.Exported() || seen[f] {
							continue
						}
						fn := c.Prog.FuncValue(f)
						if fn == nil || fn.Blocks == nil {
							continue
						}
						seen[f] = true
						targets = append(targets, target{fn, "query method of " + n + " (" + why + ")", objName(f)})
					}
				}
			}
			// Mesh read methods
			if _, all := queryInterfaces["toolbox3d"]; all && n == "Mesh" && (p.PkgPath == repoMod+"/model3d" || p.PkgPath == repoMod+"/model2d") {
				for i := 0; i < named.NumMethods(); i++ {
					f := named.Method(i)
					// exported methods only: an unexported helper is judged through
					// the summaries of the exported methods that call it (a helper
					// that mutates a fresh copy on behalf of its caller is no query)
					if meshMutators[f.Name()] || seen[f] || !f.Exported() {
						continue
					}
					fn := c.Prog.FuncValue(f)
					if fn == nil || fn.Blocks == nil {
						continue
					}
					seen[f] = true
					targets = append(targets, target{fn, "read method of Mesh", objName(f)})
				}
			}
		}
	}
	var fns []*ssa.Function
	for _, t := range targets {
		fns = append(fns, t.fn)
	}
	eng.solve(fns...)
	for _, t := range targets {
		c.analysed(t.name)
		var bad []effect
		for _, ef := range eng.summaries[t.fn] {
			if ef.locked && !c.memoMode {
				continue
			}
			switch ef.root.kind {
			case rkParam:
				if t.fn.Signature.Recv() == nil {
					continue
				}
				if ef.root.idx != 0 && !isRayParam(t.fn, ef.root.idx) {
					continue // out-parameters, random sources, scratch maps: the caller's business
				}
			case rkGlobal:
				if isSyncGlobal(ef.root.name) {
					continue
				}
			default:
				continue
			}
			bad = append(bad, ef)
		}
		key := t.name
		if len(bad) == 0 {
			c.ok(rule, key, t.fn.Pos(), fmt.Sprintf("%s; %d write effects, none on receiver-reachable or global memory", t.why, len(eng.summaries[t.fn])))
			if len(eng.summaries[t.fn]) == 0 {
				c.Obs[len(c.Obs)-1].Trivial = true
			}
			continue
		}
		ef := bad[0]
		detail := fmt.Sprintf("%s: %s to memory reachable from %s at %s", t.why, ef.what, ef.root, c.pos(ef.pos))
		if ef.via != "" {
			detail += " via " + ef.via
		}
		if reason, ok := qException(t.name, ef); ok {
			c.except(rule, key, t.fn.Pos(), reason)
			continue
		}
		if ef.root.kind == rkParam && ef.root.idx != 0 {
			c.bad(rule, key, t.fn.Pos(), detail+" (the query's own ray is modified: callers reuse one ray for several objects and samples)")
			continue
		}
		if c.memoMode {
			c.bad(rule, key, t.fn.Pos(), detail+" (a query that stores into its receiver keeps a cache; it goes stale when a field it was computed from is changed, and it races unless synchronised)")
		} else {
			c.bad(rule, key, t.fn.Pos(), detail+" (concurrent queries would race)")
		}
	}
}

// qAllExported: also for runs over a subset of the interfaces (C04, C17, C20)
var qAllExported = false

// qMutators: exported methods of query types that are documented to modify
// their receiver (not safe for concurrent use by contract).
var qMutators = map[string]map[string]bool{
	"Mesh":    {"Add": true, "AddMesh": true, "AddQuad": true, "Remove": true},
	"RectSet": {"Add": true, "AddRectSet": true, "Remove": true, "RemoveRectSet": true},
}

// isRayParam: parameter idx of fn is a *Ray of the library - the query itself,
// which a query method must leave as it found it (callers reuse one ray for
// several objects and samples).
func isRayParam(fn *ssa.Function, idx int) bool {
	if idx < 0 || idx >= len(fn.Params) {
		return false
	}
	pt, ok := fn.Params[idx].Type().(*types.Pointer)
	if !ok {
		return false
	}
	n, ok := pt.Elem().(*types.Named)
	return ok && n.Obj().Name() == "Ray" && n.Obj().Pkg() != nil && strings.HasPrefix(n.Obj().Pkg().Path(), repoMod+"/model")
}

func qException(name string, ef effect) (string, bool) {
	return "", false
}
