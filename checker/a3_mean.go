package main

// A3.MEAN — the divisor of a running mean equals the number of accumulated
// samples.
//
// A mean expression is  A.Scale(1 / float64(B))  with A a local accumulator
// (events: "A = A.Add(x)") and B an integer variable. Obligations:
//   - every mean expression evaluated outside the accumulation loops of A
//     (a "final" mean), and
//   - every mean expression whose value is assigned to a variable that some
//     return statement of the function mentions (an early-exit mean),
// must be evaluated in a state where (#accumulations - B) == 0 on every path.
// Means computed inside the loop only to decide about stopping are not the
// pixel and are not obligations.

import (
	"fmt"
	"go/ast"
	"go/constant"
	"go/token"
	"go/types"

	"golang.org/x/tools/go/packages"
)

type meanExpr struct {
	call    *ast.CallExpr
	accum   *types.Var
	counter *ast.Ident
}

// hoistedDef: "k := <rhs>" in a statement list, with the statements that
// follow it in that list.
type hoistedDef struct {
	rhs  ast.Expr
	rest []ast.Stmt
}

// validAt: the use at pos lies in one of the following statements of the same
// list and no statement of the list up to (and including the part before) it
// assigns the counter the definition reads or the accumulator.
func (h hoistedDef) validAt(info *types.Info, pos token.Pos, accum *types.Var) bool {
	bid := reciprocalOfCount(info, h.rhs)
	if bid == nil {
		return false
	}
	counter := info.Uses[bid]
	for _, st := range h.rest {
		dirty := false
		ast.Inspect(st, func(n ast.Node) bool {
			switch x := n.(type) {
			case *ast.AssignStmt:
				for _, l := range x.Lhs {
					if id, ok := l.(*ast.Ident); ok && (info.Uses[id] == counter || info.Uses[id] == types.Object(accum)) {
						dirty = true
					}
				}
			case *ast.IncDecStmt:
				if id, ok := x.X.(*ast.Ident); ok && info.Uses[id] == counter {
					dirty = true
				}
			}
			return true
		})
		if st.Pos() <= pos && pos <= st.End() {
			return !dirty
		}
		if dirty {
			return false
		}
	}
	return false
}

// reciprocalOfCount recognises 1 / float64(B) with B a local integer variable.
func reciprocalOfCount(info *types.Info, e ast.Expr) *ast.Ident {
	quo, ok := ast.Unparen(e).(*ast.BinaryExpr)
	if !ok || quo.Op != token.QUO {
		return nil
	}
	if tv := info.Types[quo.X]; tv.Value == nil || constant.Compare(constant.ToFloat(tv.Value), token.NEQ, constant.MakeFloat64(1)) {
		return nil
	}
	conv, ok := ast.Unparen(quo.Y).(*ast.CallExpr)
	if !ok || len(conv.Args) != 1 {
		return nil
	}
	if tv, ok := info.Types[conv.Fun]; !ok || !tv.IsType() {
		return nil
	}
	bid, ok := ast.Unparen(conv.Args[0]).(*ast.Ident)
	if !ok {
		return nil
	}
	bv, _ := info.Uses[bid].(*types.Var)
	if bv == nil || !isIntVar(bv) || bv.IsField() {
		return nil
	}
	return bid
}

func findMeanExprs(info *types.Info, body ast.Node) []meanExpr {
	var res []meanExpr
	hoisted := map[types.Object]hoistedDef{}
	ast.Inspect(body, func(n ast.Node) bool {
		var list []ast.Stmt
		switch x := n.(type) {
		case *ast.BlockStmt:
			list = x.List
		case *ast.CaseClause:
			list = x.Body
		}
		for i, st := range list {
			as, ok := st.(*ast.AssignStmt)
			if !ok || as.Tok != token.DEFINE || len(as.Lhs) != 1 || len(as.Rhs) != 1 {
				continue
			}
			id, ok := as.Lhs[0].(*ast.Ident)
			if !ok || info.Defs[id] == nil {
				continue
			}
			hoisted[info.Defs[id]] = hoistedDef{as.Rhs[0], list[i+1:]}
		}
		return true
	})
	ast.Inspect(body, func(n ast.Node) bool {
		call, ok := n.(*ast.CallExpr)
		if !ok || len(call.Args) != 1 {
			return true
		}
		sel, ok := call.Fun.(*ast.SelectorExpr)
		if !ok || sel.Sel.Name != "Scale" {
			return true
		}
		aid, ok := ast.Unparen(sel.X).(*ast.Ident)
		if !ok {
			return true
		}
		av, _ := info.Uses[aid].(*types.Var)
		if av == nil || av.IsField() {
			return true
		}
		arg := ast.Unparen(call.Args[0])
		if id, isID := arg.(*ast.Ident); isID {
			// k := 1 / float64(B) defined earlier in the same statement list, with
			// neither B nor the accumulator assigned in between
			if def, ok := hoisted[info.Uses[id]]; ok && def.validAt(info, call.Pos(), av) {
				arg = def.rhs
			}
		}
		bid := reciprocalOfCount(info, arg)
		if bid == nil {
			return true
		}
		res = append(res, meanExpr{call, av, bid})
		return true
	})
	return res
}

func (c *Ctx) runMean(pkgs []*packages.Package, rule string) {
	for _, p := range pkgs {
		if p == nil {
			continue
		}
		info := p.TypesInfo
		for _, file := range p.Syntax {
			for _, d := range file.Decls {
				fd, ok := d.(*ast.FuncDecl)
				if !ok || fd.Body == nil {
					continue
				}
				means := findMeanExprs(info, fd.Body)
				if len(means) == 0 {
					continue
				}
				c.meanFunc(p, fd, means, rule)
			}
		}
	}
}

func (c *Ctx) meanFunc(p *packages.Package, fd *ast.FuncDecl, means []meanExpr, rule string) {
	info := p.TypesInfo
	name := declName(p, fd)
	// group by accumulator
	byAccum := map[*types.Var][]meanExpr{}
	var order []*types.Var
	for _, m := range means {
		if byAccum[m.accum] == nil {
			order = append(order, m.accum)
		}
		byAccum[m.accum] = append(byAccum[m.accum], m)
	}
	// parents for "inside an accumulation loop"
	for _, accum := range order {
		ms := byAccum[accum]
		mode := a3Mode{accum: accum}
		mode.isDeleg = func(call *ast.CallExpr) (int, bool) { return countingCall(info, call) }
		a := newA3(c, info, mode, rule, name)
		a.collectAssigned(fd.Body)
		// is there any accumulation statement at all?
		hasAccum := false
		loops := map[ast.Node]bool{} // loops containing an accumulation of accum
		var stack []ast.Node
		ast.Inspect(fd.Body, func(n ast.Node) bool {
			if n == nil {
				stack = stack[:len(stack)-1]
				return true
			}
			stack = append(stack, n)
			if as, ok := n.(*ast.AssignStmt); ok && a.isAccumStmt(as) {
				hasAccum = true
				for _, anc := range stack {
					switch anc.(type) {
					case *ast.ForStmt, *ast.RangeStmt:
						// only loops that carry the accumulator (declared outside)
						if accum.Pos() < anc.Pos() || accum.Pos() > anc.End() {
							loops[anc] = true
						}
					}
				}
			}
			return true
		})
		if !hasAccum {
			continue // a plain scaling, not a running mean
		}
		c.analysed(name)
		inAccumLoop := map[*ast.CallExpr]bool{}
		stack = nil
		ast.Inspect(fd.Body, func(n ast.Node) bool {
			if n == nil {
				stack = stack[:len(stack)-1]
				return true
			}
			stack = append(stack, n)
			if call, ok := n.(*ast.CallExpr); ok {
				for _, anc := range stack {
					if loops[anc] {
						inAccumLoop[call] = true
					}
				}
			}
			return true
		})
		// counters
		for _, m := range ms {
			if v, ok := info.Uses[m.counter].(*types.Var); ok {
				if a.assignedVars[v] || !a.isParam(fd, v) {
					a.addKey([]*types.Var{v})
				}
			}
		}
		// variables assigned from a mean expression and mentioned by a return
		returned := map[*ast.CallExpr]bool{}
		assignedFrom := map[*types.Var][]*ast.CallExpr{}
		ast.Inspect(fd.Body, func(n ast.Node) bool {
			as, ok := n.(*ast.AssignStmt)
			if !ok || len(as.Lhs) != len(as.Rhs) {
				return true
			}
			for i, r := range as.Rhs {
				for _, m := range ms {
					if ast.Unparen(r) == ast.Expr(m.call) {
						if id, ok := as.Lhs[i].(*ast.Ident); ok {
							if v, ok := identObj(info, id).(*types.Var); ok {
								assignedFrom[v] = append(assignedFrom[v], m.call)
							}
						}
					}
				}
			}
			return true
		})
		ast.Inspect(fd.Body, func(n ast.Node) bool {
			switch x := n.(type) {
			case *ast.FuncLit:
				return false
			case *ast.ReturnStmt:
				for _, r := range x.Results {
					ast.Inspect(r, func(m ast.Node) bool {
						if id, ok := m.(*ast.Ident); ok {
							if v, ok := info.Uses[id].(*types.Var); ok {
								for _, call := range assignedFrom[v] {
									returned[call] = true
								}
							}
						}
						return true
					})
				}
			}
			return true
		})
		results := map[*ast.CallExpr]lin{}
		a.onCall = func(st *a3State, call *ast.CallExpr) {
			for _, m := range ms {
				if m.call == call {
					results[call] = a.eMinus(st, m.counter)
				}
			}
		}
		init := a3State{E: linConst(0), D: map[*types.Var]lin{}}
		for k, mem := range a.members {
			init.D[k] = linConst(0)
			for _, v := range mem {
				if a.isParam(fd, v) {
					init.D[k] = linTop()
				}
			}
		}
		a.block(fd.Body.List, init)
		for i, m := range ms {
			final := !inAccumLoop[m.call]
			if !final && !returned[m.call] {
				continue
			}
			kind := "final mean"
			if !final {
				kind = "early-exit mean (its value is returned)"
			}
			key := fmt.Sprintf("%s mean#%d %s/%s", name, i+1, accum.Name(), m.counter.Name)
			d, seen := results[m.call]
			switch {
			case !seen:
				c.problem("%s: mean expression not reached by the analysis", key)
			case d.isZero():
				c.ok(rule, key, m.call.Pos(), kind+": #accumulations - divisor = 0 on every path")
			default:
				c.bad(rule, key, m.call.Pos(), fmt.Sprintf("%s: #accumulations into %s - divisor %s = %s on some path", kind, accum.Name(), m.counter.Name, d))
			}
		}
		for _, u := range a.unsupported {
			c.problem("%s: construct not supported by the counter analysis: %s", name, u)
		}
	}
}
