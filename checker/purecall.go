package main

import (
	"fmt"
	"go/types"
	"strings"

	"golang.org/x/tools/go/packages"
	"golang.org/x/tools/go/ssa"
)

// PURECALL: a call whose results are all discarded does something only
// through its side effects. Where the callee is a library function that
// returns a value other than an error and whose write-effect summary (A4) shows
// no write to parameter-reachable, captured or global memory outside a lock,
// the statement does nothing: the computed value was meant to be used (a lost
// update: `msSearch(...)` for `mesh = msSearch(...)`).
func (c *Ctx) runPureCall(rule string, eng *effEngine, pkgs []*packages.Package, filter func(fn *ssa.Function) bool) {
	type site struct {
		fn   *ssa.Function
		call *ssa.Call
	}
	var sites []site
	var callees []*ssa.Function
	for _, p := range pkgs {
		if p == nil {
			continue
		}
		for _, fn := range c.srcFuncs(p) {
			if filter != nil && !filter(fn) {
				continue
			}
			for _, b := range fn.Blocks {
				for _, ins := range b.Instrs {
					call, ok := ins.(*ssa.Call)
					if !ok || call.Referrers() == nil || len(*call.Referrers()) != 0 {
						continue
					}
					f := call.Call.StaticCallee()
					if f == nil || f.Blocks == nil || !(strings.HasPrefix(pkgPathOf(f), repoMod) || strings.HasPrefix(pkgPathOf(f), "verif/fixtures")) {
						continue
					}
					res := f.Signature.Results()
					valued := false
					for i := 0; i < res.Len(); i++ {
						if !types.Identical(res.At(i).Type(), types.Universe.Lookup("error").Type()) {
							valued = true
						}
					}
					if !valued {
						continue
					}
					// a callback argument is the effect
					hasFunc := false
					for _, a := range call.Call.Args {
						if _, isSig := a.Type().Underlying().(*types.Signature); isSig {
							if k, isC := a.(*ssa.Const); !isC || !k.IsNil() {
								hasFunc = true
							}
						}
					}
					if hasFunc {
						continue
					}
					sites = append(sites, site{fn, call})
					callees = append(callees, f)
				}
			}
		}
	}
	eng.solve(callees...)
	count := map[*ssa.Function]int{}
	for _, s := range sites {
		f := s.call.Call.StaticCallee()
		count[s.fn]++
		c.analysed(qname(s.fn))
		key := fmt.Sprintf("%s discarded call#%d of %s", qname(s.fn), count[s.fn], f.Name())
		writes := false
		for _, ef := range eng.summaries[f] {
			if ef.locked {
				continue
			}
			switch ef.root.kind {
			case rkGlobal:
				if isSyncGlobal(ef.root.name) {
					continue
				}
			}
			writes = true
		}
		// panics and channel operations are effects as well
		if !writes && mayPanicOrBlock(f, map[*ssa.Function]bool{}, 0) {
			writes = true
		}
		if writes {
			c.ok(rule, key, s.call.Pos(), "the callee has side effects; discarding its result can be deliberate")
		} else {
			c.bad(rule, key, s.call.Pos(), "the result of "+f.Name()+" is discarded although the call has no side effect (no write to memory its caller can see): the statement does nothing, the value was meant to be used")
		}
	}
}

// mayPanicOrBlock: explicit panic, channel send/receive or go statement in f or
// (two levels of) its static callees: such a call may be made for that effect
// (validation helpers).
func mayPanicOrBlock(f *ssa.Function, seen map[*ssa.Function]bool, depth int) bool {
	if seen[f] || depth > 2 {
		return false
	}
	seen[f] = true
	for _, b := range f.Blocks {
		for _, ins := range b.Instrs {
			switch x := ins.(type) {
			case *ssa.Panic, *ssa.Send, *ssa.Go, *ssa.Select:
				return true
			case *ssa.UnOp:
				if x.Op.String() == "<-" {
					return true
				}
			case *ssa.Call:
				if g := x.Call.StaticCallee(); g != nil && g.Blocks != nil && mayPanicOrBlock(g, seen, depth+1) {
					return true
				}
			}
		}
	}
	return false
}
