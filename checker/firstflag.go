package main

import (
	"fmt"
	"go/token"
	"go/types"

	"golang.org/x/tools/go/packages"
	"golang.org/x/tools/go/ssa"
)

// FIRSTFLAG: the flag variant of FIRSTITER. A boolean "nothing seen yet" flag
// selects between initialising an accumulator (acc = v) and folding into it
// (acc = acc.Min(v)). The flag has to be cleared where the initialisation
// happens. Reported: inside a loop L the branch on the flag overwrites an
// accumulator that is carried around L, while the flag itself cannot change
// during L (it is only changed in an enclosing loop) - on the first pass of the
// enclosing loop every iteration of L re-initialises, and all but the last
// element of that pass are forgotten.
func (c *Ctx) runFirstFlag(rule string, pkgs []*packages.Package, filter func(fn *ssa.Function) bool) {
	isBool := func(t types.Type) bool {
		b, ok := t.Underlying().(*types.Basic)
		return ok && b.Kind() == types.Bool
	}
	for _, p := range pkgs {
		if p == nil {
			continue
		}
		for _, fn := range c.srcFuncs(p) {
			if filter != nil && !filter(fn) {
				continue
			}
			loops := naturalLoops(fn)
			n := 0
			for head, body := range loops {
				// accumulators of this loop: non-bool header phis
				var accs []*ssa.Phi
				for _, ins := range head.Instrs {
					if phi, ok := ins.(*ssa.Phi); ok && !isBool(phi.Type()) {
						accs = append(accs, phi)
					}
				}
				if len(accs) == 0 {
					continue
				}
				for b := range body {
					ifi, ok := b.Instrs[len(b.Instrs)-1].(*ssa.If)
					if !ok {
						continue
					}
					flag := ifi.Cond
					if un, ok := flag.(*ssa.UnOp); ok && un.Op == token.NOT {
						flag = un.X
					}
					fphi, ok := flag.(*ssa.Phi)
					if !ok || !isBool(fphi.Type()) {
						continue
					}
					// the flag is a flag: a loop-carried boolean fed by constants
					constFed := false
					for _, e := range fphi.Edges {
						if _, isC := e.(*ssa.Const); isC {
							constFed = true
						}
					}
					if !constFed && !flagFedByConst(fphi, 0) {
						continue
					}
					// does an accumulator of THIS loop get overwritten in one branch
					// and folded in the other?
					for _, acc := range accs {
						over, fold := false, false
						for i, e := range acc.Edges {
							pred := head.Preds[i]
							if !body[pred] {
								continue
							}
							classifyAccEdge(e, acc, &over, &fold, 0)
						}
						if !over || !fold {
							continue
						}
						n++
						c.analysed(qname(fn))
						key := fmt.Sprintf("%s first-element flag#%d", qname(fn), n)
						at := ifi.Cond.Pos()
						for _, bi := range b.Instrs {
							if at.IsValid() {
								break
							}
							at = bi.Pos()
						}
						if !at.IsValid() {
							at = fn.Pos()
						}
						// can the flag change inside this loop?
						changes := true
						if fphi.Block() == head {
							changes = false
							for i, e := range fphi.Edges {
								if body[head.Preds[i]] && e != ssa.Value(fphi) {
									changes = true
								}
							}
						} else if !body[fphi.Block()] {
							changes = false // defined outside: invariant here
						}
						if changes {
							c.ok(rule, key, at, "the flag is cleared inside the loop that initialises the accumulator")
						} else {
							c.bad(rule, key, at, "the flag that selects 'initialise' instead of 'fold' cannot change during this loop (it is only cleared in an enclosing loop): every iteration of the first pass overwrites the accumulator and all but the last element of that pass are forgotten")
						}
					}
				}
			}
		}
	}
}

func flagFedByConst(phi *ssa.Phi, depth int) bool {
	if depth > 3 {
		return false
	}
	for _, e := range phi.Edges {
		switch x := e.(type) {
		case *ssa.Const:
			return true
		case *ssa.Phi:
			if x != phi && flagFedByConst(x, depth+1) {
				return true
			}
		}
	}
	return false
}

// classifyAccEdge: the value carried back into the accumulator phi is (a phi
// of) values that either depend on the accumulator (fold) or do not (overwrite).
func classifyAccEdge(v ssa.Value, acc *ssa.Phi, over, fold *bool, depth int) {
	if depth > 4 {
		return
	}
	if v == ssa.Value(acc) {
		return // unchanged on this path
	}
	if phi, ok := v.(*ssa.Phi); ok && phi != acc {
		for _, e := range phi.Edges {
			classifyAccEdge(e, acc, over, fold, depth+1)
		}
		return
	}
	if dependsOn(v, acc, 0) {
		*fold = true
	} else {
		*over = true
	}
}

func dependsOn(v ssa.Value, target ssa.Value, depth int) bool {
	if v == target {
		return true
	}
	if depth > 5 {
		return false
	}
	ins, ok := v.(ssa.Instruction)
	if !ok {
		return false
	}
	if _, isPhi := v.(*ssa.Phi); isPhi {
		return false
	}
	for _, op := range ins.Operands(nil) {
		if *op != nil && dependsOn(*op, target, depth+1) {
			return true
		}
	}
	return false
}
