package main

import (
	"flag"
	"fmt"
	"os"
	"runtime/debug"
	"sort"
	"time"
)

var props = map[string]*propInfo{}

func register(id string, info *propInfo) { props[id] = info }

func main() {
	prop := flag.String("prop", "", "property id (C01...)")
	tier := flag.String("tier", "quick", "quick|thorough")
	repo := flag.String("repo", "/repo", "repository working tree to analyse")
	verif := flag.String("verif", "/verif", "verif directory (fixtures, known findings, evidence)")
	noSelf := flag.Bool("no-selftest", false, "skip the sensitivity self-test (thorough)")
	list := flag.Bool("list", false, "list properties")
	flag.Parse()
	if *list {
		ids := []string{}
		for id := range props {
			ids = append(ids, id)
		}
		sort.Strings(ids)
		for _, id := range ids {
			fmt.Println(id)
		}
		return
	}
	info := props[*prop]
	if info == nil {
		fmt.Printf("CHECK-UNDECIDED: unknown property %q\n", *prop)
		os.Exit(2)
	}
	if v := os.Getenv("VERIF_TIER"); v != "" && *tier == "" {
		*tier = v
	}
	os.Exit(run(info, *prop, *tier, *repo, *verif, *noSelf))
}

func run(info *propInfo, prop, tier, repo, verif string, noSelf bool) (code int) {
	start := time.Now()
	c := &Ctx{Prop: prop, Tier: tier, Repo: repo, VerifDir: verif, Extra: map[string]interface{}{}}
	defer func() {
		if r := recover(); r != nil {
			fmt.Printf("CHECK-UNDECIDED: analyser panic: %v\n%s\n", r, debug.Stack())
			code = 2
		}
	}()
	if err := c.load(info.Fixtures, tier == "thorough"); err != nil {
		for _, p := range c.Problems {
			fmt.Println("CHECK-UNDECIDED:", p)
		}
		fmt.Printf("CHECK-UNDECIDED: cannot load %s: %v\n", repo, err)
		return 2
	}
	info.Run(c)
	if tier == "thorough" && !noSelf && len(info.SelfTest) > 0 {
		c.SelfTest = runSelfTest(c, info)
	}
	return c.finish(info, start)
}
