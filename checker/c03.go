package main

import (
	"strings"

	"golang.org/x/tools/go/ssa"
)

func init() {
	register("C03", &propInfo{
		Explanation: "GD: the library's only wrapper around arbitrary predicates (CheckedFuncSolid, 2D and 3D) calls the predicate only after both bound tests; no library function builds a solid with the unchecked FuncSolid; the Contains methods whose membership test is defined outside their box return non-false only under InBounds(receiver, point). UNIT: bound expressions in bounder.go, solid.go, shapes.go, metaball.go, polytope.go and the toolbox parts are dimensionally consistent (a bound is a length). ABSORB: no bound is computed as x.Max(y.Min(x)) / x.Min(y.Max(x)). GD.BOX: ForceSolidBounds and CacheSolidBounds never hand their argument back as it came. GD.WARP: a Contains method whose type inherits Min/Max from an embedded object and asks that object about a remapped point tests InBounds(receiver, point) first. BOUNDFOLD: a Min/Max method of a list combinator that asks its members for their bounds in a loop combines them with Coord.Min/Max in that loop. AXISCMP: two different coordinates are compared component by component on the same axis. BOUNDDIR: within one combinator type the operands' lower bounds are always folded with one of Coord.Min/Max and the upper bounds with the other.",
		Trusted:     append([]string{"the table of Contains methods that need an explicit InBounds guard (checker/gd.go, 10 rows with reasons, confirmed by reading)"}, unitTrusted...),
		Fixtures:    []string{"g", "u"},
		Run: func(c *Ctx) {
			c.runGuardDominance("GD")
			c.floor("GD.INB", 10)
			c.floor("GD.CHK", 2)
			c.floor("GD.RAW", 2)
			c.floor("GD.BOX", 4)
			c.runWarpGuard("GD.WARP", append(c.libPkgs()[:4:4], c.fixturePkg("g")))
			c.floor("GD.WARP", 0)
			pkgs := c.unitPkgs("u")
			ff := c.fileFilter("bounder.go", "solid.go", "shapes.go", "metaball.go", "polytope.go", "transform.go",
				"screw.go", "teardrop.go", "ramp.go", "clamp.go", "gear.go", "height_map.go", "line_join.go", "radial_curve.go", "rect_set.go", "slice.go")
			// Scope: the files that define solids, their bounds and the toolbox
			// parts, minus collider methods (a collider is not a solid: changes to
			// ray/ball queries leave this property alone and are watched by C07).
			solidFns := func(fn *ssa.Function) bool {
				if !ff(fn) {
					return false
				}
				for f := fn; f != nil; f = f.Parent() {
					if f.Signature.Recv() != nil && strings.Contains(strings.ToLower(typeNameOf(f.Signature.Recv().Type())), "collider") {
						return false
					}
				}
				return true
			}
			unitOriginRule = "ORIGIN"
			c.runUnits("UNIT", pkgs, solidFns)
			unitOriginRule = ""
			c.floor("ORIGIN", 30)
			c.floor("UNIT", 100)
			solidFiles := baseIn("bounder.go", "solid.go", "shapes.go", "metaball.go", "polytope.go", "transform.go",
				"screw.go", "teardrop.go", "ramp.go", "clamp.go", "gear.go", "height_map.go", "line_join.go", "radial_curve.go", "rect_set.go", "slice.go")
			c.runArgSwap("ARGSWAP", pkgs, solidFiles, func(a, b string) bool { return a == "min" && b == "max" || a == "max" && b == "min" })
			c.floor("ARGSWAP", 8)
			c.runAbsorption("ABSORB", append(c.libPkgs()[:3:3], c.fixturePkg("g")), nil)
			c.floor("ABSORB", 100)
			c.runBoundDirection("BOUNDDIR", c.libPkgs()[:3], nil)
			c.floor("BOUNDDIR", 4)
			c.runAxisCompare("AXISCMP", append(c.libPkgs()[:4:4], c.fixturePkg("u")), solidFns)
			c.floor("AXISCMP", 0)
			c.runBoundFold("BOUNDFOLD", append(c.libPkgs()[:3:3], c.fixturePkg("g")), nil)
			c.floor("BOUNDFOLD", 6)
			c.runFieldCanon("FIELDCANON", append(c.libPkgs()[:4:4], c.fixturePkg("g")))
			c.floor("FIELDCANON", 1)
			c.runCanonFirst("CANON", append(c.libPkgs()[:4:4], c.fixturePkg("g")))
			c.floor("CANON", 1)
		},
		SelfTest: []Mutation{
			{Name: "CacheSolidBounds hands back an existing function solid unchecked", File: "model3d/solid.go",
				Old: "func CacheSolidBounds(s Solid) Solid {\n", New: "func CacheSolidBounds(s Solid) Solid {\n\tif f, ok := s.(*funcSolid); ok {\n\t\treturn f\n\t}\n", Rule: "GD.BOX", Expect: "CacheSolidBounds"},
			{Name: "ramp answers for a rescaled point under the wrapped solid's box (defect repaired in db8a90e)", File: "toolbox3d/ramp.go",
				Old: "\tif !model3d.InBounds(r, c) {\n\t\treturn false\n\t}\n\taxis := r.P2.Sub(r.P1)", New: "\taxis := r.P2.Sub(r.P1)", Rule: "GD.WARP", Expect: "Ramp"},
			{Name: "height map solid checks only z", File: "toolbox3d/height_map.go",
				Old: "return model3d.InBounds(h, c) && h.heightMap.HigherAt(c.XY(), math.Abs(c.Z))", New: "return c.Z >= h.Min().Z && c.Z <= h.Max().Z && h.heightMap.HigherAt(c.XY(), math.Abs(c.Z))", Rule: "GD.INB", Expect: "heightMapSolid"},
			{Name: "CheckedFuncSolid forgets the upper bound", File: "model3d/solid.go",
				Old: "return c.Min(min) == min && c.Max(max) == max && f(c)", New: "return c.Min(min) == min && f(c)", Rule: "GD.CHK", Expect: "model3d"},
			{Name: "ForceSolidBounds uses the unchecked constructor", File: "model2d/solid.go",
				Old: "\treturn CheckedFuncSolid(min, max, s.Contains)", New: "\treturn FuncSolid(min, max, s.Contains)", Rule: "GD.RAW", Expect: "ForceSolidBounds"},
			{Name: "mirrored scale collapses its bounds", File: "model3d/transform.go",
				Old: "\treturn min.Min(max), max.Max(min)", New: "\tmin = min.Min(max)\n\tmax = max.Max(min)\n\treturn min, max", All: true, Rule: "ABSORB", Expect: "ApplyBounds"},
			{Name: "sphere bounds use the squared radius", File: "model3d/shapes.go",
				Old: "return s.Center.AddScalar(-s.Radius)", New: "return s.Center.AddScalar(-s.Radius * s.Radius)", Rule: "UNIT", Expect: "Sphere"},
			{Name: "collider solid skips its box test", File: "model3d/solid.go",
				Old: "\tif !InBounds(c, coord) {\n\t\treturn false\n\t}\n\tif c.radius != 0 {", New: "\tif c.radius != 0 {", Rule: "GD.INB", Expect: "ColliderSolid"},
		},
	})
}
