package main

import (
	"fmt"
	"go/token"

	"golang.org/x/tools/go/packages"
	"golang.org/x/tools/go/ssa"
)

// POWABS: math.Pow(x, p) is NaN for negative x unless p is an integer. Where
// the base is a component of a coordinate (no sign is implied by the type) and
// the exponent is not a constant, the coordinate has to be an absolute value:
// the result of Coord.Abs(), or a component tested against zero.
func (c *Ctx) runPowAbs(rule string, pkgs []*packages.Package, filter func(fn *ssa.Function) bool) {
	for _, p := range pkgs {
		if p == nil {
			continue
		}
		for _, fn := range c.srcFuncs(p) {
			if filter != nil && !filter(fn) {
				continue
			}
			n := 0
			for _, b := range fn.Blocks {
				for _, ins := range b.Instrs {
					call, ok := ins.(*ssa.Call)
					if !ok {
						continue
					}
					f := call.Call.StaticCallee()
					if f == nil || f.Pkg == nil || f.Pkg.Pkg.Path() != "math" || f.Name() != "Pow" {
						continue
					}
					if _, isC := call.Call.Args[1].(*ssa.Const); isC {
						continue
					}
					var vec ssa.Value
					switch x := call.Call.Args[0].(type) {
					case *ssa.Field:
						if isCoordType(x.X.Type()) {
							vec = x.X
						}
					case *ssa.UnOp:
						if fa, isFA := x.X.(*ssa.FieldAddr); isFA && x.Op == token.MUL && isCoordType(fa.X.Type()) {
							vec = fa.X
							// a spilled local: what was stored into it
							if al, isAl := fa.X.(*ssa.Alloc); isAl {
								for _, ref := range *al.Referrers() {
									if st, isSt := ref.(*ssa.Store); isSt && st.Addr == ssa.Value(al) {
										vec = st.Val
									}
								}
							}
						}
					}
					if vec == nil {
						continue
					}
					n++
					c.analysed(qname(fn))
					key := fmt.Sprintf("%s pow#%d", qname(fn), n)
					abs := false
					if vc, isCall := vec.(*ssa.Call); isCall {
						if vf := vc.Call.StaticCallee(); vf != nil && vf.Name() == "Abs" {
							abs = true
						}
					}
					if abs || absByBranch(call.Call.Args[0], b) {
						c.ok(rule, key, call.Pos(), "the base is a component of an absolute-value vector")
					} else {
						c.bad(rule, key, call.Pos(), "a coordinate component of unknown sign is raised to a non-constant power: the result is NaN for negative components unless the exponent is an integer")
					}
				}
			}
		}
	}
}
