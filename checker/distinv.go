package main

import (
	"go/types"

	"golang.org/x/tools/go/packages"
	"golang.org/x/tools/go/ssa"
)

// DISTINV: the inverse of a distance-preserving-up-to-scale transform is one
// too. For every concrete type that implements DistTransform, each value its
// Inverse method returns has a concrete type that implements DistTransform as
// well (wrappers of colliders, SDFs and metaballs assert inverse.(DistTransform)
// and panic otherwise). Returns whose concrete type cannot be seen (the result
// of another call) are accepted.
func (c *Ctx) runDistInverse(rule string, pkgs []*packages.Package) {
	for _, p := range pkgs {
		if p == nil {
			continue
		}
		tn, _ := p.Types.Scope().Lookup("DistTransform").(*types.TypeName)
		if tn == nil {
			continue
		}
		iface, ok := tn.Type().Underlying().(*types.Interface)
		if !ok {
			continue
		}
		for _, fn := range c.srcFuncs(p) {
			if fn.Name() != "Inverse" || fn.Signature.Recv() == nil || fn.Parent() != nil {
				continue
			}
			rt := fn.Signature.Recv().Type()
			if !types.Implements(rt, iface) && !types.Implements(types.NewPointer(rt), iface) {
				continue
			}
			c.analysed(qname(fn))
			key := qname(fn) + " returns a DistTransform"
			bad := ""
			for _, b := range fn.Blocks {
				ret, ok := b.Instrs[len(b.Instrs)-1].(*ssa.Return)
				if !ok || len(ret.Results) != 1 {
					continue
				}
				var visit func(v ssa.Value, depth int)
				visit = func(v ssa.Value, depth int) {
					if depth > 4 {
						return
					}
					switch x := v.(type) {
					case *ssa.MakeInterface:
						if !types.Implements(x.X.Type(), iface) {
							bad = types.TypeString(x.X.Type(), nil)
						}
					case *ssa.Phi:
						for _, e := range x.Edges {
							visit(e, depth+1)
						}
					case *ssa.ChangeInterface:
						visit(x.X, depth+1)
					}
				}
				visit(ret.Results[0], 0)
			}
			if bad != "" {
				c.bad(rule, key, fn.Pos(), "Inverse of a DistTransform returns a "+bad+", which has no ApplyDistance: TransformCollider, TransformSDF and the metaball wrappers assert inverse.(DistTransform) and panic")
			} else {
				c.ok(rule, key, fn.Pos(), "every concrete value returned implements DistTransform")
			}
		}
	}
}

// ENDIAN: a function that is given the byte order to use (a parameter of type
// binary.ByteOrder) encodes and decodes everything with it; a hard-wired
// binary.LittleEndian / binary.BigEndian inside such a function writes part of
// the record in the wrong order for one of the two formats.
func (c *Ctx) runEndian(rule string, pkgs []*packages.Package) {
	isByteOrder := func(t types.Type) bool {
		n, ok := t.(*types.Named)
		return ok && n.Obj().Pkg() != nil && n.Obj().Pkg().Path() == "encoding/binary" && n.Obj().Name() == "ByteOrder"
	}
	for _, p := range pkgs {
		if p == nil {
			continue
		}
		for _, fn := range c.srcFuncs(p) {
			has := false
			for f := fn; f != nil && !has; f = f.Parent() {
				for _, prm := range f.Params {
					if isByteOrder(prm.Type()) {
						has = true
					}
				}
			}
			if !has {
				continue
			}
			c.analysed(qname(fn))
			key := qname(fn) + " uses the byte order it is given"
			bad := ssa.Instruction(nil)
			name := ""
			for _, b := range fn.Blocks {
				for _, ins := range b.Instrs {
					for _, op := range ins.Operands(nil) {
						if *op == nil {
							continue
						}
						v := *op
						if un, ok := v.(*ssa.UnOp); ok {
							v = un.X
						}
						if g, ok := v.(*ssa.Global); ok && g.Pkg != nil && g.Pkg.Pkg.Path() == "encoding/binary" && (g.Name() == "LittleEndian" || g.Name() == "BigEndian") {
							bad, name = ins, g.Name()
						}
					}
				}
			}
			if bad != nil {
				at := bad.Pos()
				if !at.IsValid() {
					at = fn.Pos()
				}
				c.bad(rule, key, at, "binary."+name+" is used inside a function that is given the byte order as a parameter: that part of the record is written or read in a fixed order whatever the format says")
			} else {
				c.ok(rule, key, fn.Pos(), "no hard-wired byte order")
			}
		}
	}
}
