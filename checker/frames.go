package main

// FRAME — coordinate frames in transformed wrappers.
//
// A wrapper (a method of a struct with a Transform-typed field, or a closure
// that captures a Transform) answers queries in the OUTER (world) frame by
// asking an inner object in the INNER (object) frame. Values are tagged:
//   parameters of the wrapper (points, lengths, rays)           OUTER
//   inverse.Apply(x) / inverse.ApplyDistance(x)                  INNER (x must be OUTER)
//   forward.Apply(x) / forward.ApplyDistance(x)                  OUTER (x must be INNER)
//   results of the inner object's methods                        INNER
// "inverse" is a value derived from X.Inverse() (directly, or a field/captured
// variable that is assigned such a value); any other Transform is "forward".
// Reported (definite conflicts only): a forward map applied to an OUTER value,
// an inverse map applied to an INNER value, and an OUTER point/length/ray handed
// to the inner object.

import (
	"fmt"
	"go/token"
	"go/types"

	"golang.org/x/tools/go/packages"
	"golang.org/x/tools/go/ssa"
)

const (
	frUnknown = iota
	frOuter
	frInner
)

func frameName(f int) string {
	return map[int]string{frUnknown: "unknown", frOuter: "world-frame", frInner: "object-frame"}[f]
}

func isTransformType(t types.Type) bool {
	n, ok := t.(*types.Named)
	if !ok || n.Obj().Pkg() == nil {
		return false
	}
	if n.Obj().Name() != "Transform" && n.Obj().Name() != "DistTransform" {
		return false
	}
	p := n.Obj().Pkg().Path()
	return p == repoMod+"/model3d" || p == repoMod+"/model2d"
}

func isInnerObjectType(t types.Type) bool {
	n, ok := t.(*types.Named)
	if !ok || n.Obj().Pkg() == nil {
		return false
	}
	if _, isI := n.Underlying().(*types.Interface); !isI {
		return false
	}
	switch n.Obj().Name() {
	case "Solid", "SDF", "PointSDF", "NormalSDF", "FaceSDF", "Collider", "Metaball",
		"TriangleCollider", "SegmentCollider", "RectCollider", "MultiCollider":
		return true
	}
	return false
}

type frameEngine struct {
	c         *Ctx
	invFields map[*types.Var]bool
	memoInv   map[ssa.Value]int // 1 inverse, 2 forward
	// frames of helper-method parameters, joined over the call sites inside
	// wrappers (-1: the sites disagree)
	paramFrames map[*ssa.Parameter]int
}

// inverseDerived: is the Transform value an inverse (true) or forward (false)?
func (e *frameEngine) inverseDerived(v ssa.Value, depth int) bool {
	if depth > 12 {
		return false
	}
	switch x := v.(type) {
	case *ssa.Call:
		name := ""
		if x.Call.IsInvoke() {
			name = x.Call.Method.Name()
		} else if f := x.Call.StaticCallee(); f != nil {
			name = f.Name()
		}
		if name == "Inverse" {
			var recv ssa.Value
			if x.Call.IsInvoke() {
				recv = x.Call.Value
			} else if len(x.Call.Args) > 0 {
				recv = x.Call.Args[0]
			}
			return !e.inverseDerived(recv, depth+1)
		}
	case *ssa.TypeAssert:
		return e.inverseDerived(x.X, depth+1)
	case *ssa.Extract:
		return e.inverseDerived(x.Tuple, depth+1)
	case *ssa.ChangeInterface:
		return e.inverseDerived(x.X, depth+1)
	case *ssa.MakeInterface:
		return e.inverseDerived(x.X, depth+1)
	case *ssa.Phi:
		for _, ed := range x.Edges {
			if e.inverseDerived(ed, depth+1) {
				return true
			}
		}
	case *ssa.UnOp:
		if x.Op != token.MUL {
			return false
		}
		switch a := x.X.(type) {
		case *ssa.FieldAddr:
			if f := fieldOf(a); f != nil {
				return e.invFields[f]
			}
		case *ssa.FreeVar:
			return e.freeVarInverse(a, depth+1)
		case *ssa.Alloc:
			for _, ref := range *a.Referrers() {
				if st, ok := ref.(*ssa.Store); ok && st.Addr == ssa.Value(a) && e.inverseDerived(st.Val, depth+1) {
					return true
				}
			}
		}
	case *ssa.FreeVar:
		return e.freeVarInverse(x, depth+1)
	}
	return false
}

func (e *frameEngine) freeVarInverse(fv *ssa.FreeVar, depth int) bool {
	fn := fv.Parent()
	parent := fn.Parent()
	if parent == nil {
		return false
	}
	idx := -1
	for i, f := range fn.FreeVars {
		if f == fv {
			idx = i
		}
	}
	for _, b := range parent.Blocks {
		for _, ins := range b.Instrs {
			mc, ok := ins.(*ssa.MakeClosure)
			if !ok || mc.Fn != ssa.Value(fn) || idx >= len(mc.Bindings) {
				continue
			}
			bnd := mc.Bindings[idx]
			if al, ok := bnd.(*ssa.Alloc); ok {
				for _, ref := range *al.Referrers() {
					if st, ok := ref.(*ssa.Store); ok && st.Addr == ssa.Value(al) && e.inverseDerived(st.Val, depth+1) {
						return true
					}
				}
				return false
			}
			return e.inverseDerived(bnd, depth+1)
		}
	}
	return false
}

func (c *Ctx) runFrames(rule string, pkgs []*packages.Package) {
	e := &frameEngine{c: c, invFields: map[*types.Var]bool{}, paramFrames: map[*ssa.Parameter]int{}}
	// fields that hold inverse transforms: some store puts an inverse-derived
	// value into them (constructors).
	for round := 0; round < 2; round++ {
		for _, p := range pkgs {
			if p == nil {
				continue
			}
			for _, fn := range c.srcFuncs(p) {
				for _, b := range fn.Blocks {
					for _, ins := range b.Instrs {
						st, ok := ins.(*ssa.Store)
						if !ok {
							continue
						}
						fa, ok := st.Addr.(*ssa.FieldAddr)
						if !ok {
							continue
						}
						f := fieldOf(fa)
						if f == nil || !isTransformType(f.Type()) {
							continue
						}
						if e.inverseDerived(st.Val, 0) {
							e.invFields[f] = true
						}
					}
				}
			}
		}
	}
	// two collecting rounds (frames of helper parameters flow from call sites,
	// possibly through one more helper), then the reporting round
	for round := 0; round < 3; round++ {
		for _, p := range pkgs {
			if p == nil {
				continue
			}
			for _, fn := range c.srcFuncs(p) {
				if !e.isWrapper(fn) {
					continue
				}
				if round == 2 {
					c.analysed(qname(fn))
				}
				e.analyse(rule, fn, round == 2)
			}
		}
	}
}

// isWrapper: the function has access to a Transform and to an inner object,
// through its receiver's fields or its captured variables.
func (e *frameEngine) isWrapper(fn *ssa.Function) bool {
	hasT, hasObj := false, false
	check := func(t types.Type) {
		if p, ok := t.(*types.Pointer); ok {
			t = p.Elem()
		}
		if isTransformType(t) {
			hasT = true
		}
		if isInnerObjectType(t) {
			hasObj = true
		}
	}
	if recv := fn.Signature.Recv(); recv != nil {
		t := recv.Type()
		if p, ok := t.(*types.Pointer); ok {
			t = p.Elem()
		}
		if st, ok := t.Underlying().(*types.Struct); ok {
			for i := 0; i < st.NumFields(); i++ {
				check(st.Field(i).Type())
			}
		}
	}
	for _, fv := range fn.FreeVars {
		check(fv.Type())
	}
	// constructors take both as parameters but do not answer queries
	if hasT && hasObj {
		return true
	}
	// a callback written inside a wrapper method
	if p := fn.Parent(); p != nil && p.Signature.Recv() != nil {
		return e.isWrapper(p)
	}
	return false
}

func (e *frameEngine) analyse(rule string, fn *ssa.Function, report bool) {
	c := e.c
	memo := map[ssa.Value]int{}
	inProg := map[ssa.Value]bool{}
	var frame func(v ssa.Value) int
	join := func(a, b int) int {
		if a == frUnknown {
			return b
		}
		if b == frUnknown || a == b {
			return a
		}
		return frUnknown
	}
	frameCarrying := func(t types.Type) bool {
		if p, ok := t.(*types.Pointer); ok {
			t = p.Elem()
		}
		if isCoordType(t) || isFloat(t) {
			return true
		}
		return typeNameOf(t) == "Ray"
	}
	frame = func(v ssa.Value) int {
		if v == nil {
			return frUnknown
		}
		if f, ok := memo[v]; ok {
			return f
		}
		if inProg[v] {
			return frUnknown
		}
		inProg[v] = true
		defer delete(inProg, v)
		res := frUnknown
		switch x := v.(type) {
		case *ssa.Parameter:
			if pf, ok := e.paramFrames[x]; ok && x.Parent() == fn {
				// a helper of the wrapper: what its call sites pass
				if pf > 0 {
					res = pf
				}
			} else if x.Parent() == fn && e.innerCallback(fn) {
				// a callback handed to the wrapped object receives its results
				res = frInner
			} else if frameCarrying(x.Type()) && x.Parent() == fn {
				// the receiver itself is not a query value
				if fn.Signature.Recv() == nil || x != fn.Params[0] {
					res = frOuter
				}
			}
		case *ssa.Call:
			res = e.callFrame(fn, x, frame, nil)
		case *ssa.Extract:
			if call, ok := x.Tuple.(*ssa.Call); ok {
				res = e.callFrame(fn, call, frame, nil)
			}
		case *ssa.BinOp:
			res = join(frame(x.X), frame(x.Y))
		case *ssa.UnOp:
			switch x.Op {
			case token.SUB:
				res = frame(x.X)
			case token.MUL:
				switch a := x.X.(type) {
				case *ssa.FieldAddr:
					// field of a ray/collision parameter: same frame
					if frameCarrying(x.Type()) {
						res = frame(a.X)
					}
				case *ssa.Alloc:
					res = frame(a)
				}
			}
		case *ssa.Alloc:
			// a struct literal (Ray): frame of what is stored into it
			first := true
			for _, ref := range *x.Referrers() {
				switch r := ref.(type) {
				case *ssa.Store:
					if r.Addr == ssa.Value(x) {
						if first {
							res = frame(r.Val)
							first = false
						} else {
							res = join(res, frame(r.Val))
						}
					}
				case *ssa.FieldAddr:
					for _, r2 := range *r.Referrers() {
						if st, ok := r2.(*ssa.Store); ok && st.Addr == ssa.Value(r) && frameCarrying(st.Val.Type()) {
							if first {
								res = frame(st.Val)
								first = false
							} else if f := frame(st.Val); f != res {
								res = frUnknown
							}
						}
					}
				}
			}
		case *ssa.Field:
			if frameCarrying(x.Type()) {
				res = frame(x.X)
			}
		case *ssa.Phi:
			for i, ed := range x.Edges {
				if i == 0 {
					res = frame(ed)
				} else if frame(ed) != res {
					res = frUnknown
				}
			}
		case *ssa.Convert:
			res = frame(x.X)
		}
		memo[v] = res
		return res
	}
	n := 0
	for _, b := range fn.Blocks {
		for _, ins := range b.Instrs {
			call, ok := ins.(*ssa.Call)
			if !ok {
				continue
			}
			var msgs []string
			e.callFrame(fn, call, frame, &msgs)
			e.recordHelperArgs(fn, call, frame)
			role := e.callRole(call)
			if role == "" || !report {
				continue
			}
			n++
			key := fmt.Sprintf("%s call#%d %s %s", qname(fn), n, role, calleeName(call))
			if len(msgs) > 0 {
				c.bad(rule, key, call.Pos(), msgs[0])
			} else {
				c.ok(rule, key, call.Pos(), "arguments are in the frame this "+role+" expects")
			}
		}
	}
}

// callRole classifies a call: "inverse map", "forward map", "inner query".
func (e *frameEngine) callRole(call *ssa.Call) string {
	common := call.Common()
	if !common.IsInvoke() {
		return ""
	}
	name := common.Method.Name()
	rt := common.Value.Type()
	if isTransformType(rt) && (name == "Apply" || name == "ApplyDistance") {
		if e.inverseDerived(common.Value, 0) {
			return "inverse map"
		}
		return "forward map"
	}
	if isInnerObjectType(rt) {
		switch name {
		case "Min", "Max":
			return ""
		}
		return "inner query"
	}
	return ""
}

func (e *frameEngine) callFrame(fn *ssa.Function, call *ssa.Call, frame func(ssa.Value) int, msgs *[]string) int {
	common := call.Common()
	say := func(format string, args ...interface{}) {
		if msgs != nil {
			*msgs = append(*msgs, fmt.Sprintf(format, args...))
		}
	}
	role := e.callRole(call)
	switch role {
	case "inverse map":
		for _, a := range common.Args {
			if frame(a) == frInner {
				say("the inverse transform is applied to a value that is already in the object frame")
			}
		}
		return frInner
	case "forward map":
		for _, a := range common.Args {
			if frame(a) == frOuter {
				say("the forward transform (%s) is applied to a world-frame value (a query point/length must go through the inverse transform)", common.Method.Name())
			}
		}
		return frOuter
	case "inner query":
		for _, a := range common.Args {
			if frame(a) == frOuter {
				say("a world-frame %s is handed to the wrapped object's %s without being mapped into the object frame", typeNameOrFloat(a.Type()), common.Method.Name())
			}
		}
		return frInner
	}
	// vector vocabulary: result in the frame of the operands
	if f := common.StaticCallee(); f != nil && f.Signature.Recv() != nil && isCoordType(f.Signature.Recv().Type()) {
		res := frUnknown
		for i, a := range common.Args {
			fa := frame(a)
			if i == 0 {
				res = fa
			} else if fa != frUnknown && res != frUnknown && fa != res {
				return frUnknown
			} else if res == frUnknown {
				res = fa
			}
		}
		return res
	}
	// methods of the wrapper itself (innerRay, outerCollision): look inside
	if f := common.StaticCallee(); f != nil && f.Blocks != nil && f.Signature.Recv() != nil && fn.Signature.Recv() != nil &&
		types.Identical(f.Signature.Recv().Type(), fn.Signature.Recv().Type()) {
		return e.helperResultFrame(f)
	}
	return frUnknown
}

func typeNameOrFloat(t types.Type) string {
	if n := typeNameOf(t); n != "" {
		return n
	}
	return "length"
}

// helperResultFrame: frame of the value a helper method of the wrapper
// returns (innerRay -> INNER, outerCollision -> OUTER), decided from the maps
// it applies: only inverse maps -> INNER, only forward maps -> OUTER.
func (e *frameEngine) helperResultFrame(f *ssa.Function) int {
	inv, fwd := false, false
	for _, b := range f.Blocks {
		for _, ins := range b.Instrs {
			if call, ok := ins.(*ssa.Call); ok {
				switch e.callRole(call) {
				case "inverse map":
					inv = true
				case "forward map":
					fwd = true
				}
			}
		}
	}
	switch {
	case inv && !fwd:
		return frInner
	case fwd && !inv:
		return frOuter
	}
	return frUnknown
}

// wrapperRecv: the receiver type of the wrapper method fn belongs to (fn
// itself or the method a callback is written in).
func wrapperRecv(fn *ssa.Function) types.Type {
	for f := fn; f != nil; f = f.Parent() {
		if r := f.Signature.Recv(); r != nil {
			return r.Type()
		}
	}
	return nil
}

// recordHelperArgs: at a call of an unexported helper method of the same
// wrapper type, the frames of the arguments become the frames of the helper's
// parameters (joined over all sites).
func (e *frameEngine) recordHelperArgs(fn *ssa.Function, call *ssa.Call, frame func(ssa.Value) int) {
	f := call.Call.StaticCallee()
	recv := wrapperRecv(fn)
	if f == nil || f.Blocks == nil || f.Signature.Recv() == nil || recv == nil || !types.Identical(f.Signature.Recv().Type(), recv) {
		return
	}
	if f.Object() == nil || f.Object().Exported() {
		return // exported methods answer world-frame queries
	}
	for i, a := range call.Call.Args {
		if i == 0 || i >= len(f.Params) {
			continue
		}
		fa := frame(a)
		p := f.Params[i]
		old, seen := e.paramFrames[p]
		switch {
		case !seen:
			e.paramFrames[p] = fa
		case old != fa:
			e.paramFrames[p] = -1
		}
	}
}

// innerCallback: fn is a function literal that is passed as an argument to a
// query of the wrapped object (its parameters are that object's results).
func (e *frameEngine) innerCallback(fn *ssa.Function) bool {
	p := fn.Parent()
	if p == nil {
		return false
	}
	for _, b := range p.Blocks {
		for _, ins := range b.Instrs {
			mc, ok := ins.(*ssa.MakeClosure)
			if !ok || mc.Fn != ssa.Value(fn) {
				continue
			}
			for _, ref := range *mc.Referrers() {
				if call, ok := ref.(*ssa.Call); ok && e.callRole(call) == "inner query" {
					for _, a := range call.Call.Args {
						if a == ssa.Value(mc) {
							return true
						}
					}
				}
			}
		}
	}
	return false
}
