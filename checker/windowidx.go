package main

import (
	"fmt"
	"go/token"
	"go/types"
	"strings"

	"golang.org/x/tools/go/packages"
	"golang.org/x/tools/go/ssa"
)

// WINDOWIDX: a struct that keeps a sliding window over an axis stores the
// absolute axis values in a slice field (Zs) and the window's position in an
// int field with the matching name (ZOffset); positions inside the window are
// relative. Inside the type's methods every index into the axis slice has to
// add the offset field (the constructor, where the offset is still zero, is
// not a method and is not looked at). The pair is found by name: <P>s and
// <P>Offset in one struct.
func (c *Ctx) runWindowIndex(rule string, pkgs []*packages.Package) {
	for _, p := range pkgs {
		if p == nil {
			continue
		}
		for _, fn := range c.srcFuncs(p) {
			if fn.Signature.Recv() == nil || len(fn.Params) == 0 {
				continue
			}
			pt, ok := fn.Signature.Recv().Type().(*types.Pointer)
			if !ok {
				continue
			}
			st, ok := pt.Elem().Underlying().(*types.Struct)
			if !ok {
				continue
			}
			pairs := map[int]int{} // slice field -> offset field
			for i := 0; i < st.NumFields(); i++ {
				name := st.Field(i).Name()
				if !strings.HasSuffix(name, "Offset") || len(name) == len("Offset") {
					continue
				}
				if b, ok := st.Field(i).Type().Underlying().(*types.Basic); !ok || b.Info()&types.IsInteger == 0 {
					continue
				}
				want := strings.TrimSuffix(name, "Offset") + "s"
				for j := 0; j < st.NumFields(); j++ {
					if _, isSl := st.Field(j).Type().Underlying().(*types.Slice); isSl && st.Field(j).Name() == want {
						pairs[j] = i
					}
				}
			}
			if len(pairs) == 0 {
				continue
			}
			recv := ssa.Value(fn.Params[0])
			n := 0
			for _, b := range fn.Blocks {
				for _, ins := range b.Instrs {
					ia, ok := ins.(*ssa.IndexAddr)
					if !ok {
						continue
					}
					ld, ok := ia.X.(*ssa.UnOp)
					if !ok || ld.Op != token.MUL {
						continue
					}
					fa, ok := ld.X.(*ssa.FieldAddr)
					if !ok || fa.X != recv {
						continue
					}
					off, ok := pairs[fa.Field]
					if !ok {
						continue
					}
					// only positions that are evidently relative to the window:
					// decomposed from a buffer index by / and %, or handed out by
					// one of the type's own methods (an index found by searching
					// the axis slice itself is absolute and creates no obligation)
					relative := false
					var leaves func(v ssa.Value, depth int)
					leaves = func(v ssa.Value, depth int) {
						if depth > 8 {
							return
						}
						switch x := v.(type) {
						case *ssa.BinOp:
							switch x.Op {
							case token.ADD, token.SUB:
								leaves(x.X, depth+1)
								leaves(x.Y, depth+1)
							case token.QUO, token.REM:
								relative = true
							}
						case *ssa.Convert:
							leaves(x.X, depth+1)
						case *ssa.Extract:
							leaves(x.Tuple, depth+1)
						case *ssa.Call:
							if f := x.Call.StaticCallee(); f != nil && f.Signature.Recv() != nil && len(x.Call.Args) > 0 && x.Call.Args[0] == recv {
								relative = true
							}
						}
					}
					leaves(ia.Index, 0)
					if !relative {
						continue
					}
					n++
					c.analysed(qname(fn))
					key := fmt.Sprintf("%s index#%d into %s", qname(fn), n, st.Field(fa.Field).Name())
					found := false
					var walk func(v ssa.Value, depth int)
					walk = func(v ssa.Value, depth int) {
						if depth > 8 || found {
							return
						}
						switch x := v.(type) {
						case *ssa.BinOp:
							if x.Op == token.ADD || x.Op == token.SUB {
								walk(x.X, depth+1)
								walk(x.Y, depth+1)
							}
						case *ssa.UnOp:
							if f2, ok := x.X.(*ssa.FieldAddr); ok && x.Op == token.MUL && f2.X == recv && f2.Field == off {
								found = true
							}
						case *ssa.Convert:
							walk(x.X, depth+1)
						}
					}
					walk(ia.Index, 0)
					if found {
						c.ok(rule, key, ia.Pos(), "window-relative position plus "+st.Field(off).Name())
					} else {
						c.bad(rule, key, ia.Pos(), fmt.Sprintf("%s holds absolute axis values but is indexed without adding %s: after the window has moved the wrong rows are read", st.Field(fa.Field).Name(), st.Field(off).Name()))
					}
				}
			}
		}
	}
}
