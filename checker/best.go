package main

// BEST — search optimisers return the best sample they evaluated.
//
// Scope: the search functions of numerical/dense_search.go and their
// toolbox3d wrappers. An EVALUATION is a call of the objective (a function
// valued parameter or captured variable returning float64) or a DELEGATED
// search (a call of a function of the scope returning (point, float64));
// its float64 result is the sample value.
//
//  BEST.CMP  every sample value is compared with the running optimum (a loop
//            carried variable or captured cell that is overwritten by the
//            sample in the branch where the sample is better), or is returned
//            (possibly negated) as the function's own value: no sample is
//            dropped unseen.
//  BEST.RET  a search function that keeps a running optimum returns that
//            optimum; it may return the result of a delegated (finer) search
//            only where that result was found better than the running
//            optimum by a dominating comparison — the finer search need not
//            sample the coarse optimum again.
//  BEST.NEG  a minimiser implemented as "maximise -f" negates the objective
//            and the returned value together.

import (
	"go/token"
	"go/types"

	"golang.org/x/tools/go/packages"
	"golang.org/x/tools/go/ssa"
)

func isFloat64(t types.Type) bool {
	b, ok := t.Underlying().(*types.Basic)
	return ok && b.Kind() == types.Float64
}

// searchSig: results (point, float64).
func searchSig(sig *types.Signature) bool {
	return sig.Results().Len() == 2 && isFloat64(sig.Results().At(1).Type()) && !isFloat64(sig.Results().At(0).Type()) ||
		sig.Results().Len() == 2 && isFloat64(sig.Results().At(1).Type()) && isFloat64(sig.Results().At(0).Type())
}

type bestScope struct {
	c   *Ctx
	fns map[*ssa.Function]bool // named search functions of the scope (origins)
}

func (s *bestScope) isSearchFn(f *ssa.Function) bool {
	if f == nil {
		return false
	}
	if o := f.Origin(); o != nil {
		f = o
	}
	return s.fns[f]
}

// evalValue: if ins is an evaluation, the ssa.Value carrying the sample value.
func (s *bestScope) evalValue(ins ssa.Instruction) (ssa.Value, bool /*delegated*/) {
	call, ok := ins.(*ssa.Call)
	if !ok {
		return nil, false
	}
	if callee := call.Call.StaticCallee(); callee != nil {
		if s.isSearchFn(callee) {
			for _, ref := range *call.Referrers() {
				if ex, ok := ref.(*ssa.Extract); ok && ex.Index == 1 {
					return ex, true
				}
			}
			return nil, true
		}
		return nil, false
	}
	if call.Call.IsInvoke() {
		return nil, false
	}
	// dynamic call of a function value that is a parameter / captured / loaded from a captured cell
	sig, ok := call.Call.Value.Type().Underlying().(*types.Signature)
	if !ok || sig.Results().Len() != 1 || !isFloat64(sig.Results().At(0).Type()) {
		return nil, false
	}
	switch v := call.Call.Value.(type) {
	case *ssa.Parameter, *ssa.FreeVar:
		return call, false
	case *ssa.UnOp:
		if _, ok := v.X.(*ssa.FreeVar); ok {
			return call, false
		}
	case *ssa.MakeClosure:
		return call, false
	}
	return nil, false
}

func stripNeg(v ssa.Value) (ssa.Value, bool) {
	if u, ok := v.(*ssa.UnOp); ok && u.Op == token.SUB {
		return u.X, true
	}
	return v, false
}

// tracked: the set of values (phis, loads of cells) that belong to a running
// optimum which receives sample e in a branch guarded by a comparison with e.
func (s *bestScope) comparedWithOptimum(fn *ssa.Function, e ssa.Value) (bool, map[ssa.Value]bool) {
	members := map[ssa.Value]bool{}
	found := false
	for _, ref := range *e.Referrers() {
		be, ok := ref.(*ssa.BinOp)
		if !ok {
			continue
		}
		switch be.Op {
		case token.GTR, token.LSS, token.GEQ, token.LEQ:
		default:
			continue
		}
		other := be.X
		if other == e {
			other = be.Y
		}
		// other must be a running optimum: a phi that has e (transitively) as an incoming value,
		// or a load of a cell into which e is stored
		switch o := other.(type) {
		case *ssa.Phi:
			if phiWebHas(o, e) {
				found = true
				collectPhiWeb(o, members)
			}
		case *ssa.UnOp:
			if o.Op == token.MUL {
				cell := o.X
				for _, r2 := range *e.Referrers() {
					if st, ok := r2.(*ssa.Store); ok && st.Val == e && st.Addr == cell {
						found = true
						members[cell] = true
					}
				}
			}
		}
	}
	return found, members
}

func phiWebHas(p *ssa.Phi, e ssa.Value) bool {
	seen := map[*ssa.Phi]bool{}
	var walk func(q *ssa.Phi) bool
	walk = func(q *ssa.Phi) bool {
		if seen[q] {
			return false
		}
		seen[q] = true
		for _, ed := range q.Edges {
			if ed == e {
				return true
			}
			if q2, ok := ed.(*ssa.Phi); ok && walk(q2) {
				return true
			}
		}
		// phis that use q
		for _, ref := range *q.Referrers() {
			if q2, ok := ref.(*ssa.Phi); ok && walk(q2) {
				return true
			}
		}
		return false
	}
	return walk(p)
}

func collectPhiWeb(p *ssa.Phi, out map[ssa.Value]bool) {
	if out[p] {
		return
	}
	out[p] = true
	for _, ed := range p.Edges {
		if q, ok := ed.(*ssa.Phi); ok {
			collectPhiWeb(q, out)
		}
	}
	for _, ref := range *p.Referrers() {
		if q, ok := ref.(*ssa.Phi); ok {
			collectPhiWeb(q, out)
		}
	}
}

func (c *Ctx) runBest(prefix string, pkgs []*packages.Package, fileOK func(fn *ssa.Function) bool) {
	s := &bestScope{c: c, fns: map[*ssa.Function]bool{}}
	var all []*ssa.Function
	for _, p := range pkgs {
		if p == nil {
			continue
		}
		for _, fn := range c.srcFuncs(p) {
			if fileOK != nil && !fileOK(fn) {
				continue
			}
			all = append(all, fn)
			if fn.Parent() == nil && searchSig(fn.Signature) {
				// takes an objective?
				for _, prm := range fn.Params {
					if sig, ok := prm.Type().Underlying().(*types.Signature); ok && sig.Results().Len() == 1 && isFloat64(sig.Results().At(0).Type()) {
						s.fns[fn] = true
					}
				}
			}
		}
	}
	for _, fn := range all {
		// evaluations
		type ev struct {
			val       ssa.Value
			ins       ssa.Instruction
			delegated bool
		}
		var evals []ev
		for _, b := range fn.Blocks {
			for _, ins := range b.Instrs {
				if v, del := s.evalValue(ins); v != nil {
					evals = append(evals, ev{v, ins, del})
				}
			}
		}
		if len(evals) == 0 {
			continue
		}
		c.analysed(qname(fn))
		optimum := map[ssa.Value]bool{}
		returned := func(v ssa.Value) bool {
			for _, ref := range *v.Referrers() {
				switch r := ref.(type) {
				case *ssa.Return:
					return true
				case *ssa.UnOp:
					if r.Op == token.SUB {
						for _, r2 := range *r.Referrers() {
							if _, ok := r2.(*ssa.Return); ok {
								return true
							}
						}
					}
				case *ssa.Store:
					// named result
					if al, ok := r.Addr.(*ssa.Alloc); ok && al.Comment != "" {
						for _, r2 := range *al.Referrers() {
							if ld, ok := r2.(*ssa.UnOp); ok {
								for _, r3 := range *ld.Referrers() {
									if _, ok := r3.(*ssa.Return); ok {
										return true
									}
								}
							}
						}
					}
				}
			}
			return false
		}
		for i, e := range evals {
			cmp, members := s.comparedWithOptimum(fn, e.val)
			for m := range members {
				optimum[m] = true
			}
			key := qname(fn) + " sample"
			if i > 0 {
				key += " #" + itoa(i+1)
			}
			// does the sample flow into a loop-carried variable or a captured cell?
			flows := false
			for _, ref := range *e.val.Referrers() {
				switch r := ref.(type) {
				case *ssa.Phi:
					flows = true
				case *ssa.Store:
					if r.Val == e.val {
						switch a := r.Addr.(type) {
						case *ssa.FreeVar:
							flows = true
						case *ssa.Alloc:
							if a.Heap {
								flows = true
							}
						}
					}
				}
			}
			if !cmp {
				if ok, wrong := pairwiseBetter(e.val); ok {
					if wrong {
						c.bad(prefix+".CMP", key, e.ins.Pos(), "the sample is compared with another sample, but the merge keeps the one the comparison found worse")
						continue
					}
					c.ok(prefix+".CMP", key, e.ins.Pos(), "the sample is compared with another sample and the merge keeps the better of the two")
					continue
				}
			}
			switch {
			case cmp:
				c.ok(prefix+".CMP", key, e.ins.Pos(), "the sample is compared with the running optimum, which takes it when it is better")
			case flows && !returned(e.val):
				c.bad(prefix+".CMP", key, e.ins.Pos(), "the sample value overwrites a running variable without being compared with it: the variable ends up holding the last sample, not the best one")
			default:
				c.ok(prefix+".CMP", key, e.ins.Pos(), "the sample value is handed on (returned, stored in the result or tested) without passing through a running optimum")
			}
		}
		// BEST.RET
		if fn.Parent() == nil && s.fns[fn] && len(optimum) > 0 {
			idom := func(b *ssa.BasicBlock) *ssa.BasicBlock { return b.Idom() }
			n := 0
			for _, b := range fn.Blocks {
				ret, ok := b.Instrs[len(b.Instrs)-1].(*ssa.Return)
				if !ok || len(ret.Results) != 2 {
					continue
				}
				n++
				key := qname(fn) + " return"
				if n > 1 {
					key += " #" + itoa(n)
				}
				r, _ := stripNeg(ret.Results[1])
				isDelegated := false
				for _, e := range evals {
					if e.val == r && e.delegated {
						isDelegated = true
					}
				}
				switch {
				case optimum[r]:
					c.ok(prefix+".RET", key, ret.Pos(), "returns the running optimum")
				case isDelegated:
					// dominated by an edge where r is better than the optimum
					good := false
					for d, child := idom(b), b; d != nil; d, child = idom(d), d {
						ifi, ok := d.Instrs[len(d.Instrs)-1].(*ssa.If)
						if !ok {
							continue
						}
						be, ok := ifi.Cond.(*ssa.BinOp)
						if !ok {
							continue
						}
						var onTrue bool
						switch {
						case (be.Op == token.GTR || be.Op == token.GEQ) && be.X == r && optimum[be.Y]:
							onTrue = true
						case (be.Op == token.LSS || be.Op == token.LEQ) && be.Y == r && optimum[be.X]:
							onTrue = true
						default:
							continue
						}
						// child must be reached only through the true edge
						if onTrue && d.Succs[0] == child && len(child.Preds) == 1 {
							good = true
						}
					}
					if good {
						c.ok(prefix+".RET", key, ret.Pos(), "returns the delegated search's result only where it was found better than the running optimum")
					} else {
						c.bad(prefix+".RET", key, ret.Pos(), "returns the result of the delegated (finer) search without comparing it with the optimum already found at this level: the finer search need not re-sample that optimum, so the returned value can be worse than a sample that was evaluated")
					}
				default:
					c.ok(prefix+".RET", key, ret.Pos(), "returns a value the rule does not track (no claim)")
				}
			}
		}
		// BEST.NEG: minimise = maximise(-f), negated back
		if fn.Parent() == nil && s.fns[fn] {
			for _, e := range evals {
				if !e.delegated {
					continue
				}
				call := e.ins.(*ssa.Call)
				var clo *ssa.Function
				for _, a := range call.Call.Args {
					if mc, ok := a.(*ssa.MakeClosure); ok {
						clo = mc.Fn.(*ssa.Function)
					}
				}
				if clo == nil {
					continue
				}
				negObj, plainObj := false, false
				for _, b := range clo.Blocks {
					if ret, ok := b.Instrs[len(b.Instrs)-1].(*ssa.Return); ok && len(ret.Results) == 1 {
						inner, neg := stripNeg(ret.Results[0])
						if v, _ := s.evalValue(asInstr(inner)); v != nil && v == inner {
							if neg {
								negObj = true
							} else {
								plainObj = true
							}
						}
					}
				}
				if !negObj && !plainObj {
					continue
				}
				negRet, plainRet := false, false
				for _, b := range fn.Blocks {
					if ret, ok := b.Instrs[len(b.Instrs)-1].(*ssa.Return); ok && len(ret.Results) == 2 {
						inner, neg := stripNeg(ret.Results[1])
						if inner == e.val {
							if neg {
								negRet = true
							} else {
								plainRet = true
							}
						}
					}
				}
				if !negRet && !plainRet {
					continue
				}
				key := qname(fn) + " objective/result sign"
				if negObj == negRet && plainObj == plainRet {
					c.ok(prefix+".NEG", key, call.Pos(), "the objective and the returned value are negated together")
				} else {
					c.bad(prefix+".NEG", key, call.Pos(), "the objective handed to the delegated search and the value returned from it are not negated together: the reported value has the wrong sign or the wrong extremum is searched")
				}
			}
		}
	}
}

func asInstr(v ssa.Value) ssa.Instruction {
	if i, ok := v.(ssa.Instruction); ok {
		return i
	}
	return nil
}

// pairwiseBetter: v flows into a two-way merge phi(v, w) that is controlled by
// a comparison of exactly v and w (value, other := coarse(); if fine > value {
// value = fine }). ok: the shape is present; wrong: the merge takes the operand
// the comparison found smaller.
func pairwiseBetter(v ssa.Value) (ok, wrong bool) {
	for _, ref := range *v.Referrers() {
		phi, isPhi := ref.(*ssa.Phi)
		if !isPhi {
			continue
		}
		// exactly two distinct incoming values: v and one other
		var w ssa.Value
		two := true
		for _, e := range phi.Edges {
			if e == v {
				continue
			}
			if w != nil && w != e {
				two = false
			}
			w = e
		}
		if !two || w == nil {
			continue
		}
		for _, r2 := range *v.Referrers() {
			cmp, isCmp := r2.(*ssa.BinOp)
			if !isCmp {
				continue
			}
			var greaterIfTrue ssa.Value
			switch {
			case (cmp.Op == token.GTR || cmp.Op == token.GEQ) && cmp.X == v && cmp.Y == w:
				greaterIfTrue = v
			case (cmp.Op == token.GTR || cmp.Op == token.GEQ) && cmp.X == w && cmp.Y == v:
				greaterIfTrue = w
			case (cmp.Op == token.LSS || cmp.Op == token.LEQ) && cmp.X == v && cmp.Y == w:
				greaterIfTrue = w
			case (cmp.Op == token.LSS || cmp.Op == token.LEQ) && cmp.X == w && cmp.Y == v:
				greaterIfTrue = v
			default:
				continue
			}
			// the If on this comparison and the edge of the phi it controls
			for _, r3 := range *cmp.Referrers() {
				ifi, isIf := r3.(*ssa.If)
				if !isIf {
					continue
				}
				b := ifi.Block()
				yes := b.Succs[0]
				for i, pred := range phi.Block().Preds {
					onTrue := (pred == b && phi.Block() == yes) || pred == yes || (yes.Dominates(pred) && yes != phi.Block())
					if onTrue && len(yes.Preds) == 1 {
						return true, phi.Edges[i] != greaterIfTrue
					}
				}
				return true, false
			}
		}
	}
	return false, false
}
