package main

import (
	"fmt"
	"go/ast"
	"go/token"
	"go/types"
	"strconv"
	"strings"

	"golang.org/x/tools/go/packages"
	"golang.org/x/tools/go/ssa"
)

func init() {
	register("C14", &propInfo{
		Explanation: "TRIVERT: in the triangulation code (model2d/triangulate.go, model3d/triangulate.go) no vertex of an output triangle is computed - a value stored into a [3]Coord / Triangle element is never the result of coordinate arithmetic or of a coordinate constructor; vertices are copied from the input or looked up in an inverse map (the 2D entry point does that; the 3D one rebuilt its vertices from the projection and was repaired). CAPPAIR: where a loop emits two triangles from the same source triangle at two different constant heights (the caps of an extruded profile), the two vertex orders are permutations of opposite parity, so that the caps face away from each other.",
		Trusted:     []string{"go/ssa, go/types", "the coordinate vocabulary (methods and constructors of Coord/Coord3D)"},
		Fixtures:    []string{"g"},
		Run: func(c *Ctx) {
			c.runTriVert("TRIVERT", append(c.libPkgs()[:2:2], c.fixturePkg("g")), c.fileFilter("triangulate.go"))
			c.floor("TRIVERT", 4)
			c.runCapPair("CAPPAIR", append(c.libPkgs()[:3:3], c.fixturePkg("g")))
			c.floor("CAPPAIR", 0)
		},
		SelfTest: []Mutation{
			{Name: "planar face triangulation rebuilds its vertices from the projection (defect repaired)", File: "model3d/triangulate.go",
				Old: "\t\t\ttriangles[i][j] = orig\n", New: "\t\t\ttriangles[i][j] = basis1.Scale(p.X).Add(basis2.Scale(p.Y)).Add(orig.Sub(orig)).Add(polygon[0])\n", Rule: "TRIVERT", Expect: "TriangulateFace"},
			{Name: "ear clipping emits the midpoint of the ear", File: "model2d/triangulate.go",
				Old: "return append(Triangulate(newPoly), [3]Coord{p1, polygon[i], p3})", New: "return append(Triangulate(newPoly), [3]Coord{p1, polygon[i].Mid(polygon[i]), p3})", Rule: "TRIVERT", Expect: "Triangulate"},
			{Name: "both caps of an extruded profile face the same way", File: "model3d/mesh.go",
				Old: "\t\t\tXYZ(t[1].X, t[1].Y, maxZ),\n\t\t\tXYZ(t[0].X, t[0].Y, maxZ),\n\t\t\tXYZ(t[2].X, t[2].Y, maxZ),", New: "\t\t\tXYZ(t[0].X, t[0].Y, maxZ),\n\t\t\tXYZ(t[1].X, t[1].Y, maxZ),\n\t\t\tXYZ(t[2].X, t[2].Y, maxZ),", Rule: "CAPPAIR", Expect: "ProfileMesh"},
		},
	})
}

// coordArithmetic: v is produced by the coordinate vocabulary (a method of
// Coord/Coord3D that returns a coordinate, or a constructor), possibly
// through phis.
func coordArithmetic(v ssa.Value, depth int) bool {
	if depth > 6 {
		return false
	}
	switch x := v.(type) {
	case *ssa.Call:
		f := x.Call.StaticCallee()
		if f == nil || !isCoordType(x.Type()) || !strings.HasPrefix(pkgPathOf(f), repoMod+"/model") {
			return false
		}
		if f.Signature.Recv() != nil {
			return isCoordType(f.Signature.Recv().Type())
		}
		switch f.Name() {
		case "XY", "XYZ", "X", "Y", "Z", "Ones", "NewCoordPolar", "NewCoordArray", "NewCoord3DArray":
			return true
		}
	case *ssa.Phi:
		for _, e := range x.Edges {
			if coordArithmetic(e, depth+1) {
				return true
			}
		}
	}
	return false
}

func isTriangleArray(t types.Type) bool {
	if p, ok := t.Underlying().(*types.Pointer); ok {
		t = p.Elem()
	}
	arr, ok := t.Underlying().(*types.Array)
	return ok && arr.Len() == 3 && isCoordType(arr.Elem())
}

func (c *Ctx) runTriVert(rule string, pkgs []*packages.Package, filter func(fn *ssa.Function) bool) {
	for _, p := range pkgs {
		if p == nil {
			continue
		}
		for _, fn := range c.srcFuncs(p) {
			if filter != nil && !filter(fn) {
				continue
			}
			n := 0
			for _, b := range fn.Blocks {
				for _, ins := range b.Instrs {
					st, ok := ins.(*ssa.Store)
					if !ok {
						continue
					}
					ia, ok := st.Addr.(*ssa.IndexAddr)
					if !ok || !isTriangleArray(ia.X.Type()) {
						continue
					}
					n++
					c.analysed(qname(fn))
					key := fmt.Sprintf("%s triangle vertex#%d", qname(fn), n)
					if coordArithmetic(st.Val, 0) {
						c.bad(rule, key, st.Pos(), "a vertex of an output triangle is computed by coordinate arithmetic: it need not be one of the input vertices (neighbouring faces that share the vertex get different roundings of it)")
					} else {
						c.ok(rule, key, st.Pos(), "vertex is copied or looked up, not computed")
					}
				}
			}
		}
	}
}

// runCapPair: AST; two &Triangle{XYZ(t[a].X, t[a].Y, z), ...} literals in one
// loop body over the same source t with different z.
func (c *Ctx) runCapPair(rule string, pkgs []*packages.Package) {
	for _, p := range pkgs {
		if p == nil {
			continue
		}
		info := p.TypesInfo
		for _, f := range p.Syntax {
			for _, d := range f.Decls {
				fd, ok := d.(*ast.FuncDecl)
				if !ok || fd.Body == nil {
					continue
				}
				ast.Inspect(fd.Body, func(nd ast.Node) bool {
					var body *ast.BlockStmt
					switch l := nd.(type) {
					case *ast.RangeStmt:
						body = l.Body
					case *ast.ForStmt:
						body = l.Body
					default:
						return true
					}
					type cap struct {
						src  string
						perm []int
						z    string
						pos  token.Pos
					}
					var caps []cap
					ast.Inspect(body, func(n2 ast.Node) bool {
						cl, ok := n2.(*ast.CompositeLit)
						if !ok || len(cl.Elts) != 3 || !isTriangleArray(info.TypeOf(cl)) {
							return true
						}
						cp := cap{pos: cl.Pos()}
						for _, e := range cl.Elts {
							call, ok := ast.Unparen(e).(*ast.CallExpr)
							if !ok || len(call.Args) < 3 {
								return true
							}
							sel, ok := ast.Unparen(call.Args[0]).(*ast.SelectorExpr)
							if !ok {
								return true
							}
							ix, ok := ast.Unparen(sel.X).(*ast.IndexExpr)
							if !ok {
								return true
							}
							tv := info.Types[ix.Index]
							if tv.Value == nil {
								return true
							}
							k, err := strconv.Atoi(tv.Value.ExactString())
							if err != nil {
								return true
							}
							src := types.ExprString(ix.X)
							z := types.ExprString(call.Args[len(call.Args)-1])
							if cp.src == "" {
								cp.src, cp.z = src, z
							} else if cp.src != src || cp.z != z {
								return true
							}
							cp.perm = append(cp.perm, k)
						}
						if len(cp.perm) == 3 {
							caps = append(caps, cp)
						}
						return true
					})
					// the same pair written through a helper that lifts three
					// corners to a height: h(t[i], t[j], t[k], z)
					ast.Inspect(body, func(n2 ast.Node) bool {
						call, ok := n2.(*ast.CallExpr)
						if !ok || len(call.Args) != 4 {
							return true
						}
						fn := calleeFunc(info, call)
						if fn == nil || !c.isRepoPkg(fn.Pkg()) {
							return true
						}
						hfd, hp := c.funcDecl(fn)
						hperm := liftHelperPerm(hp, hfd)
						if hperm == nil {
							return true
						}
						cp := cap{pos: call.Pos(), z: types.ExprString(call.Args[3])}
						var idx []int
						for _, a := range call.Args[:3] {
							ix, ok := ast.Unparen(a).(*ast.IndexExpr)
							if !ok {
								return true
							}
							tv := info.Types[ix.Index]
							if tv.Value == nil {
								return true
							}
							k, err := strconv.Atoi(tv.Value.ExactString())
							if err != nil {
								return true
							}
							src := types.ExprString(ix.X)
							if cp.src == "" {
								cp.src = src
							} else if cp.src != src {
								return true
							}
							idx = append(idx, k)
						}
						for _, m := range hperm {
							cp.perm = append(cp.perm, idx[m])
						}
						caps = append(caps, cp)
						return true
					})
					for i := 0; i < len(caps); i++ {
						for j := i + 1; j < len(caps); j++ {
							a, b := caps[i], caps[j]
							if a.src != b.src || a.z == b.z {
								continue
							}
							name := declName(p, fd)
							c.analysed(name)
							key := name + " caps from " + a.src
							if permParity(a.perm) == permParity(b.perm) {
								c.bad(rule, key, b.pos, fmt.Sprintf("the triangles at %s and %s list the corners of %s in orders %v and %v of the same parity: both caps face the same way, so one of them faces into the solid", a.z, b.z, a.src, a.perm, b.perm))
							} else {
								c.ok(rule, key, b.pos, "the two caps are wound in opposite senses")
							}
						}
					}
					return true
				})
			}
		}
	}
}

// liftHelperPerm: fd is func(p1, p2, p3 <coord>, z float64) whose body returns
// a triangle literal with one corner per parameter, each built from that
// parameter's components and z; the order in which the literal uses the three
// parameters.
func liftHelperPerm(p *packages.Package, fd *ast.FuncDecl) []int {
	if p == nil || fd == nil || fd.Body == nil || fd.Type.Params == nil {
		return nil
	}
	info := p.TypesInfo
	var params []types.Object
	for _, fl := range fd.Type.Params.List {
		for _, n := range fl.Names {
			params = append(params, info.Defs[n])
		}
	}
	if len(params) != 4 {
		return nil
	}
	var perm []int
	ast.Inspect(fd.Body, func(n ast.Node) bool {
		cl, ok := n.(*ast.CompositeLit)
		if !ok || len(cl.Elts) != 3 || !isTriangleArray(info.TypeOf(cl)) || perm != nil {
			return true
		}
		var got []int
		for _, e := range cl.Elts {
			call, ok := ast.Unparen(e).(*ast.CallExpr)
			if !ok || len(call.Args) < 3 {
				return true
			}
			sel, ok := ast.Unparen(call.Args[0]).(*ast.SelectorExpr)
			if !ok {
				return true
			}
			id, ok := ast.Unparen(sel.X).(*ast.Ident)
			if !ok {
				return true
			}
			zid, ok := ast.Unparen(call.Args[len(call.Args)-1]).(*ast.Ident)
			if !ok || info.Uses[zid] != params[3] {
				return true
			}
			k := -1
			for i := 0; i < 3; i++ {
				if info.Uses[id] == params[i] {
					k = i
				}
			}
			if k < 0 {
				return true
			}
			got = append(got, k)
		}
		if len(got) == 3 && got[0] != got[1] && got[1] != got[2] && got[0] != got[2] {
			perm = got
		}
		return true
	})
	return perm
}

func permParity(p []int) int {
	inv := 0
	for i := range p {
		for j := i + 1; j < len(p); j++ {
			if p[i] > p[j] {
				inv++
			}
		}
	}
	return inv % 2
}
