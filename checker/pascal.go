package main

// PASCAL — the Bernstein coefficient table of the fast Bezier evaluator.
// model2d.binomialCoeffs is read from its literal: row r must have r+2 entries
// and entry j must equal C(r+1, j) (exhaustive over the literal). The use
// site recursiveBezierFast must select the row with len(b)-2 (degree
// n = len(b)-1 = r+1) and the guard in Eval must compare that same row index
// with len(binomialCoeffs): a row beyond the table or the row of another
// degree makes the evaluation differ from de Casteljau's.

import (
	"fmt"
	"go/ast"
	"go/constant"
	"go/token"
	"go/types"
	"math/big"

	"golang.org/x/tools/go/packages"
	"golang.org/x/tools/go/ssa"
)

func (c *Ctx) runPascal(rule string) {
	p := c.pkg("model2d")
	if p == nil {
		c.problem("unresolved anchor: package model2d")
		return
	}
	obj, _ := p.Types.Scope().Lookup("binomialCoeffs").(*types.Var)
	if obj == nil {
		c.problem("unresolved anchor: model2d.binomialCoeffs")
		return
	}
	var lit *ast.CompositeLit
	for _, file := range p.Syntax {
		for _, d := range file.Decls {
			gd, ok := d.(*ast.GenDecl)
			if !ok || gd.Tok != token.VAR {
				continue
			}
			for _, sp := range gd.Specs {
				vs := sp.(*ast.ValueSpec)
				for i, n := range vs.Names {
					if p.TypesInfo.Defs[n] == obj && i < len(vs.Values) {
						lit, _ = vs.Values[i].(*ast.CompositeLit)
					}
				}
			}
		}
	}
	if lit == nil {
		c.problem("unresolved anchor: literal of model2d.binomialCoeffs")
		return
	}
	for r, e := range lit.Elts {
		row, ok := e.(*ast.CompositeLit)
		key := fmt.Sprintf("model2d.binomialCoeffs row %d (degree %d)", r, r+1)
		if !ok {
			c.bad(rule, key, e.Pos(), "row is not a literal")
			continue
		}
		bad := ""
		if len(row.Elts) != r+2 {
			bad = fmt.Sprintf("has %d entries, degree %d needs %d", len(row.Elts), r+1, r+2)
		}
		for j, el := range row.Elts {
			tv, ok := p.TypesInfo.Types[el]
			if !ok || tv.Value == nil {
				bad = "entry is not a constant"
				break
			}
			want := new(big.Int).Binomial(int64(r+1), int64(j))
			got, _ := constant.Float64Val(tv.Value)
			wf, _ := new(big.Float).SetInt(want).Float64()
			if bad == "" && got != wf {
				bad = fmt.Sprintf("entry %d is %v, C(%d,%d) = %s", j, got, r+1, j, want.String())
			}
		}
		if bad != "" {
			c.bad(rule, key, row.Pos(), bad+": the fast evaluator's Bernstein basis no longer sums to one for this degree")
		} else {
			c.ok(rule, key, row.Pos(), "row of Pascal's triangle for its degree")
		}
	}
	// use sites, on SSA (robust against `n := len(b)` and similar renamings):
	// every row index is len(ctrl)-2 and every guard comparing a control-point
	// count with len(binomialCoeffs) implies len(ctrl)-2 <= len(table)-1.
	c.pascalUseSites(rule, p, obj)
}

// linForm: v = a*len(slice) + b*len(table) + k for the given table global.
type linForm struct {
	a, b int
	k    int64
	ok   bool
}

func linOf(v ssa.Value, tab *ssa.Global, depth int) linForm {
	if depth > 8 {
		return linForm{}
	}
	if k, ok := constInt(v); ok {
		return linForm{0, 0, k, true}
	}
	switch x := v.(type) {
	case *ssa.Call:
		if bi, ok := x.Call.Value.(*ssa.Builtin); ok && bi.Name() == "len" && len(x.Call.Args) == 1 {
			if ld, ok := x.Call.Args[0].(*ssa.UnOp); ok && ld.X == ssa.Value(tab) {
				return linForm{0, 1, 0, true}
			}
			if _, ok := x.Call.Args[0].Type().Underlying().(*types.Slice); ok {
				return linForm{1, 0, 0, true}
			}
		}
	case *ssa.BinOp:
		l, r := linOf(x.X, tab, depth+1), linOf(x.Y, tab, depth+1)
		if l.ok && r.ok {
			switch x.Op {
			case token.ADD:
				return linForm{l.a + r.a, l.b + r.b, l.k + r.k, true}
			case token.SUB:
				return linForm{l.a - r.a, l.b - r.b, l.k - r.k, true}
			}
		}
	}
	return linForm{}
}

func (c *Ctx) pascalUseSites(rule string, p *packages.Package, obj *types.Var) {
	sp := c.Prog.Package(p.Types)
	if sp == nil {
		return
	}
	tab, _ := sp.Members[obj.Name()].(*ssa.Global)
	if tab == nil {
		c.problem("unresolved anchor: SSA global %s", obj.Name())
		return
	}
	uses := 0
	for _, fn := range c.srcFuncs(p) {
		for _, b := range fn.Blocks {
			for _, ins := range b.Instrs {
				switch x := ins.(type) {
				case *ssa.IndexAddr:
					ld, ok := x.X.(*ssa.UnOp)
					if !ok || ld.X != ssa.Value(tab) {
						continue
					}
					uses++
					key := fmt.Sprintf("model2d row selection #%d in %s", uses, qname(fn))
					lf := linOf(x.Index, tab, 0)
					if lf.ok && lf.a == 1 && lf.b == 0 && lf.k == -2 {
						c.ok(rule, key, x.Pos(), "row len(b)-2 holds the coefficients of degree len(b)-1")
					} else if lf.ok {
						c.bad(rule, key, x.Pos(), fmt.Sprintf("the table row is selected with %d*len(b)%+d; row r holds degree r+1, so a curve with len(b) control points needs row len(b)-2", lf.a, lf.k))
					} else {
						c.ok(rule, key, x.Pos(), "row index of a shape the rule does not model (no claim)")
					}
				case *ssa.If:
					be, ok := x.Cond.(*ssa.BinOp)
					if !ok {
						continue
					}
					l, r := linOf(be.X, tab, 0), linOf(be.Y, tab, 0)
					if !l.ok || !r.ok || l.b == 0 && r.b == 0 {
						continue
					}
					// normalise to  len(b) - len(tab) < K  on the edge that takes the fast path
					d := linForm{l.a - r.a, l.b - r.b, l.k - r.k, true} // d OP 0
					var K int64
					okForm := true
					switch {
					case d.a == 1 && d.b == -1 && be.Op == token.LSS:
						K = -d.k
					case d.a == 1 && d.b == -1 && be.Op == token.LEQ:
						K = -d.k + 1
					case d.a == -1 && d.b == 1 && be.Op == token.GTR:
						K = d.k
					case d.a == -1 && d.b == 1 && be.Op == token.GEQ:
						K = d.k + 1
					default:
						okForm = false
					}
					uses++
					key := fmt.Sprintf("model2d table guard #%d in %s", uses, qname(fn))
					switch {
					case !okForm:
						c.ok(rule, key, x.Pos(), "comparison with the table length of a shape the rule does not model (no claim)")
					case K <= 2:
						c.ok(rule, key, x.Pos(), fmt.Sprintf("the fast path is taken only when len(b)-len(table) < %d, so row len(b)-2 exists", K))
					default:
						c.bad(rule, key, x.Pos(), fmt.Sprintf("the guard admits len(b)-len(table) < %d: row len(b)-2 is beyond the table for the largest admitted curve", K))
					}
				}
			}
		}
	}
}

// isLenMinus: e is len(x) - k.
func isLenMinus(e ast.Expr, k int) bool {
	be, ok := ast.Unparen(e).(*ast.BinaryExpr)
	if !ok || be.Op != token.SUB {
		return false
	}
	call, ok := be.X.(*ast.CallExpr)
	if !ok {
		return false
	}
	if f, ok := call.Fun.(*ast.Ident); !ok || f.Name != "len" {
		return false
	}
	bl, ok := be.Y.(*ast.BasicLit)
	return ok && bl.Value == fmt.Sprint(k)
}
