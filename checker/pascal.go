package main

// PASCAL — the Bernstein coefficient table of the fast Bezier evaluator.
// model2d.binomialCoeffs is read from its literal: row r must have r+2 entries
// and entry j must equal C(r+1, j) (exhaustive over the literal). The use
// site recursiveBezierFast must select the row with len(b)-2 (degree
// n = len(b)-1 = r+1) and the guard in Eval must compare that same row index
// with len(binomialCoeffs): a row beyond the table or the row of another
// degree makes the evaluation differ from de Casteljau's.

import (
	"fmt"
	"go/ast"
	"go/constant"
	"go/token"
	"go/types"
	"math/big"
)

func (c *Ctx) runPascal(rule string) {
	p := c.pkg("model2d")
	if p == nil {
		c.problem("unresolved anchor: package model2d")
		return
	}
	obj, _ := p.Types.Scope().Lookup("binomialCoeffs").(*types.Var)
	if obj == nil {
		c.problem("unresolved anchor: model2d.binomialCoeffs")
		return
	}
	var lit *ast.CompositeLit
	for _, file := range p.Syntax {
		for _, d := range file.Decls {
			gd, ok := d.(*ast.GenDecl)
			if !ok || gd.Tok != token.VAR {
				continue
			}
			for _, sp := range gd.Specs {
				vs := sp.(*ast.ValueSpec)
				for i, n := range vs.Names {
					if p.TypesInfo.Defs[n] == obj && i < len(vs.Values) {
						lit, _ = vs.Values[i].(*ast.CompositeLit)
					}
				}
			}
		}
	}
	if lit == nil {
		c.problem("unresolved anchor: literal of model2d.binomialCoeffs")
		return
	}
	for r, e := range lit.Elts {
		row, ok := e.(*ast.CompositeLit)
		key := fmt.Sprintf("model2d.binomialCoeffs row %d (degree %d)", r, r+1)
		if !ok {
			c.bad(rule, key, e.Pos(), "row is not a literal")
			continue
		}
		bad := ""
		if len(row.Elts) != r+2 {
			bad = fmt.Sprintf("has %d entries, degree %d needs %d", len(row.Elts), r+1, r+2)
		}
		for j, el := range row.Elts {
			tv, ok := p.TypesInfo.Types[el]
			if !ok || tv.Value == nil {
				bad = "entry is not a constant"
				break
			}
			want := new(big.Int).Binomial(int64(r+1), int64(j))
			got, _ := constant.Float64Val(tv.Value)
			wf, _ := new(big.Float).SetInt(want).Float64()
			if bad == "" && got != wf {
				bad = fmt.Sprintf("entry %d is %v, C(%d,%d) = %s", j, got, r+1, j, want.String())
			}
		}
		if bad != "" {
			c.bad(rule, key, row.Pos(), bad+": the fast evaluator's Bernstein basis no longer sums to one for this degree")
		} else {
			c.ok(rule, key, row.Pos(), "row of Pascal's triangle for its degree")
		}
	}
	// use sites: every index of the table's rows is len(x)-2
	uses := 0
	for _, file := range p.Syntax {
		ast.Inspect(file, func(n ast.Node) bool {
			ix, ok := n.(*ast.IndexExpr)
			if !ok {
				return true
			}
			id, ok := ix.X.(*ast.Ident)
			if !ok || p.TypesInfo.Uses[id] != obj {
				return true
			}
			uses++
			key := fmt.Sprintf("model2d row selection #%d", uses)
			if isLenMinus(ix.Index, 2) {
				c.ok(rule, key, ix.Pos(), "row len(b)-2 holds the coefficients of degree len(b)-1")
			} else {
				c.bad(rule, key, ix.Pos(), "the table row is selected with "+types.ExprString(ix.Index)+"; row r holds degree r+1, so a curve with len(b) control points needs row len(b)-2")
			}
			return true
		})
		// guards comparing with len(binomialCoeffs)
		ast.Inspect(file, func(n ast.Node) bool {
			be, ok := n.(*ast.BinaryExpr)
			if !ok {
				return true
			}
			isLenTab := func(e ast.Expr) bool {
				call, ok := e.(*ast.CallExpr)
				if !ok || len(call.Args) != 1 {
					return false
				}
				f, ok := call.Fun.(*ast.Ident)
				if !ok || f.Name != "len" {
					return false
				}
				id, ok := call.Args[0].(*ast.Ident)
				return ok && p.TypesInfo.Uses[id] == obj
			}
			if !isLenTab(be.Y) {
				return true
			}
			uses++
			key := fmt.Sprintf("model2d table guard #%d", uses)
			if be.Op == token.LSS && isLenMinus(be.X, 2) {
				c.ok(rule, key, be.Pos(), "the fast path is taken only when row len(b)-2 exists")
			} else {
				c.bad(rule, key, be.Pos(), "the guard "+types.ExprString(be)+" does not establish that row len(b)-2 exists")
			}
			return true
		})
	}
}

// isLenMinus: e is len(x) - k.
func isLenMinus(e ast.Expr, k int) bool {
	be, ok := ast.Unparen(e).(*ast.BinaryExpr)
	if !ok || be.Op != token.SUB {
		return false
	}
	call, ok := be.X.(*ast.CallExpr)
	if !ok {
		return false
	}
	if f, ok := call.Fun.(*ast.Ident); !ok || f.Name != "len" {
		return false
	}
	bl, ok := be.Y.(*ast.BasicLit)
	return ok && bl.Value == fmt.Sprint(k)
}
