package main

import (
	"fmt"
	"go/ast"
	"go/token"
	"go/types"

	"golang.org/x/tools/go/packages"
)

// THRESH: selecting one of several parts by a single draw compares the draw
// with CUMULATIVE thresholds: after `if part < A { ... } else`, the draw is
// known to be at least A, so the next test `part < B` in the else branch has to
// use a threshold that contains A as a summand (A + b), unless the draw was
// reduced by A in between. A second threshold that does not contain the first
// gives the second part the wrong share (or none).
func (c *Ctx) runThresholds(rule string, pkgs []*packages.Package, fileOK func(name string) bool) {
	summands := func(e ast.Expr) []string {
		var res []string
		var walk func(e ast.Expr)
		walk = func(e ast.Expr) {
			e = ast.Unparen(e)
			if be, ok := e.(*ast.BinaryExpr); ok && be.Op == token.ADD {
				walk(be.X)
				walk(be.Y)
				return
			}
			res = append(res, types.ExprString(e))
		}
		walk(e)
		return res
	}
	for _, p := range pkgs {
		if p == nil {
			continue
		}
		info := p.TypesInfo
		for _, f := range p.Syntax {
			if fileOK != nil && !fileOK(c.Fset.Position(f.Pos()).Filename) {
				continue
			}
			for _, d := range f.Decls {
				fd, ok := d.(*ast.FuncDecl)
				if !ok || fd.Body == nil {
					continue
				}
				n := 0
				ast.Inspect(fd.Body, func(nd ast.Node) bool {
					outer, ok := nd.(*ast.IfStmt)
					if !ok || outer.Else == nil {
						return true
					}
					oc, ok := ast.Unparen(outer.Cond).(*ast.BinaryExpr)
					if !ok || oc.Op != token.LSS {
						return true
					}
					xid, ok := ast.Unparen(oc.X).(*ast.Ident)
					if !ok {
						return true
					}
					xobj := info.Uses[xid]
					if xobj == nil || !isFloat(xobj.Type()) {
						return true
					}
					if tv := info.Types[oc.Y]; tv.Value != nil {
						return true // constant thresholds: ordinary range tests
					}
					// the first test of the same variable in the else branch
					var inner *ast.IfStmt
					reassigned := false
					var stmts []ast.Stmt
					switch e := outer.Else.(type) {
					case *ast.IfStmt:
						stmts = []ast.Stmt{e}
					case *ast.BlockStmt:
						stmts = e.List
					}
					for _, st := range stmts {
						if inner != nil {
							break
						}
						ast.Inspect(st, func(m ast.Node) bool {
							if inner != nil {
								return false
							}
							switch y := m.(type) {
							case *ast.AssignStmt:
								for _, l := range y.Lhs {
									if id, ok := l.(*ast.Ident); ok && info.Uses[id] == xobj {
										reassigned = true
									}
								}
							case *ast.IfStmt:
								if ic, ok := ast.Unparen(y.Cond).(*ast.BinaryExpr); ok && ic.Op == token.LSS {
									if id, ok := ast.Unparen(ic.X).(*ast.Ident); ok && info.Uses[id] == xobj && !reassigned {
										inner = y
									}
								}
								return false
							}
							return true
						})
					}
					if inner == nil {
						return true
					}
					ic := ast.Unparen(inner.Cond).(*ast.BinaryExpr)
					if tv := info.Types[ic.Y]; tv.Value != nil {
						return true
					}
					n++
					name := declName(p, fd)
					c.analysed(name)
					key := fmt.Sprintf("%s threshold chain#%d on %s", name, n, xid.Name)
					have := map[string]int{}
					for _, s := range summands(ic.Y) {
						have[s]++
					}
					missing := ""
					for _, s := range summands(oc.Y) {
						if have[s] == 0 {
							missing = s
						} else {
							have[s]--
						}
					}
					if missing != "" {
						c.bad(rule, key, inner.Pos(), fmt.Sprintf("%s is known to be at least %s here, but it is compared with %s, which does not contain %s as a summand: the thresholds of one draw have to be cumulative", xid.Name, types.ExprString(oc.Y), types.ExprString(ic.Y), missing))
					} else {
						c.ok(rule, key, inner.Pos(), "the second threshold contains the first")
					}
					return true
				})
			}
		}
	}
}
