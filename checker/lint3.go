package main

// Rules added after the second round of seeded changes.

import (
	"fmt"
	"go/ast"
	"go/constant"
	"go/token"
	"go/types"
	"path/filepath"
	"regexp"
	"strings"

	"golang.org/x/tools/go/packages"
	"golang.org/x/tools/go/ssa"
	"golang.org/x/tools/go/types/typeutil"
)

// baseIn returns a file-name predicate (fixture files always pass).
func baseIn(names ...string) func(string) bool {
	set := map[string]bool{}
	for _, n := range names {
		set[n] = true
	}
	return func(n string) bool { return set[n] }
}

// argName is the identifier a call argument is spelled with: x, s.x, &x.
func argName(e ast.Expr) string {
	switch x := ast.Unparen(e).(type) {
	case *ast.Ident:
		return x.Name
	case *ast.SelectorExpr:
		return x.Sel.Name
	case *ast.UnaryExpr:
		return argName(x.X)
	}
	return ""
}

// ---------------------------------------------------------------------------
// ARGSWAP — a call to a function of this repository passes, for two
// parameters of identical type, arguments that are spelled exactly like the
// *other* parameter's name (f(clip, repair) for func f(repair, clip bool)).
// Instances are the calls where the spelling is informative: both arguments
// are spelled like the two parameters, in some order.

// Not informative, hence not instances (enumerated from the tree): coordinate
// constructors (single-letter parameters: XY(-v.Y, v.X) is a perpendicular),
// numbered generic names (p1/p2, i1/i2: AddQuad(p2, p1, ..) flips orientation),
// and self-recursion with reversed arguments (symmetric normalisation).
var numberedName = regexp.MustCompile(`^[A-Za-z]{1,2}[0-9]+$`)

// deliberateReversal recognises the two idioms (enumerated from the tree, both
// in render3d/material.go) in which an argument is passed in another
// parameter's role on purpose. They are stated on the structure, not on the
// names of particular functions, so renaming a helper does not turn an
// accepted site into a report:
//
//	(1) twin delegation: a method whose name contains "Dest" calls the method
//	    of the same name with "Source" instead (or vice versa) — the
//	    destination-side quantity IS the source-side quantity with the roles
//	    exchanged;
//	(2) sampler/density agreement: an XDensity method calls a helper with
//	    exactly the argument list its sampler SampleX (same receiver type)
//	    uses — the density must be computed from what the sampler draws from,
//	    whatever the helper calls its parameters.
func deliberateReversal(p *packages.Package, stack []ast.Node, enc string, callee *types.Func, call *ast.CallExpr) string {
	var fd *ast.FuncDecl
	for i := len(stack) - 1; i >= 0; i-- {
		if f, ok := stack[i].(*ast.FuncDecl); ok {
			fd = f
			break
		}
	}
	if fd == nil {
		return ""
	}
	name := fd.Name.Name
	twin := func(a, b string) bool {
		return strings.Contains(a, "Dest") && strings.Replace(a, "Dest", "Source", 1) == b ||
			strings.Contains(a, "Source") && strings.Replace(a, "Source", "Dest", 1) == b
	}
	if twin(name, callee.Name()) {
		return "twin delegation: " + name + " is " + callee.Name() + " with the source and destination roles exchanged"
	}
	if strings.HasSuffix(name, "Density") && fd.Recv != nil && len(fd.Recv.List) == 1 {
		sampler := "Sample" + strings.TrimSuffix(name, "Density")
		recvT := typeNameOf(p.TypesInfo.TypeOf(fd.Recv.List[0].Type))
		want := callArgString(call)
		for _, file := range p.Syntax {
			for _, d := range file.Decls {
				sd, ok := d.(*ast.FuncDecl)
				if !ok || sd.Body == nil || sd.Name.Name != sampler || sd.Recv == nil || len(sd.Recv.List) != 1 {
					continue
				}
				if typeNameOf(p.TypesInfo.TypeOf(sd.Recv.List[0].Type)) != recvT {
					continue
				}
				found := false
				ast.Inspect(sd.Body, func(n ast.Node) bool {
					if c2, ok := n.(*ast.CallExpr); ok {
						if f2, ok := typeutil.Callee(p.TypesInfo, c2).(*types.Func); ok && f2 == callee && callArgString(c2) == want {
							found = true
						}
					}
					return true
				})
				if found {
					return "sampler/density agreement: " + sampler + " calls " + callee.Name() + " with the same arguments"
				}
			}
		}
	}
	return ""
}

func callArgString(call *ast.CallExpr) string {
	var parts []string
	for _, a := range call.Args {
		parts = append(parts, types.ExprString(a))
	}
	return strings.Join(parts, ", ")
}

// argRoleRule, when set, makes runArgSwap also emit ARGROLE obligations.
var argRoleRule = "ARGROLE"

func (c *Ctx) runArgSwap(rule string, pkgs []*packages.Package, fileOK func(name string) bool, pairOK func(a, b string) bool) {
	for _, p := range pkgs {
		if p == nil {
			continue
		}
		for _, file := range p.Syntax {
			fname := p.Fset.Position(file.Pos()).Filename
			isFx := strings.Contains(fname, "/fixtures/")
			if fileOK != nil && !isFx && !fileOK(filepath.Base(fname)) {
				continue
			}
			var stack []ast.Node
			ast.Inspect(file, func(n ast.Node) bool {
				if n == nil {
					stack = stack[:len(stack)-1]
					return true
				}
				stack = append(stack, n)
				call, ok := n.(*ast.CallExpr)
				if !ok {
					return true
				}
				fn, ok := typeutil.Callee(p.TypesInfo, call).(*types.Func)
				if !ok || fn.Pkg() == nil || !strings.HasPrefix(fn.Pkg().Path(), repoMod) && !strings.Contains(fn.Pkg().Path(), "fixtures/") {
					return true
				}
				sig := fn.Type().(*types.Signature)
				if sig.Variadic() || sig.Params().Len() != len(call.Args) {
					return true
				}
				enc := ""
				for i := len(stack) - 1; i >= 0; i-- {
					if fd, ok := stack[i].(*ast.FuncDecl); ok {
						if p.TypesInfo.Defs[fd.Name] == types.Object(fn) {
							return true // self-recursion
						}
						enc = fd.Name.Name
						if fd.Recv != nil && len(fd.Recv.List) > 0 {
							enc = types.ExprString(fd.Recv.List[0].Type) + "." + enc
						}
						break
					}
				}
				// ARGROLE: the enclosing function has a parameter spelled like the callee's
				// parameter (same type) but passes ANOTHER of its own parameters of that type.
				if argRoleRule != "" {
					var encParams map[string]types.Type
					for i := len(stack) - 1; i >= 0; i-- {
						if fd, ok := stack[i].(*ast.FuncDecl); ok {
							encParams = map[string]types.Type{}
							if fd.Type.Params != nil {
								for _, f := range fd.Type.Params.List {
									for _, nm := range f.Names {
										if o := p.TypesInfo.Defs[nm]; o != nil {
											encParams[nm.Name] = o.Type()
										}
									}
								}
							}
							break
						}
					}
					for i := 0; i < len(call.Args); i++ {
						pi := sig.Params().At(i)
						if len(pi.Name()) <= 1 || numberedName.MatchString(pi.Name()) {
							continue
						}
						id, ok := ast.Unparen(call.Args[i]).(*ast.Ident)
						if !ok {
							continue
						}
						own, has := encParams[pi.Name()]
						other, isParam := encParams[id.Name]
						if !has || !types.Identical(own, pi.Type()) {
							continue
						}
						c.analysed(p.PkgPath + "." + enc)
						key := fmt.Sprintf("%s.%s calls %s: %s for parameter %s", shortPkg(p.PkgPath), enc, fn.Name(), id.Name, pi.Name())
						if id.Name == pi.Name() {
							c.ok(argRoleRule, key, call.Pos(), "the caller's parameter of the same name is passed")
						} else if isParam && types.Identical(other, pi.Type()) {
							if why := deliberateReversal(p, stack, enc, fn, call); why != "" {
								c.except(argRoleRule, key, call.Pos(), why)
							} else {
								c.bad(argRoleRule, key, call.Pos(), fmt.Sprintf("the callee's parameter %s has a namesake among the caller's own parameters (same type %s), but the caller's parameter %s is passed instead: the roles are confused", pi.Name(), pi.Type(), id.Name))
							}
						}
					}
				}
				for i := 0; i < len(call.Args); i++ {
					for j := i + 1; j < len(call.Args); j++ {
						pi, pj := sig.Params().At(i), sig.Params().At(j)
						if pi.Name() == "" || pj.Name() == "" || pi.Name() == "_" || pj.Name() == "_" || pi.Name() == pj.Name() {
							continue
						}
						if !types.Identical(pi.Type(), pj.Type()) {
							continue
						}
						if len(pi.Name()) == 1 || len(pj.Name()) == 1 || numberedName.MatchString(pi.Name()) || numberedName.MatchString(pj.Name()) {
							continue
						}
						if pairOK != nil && !isFx && !pairOK(pi.Name(), pj.Name()) {
							continue
						}
						ai, aj := argName(call.Args[i]), argName(call.Args[j])
						if ai == "" || aj == "" {
							continue
						}
						straight := strings.EqualFold(ai, pi.Name()) && strings.EqualFold(aj, pj.Name())
						swapped := strings.EqualFold(ai, pj.Name()) && strings.EqualFold(aj, pi.Name())
						if !straight && !swapped {
							continue
						}
						c.analysed(p.PkgPath + "." + enc)
						key := fmt.Sprintf("%s.%s calls %s with (%s, %s) for (%s, %s)", shortPkg(p.PkgPath), enc, fn.Name(), ai, aj, pi.Name(), pj.Name())
						if why := deliberateReversal(p, stack, enc, fn, call); why != "" && swapped {
							c.except(rule, key, call.Pos(), why)
						} else if swapped {
							c.bad(rule, key, call.Pos(), fmt.Sprintf("arguments %d and %d are spelled like each other's parameter: %s is passed for parameter %s and %s for parameter %s (same type %s) — the two are swapped", i+1, j+1, ai, pi.Name(), aj, pj.Name(), pi.Type()))
						} else {
							c.ok(rule, key, call.Pos(), "each argument is spelled like its own parameter")
						}
					}
				}
				return true
			})
		}
	}
}

// ---------------------------------------------------------------------------
// SIGNED — the unexported ray kernels report *signed* ray parameters ("reports
// negative scales for use in SDFs"). Every caller must establish s >= 0 on a
// dominating edge before the parameter is used for anything but a comparison
// or math.Abs: otherwise hits behind the origin are reported.

type signedSource struct {
	pkg, fn string
	result  int
}

var signedSources = []signedSource{
	{"model3d", "Triangle.rayCollision", 1},
	{"model2d", "Segment.rayCollision", 1},
}

func nonNegFact(facts []fact, v ssa.Value) bool {
	for _, f := range facts {
		be, ok := f.cond.(*ssa.BinOp)
		if !ok {
			continue
		}
		zero := func(x ssa.Value) bool {
			k, ok := x.(*ssa.Const)
			return ok && k.Value != nil && constant.Sign(k.Value) == 0
		}
		switch {
		case be.X == v && zero(be.Y):
			// v < 0 not taken, v >= 0 taken, v > 0 taken
			if be.Op == token.LSS && !f.taken || (be.Op == token.GEQ || be.Op == token.GTR) && f.taken {
				return true
			}
		case be.Y == v && zero(be.X):
			// 0 > v not taken, 0 <= v taken, 0 < v taken
			if be.Op == token.GTR && !f.taken || (be.Op == token.LEQ || be.Op == token.LSS) && f.taken {
				return true
			}
		}
	}
	return false
}

func (c *Ctx) runSigned(rule string, pkgs []*packages.Package) {
	srcs := map[*ssa.Function]int{}
	for _, s := range signedSources {
		if f := c.ssaFunc(c.mustFunc(s.pkg, s.fn)); f != nil {
			srcs[f] = s.result
		}
	}
	for _, p := range pkgs {
		if p != nil && strings.Contains(p.PkgPath, "fixtures/") {
			for _, fn := range c.srcFuncs(p) {
				if fn.Name() == "signedKernel" {
					srcs[fn] = 0 // the fixture's own signed source
				}
			}
		}
	}
	for _, p := range pkgs {
		if p == nil {
			continue
		}
		for _, fn := range c.srcFuncs(p) {
			n := 0
			for _, b := range fn.Blocks {
				for _, ins := range b.Instrs {
					call, ok := ins.(*ssa.Call)
					if !ok {
						continue
					}
					callee := call.Call.StaticCallee()
					idx, ok := srcs[callee]
					if !ok {
						continue
					}
					n++
					c.analysed(qname(fn))
					key := fmt.Sprintf("%s uses the signed parameter of %s#%d", qname(fn), callee.Name(), n)
					var bad ssa.Instruction
					uses := 0
					for _, r := range *call.Referrers() {
						ex, ok := r.(*ssa.Extract)
						if !ok || ex.Index != idx {
							continue
						}
						for _, u := range *ex.Referrers() {
							switch x := u.(type) {
							case *ssa.DebugRef:
								continue
							case *ssa.BinOp:
								switch x.Op {
								case token.LSS, token.LEQ, token.GTR, token.GEQ, token.EQL, token.NEQ:
									continue // a comparison
								}
							case *ssa.Call:
								if sc := x.Call.StaticCallee(); sc != nil && sc.Pkg != nil && sc.Pkg.Pkg.Path() == "math" && sc.Name() == "Abs" {
									continue
								}
							}
							uses++
							if !nonNegFact(factsAt(u.Block()), ex) && bad == nil {
								bad = u
							}
						}
					}
					switch {
					case bad != nil:
						c.bad(rule, key, bad.Pos(), "the signed ray parameter is used here without a dominating test that it is >= 0: a hit behind the ray origin is reported as a collision")
					case uses == 0:
						c.ok(rule, key, call.Pos(), "the signed parameter is only compared or passed to math.Abs")
					default:
						c.ok(rule, key, call.Pos(), fmt.Sprintf("all %d uses are dominated by a test that the parameter is >= 0", uses))
					}
				}
			}
		}
	}
}
