package main

// MI.PATCH — patching the vertex index by hand: `v2t.Store(k, faces)` REPLACES
// whatever the index holds for vertex k. When a vertex is moved onto a
// position that may already be a vertex of the mesh (projection to the base
// plane, the midpoint of a collapsed edge) the stored list must be built from
// the list already present at k, otherwise the faces that were at k vanish
// from Find/Neighbors although they are still in the face set. Obligation per
// Store on a mesh's vertex index outside Add and the lazy builder: the value
// stored depends on a Value/Load of the index with the same key.

import (
	"go/token"
	"strings"

	"golang.org/x/tools/go/packages"
	"golang.org/x/tools/go/ssa"
)

func (c *Ctx) runIndexPatch(rule string, pkgs []*packages.Package) {
	for _, p := range pkgs {
		if p == nil {
			continue
		}
		for _, fn := range c.srcFuncs(p) {
			top := fn
			for top.Parent() != nil {
				top = top.Parent()
			}
			if strings.HasPrefix(top.Name(), "getVertexToFace") || top.Name() == "Add" {
				continue
			}
			n := 0
			for _, b := range fn.Blocks {
				for _, ins := range b.Instrs {
					call, ok := ins.(*ssa.Call)
					if !ok || !callsNamed(call, "Store") || len(call.Call.Args) != 3 {
						continue
					}
					callee := call.Call.StaticCallee()
					if callee == nil || callee.Signature.Recv() == nil || !strings.Contains(callee.Signature.Recv().Type().String(), "ToSlice") {
						continue
					}
					if !derivesFromIndex(call.Call.Args[0], 0) {
						continue
					}
					key, val := call.Call.Args[1], call.Call.Args[2]
					n++
					c.analysed(qname(fn))
					okey := qname(fn) + " index patch#" + itoa(n)
					if dependsOnIndexValue(val, key, 0, map[ssa.Value]bool{}) {
						c.ok(rule, okey, call.Pos(), "the stored list is built from the list already indexed under the same key")
					} else {
						c.bad(rule, okey, call.Pos(), "Store replaces the face list of the target vertex with a list that does not include what the index already holds for that key: if the target position is already a vertex of the mesh its faces vanish from the index")
					}
				}
			}
		}
	}
}

// dependsOnIndexValue: v is (built from) a Value/Load of a vertex index with
// the given key.
func dependsOnIndexValue(v, key ssa.Value, depth int, seen map[ssa.Value]bool) bool {
	if depth > 12 || seen[v] {
		return false
	}
	seen[v] = true
	switch x := v.(type) {
	case *ssa.Call:
		if f := x.Call.StaticCallee(); f != nil && (callsNamed(x, "Value") || callsNamed(x, "Load")) && len(x.Call.Args) == 2 && derivesFromIndex(x.Call.Args[0], 0) {
			return x.Call.Args[1] == key || sameValue(x.Call.Args[1], key) || equivValue(x.Call.Args[1], key, 0)
		}
		if bi, ok := x.Call.Value.(*ssa.Builtin); ok && bi.Name() == "append" {
			for _, a := range x.Call.Args {
				if dependsOnIndexValue(a, key, depth+1, seen) {
					return true
				}
			}
		}
		// a helper that returns one of its slice parameters, possibly extended
		// by appends (appendMissing(list, extra))
		if f := x.Call.StaticCallee(); f != nil && f.Blocks != nil {
			if k := extendedParam(f); k >= 0 && k < len(x.Call.Args) {
				return dependsOnIndexValue(x.Call.Args[k], key, depth+1, seen)
			}
		}
	case *ssa.Extract:
		return dependsOnIndexValue(x.Tuple, key, depth+1, seen)
	case *ssa.Phi:
		for _, e := range x.Edges {
			if dependsOnIndexValue(e, key, depth+1, seen) {
				return true
			}
		}
	case *ssa.Slice:
		return dependsOnIndexValue(x.X, key, depth+1, seen)
	case *ssa.UnOp:
		if x.Op == token.MUL {
			var cell ssa.Value = x.X
			if fv, ok := cell.(*ssa.FreeVar); ok {
				cell = freeVarBinding(fv)
			}
			if al, ok := cell.(*ssa.Alloc); ok {
				for _, ref := range *al.Referrers() {
					if st, ok := ref.(*ssa.Store); ok && st.Addr == ssa.Value(al) && dependsOnIndexValue(st.Val, key, depth+1, seen) {
						return true
					}
				}
			}
		}
	}
	return false
}

// extendedParam: every value f returns as its first result is its parameter #k
// or that parameter extended by appends (through phis and re-slicing); k or -1.
func extendedParam(f *ssa.Function) int {
	res := -1
	var base func(v ssa.Value, depth int, seen map[ssa.Value]bool) bool
	base = func(v ssa.Value, depth int, seen map[ssa.Value]bool) bool {
		if depth > 12 {
			return false
		}
		if seen[v] {
			return true
		}
		seen[v] = true
		switch x := v.(type) {
		case *ssa.Parameter:
			for i, p := range f.Params {
				if p == x {
					if res >= 0 && res != i {
						return false
					}
					res = i
					return true
				}
			}
			return false
		case *ssa.Phi:
			for _, e := range x.Edges {
				if !base(e, depth+1, seen) {
					return false
				}
			}
			return true
		case *ssa.Slice:
			return base(x.X, depth+1, seen)
		case *ssa.Call:
			if bi, ok := x.Call.Value.(*ssa.Builtin); ok && bi.Name() == "append" && len(x.Call.Args) > 0 {
				return base(x.Call.Args[0], depth+1, seen)
			}
		}
		return false
	}
	any := false
	for _, b := range f.Blocks {
		ret, ok := b.Instrs[len(b.Instrs)-1].(*ssa.Return)
		if !ok {
			continue
		}
		if len(ret.Results) == 0 {
			return -1
		}
		any = true
		if !base(ret.Results[0], 0, map[ssa.Value]bool{}) {
			return -1
		}
	}
	if !any {
		return -1
	}
	return res
}
