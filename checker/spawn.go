package main

// SPAWNJOIN — a function that starts its workers in a counted loop
// (`for i := 0; i < N; i++ { go func() { ...; ch <- result }() }`, one send per
// worker on ch) and gathers their results in a counted loop
// (`for i := 0; i < M; i++ { ... <-ch ... }`) must count both loops with the
// same quantity. With M < N results of some workers are dropped (which ones
// depends on the schedule), with M > N the gather blocks for ever.
// N and M agree when they are the same variable (followed through single
// `a := b` definitions) or the same expression text.

import (
	"fmt"
	"go/ast"
	"go/token"
	"go/types"

	"golang.org/x/tools/go/packages"
)

// countedBound returns the bound expression N of `for i := 0; i < N; i++`.
func countedBound(fs *ast.ForStmt) ast.Expr {
	if fs.Cond == nil || fs.Init == nil || fs.Post == nil {
		return nil
	}
	be, ok := fs.Cond.(*ast.BinaryExpr)
	if !ok || (be.Op != token.LSS && be.Op != token.NEQ) {
		return nil
	}
	if _, ok := fs.Post.(*ast.IncDecStmt); !ok {
		return nil
	}
	as, ok := fs.Init.(*ast.AssignStmt)
	if !ok || len(as.Lhs) != 1 || len(as.Rhs) != 1 {
		return nil
	}
	if bl, ok := as.Rhs[0].(*ast.BasicLit); !ok || bl.Value != "0" {
		return nil
	}
	iv, ok := as.Lhs[0].(*ast.Ident)
	cv, ok2 := be.X.(*ast.Ident)
	if !ok || !ok2 || iv.Name != cv.Name {
		return nil
	}
	return be.Y
}

func chanObj(info *types.Info, e ast.Expr) types.Object {
	switch x := ast.Unparen(e).(type) {
	case *ast.Ident:
		return info.Uses[x]
	case *ast.SelectorExpr:
		return info.Uses[x.Sel]
	}
	return nil
}

// singleDef follows `a := b` definitions of variables assigned exactly once.
func singleDef(info *types.Info, body *ast.BlockStmt, e ast.Expr) ast.Expr {
	for depth := 0; depth < 4; depth++ {
		id, ok := ast.Unparen(e).(*ast.Ident)
		if !ok {
			return e
		}
		obj := info.Uses[id]
		if obj == nil {
			return e
		}
		var def ast.Expr
		n := 0
		ast.Inspect(body, func(nd ast.Node) bool {
			switch s := nd.(type) {
			case *ast.AssignStmt:
				for i, l := range s.Lhs {
					if li, ok := l.(*ast.Ident); ok && (info.Defs[li] == obj || info.Uses[li] == obj) {
						n++
						if len(s.Lhs) == len(s.Rhs) && s.Tok == token.DEFINE {
							def = s.Rhs[i]
						} else {
							def = nil
							n += 10
						}
					}
				}
			case *ast.IncDecStmt:
				if li, ok := s.X.(*ast.Ident); ok && info.Uses[li] == obj {
					n += 10
				}
			}
			return true
		})
		if n != 1 || def == nil {
			return e
		}
		if _, ok := ast.Unparen(def).(*ast.Ident); !ok {
			return e
		}
		e = def
	}
	return e
}

func (c *Ctx) runSpawnJoin(rule string, pkgs []*packages.Package) {
	for _, p := range pkgs {
		if p == nil {
			continue
		}
		info := p.TypesInfo
		for _, file := range p.Syntax {
			for _, d := range file.Decls {
				fd, ok := d.(*ast.FuncDecl)
				if !ok || fd.Body == nil {
					continue
				}
				type loop struct {
					bound ast.Expr
					pos   token.Pos
				}
				spawns := map[types.Object][]loop{}
				joins := map[types.Object][]loop{}
				ast.Inspect(fd.Body, func(nd ast.Node) bool {
					fs, ok := nd.(*ast.ForStmt)
					if !ok {
						return true
					}
					bound := countedBound(fs)
					if bound == nil {
						return true
					}
					for _, st := range fs.Body.List {
						// spawn: a go statement directly in the loop body
						if gs, ok := st.(*ast.GoStmt); ok {
							if fl, ok := gs.Call.Fun.(*ast.FuncLit); ok {
								for _, ws := range fl.Body.List {
									if ss, ok := ws.(*ast.SendStmt); ok {
										if o := chanObj(info, ss.Chan); o != nil {
											spawns[o] = append(spawns[o], loop{bound, fs.Pos()})
										}
									}
								}
							}
						}
					}
					// join: a receive anywhere in the body, outside nested function literals and loops
					ast.Inspect(fs.Body, func(n2 ast.Node) bool {
						switch x := n2.(type) {
						case *ast.FuncLit, *ast.ForStmt, *ast.RangeStmt:
							return false
						case *ast.UnaryExpr:
							if x.Op == token.ARROW {
								if o := chanObj(info, x.X); o != nil {
									joins[o] = append(joins[o], loop{bound, fs.Pos()})
								}
							}
						}
						return true
					})
					return true
				})
				for o, sp := range spawns {
					for _, s := range sp {
						for _, j := range joins[o] {
							if j.pos == s.pos {
								continue
							}
							obj, _ := info.Defs[fd.Name].(*types.Func)
							key := objName(obj) + " workers/results of " + o.Name()
							c.analysed(objName(obj))
							a := singleDef(info, fd.Body, s.bound)
							b := singleDef(info, fd.Body, j.bound)
							same := types.ExprString(a) == types.ExprString(b)
							if ai, ok := ast.Unparen(a).(*ast.Ident); ok {
								if bi, ok := ast.Unparen(b).(*ast.Ident); ok {
									same = info.Uses[ai] != nil && info.Uses[ai] == info.Uses[bi]
								}
							}
							if same {
								c.ok(rule, key, j.pos, "the gather loop runs as often as the loop that starts the workers ("+types.ExprString(a)+")")
							} else {
								c.bad(rule, key, j.pos, "workers are started "+types.ExprString(s.bound)+" times, each sending one result on "+o.Name()+", but the results are gathered "+types.ExprString(j.bound)+" times: results are dropped (schedule-dependent output) or the gather blocks for ever")
							}
						}
					}
				}
			}
		}
	}
}

// LOOPCAPTURE — the module declares a Go version below 1.22, so a `for` loop
// has ONE variable per loop, shared by all iterations. A goroutine started in
// the loop whose function literal reads the loop variable (instead of
// receiving it as an argument) races with the loop's increment and sees
// whatever value the variable has when the goroutine gets to run: the work
// split between the workers is lost.
//
// STRIDE — workers started in a loop counted by N, each given its loop index
// as start and striding through the work with `idx += M`, partition the work
// only when M and N are the same quantity.

func (c *Ctx) goVersionBelow122() bool {
	for _, p := range c.Pkgs {
		if p.Module != nil && p.Module.Path == repoMod {
			v := p.Module.GoVersion
			var maj, min int
			fmt.Sscanf(v, "%d.%d", &maj, &min)
			return maj == 1 && min < 22
		}
	}
	return true
}

func (c *Ctx) runLoopCapture(prefix string, pkgs []*packages.Package) {
	old := c.goVersionBelow122()
	for _, p := range pkgs {
		if p == nil {
			continue
		}
		info := p.TypesInfo
		for _, file := range p.Syntax {
			for _, d := range file.Decls {
				fd, ok := d.(*ast.FuncDecl)
				if !ok || fd.Body == nil {
					continue
				}
				fobj, _ := info.Defs[fd.Name].(*types.Func)
				n := 0
				ast.Inspect(fd.Body, func(nd ast.Node) bool {
					var body *ast.BlockStmt
					loopVars := map[types.Object]bool{}
					var bound ast.Expr
					switch x := nd.(type) {
					case *ast.ForStmt:
						body = x.Body
						if as, ok := x.Init.(*ast.AssignStmt); ok && as.Tok == token.DEFINE {
							for _, l := range as.Lhs {
								if id, ok := l.(*ast.Ident); ok {
									loopVars[info.Defs[id]] = true
								}
							}
						}
						bound = countedBound(x)
					case *ast.RangeStmt:
						body = x.Body
						if x.Tok == token.DEFINE {
							for _, e := range []ast.Expr{x.Key, x.Value} {
								if id, ok := e.(*ast.Ident); ok && id.Name != "_" {
									loopVars[info.Defs[id]] = true
								}
							}
						}
					}
					if body == nil {
						return true
					}
					for _, st := range body.List {
						gs, ok := st.(*ast.GoStmt)
						if !ok {
							continue
						}
						fl, ok := gs.Call.Fun.(*ast.FuncLit)
						if !ok {
							continue
						}
						n++
						c.analysed(objName(fobj))
						key := objName(fobj) + " goroutine#" + itoa(n)
						var captured *ast.Ident
						ast.Inspect(fl.Body, func(n2 ast.Node) bool {
							if id, ok := n2.(*ast.Ident); ok && loopVars[info.Uses[id]] && captured == nil {
								captured = id
							}
							return true
						})
						switch {
						case captured != nil && old:
							c.bad(prefix+".CAPTURE", key, captured.Pos(), "the goroutine reads the loop variable "+captured.Name+" through its closure; with the module's Go version (< 1.22) all iterations share that variable, so the worker races with the loop and works on another iteration's share")
						default:
							c.ok(prefix+".CAPTURE", key, gs.Pos(), "the goroutine does not read a per-loop variable through its closure")
						}
						// STRIDE: go func(start int) { for idx := start; ...; idx += M } (i) in a loop counted by N
						if bound == nil || len(gs.Call.Args) == 0 || fl.Type.Params == nil {
							continue
						}
						params := map[types.Object]bool{}
						for _, f := range fl.Type.Params.List {
							for _, nm := range f.Names {
								params[info.Defs[nm]] = true
							}
						}
						ast.Inspect(fl.Body, func(n2 ast.Node) bool {
							fs, ok := n2.(*ast.ForStmt)
							if !ok || fs.Init == nil || fs.Post == nil {
								return true
							}
							as, ok := fs.Init.(*ast.AssignStmt)
							if !ok || len(as.Rhs) != 1 {
								return true
							}
							sid, ok := as.Rhs[0].(*ast.Ident)
							if !ok || !params[info.Uses[sid]] {
								return true
							}
							post, ok := fs.Post.(*ast.AssignStmt)
							if !ok || post.Tok != token.ADD_ASSIGN || len(post.Rhs) != 1 {
								return true
							}
							skey := objName(fobj) + " stride of goroutine#" + itoa(n)
							a := singleDef(info, fd.Body, bound)
							b := singleDef(info, fd.Body, post.Rhs[0])
							same := types.ExprString(a) == types.ExprString(b)
							if same {
								c.ok(prefix+".STRIDE", skey, fs.Pos(), "the workers stride by the number of workers started ("+types.ExprString(a)+")")
							} else {
								c.bad(prefix+".STRIDE", skey, fs.Pos(), types.ExprString(bound)+" workers are started but each strides by "+types.ExprString(post.Rhs[0])+": items are processed twice or never")
							}
							return true
						})
					}
					return true
				})
			}
		}
	}
}
