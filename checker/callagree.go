package main

import (
	"fmt"
	"go/ast"
	"go/types"

	"golang.org/x/tools/go/packages"
)

// CALLAGREE: when a function calls the same callee several times and hands its
// own parameter p to it in position k at one site, a sibling site that passes a
// package-level constant or variable in the same position ignores the caller's
// choice there (DirectionalCamera searched the distance with the package's
// default field of view and built the camera with the caller's).
func (c *Ctx) runCallAgree(rule string, pkgs []*packages.Package, fileOK func(name string) bool) {
	for _, p := range pkgs {
		if p == nil {
			continue
		}
		info := p.TypesInfo
		for _, f := range p.Syntax {
			if fileOK != nil && !fileOK(c.Fset.Position(f.Pos()).Filename) {
				continue
			}
			for _, d := range f.Decls {
				fd, ok := d.(*ast.FuncDecl)
				if !ok || fd.Body == nil {
					continue
				}
				params := map[types.Object]bool{}
				if fd.Type.Params != nil {
					for _, fl := range fd.Type.Params.List {
						for _, nm := range fl.Names {
							if o := info.Defs[nm]; o != nil {
								params[o] = true
							}
						}
					}
				}
				type site struct {
					call *ast.CallExpr
				}
				byCallee := map[*types.Func][]*ast.CallExpr{}
				ast.Inspect(fd.Body, func(nd ast.Node) bool {
					if call, ok := nd.(*ast.CallExpr); ok {
						if fn := calleeFunc(info, call); fn != nil && fn.Pkg() != nil && (fn.Pkg() == p.Types || c.isRepoPkg(fn.Pkg())) {
							byCallee[fn] = append(byCallee[fn], call)
						}
					}
					return true
				})
				n := 0
				for fn, calls := range byCallee {
					if len(calls) < 2 {
						continue
					}
					sig, _ := fn.Type().(*types.Signature)
					if sig == nil || sig.Variadic() {
						continue
					}
					for k := 0; k < sig.Params().Len(); k++ {
						var viaParam, viaGlobal *ast.CallExpr
						var pname, gname string
						for _, call := range calls {
							if k >= len(call.Args) {
								continue
							}
							id, ok := ast.Unparen(call.Args[k]).(*ast.Ident)
							if !ok {
								continue
							}
							o := info.Uses[id]
							if o == nil {
								continue
							}
							if params[o] {
								viaParam, pname = call, id.Name
							} else if o.Parent() == p.Types.Scope() {
								switch o.(type) {
								case *types.Const, *types.Var:
									viaGlobal, gname = call, id.Name
								}
							}
						}
						if viaParam == nil {
							continue
						}
						n++
						name := declName(p, fd)
						c.analysed(name)
						key := fmt.Sprintf("%s calls of %s arg#%d", name, fn.Name(), k)
						if viaGlobal != nil {
							c.bad(rule, key, viaGlobal.Pos(), fmt.Sprintf("one call of %s passes the caller's %s in this position, this one passes the package-level %s: the caller's choice is ignored here", fn.Name(), pname, gname))
						} else {
							c.ok(rule, key, viaParam.Pos(), "no sibling call replaces the parameter by a package-level value")
						}
					}
				}
			}
		}
	}
}
