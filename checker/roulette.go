package main

// ROULETTE — choosing item i with probability w[i] from one uniform draw p by
// a linear scan needs a running quantity: either p is decremented by each
// weight passed (`p -= w; if p < 0`) or the weights are accumulated
// (`acc += w; if p < acc`). A scan that compares the unchanged draw with each
// weight on its own (`if p < w`) selects item i with probability
// w[i]·Π(1−w[j<i]) — the sampler no longer matches the mixture density.

import (
	"go/ast"
	"go/token"
	"go/types"
	"strings"

	"golang.org/x/tools/go/packages"
)

func (c *Ctx) runRoulette(rule string, pkgs []*packages.Package) {
	for _, p := range pkgs {
		if p == nil {
			continue
		}
		info := p.TypesInfo
		for _, file := range p.Syntax {
			for _, d := range file.Decls {
				fd, ok := d.(*ast.FuncDecl)
				if !ok || fd.Body == nil {
					continue
				}
				fobj, _ := info.Defs[fd.Name].(*types.Func)
				// uniform draws: x := gen.Float64() / rand.Float64()
				draws := map[types.Object]bool{}
				ast.Inspect(fd.Body, func(n ast.Node) bool {
					as, ok := n.(*ast.AssignStmt)
					if !ok || as.Tok != token.DEFINE || len(as.Lhs) != 1 || len(as.Rhs) != 1 {
						return true
					}
					call, ok := as.Rhs[0].(*ast.CallExpr)
					if !ok {
						return true
					}
					if sel, ok := call.Fun.(*ast.SelectorExpr); ok && sel.Sel.Name == "Float64" && len(call.Args) == 0 {
						if id, ok := as.Lhs[0].(*ast.Ident); ok {
							draws[info.Defs[id]] = true
						}
					}
					return true
				})
				if len(draws) == 0 {
					continue
				}
				n := 0
				ast.Inspect(fd.Body, func(nd ast.Node) bool {
					rs, ok := nd.(*ast.RangeStmt)
					if !ok {
						return true
					}
					var loopVal types.Object
					if id, ok := rs.Value.(*ast.Ident); ok {
						loopVal = info.Defs[id]
					}
					// a comparison of a draw inside the loop
					var draw types.Object
					var cmp *ast.BinaryExpr
					ast.Inspect(rs.Body, func(n2 ast.Node) bool {
						be, ok := n2.(*ast.BinaryExpr)
						if !ok {
							return true
						}
						switch be.Op {
						case token.LSS, token.LEQ, token.GTR, token.GEQ:
						default:
							return true
						}
						for _, side := range []ast.Expr{be.X, be.Y} {
							if id, ok := ast.Unparen(side).(*ast.Ident); ok && draws[info.Uses[id]] && draw == nil {
								draw, cmp = info.Uses[id], be
							}
						}
						return true
					})
					if draw == nil || isFloat(info.TypeOf(rs.X)) {
						return true
					}
					if sl, ok := info.TypeOf(rs.X).Underlying().(*types.Slice); !ok || !isFloat(sl.Elem()) {
						return true
					}
					n++
					c.analysed(objName(fobj))
					key := objName(fobj) + " selection scan#" + itoa(n) + " over " + strings.TrimSpace(types.ExprString(rs.X))
					// running quantity: the draw is updated in the loop, or an accumulator += loop value
					running := false
					ast.Inspect(rs.Body, func(n2 ast.Node) bool {
						as, ok := n2.(*ast.AssignStmt)
						if !ok || len(as.Lhs) != 1 {
							return true
						}
						l, ok := as.Lhs[0].(*ast.Ident)
						if !ok {
							return true
						}
						lo := info.Uses[l]
						if lo == draw && (as.Tok == token.SUB_ASSIGN || as.Tok == token.ASSIGN) {
							running = true
						}
						if as.Tok == token.ADD_ASSIGN && loopVal != nil {
							if r, ok := ast.Unparen(as.Rhs[0]).(*ast.Ident); ok && info.Uses[r] == loopVal {
								// the accumulator must be the other side of the comparison
								for _, side := range []ast.Expr{cmp.X, cmp.Y} {
									if id, ok := ast.Unparen(side).(*ast.Ident); ok && info.Uses[id] == lo {
										running = true
									}
								}
							}
						}
						return true
					})
					if running {
						c.ok(rule, key, rs.Pos(), "the scan keeps a running quantity (the draw is reduced by, or compared with the sum of, the weights passed)")
					} else {
						c.bad(rule, key, cmp.Pos(), "the uniform draw is compared with each weight on its own ("+types.ExprString(cmp)+") and never reduced by the weights already passed: item i is selected with probability w[i]·Π(1−w[j<i]), not w[i]")
					}
					return true
				})
			}
		}
	}
}
