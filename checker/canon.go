package main

// CANON — a function that canonicalises one of its parameters in place
// (`axis = axis.Normalize()`, the idiom of NewMeshTorus, RevolveSolid,
// Equirect.At) works, from there on, with the canonical value; a use of the
// parameter that precedes the statement sees the caller's raw value (e.g. a
// bounding cylinder built from a non-unit axis while membership uses the unit
// axis). Obligation per such statement: no reference to the parameter precedes
// it, except as receiver of Norm()/NormSquared() (taking the length first is
// the legitimate reason to look at the raw value).

import (
	"go/ast"
	"go/token"
	"go/types"
	"path/filepath"
	"strings"

	"golang.org/x/tools/go/packages"
)

var canonMethods = map[string]bool{"Normalize": true}

func (c *Ctx) runCanonFirst(rule string, pkgs []*packages.Package) {
	c.runCanonFirstFiles(rule, pkgs, nil)
}

func (c *Ctx) runCanonFirstFiles(rule string, pkgs []*packages.Package, fileOK func(name string) bool) {
	for _, p := range pkgs {
		if p == nil {
			continue
		}
		info := p.TypesInfo
		for _, file := range p.Syntax {
			if fn := c.Fset.Position(file.Pos()).Filename; fileOK != nil && !strings.Contains(fn, "/fixtures/") && !fileOK(filepath.Base(fn)) {
				continue
			}
			for _, d := range file.Decls {
				fd, ok := d.(*ast.FuncDecl)
				if !ok || fd.Body == nil {
					continue
				}
				params := map[types.Object]bool{}
				if fd.Type.Params != nil {
					for _, f := range fd.Type.Params.List {
						for _, n := range f.Names {
							if o := info.Defs[n]; o != nil {
								params[o] = true
							}
						}
					}
				}
				if len(params) == 0 {
					continue
				}
				fobj, _ := info.Defs[fd.Name].(*types.Func)
				// the variant with a new name: d := p.Normalize() - from there on
				// the function works with d; a later scale-sensitive use of the raw
				// parameter (receiver of Scale/Add/Sub/Dot/ProjectOut..., or an
				// argument of one of them) mixes the two values
				for _, st := range fd.Body.List {
					as, ok := st.(*ast.AssignStmt)
					if !ok || as.Tok != token.DEFINE || len(as.Lhs) != 1 || len(as.Rhs) != 1 {
						continue
					}
					call, ok := as.Rhs[0].(*ast.CallExpr)
					if !ok || len(call.Args) != 0 {
						continue
					}
					sel, ok := call.Fun.(*ast.SelectorExpr)
					if !ok || !canonMethods[sel.Sel.Name] {
						continue
					}
					rid, ok := sel.X.(*ast.Ident)
					if !ok || !params[info.Uses[rid]] {
						continue
					}
					obj := info.Uses[rid]
					c.analysed(objName(fobj))
					key := objName(fobj) + " " + as.Lhs[0].(*ast.Ident).Name + " := " + obj.Name() + "." + sel.Sel.Name + "()"
					var late token.Pos
					ast.Inspect(fd.Body, func(n ast.Node) bool {
						ce, ok := n.(*ast.CallExpr)
						if !ok || ce.Pos() <= as.End() {
							return true
						}
						s2, ok := ce.Fun.(*ast.SelectorExpr)
						if !ok {
							return true
						}
						switch s2.Sel.Name {
						case "Scale", "Add", "Sub", "Dot", "ProjectOut", "Cross", "Mul", "Reflect":
						default:
							return true
						}
						uses := func(e ast.Expr) bool {
							id, ok := ast.Unparen(e).(*ast.Ident)
							return ok && info.Uses[id] == obj
						}
						hit := uses(s2.X)
						for _, a := range ce.Args {
							hit = hit || uses(a)
						}
						if hit && !late.IsValid() {
							late = ce.Pos()
						}
						return true
					})
					if late.IsValid() {
						c.bad(rule, key, late, "the parameter is still used raw in vector arithmetic after its canonical copy was made at "+c.pos(as.Pos())+": one part of the function works with the caller's value, another with the canonical one")
					} else {
						c.ok(rule, key, as.Pos(), "after the canonical copy is made the raw parameter is not used in vector arithmetic")
					}
				}
				for _, st := range fd.Body.List {
					as, ok := st.(*ast.AssignStmt)
					if !ok || as.Tok != token.ASSIGN || len(as.Lhs) != 1 || len(as.Rhs) != 1 {
						continue
					}
					lid, ok := as.Lhs[0].(*ast.Ident)
					if !ok || !params[info.Uses[lid]] {
						continue
					}
					call, ok := as.Rhs[0].(*ast.CallExpr)
					if !ok || len(call.Args) != 0 {
						continue
					}
					sel, ok := call.Fun.(*ast.SelectorExpr)
					if !ok || !canonMethods[sel.Sel.Name] {
						continue
					}
					rid, ok := sel.X.(*ast.Ident)
					if !ok || info.Uses[rid] != info.Uses[lid] {
						continue
					}
					obj := info.Uses[lid]
					c.analysed(objName(fobj))
					key := objName(fobj) + " " + obj.Name() + " = " + obj.Name() + "." + sel.Sel.Name + "()"
					var early token.Pos
					ast.Inspect(fd.Body, func(n ast.Node) bool {
						if n == nil || n.Pos() >= as.Pos() {
							return false
						}
						if ce, ok := n.(*ast.CallExpr); ok {
							if s2, ok := ce.Fun.(*ast.SelectorExpr); ok && (s2.Sel.Name == "Norm" || s2.Sel.Name == "NormSquared") {
								if id, ok := s2.X.(*ast.Ident); ok && info.Uses[id] == obj {
									return false
								}
							}
						}
						if id, ok := n.(*ast.Ident); ok && info.Uses[id] == obj && !early.IsValid() {
							early = id.Pos()
						}
						return true
					})
					if early.IsValid() {
						c.bad(rule, key, early, "the parameter is used before it is canonicalised in place at "+c.pos(as.Pos())+": this use sees the caller's raw value, everything after it the canonical one")
					} else {
						c.ok(rule, key, as.Pos(), "nothing uses the parameter before the in-place canonicalisation")
					}
				}
			}
		}
	}
}
