package main

// CONSTDIV — a quotient of two integer constants that does not divide evenly
// (`1 / 1000`) is evaluated in integer arithmetic even when it is later
// multiplied into a float: a tolerance or margin written that way is 0.

import (
	"go/ast"
	"go/constant"
	"go/token"
	"path/filepath"

	"golang.org/x/tools/go/packages"
)

func (c *Ctx) runConstDiv(rule string, pkgs []*packages.Package) {
	for _, p := range pkgs {
		if p == nil {
			continue
		}
		info := p.TypesInfo
		for _, file := range p.Syntax {
			n := 0
			ast.Inspect(file, func(nd ast.Node) bool {
				be, ok := nd.(*ast.BinaryExpr)
				if !ok || be.Op != token.QUO {
					return true
				}
				tx, ty, tr := info.Types[be.X], info.Types[be.Y], info.Types[be]
				if tx.Value == nil || ty.Value == nil || tr.Value == nil || constant.Sign(ty.Value) == 0 {
					return true
				}
				if tx.Value.Kind() != constant.Int || ty.Value.Kind() != constant.Int {
					return true
				}
				// was the quotient evaluated in integer arithmetic? (the recorded
				// value differs from the exact rational)
				exact := constant.BinaryOp(constant.ToFloat(tx.Value), token.QUO, constant.ToFloat(ty.Value))
				rem := constant.BinaryOp(tx.Value, token.REM, ty.Value)
				n++
				key := shortPkg(p.PkgPath) + "/" + filepath.Base(c.Fset.Position(file.Pos()).Filename) + " const-quotient#" + itoa(n)
				if constant.Sign(rem) != 0 && !constant.Compare(constant.ToFloat(tr.Value), token.EQL, exact) {
					c.bad(rule, key, be.Pos(), "integer constants "+tx.Value.String()+" / "+ty.Value.String()+" are divided in integer arithmetic (result "+tr.Value.String()+"): a fraction written this way is truncated, usually to 0")
				} else {
					c.ok(rule, key, be.Pos(), "the constant quotient is exact")
				}
				return true
			})
		}
	}
}
