package main

import (
	"fmt"
	"go/token"
	"go/types"
	"strings"

	"golang.org/x/tools/go/ssa"
)

// ---------------------------------------------------------------------------
// DE — error before use.

func isErrorType(t types.Type) bool {
	n, ok := t.(*types.Named)
	return ok && n.Obj().Pkg() == nil && n.Obj().Name() == "error"
}

func nilable(t types.Type) bool {
	switch t.Underlying().(type) {
	case *types.Pointer, *types.Interface, *types.Map, *types.Slice, *types.Signature:
		return true
	}
	return false
}

func isNilConst(v ssa.Value) bool {
	c, ok := v.(*ssa.Const)
	return ok && c.Value == nil
}

// derefUse: ins uses v in a way that panics when v is nil (or, for slices,
// indexes it).
func derefUse(ins ssa.Instruction, v ssa.Value) bool {
	switch x := ins.(type) {
	case *ssa.FieldAddr:
		return x.X == v
	case *ssa.IndexAddr:
		return x.X == v
	case *ssa.Index:
		return x.X == v
	case *ssa.UnOp:
		return x.Op == token.MUL && x.X == v
	case *ssa.TypeAssert:
		return x.X == v && !x.CommaOk
	case *ssa.Call:
		if x.Call.IsInvoke() && x.Call.Value == v {
			return true
		}
		if !x.Call.IsInvoke() && x.Call.Value == v {
			return true // calling a nil func
		}
	case *ssa.Slice:
		return x.X == v
	}
	return false
}

// errNilEdgeDominates: some conditional on "errv != nil"/"errv == nil" whose
// no-error successor dominates block u.
func errCheckedAt(u *ssa.BasicBlock, errv ssa.Value) bool {
	for _, f := range factsAt(u) {
		be, ok := f.cond.(*ssa.BinOp)
		if !ok || (be.Op != token.NEQ && be.Op != token.EQL) {
			continue
		}
		var other ssa.Value
		if be.X == errv || spilledCopyOf(be.X, errv) {
			other = be.Y
		} else if be.Y == errv || spilledCopyOf(be.Y, errv) {
			other = be.X
		} else {
			continue
		}
		if !isNilConst(other) {
			continue
		}
		if (be.Op == token.NEQ && !f.taken) || (be.Op == token.EQL && f.taken) {
			return true
		}
	}
	return false
}

// spilledCopyOf: v is a load of a local cell (a named result or a captured
// variable) into which src was stored earlier in the same block, with no other
// store to the cell in between: "x, err := f(); if err != nil" where err is a
// named result that a deferred closure captures.
func spilledCopyOf(v, src ssa.Value) bool {
	ld, ok := v.(*ssa.UnOp)
	if !ok || ld.Op != token.MUL {
		return false
	}
	al, ok := ld.X.(*ssa.Alloc)
	if !ok {
		return false
	}
	var last ssa.Value
	for _, ins := range ld.Block().Instrs {
		if ins == ssa.Instruction(ld) {
			break
		}
		if st, ok := ins.(*ssa.Store); ok && st.Addr == ssa.Value(al) {
			last = st.Val
		}
	}
	return last == src
}

func valueNonNilAt(u *ssa.BasicBlock, v ssa.Value) bool {
	for _, f := range factsAt(u) {
		be, ok := f.cond.(*ssa.BinOp)
		if !ok || (be.Op != token.NEQ && be.Op != token.EQL) {
			continue
		}
		var other ssa.Value
		if be.X == v {
			other = be.Y
		} else if be.Y == v {
			other = be.X
		} else {
			continue
		}
		if isNilConst(other) && ((be.Op == token.NEQ && f.taken) || (be.Op == token.EQL && !f.taken)) {
			return true
		}
	}
	return false
}

func (s *decScope) ruleDE(rule string) {
	c := s.c
	for _, fn := range s.fns {
		if s.guarded[fn] {
			continue
		}
		n := 0
		for _, b := range fn.Blocks {
			for _, ins := range b.Instrs {
				call, ok := ins.(*ssa.Call)
				if !ok {
					continue
				}
				tup, ok := call.Type().(*types.Tuple)
				if !ok || tup.Len() < 2 || !isErrorType(tup.At(tup.Len()-1).Type()) {
					continue
				}
				// the extracts
				var errv ssa.Value
				var others []*ssa.Extract
				for _, ref := range *call.Referrers() {
					ex, ok := ref.(*ssa.Extract)
					if !ok {
						continue
					}
					if ex.Index == tup.Len()-1 {
						errv = ex
					} else if nilable(ex.Type()) {
						others = append(others, ex)
					}
				}
				for _, ex := range others {
					for _, ref := range *ex.Referrers() {
						if !derefUse(ref, ex) {
							continue
						}
						n++
						key := fmt.Sprintf("%s use#%d of result %d of %s", qname(fn), n, ex.Index, calleeName(call))
						switch {
						case errv == nil:
							c.bad(rule, key, ref.Pos(), "result dereferenced although the error result of the call is discarded")
						case errCheckedAt(ref.Block(), errv):
							c.ok(rule, key, ref.Pos(), "dominated by the err == nil edge of a test of the call's error")
						case valueNonNilAt(ref.Block(), ex):
							c.ok(rule, key, ref.Pos(), "dominated by a non-nil test of the value itself")
						default:
							c.bad(rule, key, ref.Pos(), "result dereferenced on a path where the call's error was not tested against nil (a test against one particular error does not count)")
						}
					}
				}
			}
		}
	}
}

func calleeName(call *ssa.Call) string {
	if f := call.Call.StaticCallee(); f != nil {
		return strings.ReplaceAll(f.String(), repoMod+"/", "")
	}
	if call.Call.IsInvoke() {
		return call.Call.Method.Name()
	}
	return call.Call.Value.Name()
}

// ---------------------------------------------------------------------------
// DP — reachable explicit panics.

func (s *decScope) ruleDP(rule string, dxOK map[string]bool) {
	c := s.c
	for _, fn := range s.fns {
		n := 0
		for _, b := range fn.Blocks {
			for _, ins := range b.Instrs {
				p, ok := ins.(*ssa.Panic)
				if !ok {
					continue
				}
				n++
				key := fmt.Sprintf("%s panic#%d", qname(fn), n)
				switch {
				case s.guarded[fn]:
					c.ok(rule, key, p.Pos(), "only reachable below a function that recovers panics and returns them as errors")
				case fn.Signature.Recv() != nil && strings.HasSuffix(fn.Signature.Recv().Type().String(), "fileformats.PLYPropertyType") && dxOK[fn.Name()]:
					c.ok(rule, key, p.Pos(), "default of a switch whose cases are exactly the type names accepted by Validate (DX); every property type reaching a decoder was validated (DV)")
				default:
					c.bad(rule, key, p.Pos(), fmt.Sprintf("explicit panic reachable from decoder entry %s on untrusted input", s.entryOf[fn]))
				}
			}
		}
	}
}

// ---------------------------------------------------------------------------
// DA — allocation sizes.

// bounded: v is evidently bounded by a constant or by a quantity of data
// actually held in memory.
func (s *decScope) bounded(v ssa.Value, at *ssa.BasicBlock, depth int) (bool, string) {
	if depth > 8 {
		return false, "too deep"
	}
	switch x := v.(type) {
	case *ssa.Const:
		return true, "constant"
	case *ssa.Convert:
		if b, ok := x.X.Type().Underlying().(*types.Basic); ok && (b.Kind() == types.Uint8 || b.Kind() == types.Int8 || b.Kind() == types.Bool) {
			return true, "byte-sized"
		}
		return s.bounded(x.X, at, depth+1)
	case *ssa.ChangeType:
		return s.bounded(x.X, at, depth+1)
	case *ssa.Call:
		if b, ok := x.Call.Value.(*ssa.Builtin); ok && (b.Name() == "len" || b.Name() == "cap" || b.Name() == "min") {
			if b.Name() == "min" {
				for _, a := range x.Call.Args {
					if ok, _ := s.bounded(a, at, depth+1); ok {
						return true, "min with a bounded operand"
					}
				}
				return false, "min of unbounded values"
			}
			return true, "len/cap of data in memory"
		}
		if callee := x.Call.StaticCallee(); callee != nil {
			if callee.Name() == "MinInt" && pkgPathOf(callee) == "github.com/unixpickle/essentials" {
				for _, a := range x.Call.Args {
					// variadic: args packed in a slice; look at stores into it
					if ok, _ := s.bounded(a, at, depth+1); ok {
						return true, "MinInt with a bounded operand"
					}
				}
				if s.variadicHasConst(x) {
					return true, "MinInt with a constant operand"
				}
				return false, "MinInt of unbounded values"
			}
			// a function that only returns constants (PLYPropertyType.Size)
			if callee.Blocks != nil && onlyConstReturns(callee) {
				return true, "callee returns constants only"
			}
			// a clamp moved into a helper: every value the callee returns is
			// bounded in the callee's own context
			if callee.Blocks != nil && callee.Signature.Results().Len() == 1 && strings.HasPrefix(pkgPathOf(callee), repoMod) && depth < 4 {
				all, any := true, false
				for _, cb := range callee.Blocks {
					if ret, ok := cb.Instrs[len(cb.Instrs)-1].(*ssa.Return); ok && len(ret.Results) == 1 {
						any = true
						if ok, _ := s.bounded(ret.Results[0], cb, depth+2); !ok {
							all = false
						}
					}
				}
				if all && any {
					return true, "every value the callee " + callee.Name() + " returns is bounded (clamp in a helper)"
				}
			}
		}
		return false, "result of " + calleeName(x)
	case *ssa.BinOp:
		switch x.Op {
		case token.ADD, token.MUL, token.SUB, token.QUO, token.REM, token.AND, token.SHR:
			okx, _ := s.bounded(x.X, at, depth+1)
			oky, _ := s.bounded(x.Y, at, depth+1)
			if x.Op == token.REM || x.Op == token.AND {
				if oky {
					return true, "reduced modulo a bounded value"
				}
			}
			if okx && oky {
				return true, "arithmetic of bounded values"
			}
		}
	case *ssa.Phi:
		// clamp: every edge is bounded, or comes from a block where v <= C holds
		all := true
		for i, e := range x.Edges {
			if ok, _ := s.bounded(e, x.Block().Preds[i], depth+1); ok {
				continue
			}
			if upperBoundedAt(x.Block().Preds[i], e, x.Block()) {
				if s.wrapProne(e, x.Block().Preds[i], depth) && !lowerBoundedAt(x.Block().Preds[i], e, x.Block()) {
					return false, "the upper-bound test is applied to a product/sum of unbounded input values, which can wrap around to a negative number and pass it"
				}
				continue
			}
			all = false
		}
		if all {
			return true, "clamped (every incoming value is constant or passed an upper-bound test)"
		}
		return false, "phi with an unbounded edge"
	case *ssa.Extract:
		// equality with a bounded expression on a dominating edge
	}
	if at != nil && upperBoundedAt(at, v, nil) {
		if s.wrapProne(v, at, depth) && !lowerBoundedAt(at, v, nil) {
			return false, "the upper-bound test is applied to a product/sum of unbounded input values, which can wrap around to a negative number and pass it"
		}
		return true, "passed an upper-bound test on every path"
	}
	return false, fmt.Sprintf("%s (%T)", v.Name(), v)
}

// nonNegative: v >= 0 at block `at`, by construction or by a dominating test.
func (s *decScope) nonNegative(v ssa.Value, at *ssa.BasicBlock, depth int) (bool, string) {
	if depth > 14 {
		return false, "too deep"
	}
	if p, ok := v.(*ssa.Parameter); ok {
		// inside a callee that is analysed for one call site: the argument
		if bnd, ok := s.paramBind[p]; ok {
			return s.nonNegative(bnd.v, bnd.at, depth+1)
		}
	}
	if at != nil && lowerBoundedAt(at, v, nil) {
		return true, "passed a non-negativity test on every path"
	}
	if at != nil && equalsLenMinus(at, v) {
		return true, "equal to len(x)-k of a slice known to have at least k elements"
	}
	switch x := v.(type) {
	case *ssa.Const:
		if k, ok := constInt(x); ok && k >= 0 {
			return true, "non-negative constant"
		}
		return false, "negative constant"
	case *ssa.Convert:
		if b, ok := x.X.Type().Underlying().(*types.Basic); ok && b.Info()&types.IsUnsigned != 0 {
			if tb, ok := x.Type().Underlying().(*types.Basic); ok && (tb.Kind() == types.Int || tb.Kind() == types.Int64 || tb.Kind() == types.Uint || tb.Kind() == types.Uint64 || b.Kind() == types.Uint8 || b.Kind() == types.Uint16) {
				return true, "converted from an unsigned value"
			}
		}
		return s.nonNegative(x.X, at, depth+1)
	case *ssa.ChangeType:
		return s.nonNegative(x.X, at, depth+1)
	case *ssa.Call:
		if b, ok := x.Call.Value.(*ssa.Builtin); ok {
			switch b.Name() {
			case "len", "cap":
				return true, "len/cap"
			case "min":
				all := true
				for _, a := range x.Call.Args {
					if ok, _ := s.nonNegative(a, at, depth+1); !ok {
						all = false
					}
				}
				return all, "min of values"
			}
		}
		if callee := x.Call.StaticCallee(); callee != nil {
			if callee.Name() == "MinInt" && pkgPathOf(callee) == "github.com/unixpickle/essentials" {
				// min(a, b, ...) >= 0 iff all >= 0; variadic arguments sit in a slice
				all := true
				for _, a := range s.variadicElems(x) {
					if ok, _ := s.nonNegative(a, at, depth+1); !ok {
						all = false
					}
				}
				return all, "MinInt of values"
			}
			if callee.Blocks != nil && strings.HasPrefix(pkgPathOf(callee), repoMod) && depth < 10 && callee.Signature.Results().Len() >= 1 {
				all, any := true, false
				// bind the callee's parameters to this site's arguments
				if s.paramBind == nil {
					s.paramBind = map[*ssa.Parameter]boundArg{}
				}
				for i, a := range x.Call.Args {
					if i < len(callee.Params) {
						s.paramBind[callee.Params[i]] = boundArg{a, at}
					}
				}
				for _, cb := range callee.Blocks {
					if ret, ok := cb.Instrs[len(cb.Instrs)-1].(*ssa.Return); ok && len(ret.Results) >= 1 {
						any = true
						if ok, _ := s.nonNegative(ret.Results[0], cb, depth+2); !ok {
							all = false
						}
					}
				}
				for _, p := range callee.Params {
					delete(s.paramBind, p)
				}
				if all && any {
					return true, "every value " + callee.Name() + " returns is non-negative"
				}
			}
		}
		return false, "result of " + calleeName(x)
	case *ssa.Extract:
		// (n, err) results of a repository function: same analysis on result #Index
		if call, ok := x.Tuple.(*ssa.Call); ok {
			if callee := call.Call.StaticCallee(); callee != nil && callee.Blocks != nil && strings.HasPrefix(pkgPathOf(callee), repoMod) && depth < 10 {
				all, any := true, false
				for _, cb := range callee.Blocks {
					if ret, ok := cb.Instrs[len(cb.Instrs)-1].(*ssa.Return); ok && len(ret.Results) > x.Index {
						// error returns carry a zero count: fine
						if k, isC := constInt(ret.Results[x.Index]); isC && k >= 0 {
							any = true
							continue
						}
						any = true
						if ok, _ := s.nonNegative(ret.Results[x.Index], cb, depth+2); !ok {
							all = false
						}
					}
				}
				if all && any {
					return true, "result of " + callee.Name() + " is non-negative on every return"
				}
			}
		}
		return false, "result #" + fmt.Sprint(x.Index) + " of a call"
	case *ssa.BinOp:
		switch x.Op {
		case token.ADD, token.MUL, token.QUO, token.REM, token.SHR, token.AND:
			okx, _ := s.nonNegative(x.X, at, depth+1)
			oky, _ := s.nonNegative(x.Y, at, depth+1)
			if okx && oky {
				return true, "arithmetic of non-negative values"
			}
			if x.Op == token.AND && (okx || oky) {
				return true, "masked with a non-negative value"
			}
		}
		return false, "arithmetic that can be negative"
	case *ssa.Phi:
		for i, e := range x.Edges {
			pred := x.Block().Preds[i]
			if ok, _ := s.nonNegative(e, pred, depth+1); ok {
				continue
			}
			if lowerBoundedAt(pred, e, x.Block()) {
				continue
			}
			return false, "phi with an edge that can be negative"
		}
		return true, "every incoming value is non-negative"
	case *ssa.UnOp:
		if x.Op == token.MUL {
			if fa, ok := x.X.(*ssa.FieldAddr); ok {
				if f := fieldOf(fa); f != nil {
					return s.fieldNonNegative(f, depth+1)
				}
			}
		}
	}
	return false, fmt.Sprintf("%s (%T)", v.Name(), v)
}

type boundArg struct {
	v  ssa.Value
	at *ssa.BasicBlock
}

// equalsLenMinus: the facts at `at` say v + k == len(S) for a constant k >= 0,
// and (for k > 0) that len(S) is at least k (k == 1: len(S) != 0).
func equalsLenMinus(at *ssa.BasicBlock, v ssa.Value) bool {
	facts := factsAt(at)
	for _, f := range facts {
		be, ok := f.cond.(*ssa.BinOp)
		if !ok || !((be.Op == token.EQL && f.taken) || (be.Op == token.NEQ && !f.taken)) {
			continue
		}
		for _, pair := range [][2]ssa.Value{{be.X, be.Y}, {be.Y, be.X}} {
			sum, lenSide := pair[0], pair[1]
			call, isCall := lenSide.(*ssa.Call)
			if !isCall {
				continue
			}
			bi, isB := call.Call.Value.(*ssa.Builtin)
			if !isB || bi.Name() != "len" {
				continue
			}
			k := int64(0)
			base := sum
			if add, ok := sum.(*ssa.BinOp); ok && add.Op == token.ADD {
				if kk, isC := constInt(add.Y); isC {
					k, base = kk, add.X
				}
			}
			if stripConv(base) != stripConv(v) || k < 0 {
				continue
			}
			if k == 0 {
				return true
			}
			if k == 1 {
				// len(S) != 0 somewhere above
				for _, g := range facts {
					ge, ok := g.cond.(*ssa.BinOp)
					if !ok {
						continue
					}
					if isLenOf(ge.X, call.Call.Args[0]) {
						if z, isC := constInt(ge.Y); isC && z == 0 && ((ge.Op == token.EQL && !g.taken) || (ge.Op == token.NEQ && g.taken) || (ge.Op == token.GTR && g.taken)) {
							return true
						}
					}
				}
			}
		}
	}
	return false
}

// fieldNonNegative: every store into the field, anywhere in the scope's
// functions, stores a value that is non-negative where it is stored.
func (s *decScope) fieldNonNegative(f *types.Var, depth int) (bool, string) {
	stores, all := 0, true
	for _, fn := range s.fns {
		for _, b := range fn.Blocks {
			for _, ins := range b.Instrs {
				st, ok := ins.(*ssa.Store)
				if !ok {
					continue
				}
				fa, ok := st.Addr.(*ssa.FieldAddr)
				if !ok || fieldOf(fa) != f {
					continue
				}
				stores++
				if ok, _ := s.nonNegative(st.Val, b, depth+1); !ok {
					all = false
				}
			}
		}
	}
	if stores > 0 && all {
		return true, "every store into " + f.Name() + " writes a value that passed a non-negativity test"
	}
	return false, "field " + f.Name() + " can hold a negative value"
}

// variadicElems: the values stored into the slice literal of a variadic call.
func (s *decScope) variadicElems(call *ssa.Call) []ssa.Value {
	var res []ssa.Value
	for _, a := range call.Call.Args {
		sl, ok := a.(*ssa.Slice)
		if !ok {
			res = append(res, a)
			continue
		}
		al, ok := sl.X.(*ssa.Alloc)
		if !ok {
			continue
		}
		for _, ref := range *al.Referrers() {
			if ia, ok := ref.(*ssa.IndexAddr); ok {
				for _, r2 := range *ia.Referrers() {
					if st, ok := r2.(*ssa.Store); ok {
						res = append(res, st.Val)
					}
				}
			}
		}
	}
	return res
}

// wrapProne: v is computed from unbounded operands by an operation that can
// overflow (so that an upper-bound test on v alone says nothing about its sign).
func (s *decScope) wrapProne(v ssa.Value, at *ssa.BasicBlock, depth int) bool {
	bin, ok := stripConv(v).(*ssa.BinOp)
	if !ok {
		return false
	}
	switch bin.Op {
	case token.MUL, token.ADD, token.SHL:
	default:
		return false
	}
	okx, _ := s.bounded(bin.X, at, depth+1)
	oky, _ := s.bounded(bin.Y, at, depth+1)
	return !(okx && oky)
}

// lowerBoundedAt: the facts at `at` (plus the edge to succ) imply v >= 0.
func lowerBoundedAt(at *ssa.BasicBlock, v ssa.Value, succ *ssa.BasicBlock) bool {
	facts := factsAt(at)
	if succ != nil {
		facts = append(facts, edgeFact(at, succ)...)
	}
	for _, f := range facts {
		be, ok := f.cond.(*ssa.BinOp)
		if !ok {
			continue
		}
		x, y, op := be.X, be.Y, be.Op
		if stripConv(y) == stripConv(v) {
			x, y = y, x
			op = map[token.Token]token.Token{token.LSS: token.GTR, token.GTR: token.LSS, token.LEQ: token.GEQ, token.GEQ: token.LEQ, token.EQL: token.EQL, token.NEQ: token.NEQ}[op]
		}
		if stripConv(x) != stripConv(v) {
			continue
		}
		k, isC := constInt(y)
		if !isC || k < 0 {
			continue
		}
		switch op {
		case token.LSS: // v < k false -> v >= k >= 0
			if !f.taken {
				return true
			}
		case token.GEQ, token.GTR, token.EQL:
			if f.taken {
				return true
			}
		case token.LEQ: // v <= k false -> v > k
			if !f.taken {
				return true
			}
		}
	}
	return false
}

func (s *decScope) variadicHasConst(call *ssa.Call) bool {
	for _, a := range call.Call.Args {
		sl, ok := a.(*ssa.Slice)
		if !ok {
			continue
		}
		al, ok := sl.X.(*ssa.Alloc)
		if !ok {
			continue
		}
		for _, ref := range *al.Referrers() {
			ia, ok := ref.(*ssa.IndexAddr)
			if !ok {
				continue
			}
			for _, r2 := range *ia.Referrers() {
				if st, ok := r2.(*ssa.Store); ok {
					if _, isC := st.Val.(*ssa.Const); isC {
						return true
					}
				}
			}
		}
	}
	return false
}

func onlyConstReturns(fn *ssa.Function) bool {
	any := false
	for _, b := range fn.Blocks {
		for _, ins := range b.Instrs {
			if r, ok := ins.(*ssa.Return); ok {
				for _, v := range r.Results {
					if _, isC := v.(*ssa.Const); !isC {
						return false
					}
					any = true
				}
			}
		}
	}
	return any
}

// upperBoundedAt: on the edge/at block `at`, facts imply v <= const or v ==
// (bounded expr). If succ != nil the fact of the edge at->succ is included.
func upperBoundedAt(at *ssa.BasicBlock, v ssa.Value, succ *ssa.BasicBlock) bool {
	facts := factsAt(at)
	if succ != nil && len(at.Instrs) > 0 {
		if ifi, ok := at.Instrs[len(at.Instrs)-1].(*ssa.If); ok && len(at.Succs) == 2 && at.Succs[0] != at.Succs[1] {
			if at.Succs[0] == succ {
				facts = append(facts, fact{ifi.Cond, true})
			} else if at.Succs[1] == succ {
				facts = append(facts, fact{ifi.Cond, false})
			}
		}
	}
	for _, f := range facts {
		be, ok := f.cond.(*ssa.BinOp)
		if !ok {
			continue
		}
		x, y, op := be.X, be.Y, be.Op
		if stripConv(y) == stripConv(v) {
			x, y = y, x
			op = map[token.Token]token.Token{token.LSS: token.GTR, token.GTR: token.LSS, token.LEQ: token.GEQ, token.GEQ: token.LEQ, token.EQL: token.EQL, token.NEQ: token.NEQ}[op]
		}
		if stripConv(x) != stripConv(v) {
			// v + k == bounded  (numComponents+1 != len(parts))
			if bo, ok := x.(*ssa.BinOp); ok && bo.Op == token.ADD && stripConv(bo.X) == stripConv(v) {
				if _, isC := bo.Y.(*ssa.Const); isC && isBoundedSimple(y) {
					if (op == token.EQL && f.taken) || (op == token.NEQ && !f.taken) {
						return true
					}
				}
			}
			continue
		}
		if !isBoundedSimple(y) {
			continue
		}
		switch op {
		case token.GTR, token.GEQ: // v > C false -> v <= C
			if !f.taken {
				return true
			}
		case token.LSS, token.LEQ:
			if f.taken {
				return true
			}
		case token.EQL:
			if f.taken {
				return true
			}
		case token.NEQ:
			if !f.taken {
				return true
			}
		}
	}
	return false
}

func stripConv(v ssa.Value) ssa.Value {
	for {
		switch x := v.(type) {
		case *ssa.Convert:
			v = x.X
		case *ssa.ChangeType:
			v = x.X
		default:
			return v
		}
	}
}

func isBoundedSimple(v ssa.Value) bool {
	switch x := stripConv(v).(type) {
	case *ssa.Const:
		return true
	case *ssa.Call:
		if b, ok := x.Call.Value.(*ssa.Builtin); ok && (b.Name() == "len" || b.Name() == "cap") {
			return true
		}
	}
	return false
}

func (s *decScope) ruleDA(rule string) {
	c := s.c
	for _, fn := range s.fns {
		if s.guarded[fn] {
			continue
		}
		n := 0
		for _, b := range fn.Blocks {
			for _, ins := range b.Instrs {
				var sizes []ssa.Value
				var what string
				switch x := ins.(type) {
				case *ssa.MakeSlice:
					sizes = []ssa.Value{x.Len, x.Cap}
					what = "make slice"
				case *ssa.MakeMap:
					if x.Reserve != nil {
						sizes = []ssa.Value{x.Reserve}
					}
					what = "make map"
				case *ssa.MakeChan:
					sizes = []ssa.Value{x.Size}
					what = "make chan"
				default:
					continue
				}
				for _, sz := range sizes {
					if sz == nil {
						continue
					}
					if _, isC := sz.(*ssa.Const); isC {
						continue
					}
					n++
					key := fmt.Sprintf("%s %s#%d", qname(fn), what, n)
					if ok, why := s.bounded(sz, b, 0); ok {
						c.ok(rule, key, ins.Pos(), "size is bounded: "+why)
					} else {
						c.bad(rule, key, ins.Pos(), "allocation size comes from the input without an upper bound: "+why)
					}
					// DA.SIGN: make panics on a negative size as well
					if ok, why := s.nonNegative(sz, b, 0); ok {
						c.ok(rule+".SIGN", key, ins.Pos(), "size cannot be negative: "+why)
					} else {
						c.bad(rule+".SIGN", key, ins.Pos(), "allocation size can be negative (makeslice panics): "+why)
					}
				}
			}
		}
	}
}

// ---------------------------------------------------------------------------
// DL — unbounded loops make progress.

func (s *decScope) ruleDL(rule string) {
	c := s.c
	for _, fn := range s.fns {
		if s.guarded[fn] {
			continue
		}
		// natural loops
		type loop struct {
			head *ssa.BasicBlock
			body map[*ssa.BasicBlock]bool
			back []*ssa.BasicBlock
		}
		loops := map[*ssa.BasicBlock]*loop{}
		for _, b := range fn.Blocks {
			for _, h := range b.Succs {
				if !h.Dominates(b) {
					continue
				}
				l := loops[h]
				if l == nil {
					l = &loop{head: h, body: map[*ssa.BasicBlock]bool{h: true}}
					loops[h] = l
				}
				l.back = append(l.back, b)
				stack := []*ssa.BasicBlock{b}
				for len(stack) > 0 {
					x := stack[len(stack)-1]
					stack = stack[:len(stack)-1]
					if l.body[x] {
						continue
					}
					l.body[x] = true
					stack = append(stack, x.Preds...)
				}
			}
		}
		n := 0
		for _, b := range fn.Blocks {
			l := loops[b]
			if l == nil {
				continue
			}
			if s.countedLoop(l.head, l.body) {
				continue
			}
			n++
			key := fmt.Sprintf("%s loop#%d", qname(fn), n)
			// every back edge must be dominated by the staying edge of a test
			// of a result of a consuming call made in this iteration
			allOK := true
			detail := ""
			for _, be := range l.back {
				if !s.progressChecked(be, l.head, l.body) {
					allOK = false
					detail = "back edge from block " + be.String() + " at " + c.pos(lastPos(be))
				}
			}
			if allOK {
				c.ok(rule, key, firstPos(l.head), "every iteration passes a read whose result is tested with an exit from the loop")
			} else {
				c.bad(rule, key, firstPos(l.head), "unbounded loop can iterate without a consuming read whose failure leaves the loop ("+detail+")")
			}
		}
	}
}

func firstPos(b *ssa.BasicBlock) token.Pos {
	for _, ins := range b.Instrs {
		if ins.Pos().IsValid() {
			return ins.Pos()
		}
	}
	for _, s := range b.Succs {
		for _, ins := range s.Instrs {
			if ins.Pos().IsValid() {
				return ins.Pos()
			}
		}
	}
	return token.NoPos
}

func lastPos(b *ssa.BasicBlock) token.Pos {
	for i := len(b.Instrs) - 1; i >= 0; i-- {
		if b.Instrs[i].Pos().IsValid() {
			return b.Instrs[i].Pos()
		}
	}
	return firstPos(b)
}

// countedLoop: some exit condition of the loop compares an induction variable
// (a phi in the header that is incremented by a constant) with something, or
// the loop is a range over a map/string (Next).
func (s *decScope) countedLoop(head *ssa.BasicBlock, body map[*ssa.BasicBlock]bool) bool {
	for b := range body {
		if len(b.Instrs) == 0 {
			continue
		}
		ifi, ok := b.Instrs[len(b.Instrs)-1].(*ssa.If)
		if !ok {
			continue
		}
		exits := false
		for _, succ := range b.Succs {
			if !body[succ] {
				exits = true
			}
		}
		if !exits {
			continue
		}
		switch cond := ifi.Cond.(type) {
		case *ssa.BinOp:
			for _, side := range []ssa.Value{cond.X, cond.Y} {
				side = stripConv(side)
				// range loops compare the incremented value: phi+1 < len
				if bo, ok := side.(*ssa.BinOp); ok && (bo.Op == token.ADD || bo.Op == token.SUB) {
					if _, isC := bo.Y.(*ssa.Const); isC {
						side = bo.X
					}
				}
				// a counter kept in memory (p.cur++): the exit test loads it and
				// every back edge is dominated by a store of load(addr) +/- const
				if ld, ok := side.(*ssa.UnOp); ok && ld.Op == token.MUL {
					if _, isField := ld.X.(*ssa.FieldAddr); isField && steppedInMemory(ld.X, head, body) {
						return true
					}
				}
				// a loop counted by the length of a slice that grows on every back
				// edge: for len(s) < n { ...; s = append(s, x) }
				if lc, ok := side.(*ssa.Call); ok && len(lc.Call.Args) == 1 {
					if bi, ok := lc.Call.Value.(*ssa.Builtin); ok && bi.Name() == "len" {
						if phi, ok := lc.Call.Args[0].(*ssa.Phi); ok && phi.Block() == head {
							grown, all := 0, true
							for i, e := range phi.Edges {
								if !body[head.Preds[i]] {
									continue
								}
								ap, ok := e.(*ssa.Call)
								if ok {
									if ab, ok := ap.Call.Value.(*ssa.Builtin); ok && ab.Name() == "append" && len(ap.Call.Args) == 2 && ap.Call.Args[0] == ssa.Value(phi) {
										if sl, ok := ap.Call.Args[1].(*ssa.Slice); ok {
											if al, ok := sl.X.(*ssa.Alloc); ok {
												if pt, ok := al.Type().Underlying().(*types.Pointer); ok {
													if at, ok := pt.Elem().Underlying().(*types.Array); ok && at.Len() >= 1 {
														grown++
														continue
													}
												}
											}
										}
									}
								}
								all = false
							}
							if all && grown > 0 {
								return true
							}
						}
					}
				}
				if phi, ok := side.(*ssa.Phi); ok && phi.Block() == head {
					// an induction variable: on every back edge it is phi +/- const
					stepped, all := 0, true
					for i, e := range phi.Edges {
						if !body[head.Preds[i]] {
							continue // loop entry
						}
						bo, ok := e.(*ssa.BinOp)
						if ok && (bo.Op == token.ADD || bo.Op == token.SUB) && bo.X == ssa.Value(phi) {
							if k, isC := constInt(bo.Y); isC && k != 0 {
								stepped++
								continue
							}
						}
						all = false
					}
					if all && stepped > 0 {
						return true
					}
				}
			}
		case *ssa.Extract:
			if _, ok := cond.Tuple.(*ssa.Next); ok {
				return true
			}
		}
	}
	return false
}

// steppedInMemory: every back edge of the loop is dominated, inside the loop,
// by a store "*addr = *addr +/- k" (k a non-zero constant) to the given field.
func steppedInMemory(addr ssa.Value, head *ssa.BasicBlock, body map[*ssa.BasicBlock]bool) bool {
	var steps []*ssa.BasicBlock
	for b := range body {
		for _, ins := range b.Instrs {
			st, ok := ins.(*ssa.Store)
			if !ok || !sameAddr(st.Addr, addr) {
				continue
			}
			bo, ok := st.Val.(*ssa.BinOp)
			if !ok || (bo.Op != token.ADD && bo.Op != token.SUB) {
				return false // the counter is also assigned something else in the loop
			}
			ld, ok := bo.X.(*ssa.UnOp)
			k, isC := constInt(bo.Y)
			if !ok || ld.Op != token.MUL || !sameAddr(ld.X, addr) || !isC || k == 0 {
				return false
			}
			steps = append(steps, b)
		}
	}
	if len(steps) == 0 {
		return false
	}
	n := 0
	for _, be := range head.Preds {
		if !body[be] {
			continue
		}
		n++
		ok := false
		for _, sb := range steps {
			if sb == be || sb.Dominates(be) {
				ok = true
			}
		}
		if !ok {
			return false
		}
	}
	return n > 0
}

func isConsumingCall(call *ssa.Call) bool {
	name := ""
	if call.Call.IsInvoke() {
		name = call.Call.Method.Name()
	} else if f := call.Call.StaticCallee(); f != nil {
		name = f.Name()
	}
	l := strings.ToLower(name)
	return strings.Contains(l, "read") || strings.Contains(l, "next") || strings.Contains(l, "scan") || strings.Contains(l, "decode")
}

func dependsOnCall(v ssa.Value, depth int) *ssa.Call {
	if depth > 6 {
		return nil
	}
	switch x := v.(type) {
	case *ssa.Extract:
		if call, ok := x.Tuple.(*ssa.Call); ok && isConsumingCall(call) {
			return call
		}
		return dependsOnCall(x.Tuple, depth+1)
	case *ssa.Call:
		if isConsumingCall(x) {
			return x
		}
		for _, a := range x.Call.Args {
			if r := dependsOnCall(a, depth+1); r != nil {
				return r
			}
		}
	case *ssa.BinOp:
		if r := dependsOnCall(x.X, depth+1); r != nil {
			return r
		}
		return dependsOnCall(x.Y, depth+1)
	case *ssa.UnOp:
		return dependsOnCall(x.X, depth+1)
	case *ssa.MakeInterface:
		return dependsOnCall(x.X, depth+1)
	case *ssa.ChangeInterface:
		return dependsOnCall(x.X, depth+1)
	}
	return nil
}

// progressChecked: the back-edge source be is dominated, inside the loop, by
// the staying successor of a conditional that tests a result of a consuming
// call made in the loop and whose other successor leaves the loop.
func (s *decScope) progressChecked(be, head *ssa.BasicBlock, body map[*ssa.BasicBlock]bool) bool {
	for d := be; d != nil && body[d]; d = d.Idom() {
		if len(d.Instrs) == 0 {
			continue
		}
		ifi, ok := d.Instrs[len(d.Instrs)-1].(*ssa.If)
		if !ok || len(d.Succs) != 2 {
			if d == head {
				break
			}
			continue
		}
		call := dependsOnCall(ifi.Cond, 0)
		if call != nil && body[call.Block()] {
			for k, succ := range d.Succs {
				other := d.Succs[1-k]
				leaves := !body[other] || s.leadsOut(other, body)
				if leaves && (succ == be || succ.Dominates(be)) && d != be {
					return true
				}
			}
		}
		if d == head {
			break
		}
	}
	return false
}

// leadsOut: from block b (inside the loop) every path leaves the loop without
// reaching the header again (e.g. nested error handling that always returns).
func (s *decScope) leadsOut(b *ssa.BasicBlock, body map[*ssa.BasicBlock]bool) bool {
	seen := map[*ssa.BasicBlock]bool{}
	var walk func(x *ssa.BasicBlock) bool
	walk = func(x *ssa.BasicBlock) bool {
		if !body[x] {
			return true
		}
		if seen[x] {
			return true
		}
		seen[x] = true
		if len(x.Succs) == 0 {
			return true
		}
		for _, sx := range x.Succs {
			if sx.Dominates(x) && body[sx] {
				return false // a back edge: stays in the loop
			}
			if !walk(sx) {
				return false
			}
		}
		return true
	}
	return walk(b)
}

// ---------------------------------------------------------------------------
// DV — property types are validated before a property is handed out.
//
// In every in-scope function that stores into PLYProperty.LenType/ElemType:
// each stored field is the receiver of a later Validate call whose error
// (directly or through a phi) is tested, and every return of a non-nil
// *PLYProperty is dominated by the no-error edge of such a test.

func (s *decScope) ruleDV(rule string) {
	c := s.c
	ff := c.pkg("fileformats")
	if ff == nil {
		return
	}
	lenF := c.mustField("fileformats", "PLYProperty.LenType")
	elemF := c.mustField("fileformats", "PLYProperty.ElemType")
	if lenF == nil || elemF == nil {
		return
	}
	for _, fn := range s.fns {
		var stores []*ssa.Store
		for _, b := range fn.Blocks {
			for _, ins := range b.Instrs {
				st, ok := ins.(*ssa.Store)
				if !ok {
					continue
				}
				fa, ok := st.Addr.(*ssa.FieldAddr)
				if !ok {
					continue
				}
				if f := fieldOf(fa); f == lenF || f == elemF {
					stores = append(stores, st)
				}
			}
		}
		if len(stores) == 0 {
			continue
		}
		// error values produced by Validate calls, closed under phi
		errVals := map[ssa.Value]*ssa.Call{}
		validated := map[*ssa.Store]bool{}
		preValidated := map[*ssa.Store]*ssa.Call{} // the value was validated before it is stored
		for _, b := range fn.Blocks {
			for _, ins := range b.Instrs {
				call, ok := ins.(*ssa.Call)
				if !ok {
					continue
				}
				callee := call.Call.StaticCallee()
				if callee == nil || callee.Name() != "Validate" || len(call.Call.Args) != 1 {
					continue
				}
				errVals[call] = call
				arg := call.Call.Args[0]
				for _, st := range stores {
					if u, ok := arg.(*ssa.UnOp); ok && sameAddr(u.X, st.Addr) && instrDominates(st, call) {
						validated[st] = true
					}
					if arg == st.Val && instrDominates(st, call) {
						validated[st] = true
					}
					if arg == st.Val && !validated[st] && instrDominates(call, st) {
						preValidated[st] = call
					}
				}
			}
		}
		for changed := true; changed; {
			changed = false
			for _, b := range fn.Blocks {
				for _, ins := range b.Instrs {
					if phi, ok := ins.(*ssa.Phi); ok && errVals[phi] == nil {
						for _, e := range phi.Edges {
							if errVals[e] != nil {
								errVals[phi] = errVals[e]
								changed = true
							}
						}
					}
				}
			}
		}
		for i, st := range stores {
			fa := st.Addr.(*ssa.FieldAddr)
			key := fmt.Sprintf("%s store#%d to %s", qname(fn), i+1, fieldOf(fa).Name())
			if call := preValidated[st]; call != nil && !validated[st] {
				// the store must lie behind the no-error edge of a test of this
				// call's error: with those edges removed it is unreachable from the call
				reach := map[*ssa.BasicBlock]bool{}
				stack := []*ssa.BasicBlock{call.Block()}
				for len(stack) > 0 {
					b := stack[len(stack)-1]
					stack = stack[:len(stack)-1]
					if reach[b] {
						continue
					}
					reach[b] = true
					var skip *ssa.BasicBlock
					if ifi, ok := b.Instrs[len(b.Instrs)-1].(*ssa.If); ok && len(b.Succs) == 2 {
						if be, ok := ifi.Cond.(*ssa.BinOp); ok && (be.Op == token.NEQ || be.Op == token.EQL) {
							var ev ssa.Value
							if isNilConst(be.Y) {
								ev = be.X
							} else if isNilConst(be.X) {
								ev = be.Y
							}
							if ev != nil && errVals[ev] == call {
								if be.Op == token.NEQ {
									skip = b.Succs[1]
								} else {
									skip = b.Succs[0]
								}
							}
						}
					}
					for _, succ := range b.Succs {
						if succ != skip {
							stack = append(stack, succ)
						}
					}
				}
				if st.Block() != call.Block() && !reach[st.Block()] {
					c.ok(rule, key, st.Pos(), "the stored name passed Validate before the store: the store lies behind the no-error edge")
				} else {
					c.bad(rule, key, st.Pos(), "the stored name is handed to Validate, but the store is reachable without the error having been tested")
				}
				continue
			}
			if !validated[st] {
				c.bad(rule, key, st.Pos(), "type name stored into a property without a later Validate call on it: an unknown name reaches the panicking defaults of Size/Parse/DecodeBinary")
				continue
			}
			// Delete the no-error edges of all tests of Validate errors; no
			// return of a non-nil property may remain reachable from the store.
			type edge struct{ from, to *ssa.BasicBlock }
			deleted := map[edge]bool{}
			for _, b := range fn.Blocks {
				if len(b.Instrs) == 0 {
					continue
				}
				ifi, ok := b.Instrs[len(b.Instrs)-1].(*ssa.If)
				if !ok || len(b.Succs) != 2 {
					continue
				}
				be, ok := ifi.Cond.(*ssa.BinOp)
				if !ok || (be.Op != token.NEQ && be.Op != token.EQL) {
					continue
				}
				var ev ssa.Value
				if isNilConst(be.Y) {
					ev = be.X
				} else if isNilConst(be.X) {
					ev = be.Y
				}
				if ev == nil || errVals[ev] == nil {
					continue
				}
				if be.Op == token.NEQ {
					deleted[edge{b, b.Succs[1]}] = true
				} else {
					deleted[edge{b, b.Succs[0]}] = true
				}
			}
			okAll := true
			seenB := map[*ssa.BasicBlock]bool{}
			stack := []*ssa.BasicBlock{st.Block()}
			for len(stack) > 0 {
				b := stack[len(stack)-1]
				stack = stack[:len(stack)-1]
				if seenB[b] {
					continue
				}
				seenB[b] = true
				if ret, ok := b.Instrs[len(b.Instrs)-1].(*ssa.Return); ok && len(ret.Results) > 0 && !isNilConst(ret.Results[0]) {
					okAll = false
				}
				for _, succ := range b.Succs {
					if !deleted[edge{b, succ}] {
						stack = append(stack, succ)
					}
				}
			}
			if okAll {
				c.ok(rule, key, st.Pos(), "validated by Validate; every return of the property is dominated by the no-error edge")
			} else {
				c.bad(rule, key, st.Pos(), "the property can be returned on a path where the Validate error was not tested")
			}
		}
	}
}

// ---------------------------------------------------------------------------
// DA.HINT — a clamped allocation hint is only an allocation hint.

func (s *decScope) ruleDAHint(rule string) {
	c := s.c
	for _, fn := range s.fns {
		n := 0
		for _, b := range fn.Blocks {
			for _, ins := range b.Instrs {
				mk, ok := ins.(*ssa.MakeSlice)
				if !ok {
					continue
				}
				for _, sz := range []ssa.Value{mk.Len, mk.Cap} {
					// a clamped count: `if n > K { n = K }` (a phi with a constant
					// edge) or MinInt(n, K) / min(n, K)
					var phi ssa.Value
					comment := ""
					switch x := stripConv(sz).(type) {
					case *ssa.Phi:
						for _, e := range x.Edges {
							if _, isC := e.(*ssa.Const); isC {
								phi, comment = x, x.Comment
							}
						}
					case *ssa.Call:
						name := ""
						if f := x.Call.StaticCallee(); f != nil {
							name = f.Name()
						} else if bi, ok := x.Call.Value.(*ssa.Builtin); ok {
							name = bi.Name()
						}
						if (name == "MinInt" || name == "min") && len(x.Call.Args) == 2 {
							for _, a := range x.Call.Args {
								if _, isC := a.(*ssa.Const); isC {
									phi, comment = x, name
								}
							}
						}
					}
					if phi == nil {
						continue
					}
					n++
					key := fmt.Sprintf("%s hint#%d %s", qname(fn), n, comment)
					// all (transitive through conversions) uses must be makes
					var badUse ssa.Instruction
					var walk func(v ssa.Value)
					seen := map[ssa.Value]bool{}
					walk = func(v ssa.Value) {
						if seen[v] {
							return
						}
						seen[v] = true
						for _, ref := range *v.Referrers() {
							switch r := ref.(type) {
							case *ssa.MakeSlice:
							case *ssa.Convert:
								walk(r)
							case *ssa.ChangeType:
								walk(r)
							case *ssa.DebugRef:
							default:
								badUse = ref
							}
						}
					}
					walk(phi)
					if stripConv(mk.Len) == phi {
						c.bad(rule, key, mk.Pos(), "a count clamped for pre-allocation is used as the LENGTH of the container (not only its capacity): the container holds at most the clamp's worth of elements and data beyond it is silently dropped")
						continue
					}
					if badUse == nil {
						c.ok(rule, key, mk.Pos(), "the clamped value is used only as an allocation size")
					} else {
						c.bad(rule, key, badUse.Pos(), "a count clamped for pre-allocation also controls "+fmt.Sprintf("%T", badUse)+": data beyond the clamp is silently dropped")
					}
				}
			}
		}
	}
}
