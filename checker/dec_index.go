package main

import (
	"fmt"
	"go/token"
	"go/types"
	"os"
	"strings"

	"golang.org/x/tools/go/ssa"
)

// ---------------------------------------------------------------------------
// DI — indices.
//
// DI.CONST  a constant index k into a slice or string (s[k], s[k:], s[:k])
//           needs len(s) > k (>= k for slicing) to be implied by the branch
//           conditions on EVERY incoming path (dominating edges), by the
//           construction of s, or — for parameters — at every call site.
// DI.INPUT  an index derived from decoded input needs a lower AND an upper
//           bound test of that value on every path.

func sliceLike(t types.Type) bool {
	switch u := t.Underlying().(type) {
	case *types.Slice:
		return true
	case *types.Basic:
		return u.Info()&types.IsString != 0
	}
	return false
}

// knownMinLen: lower bound on len(v) from how v is constructed.
func knownMinLen(v ssa.Value, depth int) int64 {
	if depth > 5 {
		return 0
	}
	switch x := v.(type) {
	case *ssa.MakeSlice:
		if k, ok := constInt(x.Len); ok {
			return k
		}
	case *ssa.Slice:
		// array[:] or array[a:b]
		base := int64(-1)
		if pt, ok := x.X.Type().Underlying().(*types.Pointer); ok {
			if at, ok := pt.Elem().Underlying().(*types.Array); ok {
				base = at.Len()
			}
		}
		if base < 0 {
			base = knownMinLen(x.X, depth+1)
		}
		lo, hi := int64(0), base
		if x.Low != nil {
			k, ok := constInt(x.Low)
			if !ok {
				return 0
			}
			lo = k
		}
		if x.High != nil {
			k, ok := constInt(x.High)
			if !ok {
				return 0
			}
			hi = k
		}
		if hi-lo > 0 {
			return hi - lo
		}
	case *ssa.Const:
		if x.Value != nil && x.Value.Kind().String() == "String" {
			return int64(len(x.Value.ExactString()) - 2)
		}
	case *ssa.Phi:
		best := int64(-1)
		for _, e := range x.Edges {
			k := knownMinLen(e, depth+1)
			if best < 0 || k < best {
				best = k
			}
		}
		if best > 0 {
			return best
		}
	}
	return 0
}

// prefixFacts: strings.HasPrefix(s, "const") on the true edge implies len >= len(const).
func minLenFromPrefix(facts []fact, s ssa.Value) int64 {
	best := int64(0)
	for _, f := range facts {
		call, ok := f.cond.(*ssa.Call)
		if !ok || !f.taken {
			continue
		}
		callee := call.Call.StaticCallee()
		if callee == nil || callee.Pkg == nil || callee.Pkg.Pkg.Path() != "strings" || callee.Name() != "HasPrefix" {
			continue
		}
		if len(call.Call.Args) == 2 && sameValue(call.Call.Args[0], s) {
			if c, ok := call.Call.Args[1].(*ssa.Const); ok && c.Value != nil {
				n := int64(len(c.Value.ExactString()) - 2)
				if n > best {
					best = n
				}
			}
		}
	}
	return best
}

func (s *decScope) minLenAt(v ssa.Value, at *ssa.BasicBlock) int64 {
	facts := factsAt(at)
	best := minLenFromFacts(facts, v)
	if k := minLenFromPrefix(facts, v); k > best {
		best = k
	}
	if k := knownMinLen(v, 0); k > best {
		best = k
	}
	return best
}

type lenNeed struct {
	v    ssa.Value
	need int64
	at   ssa.Instruction
	what string
}

func (s *decScope) collectLenNeeds(fn *ssa.Function) []lenNeed {
	var res []lenNeed
	for _, b := range fn.Blocks {
		for _, ins := range b.Instrs {
			switch x := ins.(type) {
			case *ssa.IndexAddr:
				if !sliceLike(x.X.Type()) {
					continue
				}
				if k, ok := constInt(x.Index); ok {
					res = append(res, lenNeed{x.X, k + 1, ins, fmt.Sprintf("[%d]", k)})
				} else if need, base, ok := lenMinus(x.Index); ok && sameValue(base, x.X) {
					res = append(res, lenNeed{x.X, need, ins, fmt.Sprintf("[len-%d]", need)})
				}
			case *ssa.Index:
				if !sliceLike(x.X.Type()) {
					continue
				}
				if k, ok := constInt(x.Index); ok {
					res = append(res, lenNeed{x.X, k + 1, ins, fmt.Sprintf("[%d]", k)})
				}
			case *ssa.Lookup:
				if !sliceLike(x.X.Type()) {
					continue
				}
				if k, ok := constInt(x.Index); ok {
					res = append(res, lenNeed{x.X, k + 1, ins, fmt.Sprintf("[%d]", k)})
				}
			case *ssa.Slice:
				if !sliceLike(x.X.Type()) {
					continue
				}
				need := int64(0)
				what := ""
				for _, bnd := range []ssa.Value{x.Low, x.High} {
					if bnd == nil {
						continue
					}
					if k, ok := constInt(bnd); ok {
						if k > need {
							need = k
							what = fmt.Sprintf("[..%d..]", k)
						}
					} else if n, base, ok := lenMinus(bnd); ok && sameValue(base, x.X) {
						if n > need {
							need = n
							what = fmt.Sprintf("[len-%d:]", n)
						}
					}
				}
				if need > 0 {
					res = append(res, lenNeed{x.X, need, ins, what})
				}
			}
		}
	}
	return res
}

// lenMinus recognises len(base) - k.
func lenMinus(v ssa.Value) (int64, ssa.Value, bool) {
	bo, ok := v.(*ssa.BinOp)
	if !ok || bo.Op != token.SUB {
		return 0, nil, false
	}
	k, ok := constInt(bo.Y)
	if !ok {
		return 0, nil, false
	}
	call, ok := bo.X.(*ssa.Call)
	if !ok {
		return 0, nil, false
	}
	b, ok := call.Call.Value.(*ssa.Builtin)
	if !ok || b.Name() != "len" {
		return 0, nil, false
	}
	return k, call.Call.Args[0], true
}

func paramIndex(v ssa.Value) int {
	p, ok := v.(*ssa.Parameter)
	if !ok {
		return -1
	}
	for i, q := range p.Parent().Params {
		if q == p {
			return i
		}
	}
	return -1
}

func (s *decScope) ruleDIConst(rule string) {
	c := s.c
	cg := c.CG()
	for _, fn := range s.fns {
		if s.guarded[fn] {
			continue
		}
		for i, need := range s.collectLenNeeds(fn) {
			key := fmt.Sprintf("%s index#%d %s%s", qname(fn), i+1, describeValue(need.v), need.what)
			have := s.minLenAt(need.v, need.at.Block())
			if have < 1 && fieldsOfTrimmedNonEmpty(need.v, need.at.Block()) {
				have = 1
			}
			if have >= need.need {
				c.ok(rule, key, need.at.Pos(), fmt.Sprintf("len >= %d is implied on every path (needs %d)", have, need.need))
				continue
			}
			// parameter: demand it from every caller in scope
			if pi := paramIndex(need.v); pi >= 0 {
				okAll, nSites := true, 0
				detail := ""
				if os.Getenv("MVCHECK_DEBUG") != "" {
					fmt.Printf("DEBUG node %s: %v\n", qname(fn), cg.Nodes[fn] != nil)
					if cg.Nodes[fn] != nil {
						fmt.Printf("DEBUG   in-edges %d\n", len(cg.Nodes[fn].In))
					}
				}
				if n := cg.Nodes[fn]; n != nil {
					for _, in := range n.In {
						if in.Site == nil || !s.in[in.Caller.Func] {
							if os.Getenv("MVCHECK_DEBUG") != "" {
								fmt.Printf("DEBUG skip in-edge of %s from %s site=%v in=%v\n", qname(fn), qname(in.Caller.Func), in.Site != nil, s.in[in.Caller.Func])
							}
							continue
						}
						args := actualArgs(in.Site.Common())
						if pi >= len(args) {
							continue
						}
						nSites++
						if h := s.minLenAt(args[pi], in.Site.Block()); h < need.need {
							if _, ok := diException(in.Caller.Func, lenNeed{v: args[pi], need: need.need}); ok {
								// the caller's value is one of the named cross-function invariants
								continue
							}
							okAll = false
							detail = fmt.Sprintf("caller %s at %s only guarantees len >= %d", qname(in.Caller.Func), c.pos(in.Site.Pos()), h)
						}
					}
				}
				if okAll && nSites > 0 {
					c.ok(rule, key, need.at.Pos(), fmt.Sprintf("every one of the %d call sites in the decoder scope guarantees len >= %d", nSites, need.need))
					continue
				}
				if reason, ok := diException(fn, need); ok {
					c.except(rule, key, need.at.Pos(), reason)
					continue
				}
				c.bad(rule, key, need.at.Pos(), fmt.Sprintf("needs len >= %d of a parameter; %s", need.need, detail))
				continue
			}
			if reason, ok := diException(fn, need); ok {
				c.except(rule, key, need.at.Pos(), reason)
				continue
			}
			c.bad(rule, key, need.at.Pos(), fmt.Sprintf("needs len >= %d but only len >= %d is implied on every incoming path (a one-sided or &&-weakened guard does not dominate)", need.need, have))
		}
	}
}

func describeValue(v ssa.Value) string {
	switch x := v.(type) {
	case *ssa.Parameter:
		return x.Name()
	case *ssa.UnOp:
		if fa, ok := x.X.(*ssa.FieldAddr); ok {
			if f := fieldOf(fa); f != nil {
				return "." + f.Name()
			}
		}
	case *ssa.Call:
		return calleeName(x) + "()"
	case *ssa.Extract:
		if call, ok := x.Tuple.(*ssa.Call); ok {
			return fmt.Sprintf("%s()#%d", calleeName(call), x.Index)
		}
	case *ssa.Field:
		return "field"
	}
	return v.Name()
}

// fieldsOfTrimmedNonEmpty: v is strings.Fields(x) where x is the result of
// strings.TrimSpace and the facts at b say x is not empty: a trimmed non-empty
// string starts with a non-space rune, so it has at least one field.
func fieldsOfTrimmedNonEmpty(v ssa.Value, b *ssa.BasicBlock) bool {
	isStringsCall := func(v ssa.Value, name string) (*ssa.Call, bool) {
		call, ok := v.(*ssa.Call)
		if !ok {
			return nil, false
		}
		callee := call.Call.StaticCallee()
		if callee == nil || callee.Name() != name || pkgPathOf(callee) != "strings" || len(call.Call.Args) != 1 {
			return nil, false
		}
		return call, true
	}
	fields, ok := isStringsCall(v, "Fields")
	if !ok {
		return false
	}
	x := fields.Call.Args[0]
	if _, ok := isStringsCall(x, "TrimSpace"); !ok {
		return false
	}
	for _, f := range factsAt(b) {
		be, ok := f.cond.(*ssa.BinOp)
		if !ok {
			continue
		}
		neq := (be.Op == token.NEQ && f.taken) || (be.Op == token.EQL && !f.taken)
		gtr := be.Op == token.GTR && f.taken
		if isLenOf(be.X, x) {
			if z, isC := constInt(be.Y); isC && z == 0 && (neq || gtr) {
				return true
			}
		}
		if be.X == x && neq {
			if k, ok := be.Y.(*ssa.Const); ok && k.Value != nil && k.Value.ExactString() == `""` {
				return true
			}
		}
	}
	return false
}

// diException: one named construct + reason each.
func diException(f *ssa.Function, need lenNeed) (string, bool) {
	d := describeValue(need.v)
	// keyed by the package and the value, not by the function name, so that a
	// helper extracted from readColorPLY stays covered
	fn := ""
	if pkgPathOf(f) == repoMod+"/model3d" && strings.HasSuffix(f.Prog.Fset.Position(f.Pos()).Filename, "import.go") {
		fn = "model3d.readColorPLY"
	}
	switch {
	case fn == "model3d.readColorPLY" && strings.Contains(d, "Read()#0") && need.need == 1:
		return "rows have one value per declared property (decodeInstance makes len(p.Properties) values; DV) and IsStandardFace admits face elements with exactly one property (DT.FACE)", true
	case fn == "model3d.readColorPLY" && d == ".Values" && need.need <= 3:
		return "the list has exactly Length values (decodeInstance appends intLen values) and Length == 3 is tested before the indexing (DT.FACE)", true
	}
	return "", false
}

// ---------------------------------------------------------------------------
// DI.INPUT — indices derived from decoded input.

// inputDerived: v comes from parsing/decoding the input: strconv results,
// ByteOrder reads, or the Value field of a decoded PLY value.
func inputDerived(v ssa.Value, depth int, seen map[ssa.Value]bool) bool {
	if depth > 40 || seen[v] {
		return false
	}
	seen[v] = true
	switch x := v.(type) {
	case *ssa.Convert:
		return inputDerived(x.X, depth+1, seen)
	case *ssa.ChangeType:
		return inputDerived(x.X, depth+1, seen)
	case *ssa.BinOp:
		return inputDerived(x.X, depth+1, seen) || inputDerived(x.Y, depth+1, seen)
	case *ssa.Phi:
		for _, e := range x.Edges {
			if inputDerived(e, depth+1, seen) {
				return true
			}
		}
	case *ssa.Extract:
		return inputDerived(x.Tuple, depth+1, seen)
	case *ssa.Call:
		if callee := x.Call.StaticCallee(); callee != nil && callee.Pkg != nil {
			switch callee.Pkg.Pkg.Path() {
			case "strconv":
				return strings.HasPrefix(callee.Name(), "Parse") || callee.Name() == "Atoi"
			}
		}
		if x.Call.IsInvoke() {
			n := x.Call.Method.Name()
			if strings.HasPrefix(n, "Uint") && strings.HasSuffix(x.Call.Value.Type().String(), "ByteOrder") {
				return true
			}
			if n == "LengthValue" {
				return true
			}
		}
	case *ssa.Field:
		if isPLYValueType(x.X.Type()) {
			return true
		}
		return inputDerived(x.X, depth+1, seen)
	case *ssa.UnOp:
		if x.Op == token.MUL {
			if fa, ok := x.X.(*ssa.FieldAddr); ok {
				if pt, ok := fa.X.Type().Underlying().(*types.Pointer); ok && isPLYValueType(pt.Elem()) {
					return true
				}
			}
			// element of an aggregate that holds input-derived values
			if ia, ok := x.X.(*ssa.IndexAddr); ok {
				return aggregateHoldsInput(ia.X, depth+1, seen)
			}
			if al, ok := x.X.(*ssa.Alloc); ok {
				return aggregateHoldsInput(al, depth+1, seen)
			}
		}
	case *ssa.Index:
		return aggregateHoldsInput(x.X, depth+1, seen)
	case *ssa.TypeAssert:
		return false
	}
	return false
}

func isPLYValueType(t types.Type) bool {
	n, ok := t.(*types.Named)
	return ok && n.Obj().Pkg() != nil && strings.HasSuffix(n.Obj().Pkg().Path(), "/fileformats") && strings.HasPrefix(n.Obj().Name(), "PLYValue")
}

// aggregateHoldsInput: an array/slice value some element of which was built
// from input-derived values (composite literal stores, appended literals).
func aggregateHoldsInput(v ssa.Value, depth int, seen map[ssa.Value]bool) bool {
	if depth > 40 || seen[v] {
		return false
	}
	seen[v] = true
	switch x := v.(type) {
	case *ssa.Alloc:
		for _, ref := range *x.Referrers() {
			switch r := ref.(type) {
			case *ssa.IndexAddr:
				for _, r2 := range *r.Referrers() {
					if st, ok := r2.(*ssa.Store); ok && inputDerived(st.Val, depth+1, seen) {
						return true
					}
				}
			case *ssa.Store:
				if r.Addr == ssa.Value(x) && aggregateHoldsInput(r.Val, depth+1, seen) {
					return true
				}
			}
		}
	case *ssa.UnOp:
		if x.Op == token.MUL {
			return aggregateHoldsInput(x.X, depth+1, seen)
		}
	case *ssa.Extract:
		// range over a slice of aggregates: next element
		if nx, ok := x.Tuple.(*ssa.Next); ok {
			if rng, ok := nx.Iter.(*ssa.Range); ok {
				return aggregateHoldsInput(rng.X, depth+1, seen)
			}
		}
	case *ssa.Phi:
		for _, e := range x.Edges {
			if aggregateHoldsInput(e, depth+1, seen) {
				return true
			}
		}
	case *ssa.IndexAddr:
		return aggregateHoldsInput(x.X, depth+1, seen)
	case *ssa.Slice:
		return aggregateHoldsInput(x.X, depth+1, seen)
	case *ssa.Call:
		if b, ok := x.Call.Value.(*ssa.Builtin); ok && b.Name() == "append" {
			for _, a := range x.Call.Args {
				if aggregateHoldsInput(a, depth+1, seen) {
					return true
				}
			}
		}
	}
	return false
}

// boundFacts: which bounds of v are implied by facts: lower (v >= 0) and
// upper (v < len(of) or v < const).
func boundFacts(facts []fact, v ssa.Value, of ssa.Value) (lower, upper bool) {
	if b, ok := v.Type().Underlying().(*types.Basic); ok && b.Info()&types.IsUnsigned != 0 {
		lower = true
	}
	sv := stripConv(v)
	if b, ok := sv.Type().Underlying().(*types.Basic); ok && b.Info()&types.IsUnsigned != 0 {
		lower = true
	}
	for _, f := range facts {
		be, ok := f.cond.(*ssa.BinOp)
		if !ok {
			// a bounds predicate: if !o.validIndex(idx) { fail }
			if pc, isCall := f.cond.(*ssa.Call); isCall && f.taken {
				l2, u2 := predicateBounds(pc, sv, of)
				lower, upper = lower || l2, upper || u2
			}
			continue
		}
		x, y, op := be.X, be.Y, be.Op
		if stripConv(y) == sv {
			x, y = y, x
			op = map[token.Token]token.Token{token.LSS: token.GTR, token.GTR: token.LSS, token.LEQ: token.GEQ, token.GEQ: token.LEQ, token.EQL: token.EQL, token.NEQ: token.NEQ}[op]
		}
		if stripConv(x) != sv {
			continue
		}
		if k, isC := constInt(y); isC {
			// v < 0 false ; v >= 0 true ; v > -1 true
			if (op == token.LSS && k <= 0 && !f.taken) || (op == token.GEQ && k >= 0 && f.taken) || (op == token.GTR && k >= -1 && f.taken) || (op == token.LEQ && k < 0 && !f.taken) {
				lower = true
			}
			if (op == token.EQL && f.taken) || (op == token.NEQ && !f.taken) {
				if k >= 0 {
					lower = true
				}
				upper = upper || of == nil
			}
			if of == nil && ((op == token.LSS || op == token.LEQ) && f.taken || (op == token.GEQ || op == token.GTR) && !f.taken) {
				upper = true
			}
			continue
		}
		if of != nil && isLenOf(stripConv(y), of) {
			if (op == token.GEQ && !f.taken) || (op == token.LSS && f.taken) {
				upper = true
			}
		}
	}
	return
}

// predicateBounds: call invokes a small side-effect-free predicate of the
// repository; what a true result says about the argument that is v: every way
// the predicate can return true passes a lower / an upper bound test of the
// corresponding parameter (the upper bound against the length of the same
// field of the same receiver as `of`, or against a constant when of is nil).
func predicateBounds(call *ssa.Call, v ssa.Value, of ssa.Value) (lower, upper bool) {
	f := call.Call.StaticCallee()
	if f == nil || f.Blocks == nil || len(f.Blocks) > 6 || f.Signature.Results().Len() != 1 {
		return false, false
	}
	var prm *ssa.Parameter
	for i, a := range call.Call.Args {
		if i < len(f.Params) && stripConv(a) == v {
			prm = f.Params[i]
		}
	}
	if prm == nil {
		return false, false
	}
	// the callee-side slice that corresponds to `of`: the same field of the
	// parameter that receives the owner of `of`
	var calleeOf ssa.Value
	if of != nil {
		if ld, ok := of.(*ssa.UnOp); ok && ld.Op == token.MUL {
			if fa, ok := ld.X.(*ssa.FieldAddr); ok {
				for i, a := range call.Call.Args {
					if i < len(f.Params) && (a == fa.X || sameValue(a, fa.X)) {
						// find the load of that field in the callee
						for _, b := range f.Blocks {
							for _, ins := range b.Instrs {
								if l2, ok := ins.(*ssa.UnOp); ok && l2.Op == token.MUL {
									if fa2, ok := l2.X.(*ssa.FieldAddr); ok && fa2.Field == fa.Field && fa2.X == ssa.Value(f.Params[i]) {
										calleeOf = l2
									}
								}
							}
						}
					}
				}
			}
		}
		if calleeOf == nil {
			return false, false
		}
	}
	first := true
	for _, b := range f.Blocks {
		ret, ok := b.Instrs[len(b.Instrs)-1].(*ssa.Return)
		if !ok {
			continue
		}
		// the ways this return can yield true
		type way struct {
			facts []fact
		}
		var ways []way
		var collect func(r ssa.Value, at *ssa.BasicBlock, depth int) bool
		collect = func(r ssa.Value, at *ssa.BasicBlock, depth int) bool {
			if depth > 4 {
				return false
			}
			switch x := r.(type) {
			case *ssa.Const:
				if x.Value != nil && x.Value.String() == "true" {
					ways = append(ways, way{factsAt(at)})
				}
				return true
			case *ssa.BinOp:
				ways = append(ways, way{append(factsAt(at), fact{x, true})})
				return true
			case *ssa.Phi:
				for i, e := range x.Edges {
					pred := x.Block().Preds[i]
					fs := append(factsAt(pred), edgeFact(pred, x.Block())...)
					switch ev := e.(type) {
					case *ssa.Const:
						if ev.Value != nil && ev.Value.String() == "true" {
							ways = append(ways, way{fs})
						}
					case *ssa.BinOp:
						ways = append(ways, way{append(fs, fact{ev, true})})
					default:
						return false
					}
				}
				return true
			}
			return false
		}
		if !collect(ret.Results[0], b, 0) {
			return false, false
		}
		for _, w := range ways {
			l, u := boundFacts(w.facts, prm, calleeOf)
			if first {
				lower, upper, first = l, u, false
			} else {
				lower, upper = lower && l, upper && u
			}
		}
	}
	if first {
		return false, false
	}
	return lower, upper
}

func (s *decScope) ruleDIInput(rule string) {
	c := s.c
	for _, fn := range s.fns {
		if s.guarded[fn] {
			continue
		}
		n := 0
		for _, b := range fn.Blocks {
			for _, ins := range b.Instrs {
				var base, idx ssa.Value
				switch x := ins.(type) {
				case *ssa.IndexAddr:
					base, idx = x.X, x.Index
				case *ssa.Index:
					base, idx = x.X, x.Index
				default:
					continue
				}
				if _, isC := idx.(*ssa.Const); isC {
					continue
				}
				if !inputDerived(idx, 0, map[ssa.Value]bool{}) {
					continue
				}
				n++
				key := fmt.Sprintf("%s input-index#%d into %s", qname(fn), n, describeValue(base))
				var of ssa.Value
				if sliceLike(base.Type()) {
					of = base
				}
				lower, upper := boundFacts(factsAt(b), idx, of)
				if lower && upper {
					c.ok(rule, key, ins.Pos(), "both a lower and an upper bound test of the index dominate the access")
					continue
				}
				// validate-all-then-use: the index is re-read from an aggregate
				// whose every element was bound-checked in a loop that dominates.
				if l2, u2 := s.aggregateChecked(fn, idx, of, b); l2 && u2 {
					c.ok(rule, key, ins.Pos(), "the index is an element of an aggregate all of whose elements passed a lower and an upper bound test in a loop before the access")
					continue
				} else {
					lower, upper = lower || l2, upper || u2
				}
				missing := []string{}
				if !lower {
					missing = append(missing, "lower bound (index >= 0)")
				}
				if !upper {
					missing = append(missing, "upper bound (index < len)")
				}
				c.bad(rule, key, ins.Pos(), "index decoded from the input is used without a dominating "+strings.Join(missing, " and "))
			}
		}
	}
}

// aggregateChecked recognises "validate every element, then use":
// idx is element k of a fixed-size aggregate A; a loop whose header dominates
// the use (the use is after the loop) visits A[j] for every j (induction
// variable from the first element to the array length) and every path that
// stays in the loop has passed a lower and an upper bound test of A[j]; the
// loop is left towards the use only through its exhausted header condition.
func (s *decScope) aggregateChecked(fn *ssa.Function, idx ssa.Value, of ssa.Value, use *ssa.BasicBlock) (bool, bool) {
	aggAddr := func(v ssa.Value) (ssa.Value, ssa.Value) { // (aggregate address or value, element index)
		switch x := stripConv(v).(type) {
		case *ssa.Index:
			if u, ok := x.X.(*ssa.UnOp); ok && u.Op == token.MUL {
				return u.X, x.Index
			}
			return x.X, x.Index
		case *ssa.UnOp:
			if ia, ok := x.X.(*ssa.IndexAddr); ok && x.Op == token.MUL {
				return ia.X, ia.Index
			}
		}
		return nil, nil
	}
	a, _ := aggAddr(idx)
	if a == nil {
		return false, false
	}
	var arrLen int64 = -1
	t := a.Type()
	if pt, ok := t.Underlying().(*types.Pointer); ok {
		t = pt.Elem()
	}
	if at, ok := t.Underlying().(*types.Array); ok {
		arrLen = at.Len()
	}
	if arrLen < 0 {
		return false, false
	}
	for h, body := range naturalLoops(fn) {
		if !h.Dominates(use) || body[use] {
			continue
		}
		// the loop is counted up to the array length
		if len(h.Instrs) == 0 {
			continue
		}
		ifi, ok := h.Instrs[len(h.Instrs)-1].(*ssa.If)
		if !ok {
			continue
		}
		cond, ok := ifi.Cond.(*ssa.BinOp)
		if !ok || cond.Op != token.LSS {
			continue
		}
		if k, ok := constInt(cond.Y); !ok || k != arrLen {
			continue
		}
		iv := cond.X
		if !startsAtFirst(iv, h, body) {
			continue
		}
		// the only exit towards the use is the header's false edge
		exitsOK := true
		for b := range body {
			for _, succ := range b.Succs {
				if !body[succ] && b != h && reaches(succ, use) {
					exitsOK = false
				}
			}
		}
		if !exitsOK {
			continue
		}
		// element A[iv] is bound-checked on every back edge
		for b := range body {
			for _, ins := range b.Instrs {
				w, ok := ins.(ssa.Value)
				if !ok {
					continue
				}
				wa, wi := aggAddr(w)
				if wa == nil || wa != a || wi != iv {
					continue
				}
				all := true
				lAll, uAll := true, true
				n := 0
				for bb := range body {
					for _, succ := range bb.Succs {
						if succ != h {
							continue
						}
						n++
						facts := factsAt(bb)
						if len(bb.Instrs) > 0 {
							if bi, ok := bb.Instrs[len(bb.Instrs)-1].(*ssa.If); ok && len(bb.Succs) == 2 && bb.Succs[0] != bb.Succs[1] {
								facts = append(facts, fact{bi.Cond, bb.Succs[0] == h})
							}
						}
						l, u := boundFacts(facts, w, of)
						lAll, uAll = lAll && l, uAll && u
						all = all && l && u
					}
				}
				if n > 0 {
					return lAll, uAll
				}
			}
		}
	}
	return false, false
}

// startsAtFirst: iv is the loop's induction variable visiting index 0 first:
// phi(0, ...) or phi(-1, ...)+1.
func startsAtFirst(iv ssa.Value, h *ssa.BasicBlock, body map[*ssa.BasicBlock]bool) bool {
	off := int64(0)
	if bo, ok := iv.(*ssa.BinOp); ok && bo.Op == token.ADD {
		if k, ok := constInt(bo.Y); ok {
			off = k
			iv = bo.X
		}
	}
	phi, ok := iv.(*ssa.Phi)
	if !ok || phi.Block() != h {
		return false
	}
	for i, e := range phi.Edges {
		if body[h.Preds[i]] {
			continue
		}
		k, ok := constInt(e)
		if !ok || k+off != 0 {
			return false
		}
	}
	return true
}

func naturalLoops(fn *ssa.Function) map[*ssa.BasicBlock]map[*ssa.BasicBlock]bool {
	res := map[*ssa.BasicBlock]map[*ssa.BasicBlock]bool{}
	for _, b := range fn.Blocks {
		for _, h := range b.Succs {
			if !h.Dominates(b) {
				continue
			}
			body := res[h]
			if body == nil {
				body = map[*ssa.BasicBlock]bool{h: true}
				res[h] = body
			}
			stack := []*ssa.BasicBlock{b}
			for len(stack) > 0 {
				x := stack[len(stack)-1]
				stack = stack[:len(stack)-1]
				if body[x] {
					continue
				}
				body[x] = true
				stack = append(stack, x.Preds...)
			}
		}
	}
	return res
}

func sameAggregate(a, b ssa.Value) bool {
	if a == b || sameValue(a, b) {
		return true
	}
	// both are loads/extractions of the same range element or local
	ua, ok1 := a.(*ssa.UnOp)
	ub, ok2 := b.(*ssa.UnOp)
	if ok1 && ok2 {
		return ua.X == ub.X
	}
	return false
}

func reaches(from, to *ssa.BasicBlock) bool {
	seen := map[*ssa.BasicBlock]bool{}
	stack := []*ssa.BasicBlock{from}
	for len(stack) > 0 {
		x := stack[len(stack)-1]
		stack = stack[:len(stack)-1]
		if x == to {
			return true
		}
		if seen[x] {
			continue
		}
		seen[x] = true
		stack = append(stack, x.Succs...)
	}
	return false
}

// DI.COUNTER — a fixed-size array indexed by a counter that is stepped inside
// a loop whose trip count depends on the input (one step per "vertex" line)
// needs a dominating test that stops the counter at the array length; the
// final "exactly three vertices" check after the loop comes too late for the
// fourth store.
func (s *decScope) ruleDICounter(rule string) {
	c := s.c
	for _, fn := range s.fns {
		if s.guarded[fn] || fn.Blocks == nil {
			continue
		}
		loops := naturalLoops(fn)
		n := 0
		for _, b := range fn.Blocks {
			for _, ins := range b.Instrs {
				ia, ok := ins.(*ssa.IndexAddr)
				if !ok {
					continue
				}
				pt, ok := ia.X.Type().Underlying().(*types.Pointer)
				if !ok {
					continue
				}
				arr, ok := pt.Elem().Underlying().(*types.Array)
				if !ok {
					continue
				}
				phi, ok := ia.Index.(*ssa.Phi)
				if !ok {
					continue
				}
				body, isHead := loops[phi.Block()]
				if !isHead || !body[b] {
					continue
				}
				// stepped by +1 on some back edge, constant start
				stepped := false
				for i, e := range phi.Edges {
					if !body[phi.Block().Preds[i]] {
						continue
					}
					if bo, ok := e.(*ssa.BinOp); ok && bo.Op == token.ADD {
						if k, isC := constInt(bo.Y); isC && k > 0 {
							stepped = true
						}
					}
					if inner, ok := e.(*ssa.Phi); ok {
						for _, e2 := range inner.Edges {
							if bo, ok := e2.(*ssa.BinOp); ok && bo.Op == token.ADD && bo.X == ssa.Value(phi) {
								stepped = true
							}
						}
					}
				}
				if !stepped {
					continue
				}
				// is the loop counted by this very phi with a bound <= len? then the
				// header test bounds it
				L := arr.Len()
				bounded := false
				for _, f := range factsAt(b) {
					be, ok := f.cond.(*ssa.BinOp)
					if !ok || be.X != ssa.Value(phi) {
						continue
					}
					if lc, ok := be.Y.(*ssa.Call); ok && ((be.Op == token.LSS && f.taken) || (be.Op == token.GEQ && !f.taken)) {
						if bi, isB := lc.Call.Value.(*ssa.Builtin); isB && bi.Name() == "len" {
							if ok, _ := sliceLenAtMost(fn, lc.Call.Args[0], b, L); ok {
								bounded = true
							}
						}
					}
					k, isC := constInt(be.Y)
					if !isC || k > L {
						continue
					}
					switch {
					case be.Op == token.EQL && !f.taken && k == L,
						be.Op == token.NEQ && f.taken && k == L,
						be.Op == token.LSS && f.taken,
						be.Op == token.GEQ && !f.taken:
						bounded = true
					case be.Op == token.LEQ && f.taken && k < L,
						be.Op == token.GTR && !f.taken && k < L:
						bounded = true
					}
				}
				n++
				c.analysed(qname(fn))
				key := fmt.Sprintf("%s counter-index#%d into [%d]%s", qname(fn), n, L, arr.Elem().String())
				if bounded {
					c.ok(rule, key, ia.Pos(), "a dominating test stops the counter at the array length")
				} else {
					c.bad(rule, key, ia.Pos(), fmt.Sprintf("the array of length %d is indexed by a counter stepped once per input item without a dominating test against %d: one item too many panics with index out of range", L, L))
				}
			}
		}
	}
}

// DI.RANGE — a fixed-size array indexed by the position of a range loop over a
// slice that came from the input (res[i] for i, x := range record) needs the
// slice to be no longer than the array: a dominating test of len(slice)
// against the array length (== N, <= N, or != N / > N leading out), or, for a
// record handed out by encoding/csv, a reader whose FieldsPerRecord is set to
// exactly N wherever the package configures one (and nowhere to anything else).
func (s *decScope) ruleDIRange(rule string) {
	c := s.c
	for _, fn := range s.fns {
		if s.guarded[fn] || fn.Blocks == nil {
			continue
		}
		n := 0
		for _, b := range fn.Blocks {
			for _, ins := range b.Instrs {
				ia, ok := ins.(*ssa.IndexAddr)
				if !ok {
					continue
				}
				pt, ok := ia.X.Type().Underlying().(*types.Pointer)
				if !ok {
					continue
				}
				arr, ok := pt.Elem().Underlying().(*types.Array)
				if !ok {
					continue
				}
				// the index: phi of a range-over-slice loop (rangeindex lowering:
				// i.next = phi + 1, compared with len(S))
				seq := rangedSlice(ia.Index)
				if seq == nil {
					continue
				}
				n++
				key := fmt.Sprintf("%s range index#%d into [%d]", qname(fn), n, arr.Len())
				ok1, why := sliceLenAtMost(fn, seq, b, arr.Len())
				if !ok1 {
					// a parameter: the bound is owed by every caller in scope
					if pi := paramIndex(seq); pi >= 0 {
						if node := c.CG().Nodes[fn]; node != nil {
							nSites, all := 0, true
							for _, in := range node.In {
								if in.Site == nil || !s.in[in.Caller.Func] {
									continue
								}
								args := actualArgs(in.Site.Common())
								if pi >= len(args) {
									continue
								}
								nSites++
								if okc, _ := sliceLenAtMost(in.Caller.Func, args[pi], in.Site.Block(), arr.Len()); !okc {
									all = false
								}
							}
							if all && nSites > 0 {
								ok1, why = true, fmt.Sprintf("every one of the %d call sites in the decoder scope passes a slice bounded by the array length", nSites)
							}
						}
					}
				}
				if ok1 {
					c.ok(rule, key, ia.Pos(), why)
				} else {
					c.bad(rule, key, ia.Pos(), fmt.Sprintf("a [%d] array is indexed by the position in a slice that comes from the input, and nothing bounds the length of that slice by %d: a longer record indexes out of range", arr.Len(), arr.Len()))
				}
			}
		}
	}
}

// sliceLenAtMost: at block b, the slice seq has at most N elements — by a
// dominating test of its length, as a slice expression of constant length, or
// as a record of an encoding/csv reader always configured with
// FieldsPerRecord = N.
func sliceLenAtMost(fn *ssa.Function, seq ssa.Value, b *ssa.BasicBlock, N int64) (bool, string) {
	for _, f := range factsAt(b) {
		be, isB := f.cond.(*ssa.BinOp)
		if !isB {
			continue
		}
		x, y, op := be.X, be.Y, be.Op
		if isLenOf(y, seq) {
			x, y = y, x
			op = map[token.Token]token.Token{token.LSS: token.GTR, token.GTR: token.LSS, token.LEQ: token.GEQ, token.GEQ: token.LEQ, token.EQL: token.EQL, token.NEQ: token.NEQ}[op]
		}
		if !isLenOf(x, seq) {
			continue
		}
		k, isC := constInt(y)
		if !isC {
			continue
		}
		switch {
		case op == token.EQL && f.taken && k <= N, op == token.NEQ && !f.taken && k <= N,
			op == token.LEQ && f.taken && k <= N, op == token.GTR && !f.taken && k <= N,
			op == token.LSS && f.taken && k <= N+1, op == token.GEQ && !f.taken && k <= N+1:
			return true, "a dominating test bounds the length of the slice by the array length"
		}
	}
	if k, known := sliceExprLen(seq); known && k <= N {
		return true, fmt.Sprintf("the slice expression has exactly %d elements", k)
	}
	if k, found := csvFieldsPerRecord(fn, seq); found && k == N {
		return true, fmt.Sprintf("the record comes from an encoding/csv reader that this package always configures with FieldsPerRecord = %d", k)
	}
	return false, ""
}

// rangedSlice: idx is the index variable of `for i, x := range S` over a slice;
// returns S.
func rangedSlice(idx ssa.Value) ssa.Value {
	// rangeindex lowering: phi(-1, next); next = phi + 1; if next < len(S)
	bin, ok := idx.(*ssa.BinOp)
	if !ok || bin.Op != token.ADD {
		return nil
	}
	phi, ok := bin.X.(*ssa.Phi)
	if !ok {
		return nil
	}
	if k, isC := constInt(bin.Y); !isC || k != 1 {
		return nil
	}
	for _, ref := range *bin.Referrers() {
		cmp, ok := ref.(*ssa.BinOp)
		if !ok || cmp.Op != token.LSS || cmp.X != ssa.Value(bin) {
			continue
		}
		if call, ok := cmp.Y.(*ssa.Call); ok {
			if bi, isB := call.Call.Value.(*ssa.Builtin); isB && bi.Name() == "len" && len(call.Call.Args) == 1 {
				if _, isSl := call.Call.Args[0].Type().Underlying().(*types.Slice); isSl {
					_ = phi
					return call.Call.Args[0]
				}
			}
		}
	}
	return nil
}

// csvFieldsPerRecord: seq is the record returned by (*csv.Reader).Read, and
// every store to csv.Reader.FieldsPerRecord in the package of fn writes the same
// constant; returns it.
func csvFieldsPerRecord(fn *ssa.Function, seq ssa.Value) (int64, bool) {
	ex, ok := seq.(*ssa.Extract)
	if !ok {
		return 0, false
	}
	call, ok := ex.Tuple.(*ssa.Call)
	if !ok {
		return 0, false
	}
	f := call.Call.StaticCallee()
	if f == nil || f.Pkg == nil || f.Pkg.Pkg.Path() != "encoding/csv" || f.Name() != "Read" {
		return 0, false
	}
	var val int64
	found := false
	consistent := true
	var visit func(g *ssa.Function)
	visit = func(g *ssa.Function) {
		for _, b := range g.Blocks {
			for _, ins := range b.Instrs {
				st, ok := ins.(*ssa.Store)
				if !ok {
					continue
				}
				fa, ok := st.Addr.(*ssa.FieldAddr)
				if !ok {
					continue
				}
				fv := fieldOf(fa)
				if fv == nil || fv.Name() != "FieldsPerRecord" || fv.Pkg() == nil || fv.Pkg().Path() != "encoding/csv" {
					continue
				}
				k, isC := constInt(st.Val)
				if !isC || (found && k != val) {
					consistent = false
				}
				val, found = k, true
			}
		}
		for _, a := range g.AnonFuncs {
			visit(a)
		}
	}
	if fn.Pkg == nil {
		return 0, false
	}
	for _, m := range fn.Pkg.Members {
		switch x := m.(type) {
		case *ssa.Function:
			visit(x)
		case *ssa.Type:
			for _, t := range []types.Type{x.Type(), types.NewPointer(x.Type())} {
				ms := fn.Prog.MethodSets.MethodSet(t)
				for i := 0; i < ms.Len(); i++ {
					if g := fn.Prog.MethodValue(ms.At(i)); g != nil && g.Pkg == fn.Pkg {
						visit(g)
					}
				}
			}
		}
	}
	return val, found && consistent
}

// sliceExprLen: the length of s[len(s)-K:], s[:K] or s[A:B] with constant
// bounds.
func sliceExprLen(v ssa.Value) (int64, bool) {
	sl, ok := v.(*ssa.Slice)
	if !ok {
		return 0, false
	}
	if sl.High == nil && sl.Low != nil {
		if bin, ok := sl.Low.(*ssa.BinOp); ok && bin.Op == token.SUB && isLenOf(bin.X, sl.X) {
			if k, isC := constInt(bin.Y); isC && k >= 0 {
				return k, true
			}
		}
		return 0, false
	}
	if sl.High != nil {
		hi, ok := constInt(sl.High)
		if !ok {
			return 0, false
		}
		lo := int64(0)
		if sl.Low != nil {
			if lo, ok = constInt(sl.Low); !ok {
				return 0, false
			}
		}
		return hi - lo, true
	}
	return 0, false
}

// DL.RECURSE — a decoder that skips input by calling itself (return p.Read()
// after a comment line) uses one stack frame per skipped item: the depth of the
// recursion is chosen by the input, and Go's stack limit turns enough of it
// into a fatal, unrecoverable stack overflow. Reported: a direct self-call in
// a function of the decoder scope that is reachable after a read of input in
// the same activation (recursion over the structure of already decoded data -
// no read before the call - is not reported).
func (s *decScope) ruleDLRecurse(rule string) {
	c := s.c
	for _, fn := range s.fns {
		if fn.Blocks == nil {
			continue
		}
		n := 0
		for _, b := range fn.Blocks {
			for _, ins := range b.Instrs {
				call, ok := ins.(*ssa.Call)
				if !ok || call.Call.StaticCallee() != fn {
					continue
				}
				n++
				key := fmt.Sprintf("%s self-call#%d", qname(fn), n)
				// a read of input before the call in this activation?
				reads := false
				for _, b2 := range fn.Blocks {
					if !(b2 == b || reaches(b2, b)) {
						continue
					}
					for _, i2 := range b2.Instrs {
						if i2 == ins {
							break
						}
						if c2, ok := i2.(*ssa.Call); ok && c2 != call && (primitiveConsume(c2) || (c2.Call.StaticCallee() != nil && c2.Call.StaticCallee() != fn && looksLikeRead(c2.Call.StaticCallee()))) {
							reads = true
						}
					}
				}
				if reads {
					c.bad(rule, key, call.Pos(), "the decoder calls itself after consuming input in the same activation: one stack frame per skipped item, so the input chooses the recursion depth (fatal stack overflow for a long enough run)")
				} else {
					c.ok(rule, key, call.Pos(), "recursion without a preceding read in the same activation (structural)")
				}
			}
		}
	}
}
