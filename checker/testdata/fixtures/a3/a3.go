// Package a3 holds constructs the A3 rules must flag (want:) or accept (clean:).
package a3

import "github.com/unixpickle/model3d/model3d"

type shape struct{ inner model3d.Collider }

// The count is only incremented when a callback is supplied.
// want:A3.NILDEP
func CountInsideNilTest(r *model3d.Ray, f func(model3d.RayCollision)) int {
	n := 0
	for i := 0; i < 2; i++ {
		if f != nil {
			f(model3d.RayCollision{Scale: float64(i)})
			n++
		}
	}
	return n
}

// want:A3.GUARD the callback is invoked without a nil test.
func Unguarded(r *model3d.Ray, f func(model3d.RayCollision)) int {
	f(model3d.RayCollision{})
	return 1
}

// want:A3.GUARD the wrapper closure invokes a possibly nil callback.
func (s *shape) WrapUnguarded(r *model3d.Ray, f func(model3d.RayCollision)) int {
	return s.inner.RayCollisions(r, func(rc model3d.RayCollision) {
		f(rc)
	})
}

// want:A3.CNT one path reports a collision that is not counted.
func MissedCount(r *model3d.Ray, f func(model3d.RayCollision)) int {
	var count int
	for _, t := range []float64{1, 2} {
		if t < 0 {
			continue
		}
		if f != nil {
			f(model3d.RayCollision{Scale: t})
		}
		if t > 1.5 {
			break
		}
		count++
	}
	return count
}

// want:A3.CNT the closure counts without reporting on one path.
func ClosureNotNeutral(r *model3d.Ray, f func(model3d.RayCollision)) int {
	n := 0
	each(func(t float64) {
		if t >= 0 {
			n++
			if t > 3 {
				return
			}
			if f != nil {
				f(model3d.RayCollision{Scale: t})
			}
		}
	})
	return n
}

// want:A3.CNT a constant is returned after two reports.
func WrongConstant(r *model3d.Ray, f func(model3d.RayCollision)) int {
	if f != nil {
		f(model3d.RayCollision{})
	}
	if f != nil {
		f(model3d.RayCollision{Scale: 1})
	}
	return 1
}

// want:A3.CNT the delegated count is dropped.
func (s *shape) DropsDelegated(r *model3d.Ray, f func(model3d.RayCollision)) int {
	s.inner.RayCollisions(r, f)
	return 0
}

// want:A3.NILDEP early return only for a non-nil callback.
func ReturnInNilRegion(r *model3d.Ray, f func(model3d.RayCollision)) int {
	count := 0
	for i := 0; i < 3; i++ {
		count++
		if f != nil {
			f(model3d.RayCollision{})
			if i == 1 {
				break
			}
		}
	}
	return count
}

// clean:A3.CNT clean:A3.GUARD clean:A3.NILDEP the repository's idioms.
func (s *shape) Idioms(r *model3d.Ray, f func(model3d.RayCollision)) int {
	var colls []model3d.RayCollision
	s.inner.RayCollisions(r, func(rc model3d.RayCollision) {
		colls = append(colls, rc)
	})
	if len(colls) == 0 {
		return 0
	} else if len(colls) == 1 {
		if f != nil {
			f(colls[0])
		}
		return 1
	}
	count := 1
	if colls[0].Scale > 1 {
		if f != nil {
			f(colls[0])
		}
		count += 1
	}
	if f != nil {
		f(colls[len(colls)-1])
	}
	n := 0
	each(func(t float64) {
		if t >= 0 {
			n++
			if f != nil {
				f(model3d.RayCollision{Scale: t})
			}
		}
	})
	count += s.inner.RayCollisions(r, f)
	return count + n
}

// clean:A3.CNT clean:A3.GUARD clean:A3.NILDEP nil pass-through wrapper.
func (s *shape) PassThrough(r *model3d.Ray, f func(model3d.RayCollision)) int {
	if f == nil {
		return s.inner.RayCollisions(r, nil)
	}
	return s.inner.RayCollisions(r, func(rc model3d.RayCollision) {
		rc.Scale *= 2
		f(rc)
	})
}

// clean:A3.CNT clean:A3.GUARD one report per collected element, len returned.
func (s *shape) LenIdiom(r *model3d.Ray, f func(model3d.RayCollision)) int {
	var colls []model3d.RayCollision
	s.inner.RayCollisions(r, func(rc model3d.RayCollision) {
		colls = append(colls, rc)
	})
	for _, rc := range colls {
		if f != nil {
			f(rc)
		}
	}
	return len(colls)
}

func each(g func(float64)) {
	for _, t := range []float64{-1, 1, 4} {
		g(t)
	}
}

// want:AM the farther collision wins.
func (s *shape) FirstFlipped(r *model3d.Ray) (model3d.RayCollision, bool) {
	var res model3d.RayCollision
	var ok bool
	s.inner.RayCollisions(r, func(rc model3d.RayCollision) {
		if !ok || rc.Scale > res.Scale {
			res = rc
			ok = true
		}
	})
	return res, ok
}

// want:AM no "nothing found yet" disjunct.
func (s *shape) FirstNoFlag(r *model3d.Ray) (model3d.RayCollision, bool) {
	var res model3d.RayCollision
	var ok bool
	s.inner.RayCollisions(r, func(rc model3d.RayCollision) {
		if rc.Scale < res.Scale {
			res = rc
			ok = true
		}
	})
	return res, ok
}

// clean:AM both spellings used in the repository.
func (s *shape) FirstGood(r *model3d.Ray) (model3d.RayCollision, bool) {
	var res model3d.RayCollision
	var ok bool
	var scale float64
	s.inner.RayCollisions(r, func(rc model3d.RayCollision) {
		if res.Scale >= rc.Scale || !ok {
			res = rc
			ok = true
		}
		if !ok || rc.Scale < scale {
			scale = rc.Scale
			res = rc
			ok = true
		}
	})
	return res, ok
}

// clean:AM the guard form: skip the candidate unless it is nearer.
func (s *shape) FirstGuardGood(r *model3d.Ray) (model3d.RayCollision, bool) {
	var res model3d.RayCollision
	var ok bool
	s.inner.RayCollisions(r, func(rc model3d.RayCollision) {
		if ok && !(rc.Scale < res.Scale) {
			return
		}
		res = rc
		ok = true
	})
	return res, ok
}

// want:AM the guard skips the nearer candidates.
func (s *shape) FirstGuardFlipped(r *model3d.Ray) (model3d.RayCollision, bool) {
	var res model3d.RayCollision
	var ok bool
	s.inner.RayCollisions(r, func(rc model3d.RayCollision) {
		if ok && rc.Scale < res.Scale {
			return
		}
		res = rc
		ok = true
	})
	return res, ok
}

// want:A3.MEAN early stop: the current sample is in the sum but not counted.
func MeanEarlyStop(samples []model3d.Coord3D, max int) (model3d.Coord3D, int) {
	var sum model3d.Coord3D
	n := 0
	for n = 0; n < max; n++ {
		sum = sum.Add(samples[n])
		if samples[n].X > 10 {
			break
		}
	}
	return sum.Scale(1 / float64(n)), n
}

// want:A3.MEAN the in-loop estimate (one sample ahead of its divisor) is returned.
func MeanReturnsEstimate(samples []model3d.Coord3D, max int) model3d.Coord3D {
	var sum model3d.Coord3D
	n := 0
	for n = 0; n < max; n++ {
		sum = sum.Add(samples[n])
		if n < 2 {
			continue
		}
		mean := sum.Scale(1 / float64(n))
		if mean.X < 1 {
			return mean
		}
	}
	return sum.Scale(1 / float64(n))
}

// clean:A3.MEAN the repository's idioms: counted early exit, exact loop.
func MeanGood(samples []model3d.Coord3D, max, k int) (model3d.Coord3D, model3d.Coord3D) {
	var sum model3d.Coord3D
	n := 0
	for n = 0; n < max; n++ {
		sum = sum.Add(samples[n])
		if n < 2 {
			continue
		}
		estimate := sum.Scale(1 / float64(n))
		if estimate.X < 1 {
			n++
			break
		}
	}
	var sum2 model3d.Coord3D
	for i := 0; i < k; i++ {
		sum2 = sum2.Add(samples[i])
	}
	return sum.Scale(1 / float64(n)), sum2.Scale(1 / float64(k))
}

// clean:A3.CNT clean:A3.GUARD a local reporter closure counts as one report per call.
func ReporterClosure(r *model3d.Ray, f func(model3d.RayCollision)) int {
	report := func(t float64) {
		if f != nil {
			f(model3d.RayCollision{Scale: t})
		}
	}
	n := 0
	for i := 0; i < 3; i++ {
		if r.Direction.X > float64(i) {
			report(float64(i))
			n++
		}
	}
	return n
}

// want:A3.CNT one report through the local closure is not counted.
func ReporterClosureBad(r *model3d.Ray, f func(model3d.RayCollision)) int {
	report := func(t float64) {
		if f != nil {
			f(model3d.RayCollision{Scale: t})
		}
	}
	n := 0
	for i := 0; i < 3; i++ {
		if r.Direction.X > float64(i) {
			report(float64(i))
			n++
		}
	}
	report(0)
	return n
}

// clean:A3.CNT clean:A3.GUARD clean:A3.NILDEP the wrapper closure is held in a local that stays nil without a callback.
func (s *shape) WrapThroughLocal(r *model3d.Ray, f func(model3d.RayCollision)) int {
	var callback func(model3d.RayCollision)
	if f != nil {
		callback = func(rc model3d.RayCollision) {
			f(rc)
		}
	}
	return s.inner.RayCollisions(r, callback)
}

// want:A3.GUARD the local wrapper closure is built whether or not there is a callback.
func (s *shape) WrapThroughLocalUnguarded(r *model3d.Ray, f func(model3d.RayCollision)) int {
	var callback func(model3d.RayCollision)
	callback = func(rc model3d.RayCollision) {
		f(rc)
	}
	return s.inner.RayCollisions(r, callback)
}
