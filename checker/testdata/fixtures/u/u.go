// Package u holds constructs the units rule must flag or accept.
package u

import "github.com/unixpickle/model3d/model3d"

type wrapper struct {
	c   model3d.Collider
	t   model3d.DistTransform
	inv model3d.DistTransform
}

// want:UNIT a direction is translated.
func (w *wrapper) InnerRayBad(r *model3d.Ray) *model3d.Ray {
	return &model3d.Ray{
		Origin:    w.inv.Apply(r.Origin),
		Direction: w.inv.Apply(r.Direction),
	}
}

// clean:UNIT the image-difference idiom.
func (w *wrapper) InnerRayGood(r *model3d.Ray) *model3d.Ray {
	origin := w.inv.Apply(r.Origin)
	return &model3d.Ray{
		Origin:    origin,
		Direction: w.inv.Apply(r.Origin.Add(r.Direction)).Sub(origin),
	}
}

// want:UNIT a ray parameter is scaled like a length.
func (w *wrapper) OuterBad(rc model3d.RayCollision) model3d.RayCollision {
	return model3d.RayCollision{Scale: w.t.ApplyDistance(rc.Scale), Normal: rc.Normal}
}

// want:UNIT squared distance compared with a radius.
func InsideBad(s *model3d.Sphere, c model3d.Coord3D) bool {
	return c.SquaredDist(s.Center) <= s.Radius
}

// clean:UNIT
func InsideGood(s *model3d.Sphere, c model3d.Coord3D) bool {
	return c.SquaredDist(s.Center) <= s.Radius*s.Radius && c.Dist(s.Center) <= s.Radius+1e-8
}

// want:UNIT a unit direction is added to a point.
func SampleBad(c *model3d.Cylinder, theta float64) model3d.Coord3D {
	axis := c.P2.Sub(c.P1).Normalize()
	x, _ := axis.OrthoBasis()
	return c.P1.Add(c.P2.Sub(c.P1).Scale(theta)).Add(x)
}

// clean:UNIT
func SampleGood(c *model3d.Cylinder, theta float64, r *model3d.Ray, t float64) (model3d.Coord3D, model3d.Coord3D) {
	axis := c.P2.Sub(c.P1).Normalize()
	x, _ := axis.OrthoBasis()
	hit := r.Origin.Add(r.Direction.Scale(t))
	_ = hit.Dist(c.P1) < c.Radius
	return c.P1.Add(c.P2.Sub(c.P1).Scale(theta)).Add(x.Scale(c.Radius)), hit
}

// want:FRAME the query radius goes through the forward transform.
func (w *wrapper) SphereCollisionBad(c model3d.Coord3D, r float64) bool {
	return w.c.SphereCollision(w.inv.Apply(c), w.t.ApplyDistance(r))
}

// want:FRAME the query point is not transformed at all.
func (w *wrapper) SphereCollisionBad2(c model3d.Coord3D, r float64) bool {
	return w.c.SphereCollision(c, w.inv.ApplyDistance(r))
}

// clean:FRAME
func (w *wrapper) SphereCollisionGood(c model3d.Coord3D, r float64) bool {
	return w.c.SphereCollision(w.inv.Apply(c), w.inv.ApplyDistance(r))
}

func newWrapper(t model3d.DistTransform, c model3d.Collider) *wrapper {
	return &wrapper{c: c, t: t, inv: t.Inverse().(model3d.DistTransform)}
}

type contouring struct {
	delta        float64
	repair, clip bool
}

func newContouring(delta float64, repair, clip bool) *contouring {
	return &contouring{delta: delta, repair: repair, clip: clip}
}

// want:ARGSWAP the two flags are passed in each other's position.
func ContourInteriorBad(delta float64, repair, clip bool) *contouring {
	return newContouring(delta, clip, repair)
}

// clean:ARGSWAP
func ContourInterior(delta float64, repair, clip bool) *contouring {
	return newContouring(delta, repair, clip)
}

func signedKernel(t *model3d.Triangle, r *model3d.Ray) (float64, bool) {
	return r.Origin.Dot(t.Normal()), true
}

// want:SIGNED the kernel's parameter may be negative.
func FirstHitBad(t *model3d.Triangle, r *model3d.Ray) (model3d.RayCollision, bool) {
	s, ok := signedKernel(t, r)
	if !ok {
		return model3d.RayCollision{}, false
	}
	return model3d.RayCollision{Scale: s}, true
}

// clean:SIGNED
func FirstHit(t *model3d.Triangle, r *model3d.Ray) (model3d.RayCollision, bool) {
	s, ok := signedKernel(t, r)
	if !ok || s < 0 {
		return model3d.RayCollision{}, false
	}
	return model3d.RayCollision{Scale: s}, true
}

type gear struct {
	P1, P2 model3d.Coord3D
}

// want:ORIGIN the query point is projected without subtracting P1.
func (g *gear) Contains(c model3d.Coord3D) bool {
	v1, _ := g.P2.Sub(g.P1).OrthoBasis()
	return v1.Dot(c) < 1
}

type gear2 struct {
	P1, P2 model3d.Coord3D
}

// clean:ORIGIN
func (g *gear2) Contains(c model3d.Coord3D) bool {
	v1, _ := g.P2.Sub(g.P1).OrthoBasis()
	return v1.Dot(c.Sub(g.P1)) < 1
}

type gen struct{}

func (g *gen) Float64() float64 { return 0.5 }

// want:ROULETTE the draw is never reduced.
func PickBad(g *gen, probs []float64) int {
	p := g.Float64()
	for i, w := range probs {
		if p < w {
			return i
		}
	}
	return len(probs) - 1
}

// clean:ROULETTE
func PickGood(g *gen, probs []float64) int {
	p := g.Float64()
	for i, w := range probs {
		p -= w
		if p < 0 {
			return i
		}
	}
	return len(probs) - 1
}

// clean:ROULETTE
func PickAccum(g *gen, probs []float64) int {
	p := g.Float64()
	acc := 0.0
	for i, w := range probs {
		acc += w
		if p < acc {
			return i
		}
	}
	return len(probs) - 1
}

type marcher struct{ eps float64 }

func (m *marcher) RayCollisions(r *model3d.Ray, f func(model3d.RayCollision)) int {
	n := 0
	for t := 0.0; t <= 1+m.eps; t += m.eps {
		if t > 0.5 {
			n++
		}
	}
	return n
}

// want:SIBLOOP stops one step earlier than RayCollisions.
func (m *marcher) FirstRayCollision(r *model3d.Ray) (model3d.RayCollision, bool) {
	for t := 0.0; t <= 1; t += m.eps {
		if t > 0.5 {
			return model3d.RayCollision{Scale: t}, true
		}
	}
	return model3d.RayCollision{}, false
}

// want:AXISCMP z against y.
func DisjointBad(aMin, aMax, bMin, bMax model3d.Coord3D) bool {
	return aMin.X > bMax.X || aMax.X < bMin.X || aMin.Z > bMax.Y
}

// clean:AXISCMP
func DisjointGood(aMin, aMax, bMin, bMax model3d.Coord3D) bool {
	return aMin.X > bMax.X || aMax.X < bMin.X || aMin.Z > bMax.Z
}

// silent:AXISCMP the longest axis of one vector.
func LongestAxis(size model3d.Coord3D) int {
	if size.X > size.Y && size.X > size.Z {
		return 0
	} else if size.Y > size.Z {
		return 1
	}
	return 2
}

type tree struct {
	V           float64
	Less, Great *tree
}

func (t *tree) Empty() bool { return t == nil }

// clean:NILRECV
func (t *tree) Sum() float64 {
	if t == nil {
		return 0
	}
	return t.V + t.Less.Sum() + t.Great.Sum()
}

// clean:NILRECV the helper tests for nil.
func (t *tree) Depth() int {
	return t.depth()
}

func (t *tree) depth() int {
	if t == nil {
		return 0
	}
	return 1 + t.Less.depth()
}

// want:NILRECV the helper relies on callers that test, and this one does not.
func (t *tree) Count() int {
	return t.count()
}

func (t *tree) count() int {
	n := 1
	if t.Less != nil {
		n += t.Less.count()
	}
	if t.Great != nil {
		n += t.Great.count()
	}
	return n
}

// want:UNITNORMAL the image of a unit vector under a transform is not unit.
func OuterNormalBad(w *wrapper, rc model3d.RayCollision) model3d.RayCollision {
	var zero model3d.Coord3D
	return model3d.RayCollision{
		Scale:  rc.Scale,
		Normal: w.t.Apply(rc.Normal).Sub(w.t.Apply(zero)),
	}
}

// clean:UNITNORMAL
func OuterNormalGood(w *wrapper, rc model3d.RayCollision) model3d.RayCollision {
	var zero model3d.Coord3D
	return model3d.RayCollision{
		Scale:  rc.Scale,
		Normal: w.t.Apply(rc.Normal).Sub(w.t.Apply(zero)).Normalize(),
	}
}

// clean:UNITNORMAL flipping keeps the length.
func FlipNormal(rc model3d.RayCollision) model3d.RayCollision {
	rc.Normal = rc.Normal.Scale(-1)
	return rc
}

const defaultGain = 2.0

func amplify(x, gain float64) float64 { return x * gain }

// want:CALLAGREE the search ignores the caller's gain.
func SearchThenBuildBad(x, gain float64) float64 {
	best := 0.0
	for i := 0; i < 4; i++ {
		if v := amplify(x+float64(i), defaultGain); v > best {
			best = v
		}
	}
	return amplify(best, gain)
}

// clean:CALLAGREE
func SearchThenBuildGood(x, gain float64) float64 {
	best := 0.0
	for i := 0; i < 4; i++ {
		if v := amplify(x+float64(i), gain); v > best {
			best = v
		}
	}
	return amplify(best, gain)
}

// First panics on the empty tree (a documented partial method).
// clean:NILRECV
func (t *tree) First() float64 {
	if t == nil {
		panic("empty tree")
	}
	return t.V
}

// clean:NILRECV partial on every path, like the method it relies on.
func (t *tree) FirstTwice() float64 {
	return 2 * t.First()
}

// want:NILRECV copes with nil for n != 1 and panics for n == 1.
func (t *tree) Take(n int) []float64 {
	if n == 1 {
		return []float64{t.First()}
	}
	if t == nil {
		return nil
	}
	return []float64{t.V, t.V}
}

type grid struct{ Xs, Ys, Zs []float64 }

func cellOf(values []float64, v float64) int {
	for i, x := range values {
		if x > v {
			return i
		}
	}
	return len(values)
}

// want:AXISCALL the z query searches the y values.
func (g *grid) CellBad(c model3d.Coord3D) [3]int {
	return [3]int{cellOf(g.Xs, c.X), cellOf(g.Ys, c.Y), cellOf(g.Ys, c.Z)}
}

// clean:AXISCALL
func (g *grid) CellGood(c model3d.Coord3D) [3]int {
	return [3]int{cellOf(g.Xs, c.X), cellOf(g.Ys, c.Y), cellOf(g.Zs, c.Z)}
}

// silent:AXISCALL a constructor takes one argument per axis.
func Swizzle(c model3d.Coord3D) model3d.Coord3D {
	return model3d.XYZ(c.Y, c.Z, c.X)
}

func span(o1, o2, d1, d2 float64) float64 { return o1 + o2 + d1 + d2 }

// silent:AXISCALL the second call is not a per-axis sibling of the first (other argument positions).
func TwoSpans(o, d model3d.Coord3D) float64 {
	return span(o.X, o.Y, d.X, d.Y) + span(o.Z, 0, d.Z, 1)
}

// want:THRESH the cap share is tested against the cap area alone.
func PickPartBad(draw, shaft, capArea float64) int {
	if draw < shaft {
		return 0
	} else {
		if draw < capArea {
			return 1
		}
		return 2
	}
}

// clean:THRESH
func PickPartGood(draw, shaft, capArea float64) int {
	if draw < shaft {
		return 0
	} else if draw < shaft+capArea {
		return 1
	}
	return 2
}

// silent:THRESH the draw is reduced before the next test.
func PickPartReduced(draw, shaft, capArea float64) int {
	if draw < shaft {
		return 0
	} else {
		draw -= shaft
		if draw < capArea {
			return 1
		}
		return 2
	}
}
