// Package g holds constructs for the GD / ABSORB rules.
package g

import (
	"math"

	"github.com/unixpickle/model3d/model3d"
)

// want:ABSORB sequential update reads the overwritten minimum.
func BoundsBadAbsorb(min, max model3d.Coord3D) (model3d.Coord3D, model3d.Coord3D) {
	min = min.Min(max)
	max = max.Max(min)
	return min, max
}

// clean:ABSORB
func BoundsGoodAbsorb(min, max model3d.Coord3D) (model3d.Coord3D, model3d.Coord3D) {
	return min.Min(max), max.Max(min)
}

type vec struct{ X, Y float64 }

func (v vec) Normalize() vec      { return v }
func (v vec) Scale(f float64) vec { return vec{v.X * f, v.Y * f} }
func (v vec) Norm() float64       { return v.X }

// clean:CANON
func CanonFirst(axis vec, h float64) (vec, vec) {
	n := axis.Norm()
	axis = axis.Normalize()
	return axis.Scale(h), axis.Scale(n)
}

// want:CANON the tip is built from the raw axis.
func CanonLate(axis vec, h float64) (vec, vec) {
	tip := axis.Scale(h)
	axis = axis.Normalize()
	return tip, axis
}

type drop struct {
	Center    model3d.Coord3D
	Direction model3d.Coord3D
	Radius    float64
}

func (d *drop) Contains(c model3d.Coord3D) bool {
	return c.Sub(d.Center).Dot(d.Direction.Normalize()) < d.Radius
}

// want:FIELDCANON the tip is built from the raw direction.
func (d *drop) Max() model3d.Coord3D {
	dir := d.Direction
	return d.Center.Add(dir.Scale(d.Radius))
}

// clean:FIELDCANON
func (d *drop) Min() model3d.Coord3D {
	return d.Center.Sub(d.Direction.Normalize().Scale(d.Radius))
}

type flip struct{ F float64 }

// want:SIGNMAP a negative factor swaps the corners.
func (f *flip) ApplyBounds(min, max model3d.Coord3D) (model3d.Coord3D, model3d.Coord3D) {
	return min.Scale(f.F), max.Scale(f.F)
}

// want:SIGNMAP a negative factor yields a negative length.
func (f *flip) ApplyDistance(d float64) float64 {
	return d * f.F
}

type flipOK struct{ F float64 }

// clean:SIGNMAP
func (f *flipOK) ApplyBounds(min, max model3d.Coord3D) (model3d.Coord3D, model3d.Coord3D) {
	min, max = min.Scale(f.F), max.Scale(f.F)
	return min.Min(max), max.Max(min)
}

// clean:SIGNMAP
func (f *flipOK) ApplyDistance(d float64) float64 {
	if f.F < 0 {
		return d * -f.F
	}
	return d * math.Abs(f.F)
}

type warp struct {
	model3d.Solid
	S float64
}

// want:GD.WARP the inner solid is asked about a scaled point under its own box.
func (w *warp) Contains(c model3d.Coord3D) bool {
	return w.Solid.Contains(c.Scale(w.S))
}

type warpOK struct {
	model3d.Solid
	S float64
}

// clean:GD.WARP
func (w *warpOK) Contains(c model3d.Coord3D) bool {
	if !model3d.InBounds(w, c) {
		return false
	}
	return w.Solid.Contains(c.Scale(w.S))
}

type passThrough struct {
	model3d.Solid
	N int
}

// silent:GD.WARP same point, same box.
func (w *passThrough) Contains(c model3d.Coord3D) bool {
	w.N++
	return w.Solid.Contains(c)
}

type flipPhi struct{ F float64 }

// clean:SIGNMAP
func (f *flipPhi) ApplyDistance(d float64) float64 {
	s := f.F
	if s < 0 {
		s = -s
	}
	return d * s
}

type inv interface{ Inverse() inv }

type chain []inv

// clean:INVORDER
func (c chain) Inverse() inv {
	res := make(chain, len(c))
	for i, t := range c {
		res[len(c)-1-i] = t.Inverse()
	}
	return res
}

type chainFwd []inv

// want:INVORDER same position.
func (c chainFwd) Inverse() inv {
	res := make(chainFwd, len(c))
	for i, t := range c {
		res[i] = t.Inverse()
	}
	return res
}

type chainSwap []inv

// clean:INVORDER clean:MIRRORSWAP
func (c chainSwap) Inverse() inv {
	res := make(chainSwap, len(c))
	for i, t := range c {
		res[i] = t.Inverse()
	}
	for i := 0; i < len(res)/2; i++ {
		res[i], res[len(res)-1-i] = res[len(res)-1-i], res[i]
	}
	return res
}

type chainTwice []inv

// want:INVORDER want:MIRRORSWAP every pair is swapped twice.
func (c chainTwice) Inverse() inv {
	res := make(chainTwice, len(c))
	for i, t := range c {
		res[i] = t.Inverse()
	}
	for i := range res {
		k := len(res) - 1 - i
		res[i], res[k] = res[k], res[i]
	}
	return res
}

// silent:MIRRORSWAP two indices that meet in the middle.
func ReverseTwoPointer(s []int) {
	for i, j := 0, len(s)-1; i < j; i, j = i+1, j-1 {
		s[i], s[j] = s[j], s[i]
	}
}

type nudge struct{ D model3d.Coord3D }

func (n *nudge) Apply(c model3d.Coord3D) model3d.Coord3D { return c.Add(n.D) }

// want:IDBOUNDS the box is not moved along.
func (n *nudge) ApplyBounds(min, max model3d.Coord3D) (model3d.Coord3D, model3d.Coord3D) {
	return min, max
}

type still struct{}

func (s *still) Apply(c model3d.Coord3D) model3d.Coord3D { return c }

// clean:IDBOUNDS the identity map.
func (s *still) ApplyBounds(min, max model3d.Coord3D) (model3d.Coord3D, model3d.Coord3D) {
	return min, max
}

type pile []model3d.Solid

// clean:BOUNDFOLD
func (p pile) Min() model3d.Coord3D {
	res := p[0].Min()
	for _, s := range p[1:] {
		res = res.Min(s.Min())
	}
	return res
}

// want:BOUNDFOLD x and y of the earlier members are forgotten.
func (p pile) Max() model3d.Coord3D {
	top := p[0].Max()
	for _, s := range p[1:] {
		top = s.Max().Add(model3d.Z(top.Z - s.Min().Z))
	}
	return top
}

// want:TRIVERT the corner is recomputed.
func FanBad(poly []model3d.Coord3D) [][3]model3d.Coord3D {
	var res [][3]model3d.Coord3D
	for i := 1; i+1 < len(poly); i++ {
		res = append(res, [3]model3d.Coord3D{poly[0], poly[i].Add(poly[0]).Sub(poly[0]), poly[i+1]})
	}
	return res
}

// clean:TRIVERT
func FanGood(poly []model3d.Coord3D) [][3]model3d.Coord3D {
	var res [][3]model3d.Coord3D
	for i := 1; i+1 < len(poly); i++ {
		res = append(res, [3]model3d.Coord3D{poly[0], poly[i], poly[i+1]})
	}
	return res
}

// want:CAPPAIR both caps wound alike.
func CapsBad(tris [][3]model3d.Coord3D, lo, hi float64) []*model3d.Triangle {
	var res []*model3d.Triangle
	for _, t := range tris {
		res = append(res, &model3d.Triangle{model3d.XYZ(t[0].X, t[0].Y, lo), model3d.XYZ(t[1].X, t[1].Y, lo), model3d.XYZ(t[2].X, t[2].Y, lo)})
		res = append(res, &model3d.Triangle{model3d.XYZ(t[1].X, t[1].Y, hi), model3d.XYZ(t[2].X, t[2].Y, hi), model3d.XYZ(t[0].X, t[0].Y, hi)})
	}
	return res
}

// clean:CAPPAIR
func CapsGood(tris [][3]model3d.Coord3D, lo, hi float64) []*model3d.Triangle {
	var res []*model3d.Triangle
	for _, t := range tris {
		res = append(res, &model3d.Triangle{model3d.XYZ(t[0].X, t[0].Y, lo), model3d.XYZ(t[1].X, t[1].Y, lo), model3d.XYZ(t[2].X, t[2].Y, lo)})
		res = append(res, &model3d.Triangle{model3d.XYZ(t[1].X, t[1].Y, hi), model3d.XYZ(t[0].X, t[0].Y, hi), model3d.XYZ(t[2].X, t[2].Y, hi)})
	}
	return res
}

type chainRev []inv

// clean:INVORDER an ascending counter walks the members backwards.
func (c chainRev) Inverse() inv {
	res := chainRev{}
	last := len(c) - 1
	for i := range c {
		t := c[last-i]
		res = append(res, t.Inverse())
	}
	return res
}

// want:CYCLE the edge from corner 2 back to corner 0 is never counted.
func OpenEdgesBad(tris [][3]model3d.Coord3D) map[[2]model3d.Coord3D]int {
	res := map[[2]model3d.Coord3D]int{}
	for _, t := range tris {
		for i := 0; i < 2; i++ {
			res[[2]model3d.Coord3D{t[i], t[(i+1)%3]}]++
		}
	}
	return res
}

// clean:CYCLE
func OpenEdgesGood(tris [][3]model3d.Coord3D) map[[2]model3d.Coord3D]int {
	res := map[[2]model3d.Coord3D]int{}
	for _, t := range tris {
		for i := 0; i < 3; i++ {
			res[[2]model3d.Coord3D{t[i], t[(i+1)%3]}]++
		}
	}
	return res
}

// clean:CYCLE the range form of the same scan.
func OpenEdgesRange(tris [][3]model3d.Coord3D) map[[2]model3d.Coord3D]int {
	res := map[[2]model3d.Coord3D]int{}
	for _, t := range tris {
		for i, start := range t {
			res[[2]model3d.Coord3D{start, t[(i+1)%len(t)]}]++
		}
	}
	return res
}

// want:EDGETABLE the closing edge runs the wrong way.
func DirectedEdgesBad(t *model3d.Triangle) [3][2]model3d.Coord3D {
	return [3][2]model3d.Coord3D{{t[0], t[1]}, {t[1], t[2]}, {t[0], t[2]}}
}

// clean:EDGETABLE
func DirectedEdgesGood(t *model3d.Triangle) [3][2]model3d.Coord3D {
	return [3][2]model3d.Coord3D{{t[0], t[1]}, {t[1], t[2]}, {t[2], t[0]}}
}

// clean:FIRSTFLAG
func BoundsGood(faces [][3]model3d.Coord3D) model3d.Coord3D {
	var result model3d.Coord3D
	var seen bool
	for _, t := range faces {
		for _, c := range t {
			if !seen {
				result = c
				seen = true
			} else {
				result = result.Min(c)
			}
		}
	}
	return result
}

// want:FIRSTFLAG the flag is cleared once per face, not once per vertex.
func BoundsBad(faces [][3]model3d.Coord3D) model3d.Coord3D {
	var result model3d.Coord3D
	first := true
	for _, t := range faces {
		for _, c := range t {
			if first {
				result = c
			} else {
				result = result.Min(c)
			}
		}
		first = false
	}
	return result
}

type shape struct{ v float64 }

func (s shape) apply(t inv) shape { return s }

// want:INVORDER undoing a composition member by member starts with the last member.
func UndoForward(s shape, ts []inv) shape {
	for _, t := range ts {
		s = s.apply(t.Inverse())
	}
	return s
}

// clean:INVORDER
func UndoBackward(s shape, ts []inv) shape {
	for i := len(ts) - 1; i >= 0; i-- {
		s = s.apply(ts[i].Inverse())
	}
	return s
}

// want:CANON the tip still uses the raw axis.
func CanonCopyBad(axis vec, h float64) (vec, vec) {
	dir := axis.Normalize()
	return axis.Scale(h), dir.Scale(2)
}

// clean:CANON
func CanonCopyGood(axis vec, h float64) (vec, vec) {
	dir := axis.Normalize()
	n := axis.Norm()
	return dir.Scale(h), dir.Scale(n)
}

// want:FIRSTITER the guard tests the outer counter only: the bounds restart in every row.
func CornerBoundsBad(xs, ys []float64) (float64, float64) {
	var lo, hi float64
	for i, x := range xs {
		for _, y := range ys {
			v := x * y
			if i == 0 {
				lo, hi = v, v
			} else {
				lo, hi = math.Min(lo, v), math.Max(hi, v)
			}
		}
	}
	return lo, hi
}

// clean:FIRSTITER
func CornerBoundsGood(xs, ys []float64) (float64, float64) {
	var lo, hi float64
	for i, x := range xs {
		for j, y := range ys {
			v := x * y
			if i == 0 && j == 0 {
				lo, hi = v, v
			} else {
				lo, hi = math.Min(lo, v), math.Max(hi, v)
			}
		}
	}
	return lo, hi
}
