// Package g holds constructs for the GD / ABSORB rules.
package g

import "github.com/unixpickle/model3d/model3d"

// want:ABSORB sequential update reads the overwritten minimum.
func BoundsBad(min, max model3d.Coord3D) (model3d.Coord3D, model3d.Coord3D) {
	min = min.Min(max)
	max = max.Max(min)
	return min, max
}

// clean:ABSORB
func BoundsGood(min, max model3d.Coord3D) (model3d.Coord3D, model3d.Coord3D) {
	return min.Min(max), max.Max(min)
}

type vec struct{ X, Y float64 }

func (v vec) Normalize() vec      { return v }
func (v vec) Scale(f float64) vec { return vec{v.X * f, v.Y * f} }
func (v vec) Norm() float64       { return v.X }

// clean:CANON
func CanonFirst(axis vec, h float64) (vec, vec) {
	n := axis.Norm()
	axis = axis.Normalize()
	return axis.Scale(h), axis.Scale(n)
}

// want:CANON the tip is built from the raw axis.
func CanonLate(axis vec, h float64) (vec, vec) {
	tip := axis.Scale(h)
	axis = axis.Normalize()
	return tip, axis
}

type drop struct {
	Center    model3d.Coord3D
	Direction model3d.Coord3D
	Radius    float64
}

func (d *drop) Contains(c model3d.Coord3D) bool {
	return c.Sub(d.Center).Dot(d.Direction.Normalize()) < d.Radius
}

// want:FIELDCANON the tip is built from the raw direction.
func (d *drop) Max() model3d.Coord3D {
	dir := d.Direction
	return d.Center.Add(dir.Scale(d.Radius))
}

// clean:FIELDCANON
func (d *drop) Min() model3d.Coord3D {
	return d.Center.Sub(d.Direction.Normalize().Scale(d.Radius))
}
