// Package g holds constructs for the GD / ABSORB rules.
package g

import "github.com/unixpickle/model3d/model3d"

// want:ABSORB sequential update reads the overwritten minimum.
func BoundsBad(min, max model3d.Coord3D) (model3d.Coord3D, model3d.Coord3D) {
	min = min.Min(max)
	max = max.Max(min)
	return min, max
}

// clean:ABSORB
func BoundsGood(min, max model3d.Coord3D) (model3d.Coord3D, model3d.Coord3D) {
	return min.Min(max), max.Max(min)
}
