// Package b holds box tables for the A1.BOX rule.
package b

import "github.com/unixpickle/model3d/model3d"

// want:A1.BOX the last face is wound the other way.
func BoxBad(lo, hi model3d.Coord3D) [6][4]model3d.Coord3D {
	corner := func(x, y, z int) model3d.Coord3D {
		res := lo
		if x == 1 {
			res.X = hi.X
		}
		if y == 1 {
			res.Y = hi.Y
		}
		if z == 1 {
			res.Z = hi.Z
		}
		return res
	}
	return [6][4]model3d.Coord3D{
		{lo, corner(1, 0, 0), corner(1, 0, 1), corner(0, 0, 1)},
		{hi, corner(1, 1, 0), corner(0, 1, 0), corner(0, 1, 1)},
		{lo, corner(0, 0, 1), corner(0, 1, 1), corner(0, 1, 0)},
		{hi, corner(1, 0, 1), corner(1, 0, 0), corner(1, 1, 0)},
		{lo, corner(0, 1, 0), corner(1, 1, 0), corner(1, 0, 0)},
		{hi, corner(1, 0, 1), corner(0, 0, 1), corner(0, 1, 1)},
	}
}

// clean:A1.BOX
func BoxGood(lo, hi model3d.Coord3D) [6][4]model3d.Coord3D {
	corner := func(x, y, z int) model3d.Coord3D {
		res := lo
		if x == 1 {
			res.X = hi.X
		}
		if y == 1 {
			res.Y = hi.Y
		}
		if z == 1 {
			res.Z = hi.Z
		}
		return res
	}
	return [6][4]model3d.Coord3D{
		{lo, corner(1, 0, 0), corner(1, 0, 1), corner(0, 0, 1)},
		{hi, corner(1, 1, 0), corner(0, 1, 0), corner(0, 1, 1)},
		{lo, corner(0, 0, 1), corner(0, 1, 1), corner(0, 1, 0)},
		{hi, corner(1, 0, 1), corner(1, 0, 0), corner(1, 1, 0)},
		{lo, corner(0, 1, 0), corner(1, 1, 0), corner(1, 0, 0)},
		{hi, corner(0, 1, 1), corner(0, 0, 1), corner(1, 0, 1)},
	}
}
