// Package w holds constructs the W/Q/Z rules must flag (want:) or accept (clean:).
package w

import (
	"math/rand"
	"runtime"
	"sync"
	"sync/atomic"

	"github.com/unixpickle/essentials"
	"github.com/unixpickle/model3d/model3d"
)

type grid struct {
	Data []float64
	Cols int
}

func (g *grid) updateAt(row, col int, h float64) {
	idx := row*g.Cols + col
	if g.Data[idx] < h {
		g.Data[idx] = h
	}
}

// want:W workers update cells chosen by a random position, not by their index.
func SharedCells(g *grid, n int) {
	essentials.StatefulConcurrentMap(0, n, func() func(int) {
		rng := rand.New(rand.NewSource(1))
		return func(_ int) {
			g.updateAt(rng.Intn(10), rng.Intn(10), rng.Float64())
		}
	})
}

// want:W a captured counter is incremented by every worker.
func SharedCounter(n int) int {
	count := 0
	essentials.ConcurrentMap(0, n, func(i int) {
		count++
	})
	return count
}

// want:W one random generator shared by all workers.
func SharedRNG(out []float64) {
	rng := rand.New(rand.NewSource(1))
	essentials.ConcurrentMap(0, len(out), func(i int) {
		out[i] = rng.Float64()
	})
}

// want:W goroutines in a loop append to one slice.
func SharedAppend(n int) []int {
	var res []int
	var wg sync.WaitGroup
	for i := 0; i < n; i++ {
		wg.Add(1)
		go func(k int) {
			defer wg.Done()
			res = append(res, k)
		}(i)
	}
	wg.Wait()
	return res
}

// clean:W the idioms of the repository.
func Idioms(g *grid, out []float64, n int) {
	var lock sync.Mutex
	essentials.StatefulConcurrentMap(0, n, func() func(int) {
		rng := rand.New(rand.NewSource(1))
		return func(i int) {
			v := rng.Float64()
			out[i] = v
			lock.Lock()
			defer lock.Unlock()
			g.updateAt(rng.Intn(10), rng.Intn(10), v)
		}
	})
	total := 0.0
	essentials.ReduceConcurrentMap(0, n, func() (func(int), func()) {
		local := 0.0
		return func(i int) {
				local += out[i]
			}, func() {
				total += local
			}
	})
	ch := make(chan int, n)
	var wg sync.WaitGroup
	for i := 0; i < 4; i++ {
		wg.Add(1)
		go func() {
			defer wg.Done()
			for k := range ch {
				out[k] = total
			}
		}()
	}
	wg.Wait()
}

type lazy struct {
	items []int
	index atomic.Value
	lock  sync.Mutex
}

type table struct{ m map[int]int }

// clean:Z.LOCKED clean:Z.RECHECK clean:Z.PUBLISH clean:Z.ACCESS the protocol of Mesh.getVertexToFace.
func (l *lazy) Good() *table {
	if v := l.index.Load(); v != nil {
		return v.(*table)
	}
	l.lock.Lock()
	defer l.lock.Unlock()
	if v := l.index.Load(); v != nil {
		return v.(*table)
	}
	t := &table{m: map[int]int{}}
	for i, x := range l.items {
		t.m[x] = i
	}
	l.index.Store(t)
	return t
}

// want:Z.PUBLISH published before it is filled.
func (l *lazy) PublishEarly() *table {
	l.lock.Lock()
	defer l.lock.Unlock()
	if v := l.index.Load(); v != nil {
		return v.(*table)
	}
	t := &table{m: map[int]int{}}
	l.index.Store(t)
	for i, x := range l.items {
		t.m[x] = i
	}
	return t
}

// want:Z.LOCKED want:Z.RECHECK no lock, no re-check.
func (l *lazy) NoLock() *table {
	if v := l.index.Load(); v != nil {
		return v.(*table)
	}
	t := &table{m: map[int]int{}}
	for i, x := range l.items {
		t.m[x] = i
	}
	l.index.Store(t)
	return t
}

// want:Q a query method that caches in its receiver.
func (l *lazy) Contains(c model3d.Coord3D) bool {
	l.items = append(l.items, int(c.X))
	return len(l.items) > 3
}

func (l *lazy) Min() model3d.Coord3D { return model3d.Coord3D{} }
func (l *lazy) Max() model3d.Coord3D { return model3d.Coord3D{} }

// clean:SPAWNJOIN
func GatherSame(n int) int {
	out := make(chan int, n)
	for i := 0; i < n; i++ {
		go func() {
			out <- 1
		}()
	}
	sum := 0
	for i := 0; i < n; i++ {
		sum += <-out
	}
	return sum
}

// want:SPAWNJOIN started with one count, gathered with another.
func GatherOther(n, m int) int {
	out := make(chan int, n)
	for i := 0; i < m; i++ {
		go func() {
			out <- 1
		}()
	}
	sum := 0
	for i := 0; i < n; i++ {
		sum += <-out
	}
	return sum
}

// want:GO.CAPTURE the worker reads the shared loop variable.
func CaptureLoopVar(data []float64, n int) []float64 {
	out := make([]float64, n)
	done := make(chan bool, n)
	for i := 0; i < n; i++ {
		go func() {
			for j := i; j < len(data); j += n {
				out[j%n] += data[j]
			}
			done <- true
		}()
	}
	for i := 0; i < n; i++ {
		<-done
	}
	return out
}

// clean:GO.CAPTURE
// clean:GO.STRIDE
func PassLoopVar(data []float64, n int) []float64 {
	out := make([]float64, n)
	done := make(chan bool, n)
	for i := 0; i < n; i++ {
		go func(idx int) {
			for j := idx; j < len(data); j += n {
				out[idx] += data[j]
			}
			done <- true
		}(i)
	}
	for i := 0; i < n; i++ {
		<-done
	}
	return out
}

// want:GO.STRIDE started n times, striding by m.
func StrideOther(data []float64, n, m int) []float64 {
	out := make([]float64, n)
	done := make(chan bool, n)
	for i := 0; i < n; i++ {
		go func(idx int) {
			for j := idx; j < len(data); j += m {
				out[idx] += data[j]
			}
			done <- true
		}(i)
	}
	for i := 0; i < n; i++ {
		<-done
	}
	return out
}

const badMargin = 1 / 1000

// want:CONSTDIV the margin is an integer quotient.
func MarginBad(delta float64) float64 {
	return delta * (1 / 1000)
}

// clean:CONSTDIV
func HalfCount(n int) int {
	return n * (4 / 2)
}

// want:PARTITION the remainder pixels are never visited.
func ChunksFloor(total, size int, f func(int)) {
	chunks := total / size
	for k := 0; k < chunks; k++ {
		start := k * size
		for i := start; i < start+size && i < total; i++ {
			f(i)
		}
	}
}

// clean:PARTITION
func ChunksCeil(total, size int, f func(int)) {
	chunks := (total + size - 1) / size
	for k := 0; k < chunks; k++ {
		start := k * size
		for i := start; i < start+size && i < total; i++ {
			f(i)
		}
	}
}

type slab struct {
	Rows      []float64
	RowOffset int
	Buf       []int
}

// clean:WINDOWIDX
func (s *slab) RowAt(cell int) float64 {
	k := cell / len(s.Buf)
	return s.Rows[k+s.RowOffset]
}

// want:WINDOWIDX the window position is forgotten.
func (s *slab) RowAtBad(cell int) float64 {
	k := cell / len(s.Buf)
	return s.Rows[k+1]
}

// silent:WINDOWIDX an absolute position.
func (s *slab) RowAbs(k int) float64 {
	return s.Rows[k]
}

func doubled(xs []float64) []float64 {
	res := make([]float64, len(xs))
	for i, x := range xs {
		res[i] = 2 * x
	}
	return res
}

func doubleInPlace(xs []float64) int {
	for i := range xs {
		xs[i] *= 2
	}
	return len(xs)
}

// want:PURECALL the doubled values are thrown away.
func RefineBad(xs []float64) []float64 {
	doubled(xs)
	return xs
}

// clean:PURECALL the callee works in place; its count may be ignored.
func RefineGood(xs []float64) []float64 {
	doubleInPlace(xs)
	return xs
}

// want:TICKET the first ticket is 1.
func ClaimBad(total int, f func(int)) {
	var next int64
	done := make(chan struct{})
	for g := 0; g < 4; g++ {
		go func() {
			defer func() { done <- struct{}{} }()
			for {
				idx := int(atomic.AddInt64(&next, 1))
				if idx >= total {
					return
				}
				f(idx % total)
			}
		}()
	}
	for g := 0; g < 4; g++ {
		<-done
	}
}

// clean:TICKET
func ClaimGood(total int, f func(int)) {
	var next int64
	done := make(chan struct{})
	for g := 0; g < 4; g++ {
		go func() {
			defer func() { done <- struct{}{} }()
			for {
				idx := int(atomic.AddInt64(&next, 1) - 1)
				if idx >= total {
					return
				}
				f(idx % total)
			}
		}()
	}
	for g := 0; g < 4; g++ {
		<-done
	}
}

// want:WORKERS with one CPU nothing is started.
func PoolBad(jobs <-chan int, f func(int)) {
	n := runtime.GOMAXPROCS(0) - 1
	var wg sync.WaitGroup
	for i := 0; i < n; i++ {
		wg.Add(1)
		go func() {
			defer wg.Done()
			for j := range jobs {
				f(j)
			}
		}()
	}
	wg.Wait()
}

// clean:WORKERS
func PoolGood(jobs <-chan int, f func(int)) {
	n := runtime.GOMAXPROCS(0) - 1
	if n < 1 {
		n = 1
	}
	var wg sync.WaitGroup
	for i := 0; i < n; i++ {
		wg.Add(1)
		go func() {
			defer wg.Done()
			for j := range jobs {
				f(j)
			}
		}()
	}
	wg.Wait()
}

// want:PARTITION the tail of the items is nobody's.
func ChunkSizeFloor(items []int, workers int, f func(int)) {
	size := len(items) / workers
	essentials.ConcurrentMap(workers, workers, func(k int) {
		for i := k * size; i < (k+1)*size; i++ {
			f(items[i])
		}
	})
}

// clean:PARTITION the last worker takes the tail.
func ChunkSizeTail(items []int, workers int, f func(int)) {
	size := len(items) / workers
	essentials.ConcurrentMap(workers, workers, func(k int) {
		end := (k + 1) * size
		if k == workers-1 {
			end = len(items)
		}
		for i := k * size; i < end; i++ {
			f(items[i])
		}
	})
}

// want:W.READ the shared totals are read before the lock is taken.
func SumBad(parts [][]float64) []float64 {
	total := make([]float64, len(parts[0]))
	var lock sync.Mutex
	var wg sync.WaitGroup
	for g := 0; g < len(parts); g++ {
		wg.Add(1)
		go func(g int) {
			defer wg.Done()
			local := make([]float64, len(total))
			for i, x := range parts[g] {
				local[i] = total[i] + x
			}
			lock.Lock()
			defer lock.Unlock()
			copy(total, local)
		}(g)
	}
	wg.Wait()
	return total
}

// clean:W.READ
func SumGood(parts [][]float64) []float64 {
	total := make([]float64, len(parts[0]))
	var lock sync.Mutex
	var wg sync.WaitGroup
	for g := 0; g < len(parts); g++ {
		wg.Add(1)
		go func(g int) {
			defer wg.Done()
			lock.Lock()
			defer lock.Unlock()
			for i, x := range parts[g] {
				total[i] = total[i] + x
			}
		}(g)
	}
	wg.Wait()
	return total
}
