// Package s holds constructs the small structural rules must flag or accept.
package s

// want:CB the sort of the first two values can never run.
func TopTwoDead(vals []float64) [2]float64 {
	var best [2]float64
	for i, v := range vals {
		if i < 2 {
			best[i] = v
			if i == 2 {
				if best[1] > best[0] {
					best[0], best[1] = best[1], best[0]
				}
			}
		} else if v >= best[0] {
			best[1] = best[0]
			best[0] = v
		}
	}
	return best
}

// want:SHIFT the old best is overwritten before it is saved.
func TopTwoLost(vals []float64) [2]float64 {
	var best [2]float64
	for i, v := range vals {
		if i < 2 {
			best[i] = v
			if i == 1 && best[1] > best[0] {
				best[0], best[1] = best[1], best[0]
			}
		} else if v >= best[0] {
			best[0] = v
			best[1] = best[0]
		}
	}
	return best
}

// clean:CB clean:SHIFT
func TopTwoGood(vals []float64) [2]float64 {
	var best [2]float64
	for i, v := range vals {
		if i < 2 {
			best[i] = v
			if i == 1 {
				if best[1] > best[0] {
					best[0], best[1] = best[1], best[0]
				}
			}
		} else if v >= best[0] {
			best[1] = best[0]
			best[0] = v
		} else if v > best[1] {
			best[1] = v
		}
	}
	return best
}

type node struct{ kids []*node }

// want:CS one element is dropped between the halves.
func BuildBad(items []int, idx []int) *node {
	if len(items) < 2 {
		return &node{}
	}
	mid := len(items) / 2
	return &node{kids: []*node{BuildBad(items[:mid], idx[:mid]), BuildBad(items[mid+1:], idx[mid+1:])}}
}

// clean:CS
func BuildGood(items []int, idx []int) *node {
	if len(items) < 2 {
		return &node{}
	}
	mid := len(items) / 2
	copy(items[1:], items[0:])
	return &node{kids: []*node{BuildGood(items[:mid], idx[:mid]), BuildGood(items[mid:], idx[mid:])}}
}

// clean:PAIR
func PairedTopTwo(ds []float64, ns []int) (float64, int) {
	var best [2]float64
	var who [2]int
	for i, d := range ds {
		if d >= best[0] {
			best[1] = best[0]
			who[1] = who[0]
			best[0] = d
			who[0] = ns[i]
		} else if d > best[1] {
			best[1] = d
			who[1] = ns[i]
		}
	}
	return best[1], who[1]
}

// want:PAIR the swap is applied to one of the parallel arrays only.
func UnpairedTopTwo(ds []float64, ns []int) (float64, int) {
	var best [2]float64
	var who [2]int
	for i, d := range ds {
		if i < 2 {
			best[i] = d
			who[i] = ns[i]
			if i == 1 && best[1] > best[0] {
				best[0], best[1] = best[1], best[0]
			}
		} else if d >= best[0] {
			best[1] = best[0]
			who[1] = who[0]
			best[0] = d
			who[0] = ns[i]
		}
	}
	return best[1], who[1]
}

// want:ZEROSLOT the second slot is read although a one-element input never stores it.
func SecondBestBad(ds []float64) float64 {
	var best [2]float64
	for i, d := range ds {
		if i < 2 {
			best[i] = d
		} else if d > best[1] {
			best[1] = d
		}
	}
	return best[0] + best[1]
}

// clean:ZEROSLOT
func SecondBestGood(ds []float64) float64 {
	best := [2]float64{-1e300, -1e300}
	for i, d := range ds {
		if i < 2 {
			best[i] = d
		} else if d > best[1] {
			best[1] = d
		}
	}
	return best[0] + best[1]
}

// want:MODFRAC wrapped with the other count.
func RingAngleBad(i, inner, outer int) float64 {
	return float64(i%outer) * 6.283185307179586 / float64(inner)
}

// clean:MODFRAC
func RingAngleGood(i, inner, outer int) float64 {
	return float64(i%inner) * 6.283185307179586 / float64(inner)
}

// clean:VETO
func GrowGuarded(cands []int, boundary map[int]bool) []int {
	var out []int
	add := func(c int) { out = append(out, c) }
	for _, c := range cands {
		blocked := false
		for k := range boundary {
			if k == c {
				blocked = true
				break
			}
		}
		if !blocked {
			add(c)
		}
	}
	return out
}

// want:VETO the veto is ignored under another condition.
func GrowUnguarded(cands []int, boundary map[int]bool, force bool) []int {
	var out []int
	add := func(c int) { out = append(out, c) }
	for _, c := range cands {
		blocked := false
		for k := range boundary {
			if k == c {
				blocked = true
				break
			}
		}
		if force || !blocked {
			add(c)
		}
	}
	return out
}

type snode struct {
	lo, hi   float64
	leaf     *float64
	children []*snode
}

// clean:SEARCHALL
func (n *snode) find(x float64) *float64 {
	if x < n.lo || x > n.hi {
		return nil
	}
	if n.leaf != nil {
		return n.leaf
	}
	for _, ch := range n.children {
		if res := ch.find(x); res != nil {
			return res
		}
	}
	return nil
}

// want:SEARCHALL overlapping children: the first match is final.
func (n *snode) findFirst(x float64) *float64 {
	if n.leaf != nil {
		return n.leaf
	}
	for _, ch := range n.children {
		if x >= ch.lo && x <= ch.hi {
			return ch.findFirst(x)
		}
	}
	return nil
}

type grid struct {
	Rows, Cols int
	Data       []float64
}

// want:ROWMAJOR the row counter is multiplied by the number of rows.
func (g *grid) PaddedBad() []float64 {
	stride := g.Rows + 2
	out := make([]float64, (g.Rows+2)*(g.Cols+2))
	for row := -1; row <= g.Rows; row++ {
		for col := -1; col <= g.Cols; col++ {
			out[(row+1)*stride+col+1] = 1
		}
	}
	return out
}

// clean:ROWMAJOR
func (g *grid) PaddedGood() []float64 {
	stride := g.Cols + 2
	out := make([]float64, (g.Rows+2)*(g.Cols+2))
	for row := -1; row <= g.Rows; row++ {
		for col := -1; col <= g.Cols; col++ {
			out[(row+1)*stride+col+1] = 1
		}
	}
	return out
}

// silent:ROWMAJOR a window of a larger grid: the stride is neither extent.
func (g *grid) Window(x0, x1, y0, y1 int) float64 {
	var sum float64
	for y := y0; y < y1; y++ {
		for x := x0; x < x1; x++ {
			sum += g.Data[y*g.Cols+x]
		}
	}
	return sum
}

// clean:ROWMAJOR column-major traversal of a row-major grid.
func (g *grid) Transposed() float64 {
	var sum float64
	for col := 0; col < g.Cols; col++ {
		for row := 0; row < g.Rows; row++ {
			idx := row*g.Cols + col
			sum += g.Data[idx]
		}
	}
	return sum
}

type tnode struct {
	kids []*tnode
	val  int
}

// want:ALLCHILD the third and later children are dropped.
func SumTwoKids(n *tnode) int {
	if len(n.kids) == 0 {
		return n.val
	}
	return SumTwoKids(n.kids[0]) + SumTwoKids(n.kids[1])
}

// clean:ALLCHILD
func SumAllKids(n *tnode) int {
	total := n.val
	for _, k := range n.kids {
		total += SumAllKids(k)
	}
	return total
}
