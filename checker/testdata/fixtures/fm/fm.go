// Package fm holds a fast map with the mistakes the FM rules must flag.
package fm

import "github.com/unixpickle/model3d/model3d"

type key [2]float64

type cell struct {
	Key   key
	Value int
}

type BadMap struct {
	slowMap map[key]int
	fastMap map[uint64]cell
}

func hashForBadMap(k key) uint64 { return uint64(k[0]) }

// want:FM.COLLIDE the key of the cell is not compared before deleting.
func (m *BadMap) Delete(k key) {
	if m.fastMap != nil {
		delete(m.fastMap, hashForBadMap(k))
	} else {
		delete(m.slowMap, k)
	}
}

// want:FM.COLLIDE a hit is reported for a colliding key.
func (m *BadMap) Load(k key) (int, bool) {
	if m.fastMap != nil {
		c, ok := m.fastMap[hashForBadMap(k)]
		if !ok {
			return 0, false
		}
		return c.Value, true
	}
	v, ok := m.slowMap[k]
	return v, ok
}

// want:FM.COLLIDE a colliding entry is overwritten.
func (m *BadMap) Store(k key, v int) {
	if m.fastMap != nil {
		hash := hashForBadMap(k)
		c, ok := m.fastMap[hash]
		if ok && c.Key != k && v < 0 {
			m.fastToSlow()
			m.slowMap[k] = v
		} else {
			m.fastMap[hash] = cell{k, v}
		}
	} else {
		m.slowMap[k] = v
	}
}

// want:FM.MODE the slow map is read in fast mode.
func (m *BadMap) Len() int {
	if m.fastMap == nil {
		return len(m.fastMap)
	}
	return len(m.slowMap)
}

// want:FM.SWITCH entries are lost: fastMap is cleared inside the loop.
func (m *BadMap) fastToSlow() {
	m.slowMap = map[key]int{}
	for _, c := range m.fastMap {
		m.slowMap[c.Key] = c.Value
		m.fastMap = nil
	}
}

type GoodMap struct {
	slowMap map[key]int
	fastMap map[uint64]cell
}

func hashForGoodMap(k key) uint64 { return uint64(k[0]) }

// clean:FM.COLLIDE clean:FM.MODE clean:FM.HASH
func (m *GoodMap) Store(k key, v int) {
	if m.fastMap != nil {
		hash := hashForGoodMap(k)
		c, ok := m.fastMap[hash]
		if ok && c.Key != k {
			m.fastToSlow()
			m.slowMap[k] = v
		} else {
			m.fastMap[hash] = cell{k, v}
		}
	} else {
		m.slowMap[k] = v
	}
}

// clean:FM.COLLIDE clean:FM.MODE
func (m *GoodMap) Delete(k key) {
	if m.fastMap != nil {
		hash := hashForGoodMap(k)
		if c, ok := m.fastMap[hash]; ok && c.Key == k {
			delete(m.fastMap, hash)
		}
	} else {
		delete(m.slowMap, k)
	}
}

// clean:FM.COLLIDE clean:FM.MODE
func (m *GoodMap) Load(k key) (int, bool) {
	if m.fastMap != nil {
		c, ok := m.fastMap[hashForGoodMap(k)]
		if !ok || c.Key != k {
			return 0, false
		}
		return c.Value, true
	}
	v, ok := m.slowMap[k]
	return v, ok
}

// clean:FM.SWITCH
func (m *GoodMap) fastToSlow() {
	m.slowMap = map[key]int{}
	for _, c := range m.fastMap {
		m.slowMap[c.Key] = c.Value
	}
	m.fastMap = nil
}

// want:MI.INPLACE a member triangle is moved behind the vertex index.
func SnapDown(m *model3d.Mesh, z float64) {
	m.Iterate(func(t *model3d.Triangle) {
		for i := range t {
			if t[i].Z < z {
				t[i].Z = z
			}
		}
	})
}

// clean:MI.INPLACE the face is taken out of the mesh while it is rewritten.
func SnapDownBracketed(m *model3d.Mesh, z float64) {
	m.Iterate(func(t *model3d.Triangle) {
		m.Remove(t)
		for i := range t {
			if t[i].Z < z {
				t[i].Z = z
			}
		}
		m.Add(t)
	})
}

// silent:MI.INPLACE a copy is rewritten, not the member.
func SnapDownCopy(m *model3d.Mesh, z float64) *model3d.Mesh {
	res := model3d.NewMesh()
	m.Iterate(func(t *model3d.Triangle) {
		t1 := *t
		for i := range t1 {
			if t1[i].Z < z {
				t1[i].Z = z
			}
		}
		res.Add(&t1)
	})
	return res
}
