// Package f holds constructs for the FILL rule.
package f

// want:FILL entries without neighbours keep the zero value.
func AverageBad(vals []float64, nbrs [][]int) []float64 {
	out := make([]float64, len(vals))
	for i, v := range vals {
		if len(nbrs[i]) == 0 {
			continue
		}
		sum := v
		for _, j := range nbrs[i] {
			sum += vals[j]
		}
		out[i] = sum / float64(len(nbrs[i])+1)
	}
	return out
}

// clean:FILL
func AverageGood(vals []float64, nbrs [][]int) []float64 {
	out := make([]float64, len(vals))
	for i, v := range vals {
		if len(nbrs[i]) == 0 {
			out[i] = v
			continue
		}
		sum := v
		for _, j := range nbrs[i] {
			sum += vals[j]
		}
		out[i] = sum / float64(len(nbrs[i])+1)
	}
	return out
}
