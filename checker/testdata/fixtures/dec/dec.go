// Package dec holds decoder constructs the C16 rules must flag or accept.
package dec

import (
	"bufio"
	"encoding/binary"
	"errors"
	"io"
	"strconv"
	"strings"
)

type elem struct{ Name string }

func next(r *bufio.Reader) ([]string, *elem, error) {
	line, err := r.ReadString('\n')
	if err != nil {
		return nil, nil, err
	}
	return strings.Fields(line), &elem{Name: line}, nil
}

// want:DE only EOF is tested before the element is used.
func UseAfterEOFTest(r *bufio.Reader) int {
	n := 0
	for {
		_, e, err := next(r)
		if errors.Is(err, io.EOF) {
			break
		}
		if e.Name == "x" {
			n++
		}
	}
	return n
}

// clean:DE
func UseAfterNilTest(r *bufio.Reader) (int, error) {
	n := 0
	for {
		_, e, err := next(r)
		if errors.Is(err, io.EOF) {
			break
		} else if err != nil {
			return 0, err
		}
		if e.Name == "x" {
			n++
		}
	}
	return n, nil
}

// want:DA the header count sizes the allocation.
func AllocFromHeader(r *bufio.Reader) ([]int, error) {
	line, err := r.ReadString('\n')
	if err != nil {
		return nil, err
	}
	n, err := strconv.Atoi(strings.TrimSpace(line))
	if err != nil {
		return nil, err
	}
	return make([]int, n), nil
}

// want:DA the clamp takes the larger value.
func AllocWrongClamp(r *bufio.Reader) ([]int, error) {
	line, err := r.ReadString('\n')
	if err != nil {
		return nil, err
	}
	n, err := strconv.Atoi(strings.TrimSpace(line))
	if err != nil {
		return nil, err
	}
	if n < 1024 {
		n = 1024
	}
	return make([]int, 0, n), nil
}

// clean:DA the idioms of the repository.
func AllocGood(r *bufio.Reader) ([]int, []string, error) {
	line, err := r.ReadString('\n')
	if err != nil {
		return nil, nil, err
	}
	parts := strings.Fields(line)
	if len(parts) == 0 {
		return nil, nil, errors.New("empty")
	}
	n, err := strconv.Atoi(parts[0])
	if err != nil {
		return nil, nil, err
	}
	if n+1 != len(parts) {
		return nil, nil, errors.New("count")
	}
	exact := make([]string, n)
	hint := n
	if hint > 1<<16 {
		hint = 1 << 16
	}
	return make([]int, 0, hint), exact, nil
}

// want:DL blank lines are skipped before the read error is looked at.
func LoopNoProgress(r *bufio.Reader) int {
	n := 0
	for {
		line, err := r.ReadString('\n')
		line = strings.TrimSpace(line)
		if len(line) == 0 {
			continue
		}
		if err != nil {
			return n
		}
		n++
	}
}

// clean:DL
func LoopProgress(r *bufio.Reader) int {
	n := 0
	for {
		line, err := r.ReadString('\n')
		if errors.Is(err, io.EOF) {
			return n
		} else if err != nil {
			return -1
		}
		if len(strings.TrimSpace(line)) == 0 {
			continue
		}
		n++
	}
}

// want:DP
func PanicOnInput(r *bufio.Reader) int {
	line, _ := r.ReadString('\n')
	if len(line) < 3 {
		panic("short line")
	}
	return len(line)
}

type element struct {
	Name  string
	Props []string
}

// want:DI.CONST '&&' where '||' is meant: Props[0] is reached with no properties.
func (e *element) WeakGuard() bool {
	if e.Name != "face" && len(e.Props) != 1 {
		return false
	}
	return e.Props[0] == "vertex_index"
}

// clean:DI.CONST
func (e *element) StrongGuard(line string) bool {
	if e.Name != "face" || len(e.Props) != 1 {
		return false
	}
	parts := strings.Fields(line)
	if len(parts) < 3 {
		return false
	}
	if !strings.HasPrefix(line, "OFF") {
		return false
	}
	rest := line[3:]
	return e.Props[0] == parts[2] && lastThree(parts) == rest
}

func lastThree(tokens []string) string {
	return strings.Join(tokens[len(tokens)-3:], " ")
}

// The callee needs three tokens, this caller checks for two.
func ShortCaller(line string) string {
	parts := strings.Fields(line)
	if len(parts) < 2 {
		return ""
	}
	return lastThree2(parts)
}

// want:DI.CONST a call site in scope guarantees only two tokens.
func lastThree2(tokens []string) string {
	return strings.Join(tokens[len(tokens)-3:], " ")
}

// want:DI.INPUT only the upper bound of the decoded index is tested.
func HalfChecked(line string, table []float64) (float64, error) {
	idx, err := strconv.Atoi(line)
	if err != nil {
		return 0, err
	}
	if idx >= len(table) {
		return 0, errors.New("out of range")
	}
	return table[idx], nil
}

// clean:DI.INPUT
func FullyChecked(line string, table []float64) (float64, error) {
	idx, err := strconv.Atoi(line)
	if err != nil || idx < 0 || idx >= len(table) {
		return 0, errors.New("bad index")
	}
	return table[idx], nil
}

type cursor struct {
	cur    int
	counts []int
	done   int
}

// silent:DL (a counted loop is outside the rule) a counter kept in the reader is stepped on every iteration.
func (c *cursor) SkipEmpty() bool {
	for {
		if c.cur == len(c.counts) {
			return false
		}
		if c.done < c.counts[c.cur] {
			return true
		}
		c.done = 0
		c.cur++
	}
}

// want:DL the counter is not stepped on the path that continues.
func (c *cursor) SkipEmptyBad() bool {
	for {
		if c.cur == len(c.counts) {
			return false
		}
		if c.counts[c.cur] < 0 {
			continue
		}
		if c.done < c.counts[c.cur] {
			return true
		}
		c.done = 0
		c.cur++
	}
}

// want:DR.SHORT a single Read is taken as the whole chunk.
func SniffOneRead(r io.Reader) ([]byte, error) {
	chunk := make([]byte, 512)
	n, err := r.Read(chunk)
	if n == 0 {
		return nil, err
	}
	return chunk[:n], nil
}

// clean:DR.SHORT
func ReadByteWise(r io.Reader) ([]byte, error) {
	var data []byte
	for {
		var next [1]byte
		if n, err := r.Read(next[:]); n == 0 {
			return data, err
		}
		data = append(data, next[0])
		if len(data) > 10 {
			return data, nil
		}
	}
}

// clean:DR.SHORT
func ReadLoop(r io.Reader) ([]byte, error) {
	buf := make([]byte, 64)
	got := 0
	for got < len(buf) {
		n, err := r.Read(buf[got:])
		got += n
		if err != nil {
			return buf[:got], err
		}
	}
	return buf, nil
}

// want:DR.LINE isPrefix dropped.
func LineDropPrefix(r *bufio.Reader) (string, error) {
	raw, _, err := r.ReadLine()
	return string(raw), err
}

// clean:DR.LINE
func LineKeepPrefix(r *bufio.Reader) (string, error) {
	var all []byte
	for {
		raw, more, err := r.ReadLine()
		all = append(all, raw...)
		if err != nil || !more {
			return string(all), err
		}
	}
}

// silent:DL a loop counted by the length of the slice it appends to.
func ReadNAppend(r *bufio.Reader, n int) ([]string, error) {
	var out []string
	for len(out) < n {
		line, err := r.ReadString('\n')
		if err != nil {
			return nil, err
		}
		out = append(out, line)
	}
	return out, nil
}

// want:DI.COUNTER the fourth item is stored before the count is checked.
func ThreeItemsBad(r *bufio.Reader) ([3]string, error) {
	var items [3]string
	n := 0
	for {
		line, err := r.ReadString('\n')
		if err != nil {
			return items, err
		}
		if line == "end\n" {
			break
		}
		items[n] = line
		n++
	}
	if n != 3 {
		return items, errors.New("expected three items")
	}
	return items, nil
}

// clean:DI.COUNTER
func ThreeItemsGood(r *bufio.Reader) ([3]string, error) {
	var items [3]string
	n := 0
	for {
		line, err := r.ReadString('\n')
		if err != nil {
			return items, err
		}
		if line == "end\n" {
			break
		}
		if n == 3 {
			return items, errors.New("more than three items")
		}
		items[n] = line
		n++
	}
	return items, nil
}

// want:ENDIAN the count ignores the order it is given.
func EncodeListBad(order binary.ByteOrder, vals []uint16) []byte {
	res := make([]byte, 2+2*len(vals))
	binary.LittleEndian.PutUint16(res, uint16(len(vals)))
	for i, v := range vals {
		order.PutUint16(res[2+2*i:], v)
	}
	return res
}

// clean:ENDIAN
func EncodeListGood(order binary.ByteOrder, vals []uint16) []byte {
	res := make([]byte, 2+2*len(vals))
	order.PutUint16(res, uint16(len(vals)))
	for i, v := range vals {
		order.PutUint16(res[2+2*i:], v)
	}
	return res
}

// want:DI.RANGE a longer row indexes out of range.
func RowBad(fields []string) ([3]float64, error) {
	var res [3]float64
	if len(fields) < 3 {
		return res, errors.New("short row")
	}
	for i, x := range fields {
		v, err := strconv.ParseFloat(x, 64)
		if err != nil {
			return res, err
		}
		res[i] = v
	}
	return res, nil
}

// clean:DI.RANGE
func RowGood(fields []string) ([3]float64, error) {
	var res [3]float64
	if len(fields) != 3 {
		return res, errors.New("wrong width")
	}
	for i, x := range fields {
		v, err := strconv.ParseFloat(x, 64)
		if err != nil {
			return res, err
		}
		res[i] = v
	}
	return res, nil
}

type lineReader struct{ r *bufio.Reader }

// want:DL.RECURSE one frame per blank line.
func (l *lineReader) NextBad() (string, error) {
	line, err := l.r.ReadString('\n')
	if err != nil {
		return "", err
	}
	if strings.TrimSpace(line) == "" {
		return l.NextBad()
	}
	return line, nil
}

// silent:DL.RECURSE a loop.
func (l *lineReader) NextGood() (string, error) {
	for {
		line, err := l.r.ReadString('\n')
		if err != nil {
			return "", err
		}
		if strings.TrimSpace(line) != "" {
			return line, nil
		}
	}
}

// clean:DI.CONST a trimmed, non-empty line has a first field.
func FirstWordTrimmed(raw string) string {
	line := strings.TrimSpace(raw)
	if len(line) == 0 {
		return ""
	}
	if strings.Fields(line)[0] == "comment" {
		return "c"
	}
	return line
}

// want:DI.CONST the line is not trimmed: "  " is non-empty and has no field.
func FirstWordUntrimmed(raw string) string {
	if len(raw) == 0 {
		return ""
	}
	return strings.Fields(raw)[0]
}

// clean:DI.COUNTER the counted loop runs to len(rec), which was tested against the array length.
func FourCounted(rec []string) (res [4]float64) {
	if len(rec) != 4 {
		return res
	}
	for i := 0; i < len(rec); i++ {
		res[i], _ = strconv.ParseFloat(rec[i], 64)
	}
	return res
}

// want:DI.COUNTER nothing bounds len(rec) by the array length.
func FourCountedBad(rec []string) (res [4]float64) {
	for i := 0; i < len(rec); i++ {
		res[i], _ = strconv.ParseFloat(rec[i], 64)
	}
	return res
}
