// Package n holds constructs for the C17 rules (numerical kernels).
package n

import (
	"math"
	"sort"

	"github.com/unixpickle/model3d/model2d"
)

type polyline struct {
	pieces []float64
	starts []float64
	ends   []float64
	total  float64
}

func newPolyline(ws []float64) *polyline {
	var starts, ends []float64
	var total float64
	for _, w := range ws {
		starts = append(starts, total)
		total += w
		ends = append(ends, total)
	}
	return &polyline{pieces: ws, starts: starts, ends: ends, total: total}
}

// want:CUMTAB raw '>=' result on the table of starts.
func (p *polyline) PieceBad(x float64) float64 {
	idx := sort.SearchFloat64s(p.starts, x)
	if idx == len(p.pieces) {
		idx--
	}
	return p.pieces[idx]
}

// clean:CUMTAB
func (p *polyline) PieceStarts(x float64) float64 {
	idx := sort.Search(len(p.starts), func(i int) bool { return p.starts[i] > x }) - 1
	if idx < 0 {
		idx = 0
	}
	return p.pieces[idx]
}

// clean:CUMTAB
func (p *polyline) PieceEnds(x float64) float64 {
	idx := sort.SearchFloat64s(p.ends, x)
	if idx == len(p.pieces) {
		idx--
	}
	return p.pieces[idx]
}

// want:CUMTAB decremented result on the table of ends.
func (p *polyline) PieceEndsBad(x float64) float64 {
	idx := sort.SearchFloat64s(p.ends, x) - 1
	if idx < 0 {
		idx = 0
	}
	return p.pieces[idx]
}

type lineSearch struct{ Stops, Recursions int }

// want:BEST.RET the finer level's result is returned unconditionally.
func (l *lineSearch) maximizeBad(min, max float64, f func(float64) float64, rec int) (float64, float64) {
	step := (max - min) / float64(l.Stops)
	solution, value := 0.0, -1e300
	for i := 0; i < l.Stops; i++ {
		x := float64(i)*step + step/2 + min
		v := f(x)
		if v > value {
			value = v
			solution = x
		}
	}
	if rec == 0 {
		return solution, value
	}
	return l.maximizeBad(solution-step, solution+step, f, rec-1)
}

// clean:BEST.RET
// clean:BEST.CMP
func (l *lineSearch) maximizeGood(min, max float64, f func(float64) float64, rec int) (float64, float64) {
	step := (max - min) / float64(l.Stops)
	solution, value := 0.0, -1e300
	for i := 0; i < l.Stops; i++ {
		x := float64(i)*step + step/2 + min
		v := f(x)
		if v > value {
			value = v
			solution = x
		}
	}
	if rec == 0 {
		return solution, value
	}
	if s2, v2 := l.maximizeGood(solution-step, solution+step, f, rec-1); v2 > value {
		return s2, v2
	}
	return solution, value
}

// want:BEST.CMP the running value takes every sample.
func (l *lineSearch) maximizeLast(min, max float64, f func(float64) float64) (float64, float64) {
	step := (max - min) / float64(l.Stops)
	solution, value := 0.0, -1e300
	for i := 0; i < l.Stops; i++ {
		x := float64(i)*step + step/2 + min
		v := f(x)
		value = v
		solution = x
	}
	return solution, value
}

// want:BEST.NEG the value is not negated back.
func (l *lineSearch) minimizeBad(min, max float64, f func(float64) float64) (float64, float64) {
	x, v := l.maximizeGood(min, max, func(x float64) float64 { return -f(x) }, l.Recursions)
	return x, v
}

// clean:BEST.NEG
func (l *lineSearch) minimizeGood(min, max float64, f func(float64) float64) (float64, float64) {
	x, v := l.maximizeGood(min, max, func(x float64) float64 { return -f(x) }, l.Recursions)
	return x, -v
}

// want:CONGRUENT reflects instead of shifting.
func CanonicalBad(theta float64) float64 {
	if theta < 0 {
		return CanonicalBad(2*math.Pi - theta)
	}
	return math.Mod(theta, 2*math.Pi)
}

// clean:CONGRUENT
func CanonicalGood(theta float64) float64 {
	theta = math.Mod(theta, 2*math.Pi)
	if theta < 0 {
		theta += 2 * math.Pi
	}
	return theta
}

type joined []float64

// want:IDX.FLOAT only equality with the length is handled.
func (j joined) EvalBad(t float64) float64 {
	idx := int(t * float64(len(j)))
	if idx == len(j) {
		idx--
	} else if idx < 0 {
		idx = 0
	}
	return j[idx]
}

// clean:IDX.FLOAT
func (j joined) EvalGood(t float64) float64 {
	idx := int(t * float64(len(j)))
	if idx >= len(j) {
		idx = len(j) - 1
	} else if idx < 0 {
		idx = 0
	}
	return j[idx]
}

type vec3 [3]float64

// clean:UNIFORM
func (v vec3) Sub(v1 vec3) vec3 {
	return vec3{v[0] - v1[0], v[1] - v1[1], v[2] - v1[2]}
}

// want:UNIFORM one component uses the wrong operand.
func (v vec3) SubBad(v1 vec3) vec3 {
	return vec3{v[0] - v1[0], v[1] - v1[1], v[2] - v1[1]}
}

// want:UNIFORM one term of the sum has the wrong operator.
func (v vec3) DotBad(v1 vec3) float64 {
	return v[0]*v1[0] + v[1]*v1[1] + v[2] + v1[2]
}

// want:SPLIT2 only the upper end is clamped.
func HalvesBad(cum []float64, items []int) ([]int, []int) {
	k := sort.SearchFloat64s(cum, cum[len(cum)-1]/2)
	if k > len(items)-1 {
		k = len(items) - 1
	}
	return items[:k], items[k:]
}

// clean:SPLIT2
func HalvesGood(cum []float64, items []int) ([]int, []int) {
	k := sort.SearchFloat64s(cum, cum[len(cum)-1]/2)
	if k > len(items)-1 {
		k = len(items) - 1
	}
	if k < 1 {
		k = 1
	}
	return items[:k], items[k:]
}

// want:POWABS the base can be negative.
func PNormRaw(v model2d.Coord, p float64) float64 {
	return math.Pow(math.Pow(v.X, p)+math.Pow(v.Y, p), 1/p)
}

// clean:POWABS
func PNormAbs(v model2d.Coord, p float64) float64 {
	abs := v.Abs()
	return math.Pow(math.Pow(abs.X, p)+math.Pow(abs.Y, p), 1/p)
}

// silent:POWABS a constant integer exponent.
func SumOfCubes(v model2d.Coord) float64 {
	return math.Pow(v.X, 3) + math.Pow(v.Y, 3)
}

type mat3 [9]float64

// want:DIAGADD the penalty lands on a column.
func RidgeBad(m *mat3, lambda float64) {
	m[0] += lambda
	m[3] += lambda
	m[6] += lambda
}

// clean:DIAGADD
func RidgeGood(m *mat3, lambda float64) {
	for i := 0; i < 3; i++ {
		m[i*4] += lambda
	}
}

// want:DIAGADD stride of a column.
func RidgeLoopBad(m *mat3, lambda float64) {
	for i := 0; i < 3; i++ {
		m[i*3] += lambda
	}
}

type stepper struct {
	x    float64
	done bool
}

// want:RETFIELD the improved value is handed out but not kept.
func (s *stepper) StepBad() float64 {
	if s.done {
		return s.x
	}
	next := s.x / 2
	if next < 1e-9 {
		s.done = true
		return next
	}
	s.x = next
	return s.x
}

// clean:RETFIELD
func (s *stepper) StepGood() float64 {
	if s.done {
		return s.x
	}
	next := s.x / 2
	if next < 1e-9 {
		s.done = true
		s.x = next
		return s.x
	}
	s.x = next
	return s.x
}
