package main

// A5 — fast maps (FM1..FM5), mesh index maintenance (MI) and receiver flow (RF).

import (
	"fmt"
	"go/token"
	"go/types"
	"strings"

	"golang.org/x/tools/go/packages"
	"golang.org/x/tools/go/ssa"
)

type fastMapType struct {
	named      *types.Named
	fast, slow *types.Var
}

// findFastMapTypes: generic structs with a "fastMap" (hash -> cell{Key,Value})
// and a "slowMap" field.
func (c *Ctx) findFastMapTypes(pkgs []*packages.Package) []fastMapType {
	var res []fastMapType
	for _, p := range pkgs {
		if p == nil {
			continue
		}
		scope := p.Types.Scope()
		for _, n := range scope.Names() {
			tn, ok := scope.Lookup(n).(*types.TypeName)
			if !ok {
				continue
			}
			named, ok := tn.Type().(*types.Named)
			if !ok {
				continue
			}
			st, ok := named.Underlying().(*types.Struct)
			if !ok {
				continue
			}
			var fast, slow *types.Var
			for i := 0; i < st.NumFields(); i++ {
				f := st.Field(i)
				if _, isMap := f.Type().Underlying().(*types.Map); !isMap {
					continue
				}
				switch f.Name() {
				case "fastMap":
					fast = f
				case "slowMap":
					slow = f
				}
			}
			if fast != nil && slow != nil {
				res = append(res, fastMapType{named, fast, slow})
			}
		}
	}
	return res
}

// fieldLoad: v is a load of field f of some base.
func fieldLoad(v ssa.Value, f *types.Var) bool {
	u, ok := v.(*ssa.UnOp)
	if !ok || u.Op != token.MUL {
		return false
	}
	fa, ok := u.X.(*ssa.FieldAddr)
	return ok && sameField(fieldOf(fa), f)
}

// sameField compares fields of generic types through instantiation.
func sameField(a, b *types.Var) bool {
	if a == nil || b == nil {
		return false
	}
	return a == b || a.Origin() == b.Origin()
}

type mapAccess struct {
	ins  ssa.Instruction
	m    ssa.Value // the map value (a load of the field)
	key  ssa.Value // nil for len/range
	kind string    // lookup, update, delete, range, len
}

func mapAccesses(fn *ssa.Function, f *types.Var) []mapAccess {
	var res []mapAccess
	for _, b := range fn.Blocks {
		for _, ins := range b.Instrs {
			switch x := ins.(type) {
			case *ssa.Lookup:
				if fieldLoad(x.X, f) {
					res = append(res, mapAccess{ins, x.X, x.Index, "lookup"})
				}
			case *ssa.MapUpdate:
				if fieldLoad(x.Map, f) {
					res = append(res, mapAccess{ins, x.Map, x.Key, "update"})
				}
			case *ssa.Range:
				if fieldLoad(x.X, f) {
					res = append(res, mapAccess{ins, x.X, nil, "range"})
				}
			case *ssa.Call:
				if b, ok := x.Call.Value.(*ssa.Builtin); ok {
					switch b.Name() {
					case "delete":
						if fieldLoad(x.Call.Args[0], f) {
							res = append(res, mapAccess{ins, x.Call.Args[0], x.Call.Args[1], "delete"})
						}
					case "len":
						if fieldLoad(x.Call.Args[0], f) {
							res = append(res, mapAccess{ins, x.Call.Args[0], nil, "len"})
						}
					}
				}
			}
		}
	}
	return res
}

// fastModeFact: what the dominating branches say about "fastMap != nil":
// +1 fast mode, -1 slow mode, 0 unknown.
func fastModeFact(b *ssa.BasicBlock, fast *types.Var) int {
	for _, f := range factsAt(b) {
		be, ok := f.cond.(*ssa.BinOp)
		if !ok || (be.Op != token.NEQ && be.Op != token.EQL) {
			continue
		}
		var other ssa.Value
		if fieldLoad(be.X, fast) {
			other = be.Y
		} else if fieldLoad(be.Y, fast) {
			other = be.X
		} else {
			continue
		}
		if !isNilConst(other) {
			continue
		}
		nonNil := (be.Op == token.NEQ) == f.taken
		if nonNil {
			return 1
		}
		return -1
	}
	return 0
}

// modeAt computes, by a forward must-analysis over the CFG of fn, whether
// the map is known to be in fast mode (+1), slow mode (-1) or neither (0)
// just before instruction at.
func modeAt(fn *ssa.Function, fast *types.Var, at ssa.Instruction) int {
	const (
		unreached = 2
		unknown   = 0
	)
	in := map[*ssa.BasicBlock]int{}
	out := map[*ssa.BasicBlock]int{}
	for _, b := range fn.Blocks {
		in[b], out[b] = unreached, unreached
	}
	meet := func(a, b int) int {
		switch {
		case a == unreached:
			return b
		case b == unreached:
			return a
		case a == b:
			return a
		}
		return unknown
	}
	edgeState := func(pred, succ *ssa.BasicBlock) int {
		st := out[pred]
		if st == unreached {
			return unreached
		}
		if len(pred.Instrs) == 0 {
			return st
		}
		ifi, ok := pred.Instrs[len(pred.Instrs)-1].(*ssa.If)
		if !ok || len(pred.Succs) != 2 || pred.Succs[0] == pred.Succs[1] {
			return st
		}
		be, ok := ifi.Cond.(*ssa.BinOp)
		if !ok || (be.Op != token.NEQ && be.Op != token.EQL) {
			return st
		}
		var other ssa.Value
		if fieldLoad(be.X, fast) {
			other = be.Y
		} else if fieldLoad(be.Y, fast) {
			other = be.X
		} else {
			return st
		}
		if !isNilConst(other) {
			return st
		}
		taken := pred.Succs[0] == succ
		if (be.Op == token.NEQ) == taken {
			return 1
		}
		return -1
	}
	transfer := func(b *ssa.BasicBlock, st int, stop ssa.Instruction) int {
		for _, ins := range b.Instrs {
			if ins == stop {
				return st
			}
			if callsNamed(ins, "fastToSlow") {
				st = -1
			}
		}
		return st
	}
	if len(fn.Blocks) == 0 {
		return 0
	}
	changed := true
	for iter := 0; changed && iter < 100; iter++ {
		changed = false
		for _, b := range fn.Blocks {
			st := unreached
			if b == fn.Blocks[0] {
				st = unknown
			}
			for _, p := range b.Preds {
				st = meet(st, edgeState(p, b))
			}
			o := st
			if st != unreached {
				o = transfer(b, st, nil)
			}
			if st != in[b] || o != out[b] {
				in[b], out[b] = st, o
				changed = true
			}
		}
	}
	b := at.Block()
	if in[b] == unreached {
		return 0
	}
	return transfer(b, in[b], at)
}

// switchedBefore: some fastToSlow() call can precede at on a path from the entry.
func switchedBefore(fn *ssa.Function, at ssa.Instruction) bool {
	for _, b := range fn.Blocks {
		for _, ins := range b.Instrs {
			if !callsNamed(ins, "fastToSlow") {
				continue
			}
			if b == at.Block() {
				for _, i2 := range b.Instrs {
					if i2 == at {
						break
					}
					if i2 == ins {
						return true
					}
				}
			} else if reaches(b, at.Block()) {
				return true
			}
		}
	}
	return false
}

func callsNamed(ins ssa.Instruction, name string) bool {
	call, ok := ins.(*ssa.Call)
	if !ok {
		return false
	}
	f := call.Call.StaticCallee()
	if f == nil {
		return false
	}
	// methods of generic types are named "fastToSlow" or, when instantiated,
	// "fastToSlow[...]"
	n := f.Name()
	if i := strings.Index(n, "["); i >= 0 {
		n = n[:i]
	}
	return n == name
}

func (c *Ctx) runFastMaps(prefix string, pkgs []*packages.Package) {
	for _, ft := range c.findFastMapTypes(pkgs) {
		tname := shortPkg(ft.named.Obj().Pkg().Path()) + "." + ft.named.Obj().Name()
		writers := map[string]bool{}
		for i := 0; i < ft.named.NumMethods(); i++ {
			m := ft.named.Method(i)
			fn := c.Prog.FuncValue(m)
			if fn == nil || fn.Blocks == nil {
				continue
			}
			c.analysed(qname(fn))
			mname := tname + "." + m.Name()
			isSwitch := m.Name() == "fastToSlow"
			// FM1 mode guard
			for _, acc := range append(mapAccesses(fn, ft.fast), mapAccesses(fn, ft.slow)...) {
				isFast := fieldLoad(acc.m, ft.fast)
				which := "slowMap"
				if isFast {
					which = "fastMap"
				}
				key := fmt.Sprintf("%s %s %s", mname, which, acc.kind)
				if isSwitch {
					continue
				}
				// path-sensitive mode at the point where the map value is loaded
				// (forward must-analysis: branch tests on fastMap refine the
				// state per edge, fastToSlow() sets it to slow, joins keep only
				// what all incoming paths agree on)
				at := acc.ins
				if ld, ok := acc.m.(*ssa.UnOp); ok {
					at = ld
				}
				mode := modeAt(fn, ft.fast, at)
				switched := false
				afterSwitch := switchedBefore(fn, at)
				if mode == -1 && afterSwitch {
					switched = true
				}
				switch {
				case isFast && mode == 1 && !switched:
					c.ok(prefix+".MODE", key, acc.ins.Pos(), "dominated by fastMap != nil")
				case !isFast && (mode == -1 || switched):
					c.ok(prefix+".MODE", key, acc.ins.Pos(), "dominated by fastMap == nil or follows fastToSlow()")
				case isFast && mode == -1 && afterSwitch:
					c.bad(prefix+".MODE", key, acc.ins.Pos(), "fastMap is used after fastToSlow() set it to nil")
				case isFast:
					c.bad(prefix+".MODE", key, acc.ins.Pos(), "fastMap is accessed where the map may be in slow mode (not dominated by fastMap != nil): entries are missed or a nil map is written")
				default:
					c.bad(prefix+".MODE", key, acc.ins.Pos(), "slowMap is accessed where the map may still be in fast mode (not dominated by fastMap == nil and not preceded by fastToSlow())")
				}
			}
			// FM3 writers of the mode fields
			for _, b := range fn.Blocks {
				for _, ins := range b.Instrs {
					if st, ok := ins.(*ssa.Store); ok {
						if fa, ok := st.Addr.(*ssa.FieldAddr); ok {
							if f := fieldOf(fa); sameField(f, ft.fast) || sameField(f, ft.slow) {
								writers[m.Name()] = true
							}
						}
					}
				}
			}
			if isSwitch {
				c.checkFastToSlow(prefix, mname, fn, ft)
				continue
			}
			// FM2 / FM4 on cells read from the fast map
			c.checkCollisionGuard(prefix, mname, fn, ft)
		}
		key := tname + " mode fields written by"
		var extra []string
		for w := range writers {
			if w != "fastToSlow" {
				extra = append(extra, w)
			}
		}
		if len(extra) == 0 && writers["fastToSlow"] {
			c.ok(prefix+".SWITCH", key, ft.named.Obj().Pos(), "only fastToSlow assigns fastMap/slowMap after construction")
		} else {
			c.bad(prefix+".SWITCH", key, ft.named.Obj().Pos(), fmt.Sprintf("fastMap/slowMap are assigned outside fastToSlow (in %v): the one-way fast->slow switch is broken", extra))
		}
	}
}

// checkFastToSlow: slowMap = make; for cell in fastMap { slowMap[cell.Key] =
// cell.Value }; fastMap = nil after the loop.
func (c *Ctx) checkFastToSlow(prefix, mname string, fn *ssa.Function, ft fastMapType) {
	var makeStore, nilStore *ssa.Store
	var rng *ssa.Range
	var copyOK bool
	// the fresh map may be filled through the field or through a local that is
	// published into the field afterwards
	var fresh ssa.Value
	for _, b := range fn.Blocks {
		for _, ins := range b.Instrs {
			if x, ok := ins.(*ssa.Store); ok {
				if fa, ok := x.Addr.(*ssa.FieldAddr); ok && sameField(fieldOf(fa), ft.slow) {
					if mk, isMake := x.Val.(*ssa.MakeMap); isMake {
						fresh = mk
					}
				}
			}
		}
	}
	for _, b := range fn.Blocks {
		for _, ins := range b.Instrs {
			switch x := ins.(type) {
			case *ssa.Store:
				fa, ok := x.Addr.(*ssa.FieldAddr)
				if !ok {
					continue
				}
				f := fieldOf(fa)
				if sameField(f, ft.slow) {
					if _, isMake := x.Val.(*ssa.MakeMap); isMake {
						makeStore = x
					}
				}
				if sameField(f, ft.fast) && isNilConst(x.Val) {
					nilStore = x
				}
			case *ssa.Range:
				if fieldLoad(x.X, ft.fast) {
					rng = x
				}
			case *ssa.MapUpdate:
				if !fieldLoad(x.Map, ft.slow) && (fresh == nil || x.Map != fresh) {
					continue
				}
				// key = cell.Key (field 0), value = cell.Value (field 1) of the same cell
				k, ok1 := x.Key.(*ssa.Field)
				v, ok2 := x.Value.(*ssa.Field)
				if ok1 && ok2 && k.X == v.X && k.Field == 0 && v.Field == 1 {
					copyOK = true
				}
				// spilled form: *(&t.Key), *(&t.Value) of the same local
				ku, ok1 := x.Key.(*ssa.UnOp)
				vu, ok2 := x.Value.(*ssa.UnOp)
				if ok1 && ok2 {
					kf, ok1 := ku.X.(*ssa.FieldAddr)
					vf, ok2 := vu.X.(*ssa.FieldAddr)
					if ok1 && ok2 && kf.X == vf.X && kf.Field == 0 && vf.Field == 1 {
						copyOK = true
					}
				}
			}
		}
	}
	key := mname + " copies every entry"
	switch {
	case makeStore == nil || rng == nil || !copyOK:
		c.bad(prefix+".SWITCH", key, fn.Pos(), "fastToSlow does not allocate slowMap, range over all of fastMap and store cell.Key -> cell.Value of the same cell")
	case nilStore == nil:
		c.bad(prefix+".SWITCH", key, fn.Pos(), "fastToSlow does not set fastMap to nil: both modes stay live")
	default:
		// the nil store must come after the loop: not inside a loop body
		loops := naturalLoops(fn)
		inLoop := false
		for _, body := range loops {
			if body[nilStore.Block()] {
				inLoop = true
			}
		}
		if inLoop || !reaches(rng.Block(), nilStore.Block()) {
			c.bad(prefix+".SWITCH", key, nilStore.Pos(), "fastMap is set to nil before all entries were copied")
		} else {
			c.ok(prefix+".SWITCH", key, fn.Pos(), "allocates slowMap, copies every cell under its own key, then sets fastMap to nil")
		}
	}
}

// checkCollisionGuard implements FM2 (and FM4) for one method.
func (c *Ctx) checkCollisionGuard(prefix, mname string, fn *ssa.Function, ft fastMapType) {
	if len(fn.Params) < 2 {
		return
	}
	keyParam := fn.Params[1]
	// lookups of the fast map
	for _, acc := range mapAccesses(fn, ft.fast) {
		lk, ok := acc.ins.(*ssa.Lookup)
		if !ok {
			continue
		}
		// FM4: the hash is hashFor*(key parameter)
		hkey := mname + " hash of lookup"
		if hc, ok := lk.Index.(*ssa.Call); ok && len(hc.Call.Args) == 1 && hc.Call.Args[0] == ssa.Value(keyParam) &&
			hc.Call.StaticCallee() != nil && strings.HasPrefix(hc.Call.StaticCallee().Name(), "hashFor") {
			c.ok(prefix+".HASH", hkey, lk.Pos(), "the fast map is probed with the hash of the key parameter")
		} else {
			c.bad(prefix+".HASH", hkey, lk.Pos(), "the fast map is probed with something other than hashFor...(key)")
		}
		// cell and ok extracted from the lookup
		var cell, okv ssa.Value
		if lk.CommaOk {
			for _, ref := range *lk.Referrers() {
				if ex, isEx := ref.(*ssa.Extract); isEx {
					if ex.Index == 0 {
						cell = ex
					} else {
						okv = ex
					}
				}
			}
		} else {
			cell = lk
		}
		if cell == nil {
			continue
		}
		// generic bodies spill the cell into a local: *t = cell; &t.Key
		var cellAlloc ssa.Value
		for _, ref := range *cell.Referrers() {
			if st, ok := ref.(*ssa.Store); ok && st.Val == cell {
				if al, ok := st.Addr.(*ssa.Alloc); ok {
					cellAlloc = al
				}
			}
		}
		cellField := func(v ssa.Value, idx int) bool {
			if f, ok := v.(*ssa.Field); ok {
				return f.X == cell && f.Field == idx
			}
			if u, ok := v.(*ssa.UnOp); ok && u.Op == token.MUL {
				if fa, ok := u.X.(*ssa.FieldAddr); ok {
					return cellAlloc != nil && fa.X == cellAlloc && fa.Field == idx
				}
			}
			return false
		}
		// key comparisons on this cell: cell.Key ==/!= keyParam
		type edge struct{ from, to *ssa.BasicBlock }
		matchEdges := map[edge]bool{}
		absentEdges := map[edge]bool{}
		for _, b := range fn.Blocks {
			if len(b.Instrs) == 0 {
				continue
			}
			ifi, isIf := b.Instrs[len(b.Instrs)-1].(*ssa.If)
			if !isIf || len(b.Succs) != 2 {
				continue
			}
			if okv != nil && ifi.Cond == okv {
				absentEdges[edge{b, b.Succs[1]}] = true
				continue
			}
			if un, isUn := ifi.Cond.(*ssa.UnOp); isUn && un.Op == token.NOT && okv != nil && un.X == okv {
				absentEdges[edge{b, b.Succs[0]}] = true
				continue
			}
			be, isB := ifi.Cond.(*ssa.BinOp)
			if !isB || (be.Op != token.NEQ && be.Op != token.EQL) {
				continue
			}
			isCellKey := func(v ssa.Value) bool { return cellField(v, 0) }
			if !(isCellKey(be.X) && be.Y == ssa.Value(keyParam)) && !(isCellKey(be.Y) && be.X == ssa.Value(keyParam)) {
				continue
			}
			if be.Op == token.NEQ {
				matchEdges[edge{b, b.Succs[1]}] = true
			} else {
				matchEdges[edge{b, b.Succs[0]}] = true
			}
		}
		reachableWithout := func(target *ssa.BasicBlock, removed ...map[edge]bool) bool {
			seen := map[*ssa.BasicBlock]bool{}
			stack := []*ssa.BasicBlock{lk.Block()}
			for len(stack) > 0 {
				b := stack[len(stack)-1]
				stack = stack[:len(stack)-1]
				if seen[b] {
					continue
				}
				seen[b] = true
				if b == target && b != lk.Block() {
					return true
				}
				for _, s := range b.Succs {
					skip := false
					for _, rm := range removed {
						if rm[edge{b, s}] {
							skip = true
						}
					}
					if !skip {
						stack = append(stack, s)
					}
				}
			}
			return target == lk.Block()
		}
		n := 0
		check := func(ins ssa.Instruction, what string, allowAbsent bool) {
			n++
			key := fmt.Sprintf("%s %s#%d", mname, what, n)
			var bad bool
			if allowAbsent {
				bad = reachableWithout(ins.Block(), matchEdges, absentEdges)
			} else {
				bad = reachableWithout(ins.Block(), matchEdges)
			}
			if bad {
				msg := "without establishing cell.Key == key"
				if allowAbsent {
					msg = "on a path where the slot holds a DIFFERENT key (neither 'absent' nor 'cell.Key == key' is established): a colliding entry is overwritten"
				}
				c.bad(prefix+".COLLIDE", key, ins.Pos(), fmt.Sprintf("the cell read from fastMap[hash] is used for %s %s; two keys with equal hashes are confused", what, msg))
			} else {
				c.ok(prefix+".COLLIDE", key, ins.Pos(), "only reachable through the key-match"+map[bool]string{true: " or absent", false: ""}[allowAbsent]+" edge of a test on the cell")
			}
		}
		// uses: returns of cell.Value, deletes and updates of the fast map,
		// and every read of cell.Value (the value stored under a DIFFERENT key
		// must not flow anywhere; when the slot is absent it is the zero value)
		for _, b := range fn.Blocks {
			for _, ins := range b.Instrs {
				if v, isV := ins.(ssa.Value); isV && cellField(v, 1) {
					check(ins, "a read of cell.Value", true)
				}
				switch x := ins.(type) {
				case *ssa.Return:
					for _, r := range x.Results {
						if cellField(r, 1) {
							check(ins, "a hit result", false)
						}
					}
				case *ssa.MapUpdate:
					if fieldLoad(x.Map, ft.fast) {
						check(ins, "an update", true)
					}
				case *ssa.Call:
					if bi, ok := x.Call.Value.(*ssa.Builtin); ok && bi.Name() == "delete" && fieldLoad(x.Call.Args[0], ft.fast) {
						check(ins, "a delete", false)
					}
				}
			}
		}
	}
	// deletes/updates of the fast map in a method that never looked the cell up
	if len(mapAccesses(fn, ft.fast)) > 0 {
		hasLookup := false
		for _, acc := range mapAccesses(fn, ft.fast) {
			if acc.kind == "lookup" {
				hasLookup = true
			}
		}
		for _, acc := range mapAccesses(fn, ft.fast) {
			if !hasLookup && (acc.kind == "delete" || acc.kind == "update") {
				c.bad(prefix+".COLLIDE", fmt.Sprintf("%s blind %s", mname, acc.kind), acc.ins.Pos(), "fastMap[hash] is modified without reading the cell and comparing its key: an entry of a different key with the same hash is destroyed")
			}
		}
	}
}

// ---------------------------------------------------------------------------
// FM5 — hash congruence with ==.

func (c *Ctx) runHashCongruence(rule string, pkgs []*packages.Package) {
	for _, p := range pkgs {
		if p == nil {
			continue
		}
		for _, fn := range c.srcFuncs(p) {
			if !strings.Contains(strings.ToLower(fn.Name()), "hash") {
				continue
			}
			for _, b := range fn.Blocks {
				for _, ins := range b.Instrs {
					call, ok := ins.(*ssa.Call)
					if !ok {
						continue
					}
					f := call.Call.StaticCallee()
					if f == nil || f.Pkg == nil || f.Pkg.Pkg.Path() != "math" || (f.Name() != "Float64bits" && f.Name() != "Float32bits") {
						continue
					}
					c.analysed(qname(fn))
					key := qname(fn) + " " + f.Name()
					arg := call.Call.Args[0]
					if canonicalZero(arg) || nonZeroAt(arg, b) {
						c.ok(rule, key, call.Pos(), "a zero value is canonicalised before its bits are taken, so keys that are == hash equally")
					} else {
						c.bad(rule, key, call.Pos(), "the hash takes the bits of an arithmetic result without canonicalising zero: -0 and +0 keys are == but hash differently, so the fast map misses entries an ordinary map finds")
					}
				}
			}
		}
	}
}

// canonicalZero: v is phi(x, 0) where the 0 edge comes from the true branch of
// x == 0, or x + 0.
func canonicalZero(v ssa.Value) bool {
	switch x := v.(type) {
	case *ssa.Phi:
		hasZero := false
		for i, e := range x.Edges {
			if k, ok := constFloat(e); ok && k == 0 {
				// the predecessor is (dominated by) the true edge of "y == 0"
				pred := x.Block().Preds[i]
				for _, f := range append(factsAt(pred), edgeFact(pred, x.Block())...) {
					if be, ok := f.cond.(*ssa.BinOp); ok && be.Op == token.EQL && f.taken {
						if k2, ok := constFloat(be.Y); ok && k2 == 0 {
							hasZero = true
						}
					}
				}
			}
		}
		return hasZero
	case *ssa.BinOp:
		if x.Op == token.ADD {
			if k, ok := constFloat(x.Y); ok && k == 0 {
				return true
			}
		}
	}
	return false
}

// lazyIndexBuilder: the Store publishes, into the receiver of the method fn, an
// index that fn allocated itself (NewCoordToSlice...) and fn ranges over the
// faces of that same receiver.
func lazyIndexBuilder(fn *ssa.Function, fa *ssa.FieldAddr, store *ssa.Call, faces *types.Var) bool {
	if fn.Signature.Recv() == nil || len(fn.Params) == 0 || fa.X != ssa.Value(fn.Params[0]) || len(store.Call.Args) < 2 {
		return false
	}
	fresh := func(v ssa.Value) bool {
		call, ok := v.(*ssa.Call)
		if !ok {
			return false
		}
		callee := call.Call.StaticCallee()
		return callee != nil && strings.HasPrefix(callee.Name(), "NewCoordToSlice")
	}
	ownLookup := func(v ssa.Value) bool {
		call, ok := v.(*ssa.Call)
		if !ok {
			return false
		}
		callee := call.Call.StaticCallee()
		return callee != nil && callee.Name() == "getVertexToFaceOrNil" && len(call.Call.Args) > 0 && call.Call.Args[0] == ssa.Value(fn.Params[0])
	}
	v := store.Call.Args[1]
	if mi, ok := v.(*ssa.MakeInterface); ok {
		v = mi.X
	}
	okVal := false
	if fresh(v) {
		okVal = true
	} else if ld, ok := v.(*ssa.UnOp); ok && ld.Op == token.MUL {
		if al, ok := ld.X.(*ssa.Alloc); ok {
			okVal = true
			any := false
			for _, ref := range *al.Referrers() {
				if st, ok := ref.(*ssa.Store); ok && st.Addr == ssa.Value(al) {
					if fresh(st.Val) {
						any = true
					} else if !ownLookup(st.Val) {
						okVal = false
					}
				}
			}
			okVal = okVal && any
		}
	}
	if !okVal {
		return false
	}
	for _, b := range fn.Blocks {
		for _, ins := range b.Instrs {
			if f2, ok := ins.(*ssa.FieldAddr); ok && fieldOf(f2) == faces && f2.X == ssa.Value(fn.Params[0]) {
				for _, ref := range *f2.Referrers() {
					if ld, ok := ref.(*ssa.UnOp); ok {
						for _, r2 := range *ld.Referrers() {
							if _, isRange := r2.(*ssa.Range); isRange {
								return true
							}
						}
					}
				}
			}
		}
	}
	return false
}

// nonZeroAt: v is a constant (one bit pattern), or the facts at b say v != 0 —
// the zeros, of either sign, took the other branch.
func nonZeroAt(v ssa.Value, b *ssa.BasicBlock) bool {
	if _, ok := constFloat(v); ok {
		return true
	}
	for _, f := range factsAt(b) {
		be, ok := f.cond.(*ssa.BinOp)
		if !ok || be.X != v {
			continue
		}
		if k, ok := constFloat(be.Y); !ok || k != 0 {
			continue
		}
		if (be.Op == token.NEQ && f.taken) || (be.Op == token.EQL && !f.taken) {
			return true
		}
	}
	return false
}

func edgeFact(from, to *ssa.BasicBlock) []fact {
	if len(from.Instrs) == 0 {
		return nil
	}
	ifi, ok := from.Instrs[len(from.Instrs)-1].(*ssa.If)
	if !ok || len(from.Succs) != 2 || from.Succs[0] == from.Succs[1] {
		return nil
	}
	return []fact{{ifi.Cond, from.Succs[0] == to}}
}

// ---------------------------------------------------------------------------
// MI / RF — Mesh.

func (c *Ctx) runMeshRules(prefix string, pkgShort string) {
	p := c.pkg(pkgShort)
	if p == nil {
		return
	}
	meshTN, _ := p.Types.Scope().Lookup("Mesh").(*types.TypeName)
	if meshTN == nil {
		c.problem("unresolved anchor: %s.Mesh", pkgShort)
		return
	}
	meshT := meshTN.Type().(*types.Named)
	faces := c.mustField(pkgShort, "Mesh.faces")
	v2f := c.mustField(pkgShort, "Mesh.vertexToFace")
	if faces == nil || v2f == nil {
		return
	}
	// MI.WRITERS: who modifies faces
	// (one obligation per writer FUNCTION, not per store site: merging or
	// splitting stores inside a mutator does not change the set of writers)
	allowed := map[string]bool{"Add": true, "Remove": true, "NewMesh": true}
	seenWriter := map[*ssa.Function]bool{}
	for _, fn := range c.srcFuncs(p) {
		for _, acc := range mapAccesses(fn, faces) {
			if acc.kind != "update" && acc.kind != "delete" {
				continue
			}
			top := fn
			for top.Parent() != nil {
				top = top.Parent()
			}
			if seenWriter[top] {
				continue
			}
			seenWriter[top] = true
			c.analysed(qname(fn))
			key := fmt.Sprintf("%s modifies Mesh.faces", qname(top))
			isMeshMethod := top.Signature.Recv() != nil && strings.HasSuffix(top.Signature.Recv().Type().String(), ".Mesh")
			if isMeshMethod && allowed[top.Name()] {
				c.ok(prefix+".WRITERS", key, acc.ins.Pos(), "faces is modified by a mutator that also maintains the vertex index")
			} else if other := indexOfOtherMesh(top, v2f, acc.m); other {
				c.bad(prefix+".WRITERS", key, acc.ins.Pos(), "Mesh.faces of one mesh is modified while the only vertex index this function looks at or patches belongs to a different mesh: the index of the modified mesh is not kept in step")
			} else if touchesIndex(top, v2f) {
				c.ok(prefix+".WRITERS", key, acc.ins.Pos(), "the same function patches or resets the vertex index (removeFaceFromVertex / clearVertexToFace / index operations)")
			} else {
				c.bad(prefix+".WRITERS", key, acc.ins.Pos(), "Mesh.faces is modified outside Add/Remove: the lazily built vertex index is not kept in step")
			}
		}
	}
	// MI.OWNER: the index is published only by the lazy builder and reset only
	// by clearVertexToFace / functions that just rewrote vertices in place
	for _, fn := range c.srcFuncs(p) {
		for _, b := range fn.Blocks {
			for _, ins := range b.Instrs {
				call, ok := ins.(*ssa.Call)
				if !ok || atomicValueMethod(call.Common()) != "Store" || len(call.Call.Args) == 0 {
					continue
				}
				fa, ok := call.Call.Args[0].(*ssa.FieldAddr)
				if !ok || fieldOf(fa) != v2f {
					continue
				}
				key := qname(fn) + " publishes the vertex index"
				if lazyIndexBuilder(fn, fa, call, faces) {
					c.ok(prefix+".OWNER", key, call.Pos(), "the lazy builder: a fresh index, filled while ranging over the receiver's own faces, is stored into the receiver")
				} else {
					c.bad(prefix+".OWNER", key, call.Pos(), "a vertex index is stored outside the lazy builder getVertexToFace: it is not built from this mesh's own faces (shared or stale index)")
				}
			}
		}
	}
	// MI.DEDUP: appending a face to the index requires that the face was absent
	for _, fn := range c.srcFuncs(p) {
		if fn.Name() == "getVertexToFace" || (fn.Parent() != nil && fn.Parent().Name() == "getVertexToFace") {
			continue
		}
		for _, b := range fn.Blocks {
			for _, ins := range b.Instrs {
				call, ok := ins.(*ssa.Call)
				if !ok {
					continue
				}
				callee := call.Call.StaticCallee()
				if callee == nil || !callsNamed(call, "Append") || callee.Signature.Recv() == nil ||
					!strings.Contains(callee.Signature.Recv().Type().String(), "ToSlice") {
					continue
				}
				// is the receiver the vertex index of a mesh? (derived from getVertexToFace[OrNil])
				if !derivesFromIndex(call.Call.Args[0], 0) {
					// a helper that is handed the index: the guard is owed by
					// the callers that pass a mesh's index
					if prm := paramOrigin(call.Call.Args[0], 0); prm != nil {
						h := prm.Parent()
						pi := -1
						for i, q := range h.Params {
							if q == prm {
								pi = i
							}
						}
						for _, caller := range c.srcFuncs(p) {
							for _, cb := range caller.Blocks {
								for _, ci := range cb.Instrs {
									site, ok := ci.(*ssa.Call)
									if !ok || site.Call.StaticCallee() != h || pi < 0 || pi >= len(site.Call.Args) {
										continue
									}
									if !derivesFromIndex(site.Call.Args[pi], 0) {
										continue
									}
									c.analysed(qname(caller))
									key := fmt.Sprintf("%s appends a face to the vertex index", qname(caller))
									if absentFact(cb, faces) {
										c.ok(prefix+".DEDUP", key, site.Pos(), "the helper that appends is called behind the 'face not yet in faces' edge")
									} else {
										c.bad(prefix+".DEDUP", key, site.Pos(), "a face is appended to the vertex index (through "+h.Name()+") without a dominating test that it is not already in the mesh: re-adding a face lists it twice (and Remove leaves a stale entry)")
									}
								}
							}
						}
					}
					continue
				}
				c.analysed(qname(fn))
				// the guarding function: fn or, for a closure, the creating function
				top, site := fn, ssa.Instruction(call)
				if fn.Parent() != nil {
					top = fn.Parent()
					site = closureUseSite(top, fn)
				}
				key := fmt.Sprintf("%s appends a face to the vertex index", qname(top))
				if site == nil {
					c.problem("%s: cannot locate where the closure is used", key)
					continue
				}
				if absentFact(site.Block(), faces) {
					c.ok(prefix+".DEDUP", key, call.Pos(), "dominated by the 'face not yet in faces' edge: the face set and the index lists stay in step")
				} else {
					c.bad(prefix+".DEDUP", key, call.Pos(), "a face is appended to the vertex index without a dominating test that it is not already in the mesh: re-adding a face lists it twice (and Remove leaves a stale entry)")
				}
			}
		}
	}
	// RF: methods returning a derived mesh use their receiver
	for i := 0; i < meshT.NumMethods(); i++ {
		m := meshT.Method(i)
		sig := m.Type().(*types.Signature)
		if sig.Results().Len() != 1 {
			continue
		}
		if pt, ok := sig.Results().At(0).Type().(*types.Pointer); !ok || pt.Elem() != types.Type(meshT) {
			continue
		}
		fn := c.Prog.FuncValue(m)
		if fn == nil || fn.Blocks == nil || len(fn.Params) == 0 {
			continue
		}
		c.analysed(qname(fn))
		key := objName(m) + " derives its result from the receiver"
		refs := fn.Params[0].Referrers()
		used := false
		if refs != nil {
			for _, r := range *refs {
				if _, isDbg := r.(*ssa.DebugRef); !isDbg {
					used = true
				}
			}
		}
		if used {
			c.ok(prefix+".RECV", key, fn.Pos(), "the receiver is read")
		} else {
			c.bad(prefix+".RECV", key, fn.Pos(), "the method returns a mesh but never reads its receiver: the result cannot contain the receiver's faces (e.g. it iterates the freshly created empty mesh)")
		}
	}
}

// touchesIndex: fn (or its closures) patches or resets the vertex index.
func touchesIndex(fn *ssa.Function, v2f *types.Var) bool {
	found := false
	var visit func(f *ssa.Function)
	visit = func(f *ssa.Function) {
		for _, b := range f.Blocks {
			for _, ins := range b.Instrs {
				switch x := ins.(type) {
				case *ssa.Call:
					for _, n := range []string{"removeFaceFromVertex", "clearVertexToFace", "getVertexToFaceOrNil", "getVertexToFace"} {
						if callsNamed(x, n) {
							found = true
						}
					}
				case *ssa.Store:
					if fa, ok := x.Addr.(*ssa.FieldAddr); ok && fieldOf(fa) == v2f {
						found = true
					}
				}
			}
		}
		for _, a := range f.AnonFuncs {
			visit(a)
		}
	}
	visit(fn)
	return found
}

// indexOfOtherMesh: the faces map that is written belongs to one parameter of
// fn, and every index operation of fn (direct, not in closures) is applied to a
// different parameter.
func indexOfOtherMesh(fn *ssa.Function, v2f *types.Var, facesMap ssa.Value) bool {
	ld, ok := facesMap.(*ssa.UnOp)
	if !ok {
		return false
	}
	fa, ok := ld.X.(*ssa.FieldAddr)
	if !ok {
		return false
	}
	owner, ok := fa.X.(*ssa.Parameter)
	if !ok {
		return false
	}
	same, other := false, false
	for _, b := range fn.Blocks {
		for _, ins := range b.Instrs {
			var recv ssa.Value
			switch x := ins.(type) {
			case *ssa.Call:
				for _, n := range []string{"removeFaceFromVertex", "clearVertexToFace", "getVertexToFaceOrNil", "getVertexToFace"} {
					if callsNamed(x, n) && len(x.Call.Args) > 0 {
						recv = x.Call.Args[0]
					}
				}
			case *ssa.Store:
				if fa2, ok := x.Addr.(*ssa.FieldAddr); ok && fieldOf(fa2) == v2f {
					recv = fa2.X
				}
			}
			if recv == nil {
				continue
			}
			if p, isP := recv.(*ssa.Parameter); isP && p != owner {
				other = true
			} else {
				same = true
			}
		}
	}
	return other && !same
}

// paramOrigin: the parameter a value is a copy of (through loads of captured
// variables and spilled locals), or nil.
func paramOrigin(v ssa.Value, depth int) *ssa.Parameter {
	if depth > 8 {
		return nil
	}
	switch x := v.(type) {
	case *ssa.Parameter:
		return x
	case *ssa.UnOp:
		if x.Op == token.MUL {
			return paramOrigin(x.X, depth+1)
		}
	case *ssa.FreeVar:
		if b := freeVarBinding(x); b != nil {
			return paramOrigin(b, depth+1)
		}
	case *ssa.Alloc:
		var res *ssa.Parameter
		for _, ref := range *x.Referrers() {
			if st, ok := ref.(*ssa.Store); ok && st.Addr == ssa.Value(x) {
				p := paramOrigin(st.Val, depth+1)
				if p == nil || (res != nil && res != p) {
					return nil
				}
				res = p
			}
		}
		return res
	}
	return nil
}

func derivesFromIndex(v ssa.Value, depth int) bool {
	if depth > 8 {
		return false
	}
	switch x := v.(type) {
	case *ssa.Call:
		if f := x.Call.StaticCallee(); f != nil && strings.HasPrefix(f.Name(), "getVertexToFace") {
			return true
		}
	case *ssa.Phi:
		for _, e := range x.Edges {
			if derivesFromIndex(e, depth+1) {
				return true
			}
		}
	case *ssa.UnOp:
		if x.Op == token.MUL {
			switch a := x.X.(type) {
			case *ssa.FreeVar:
				// captured variable: look at the binding in the parent
				fn := a.Parent()
				if fn.Parent() == nil {
					return false
				}
				for i, fv := range fn.FreeVars {
					if fv != a {
						continue
					}
					for _, b := range fn.Parent().Blocks {
						for _, ins := range b.Instrs {
							if mc, ok := ins.(*ssa.MakeClosure); ok && mc.Fn == ssa.Value(fn) && i < len(mc.Bindings) {
								return derivesFromIndex(mc.Bindings[i], depth+1)
							}
						}
					}
				}
			case *ssa.Alloc:
				for _, ref := range *a.Referrers() {
					if st, ok := ref.(*ssa.Store); ok && st.Addr == ssa.Value(a) && derivesFromIndex(st.Val, depth+1) {
						return true
					}
				}
			}
		}
	case *ssa.Alloc:
		for _, ref := range *x.Referrers() {
			if st, ok := ref.(*ssa.Store); ok && st.Addr == ssa.Value(x) && derivesFromIndex(st.Val, depth+1) {
				return true
			}
		}
	case *ssa.FreeVar:
		fn := x.Parent()
		if fn.Parent() == nil {
			return false
		}
		for i, fv := range fn.FreeVars {
			if fv != x {
				continue
			}
			for _, b := range fn.Parent().Blocks {
				for _, ins := range b.Instrs {
					if mc, ok := ins.(*ssa.MakeClosure); ok && mc.Fn == ssa.Value(fn) && i < len(mc.Bindings) {
						return derivesFromIndex(mc.Bindings[i], depth+1)
					}
				}
			}
		}
	}
	return false
}

func closureUseSite(parent, cl *ssa.Function) ssa.Instruction {
	for _, b := range parent.Blocks {
		for _, ins := range b.Instrs {
			mc, ok := ins.(*ssa.MakeClosure)
			if !ok || mc.Fn != ssa.Value(cl) {
				continue
			}
			for _, ref := range *mc.Referrers() {
				if _, isCall := ref.(ssa.CallInstruction); isCall {
					return ref
				}
			}
			return mc
		}
	}
	return nil
}

// absentFact: a dominating edge says "faces[f]" is false / f not present.
func absentFact(b *ssa.BasicBlock, faces *types.Var) bool {
	for _, f := range factsAt(b) {
		v := f.cond
		neg := false
		if un, ok := v.(*ssa.UnOp); ok && un.Op == token.NOT {
			v = un.X
			neg = true
		}
		var lk *ssa.Lookup
		switch x := v.(type) {
		case *ssa.Lookup:
			lk = x
		case *ssa.Extract:
			if l, ok := x.Tuple.(*ssa.Lookup); ok {
				lk = l
			}
		}
		if lk == nil || !fieldLoad(lk.X, faces) {
			continue
		}
		present := f.taken != neg
		if !present {
			return true
		}
	}
	return false
}

// ---------------------------------------------------------------------------
// MI.INPLACE — a vertex of a triangle/segment that is a member of a mesh is
// rewritten in place only by a function that (i) resets the vertex index
// afterwards, or (ii) brackets the rewrite between m.Remove(t) and m.Add(t) of
// the same face. (The index is keyed by vertex coordinates: an in-place
// rewrite leaves it pointing at the old coordinates.)

func faceElemType(t types.Type) bool {
	p, ok := t.(*types.Pointer)
	if !ok {
		return false
	}
	n, ok := p.Elem().(*types.Named)
	if !ok || n.Obj().Pkg() == nil || !strings.HasPrefix(n.Obj().Pkg().Path(), repoMod+"/model") {
		return false
	}
	return n.Obj().Name() == "Triangle" || n.Obj().Name() == "Segment"
}

// meshMember: v is a face pointer that came out of a mesh.
func meshMember(v ssa.Value, depth int) bool {
	if depth > 8 {
		return false
	}
	switch x := v.(type) {
	case *ssa.Parameter:
		// parameter of a function literal handed to a Mesh iteration method
		fn := x.Parent()
		if fn.Parent() == nil {
			return false
		}
		for _, b := range fn.Parent().Blocks {
			for _, ins := range b.Instrs {
				call, ok := ins.(*ssa.Call)
				if !ok {
					continue
				}
				callee := call.Call.StaticCallee()
				if callee == nil || callee.Signature.Recv() == nil || !strings.HasSuffix(callee.Signature.Recv().Type().String(), ".Mesh") {
					continue
				}
				if !strings.HasPrefix(callee.Name(), "Iterate") {
					continue
				}
				for _, a := range call.Call.Args {
					if mc, ok := a.(*ssa.MakeClosure); ok && mc.Fn == ssa.Value(fn) {
						return true
					}
				}
			}
		}
	case *ssa.UnOp:
		if x.Op == token.MUL {
			if ia, ok := x.X.(*ssa.IndexAddr); ok {
				return meshFaceList(ia.X, depth+1)
			}
		}
	case *ssa.Extract:
		if nx, ok := x.Tuple.(*ssa.Next); ok {
			if rng, ok := nx.Iter.(*ssa.Range); ok {
				// range over m.faces (keys)
				if u, ok := rng.X.(*ssa.UnOp); ok {
					if fa, ok := u.X.(*ssa.FieldAddr); ok && fieldOf(fa) != nil && fieldOf(fa).Name() == "faces" {
						return true
					}
				}
			}
		}
	case *ssa.Phi:
		for _, e := range x.Edges {
			if meshMember(e, depth+1) {
				return true
			}
		}
	}
	return false
}

// meshFaceList: a slice of face pointers obtained from a mesh or its index.
func meshFaceList(v ssa.Value, depth int) bool {
	if depth > 8 {
		return false
	}
	switch x := v.(type) {
	case *ssa.Call:
		callee := x.Call.StaticCallee()
		if callee == nil || callee.Signature.Recv() == nil {
			return false
		}
		rt := callee.Signature.Recv().Type().String()
		n := callee.Name()
		if i := strings.Index(n, "["); i >= 0 {
			n = n[:i]
		}
		if strings.HasSuffix(rt, ".Mesh") && (n == "Find" || n == "TriangleSlice" || n == "SegmentSlice" || n == "Neighbors") {
			return true
		}
		if strings.Contains(rt, "ToSlice") && (n == "Value" || n == "Load") && len(x.Call.Args) > 0 && derivesFromIndex(x.Call.Args[0], 0) {
			return true
		}
	case *ssa.Extract:
		return meshFaceList(x.Tuple, depth+1)
	case *ssa.Phi:
		for _, e := range x.Edges {
			if meshFaceList(e, depth+1) {
				return true
			}
		}
	}
	return false
}

func (c *Ctx) runInPlace(rule string, pkgShort string, p *packages.Package) {
	if p == nil {
		p = c.pkg(pkgShort)
	}
	if p == nil {
		return
	}
	v2f := c.mustField(pkgShort, "Mesh.vertexToFace")
	for _, fn := range c.srcFuncs(p) {
		n := 0
		for _, b := range fn.Blocks {
			for _, ins := range b.Instrs {
				st, ok := ins.(*ssa.Store)
				if !ok {
					continue
				}
				addr := st.Addr
				for {
					fa, ok := addr.(*ssa.FieldAddr)
					if !ok {
						break
					}
					addr = fa.X // t[i].Z = ...
				}
				// t[i] = c (an element) or *t = face (the whole face at once)
				var facePtr ssa.Value
				if ia, ok := addr.(*ssa.IndexAddr); ok && faceElemType(ia.X.Type()) && meshMember(ia.X, 0) {
					facePtr = ia.X
				} else if faceElemType(st.Addr.Type()) && meshMember(st.Addr, 0) {
					facePtr = st.Addr
				}
				if facePtr == nil {
					continue
				}
				n++
				c.analysed(qname(fn))
				top := fn
				for top.Parent() != nil {
					top = top.Parent()
				}
				key := fmt.Sprintf("%s rewrites a vertex of a member face#%d", qname(fn), n)
				// (ii) bracket: Remove(face) dominates the store and Add(face) follows
				removed, added := false, false
				for _, b2 := range fn.Blocks {
					for _, i2 := range b2.Instrs {
						call, ok := i2.(*ssa.Call)
						if !ok {
							continue
						}
						for _, a := range call.Call.Args {
							if a != facePtr {
								continue
							}
							if callsNamed(call, "Remove") && instrDominates(call, st) {
								removed = true
							}
							if callsNamed(call, "Add") && (reaches(st.Block(), b2) || st.Block() == b2) {
								added = true
							}
						}
					}
				}
				// (i) reset of the index after the store in the top-level function
				reset := false
				var visit func(f *ssa.Function)
				visit = func(f *ssa.Function) {
					for _, b2 := range f.Blocks {
						for _, i2 := range b2.Instrs {
							switch x := i2.(type) {
							case *ssa.Store:
								if fa, ok := x.Addr.(*ssa.FieldAddr); ok && fieldOf(fa) == v2f {
									if f != fn || reaches(st.Block(), b2) || st.Block() == b2 {
										reset = true
									}
								}
							case *ssa.Call:
								if callsNamed(x, "clearVertexToFace") && (f != fn || reaches(st.Block(), b2) || st.Block() == b2) {
									reset = true
								}
							}
						}
					}
				}
				visit(top)
				// (iii) manual patch: the same function stores the new key into
				// the index and deletes the old one
				stored, deleted := false, false
				for _, f := range append([]*ssa.Function{fn}, fn.AnonFuncs...) {
					for _, b2 := range f.Blocks {
						for _, i2 := range b2.Instrs {
							call, ok := i2.(*ssa.Call)
							if !ok || len(call.Call.Args) == 0 || !derivesFromIndex(call.Call.Args[0], 0) {
								continue
							}
							if callsNamed(call, "Store") {
								stored = true
							}
							if callsNamed(call, "Delete") {
								deleted = true
							}
						}
					}
				}
				switch {
				case stored && deleted:
					c.ok(rule, key, st.Pos(), "the function patches the vertex index itself: Store of the new key and Delete of the old key on the index map")
				case removed && added:
					c.ok(rule, key, st.Pos(), "bracketed by Remove(face) before and Add(face) after the rewrite")
				case reset:
					c.ok(rule, key, st.Pos(), "the vertex index is reset after the rewrite in the same function")
				default:
					c.bad(rule, key, st.Pos(), "a vertex of a face that is in a mesh is rewritten in place, but the function neither resets the vertex index afterwards, nor brackets the rewrite with Remove/Add, nor patches the index (Store new key + Delete old key): vertex and edge queries keep answering for the old coordinates")
				}
			}
		}
	}
}
