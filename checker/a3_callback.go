package main

import (
	"fmt"
	"go/ast"
	"go/token"
	"go/types"

	"golang.org/x/tools/go/packages"
)

// Rules produced by the callback-count driver:
//   <p>.CNT     at every return: number of callback invocations on the path ==
//               returned count (assuming a non-nil callback)
//   <p>.GUARD   every invocation of the callback parameter happens where the
//               callback is known to be non-nil
//   <p>.NILDEP  the count and the control flow do not depend on the callback
//               being nil

// cbSig describes the family: which parameter is the callback and which calls
// delegate to a sibling.
type cbFamily struct {
	prefix string
	// match returns the callback parameter of fd if fd belongs to the family.
	match func(p *packages.Package, fd *ast.FuncDecl) *types.Var
	// delegSig says whether a callee signature is a sibling (returns callback index)
	delegSig func(sig *types.Signature, name string) (int, bool)
	// delegFunc (optional) admits further callees by their identity
	delegFunc func(f *types.Func) (int, bool)
}

func calleeFunc(info *types.Info, call *ast.CallExpr) *types.Func {
	switch fun := ast.Unparen(call.Fun).(type) {
	case *ast.Ident:
		f, _ := info.Uses[fun].(*types.Func)
		return f
	case *ast.SelectorExpr:
		if sel, ok := info.Selections[fun]; ok {
			f, _ := sel.Obj().(*types.Func)
			return f
		}
		f, _ := info.Uses[fun.Sel].(*types.Func)
		return f
	}
	return nil
}

func (c *Ctx) runCallbackCount(fam cbFamily, pkgs []*packages.Package) {
	for _, p := range pkgs {
		if p == nil {
			continue
		}
		for _, file := range p.Syntax {
			for _, d := range file.Decls {
				fd, ok := d.(*ast.FuncDecl)
				if !ok || fd.Body == nil {
					continue
				}
				cb := fam.match(p, fd)
				if cb == nil {
					continue
				}
				c.analyseCallbackFunc(fam, p, fd, cb)
			}
		}
	}
}

func declName(p *packages.Package, fd *ast.FuncDecl) string {
	if obj, ok := p.TypesInfo.Defs[fd.Name].(*types.Func); ok {
		return objName(obj)
	}
	return fd.Name.Name
}

func (c *Ctx) analyseCallbackFunc(fam cbFamily, p *packages.Package, fd *ast.FuncDecl, cb *types.Var) {
	info := p.TypesInfo
	name := declName(p, fd)
	c.analysed(name)
	mode := a3Mode{callback: cb}
	mode.isDeleg = func(call *ast.CallExpr) (int, bool) {
		f := calleeFunc(info, call)
		if f == nil {
			return 0, false
		}
		sig, _ := f.Type().(*types.Signature)
		if sig == nil {
			return 0, false
		}
		if i, ok := fam.delegSig(sig, f.Name()); ok {
			return i, true
		}
		if fam.delegFunc != nil {
			return fam.delegFunc(f)
		}
		return 0, false
	}
	a := newA3(c, info, mode, fam.prefix+".CNT", name)
	a.collectAssigned(fd.Body)
	a.collectBoundLits(fd.Body)

	// tracked counters: integer variables occurring in return expressions
	// (outside function literals) and named results.
	if fd.Type.Results != nil {
		for _, f := range fd.Type.Results.List {
			for _, n := range f.Names {
				if v, ok := info.Defs[n].(*types.Var); ok && isIntVar(v) {
					a.addKey([]*types.Var{v})
				}
			}
		}
	}
	var returns []*ast.ReturnStmt
	var walk func(n ast.Node) bool
	walk = func(n ast.Node) bool {
		switch x := n.(type) {
		case *ast.FuncLit:
			return false
		case *ast.ReturnStmt:
			returns = append(returns, x)
			for _, r := range x.Results {
				var inExpr []*types.Var
				ast.Inspect(r, func(m ast.Node) bool {
					if _, ok := m.(*ast.FuncLit); ok {
						return false
					}
					if id, ok := m.(*ast.Ident); ok {
						if v, ok := info.Uses[id].(*types.Var); ok && isIntVar(v) && !v.IsField() &&
							v.Pos() >= fd.Pos() && v.Pos() <= fd.End() && a.assignedOrDeclaredLocal(fd, v) {
							dup := false
							for _, w := range inExpr {
								dup = dup || w == v
							}
							if !dup {
								inExpr = append(inExpr, v)
							}
						}
					}
					return true
				})
				a.addKey(inExpr)
			}
		}
		return true
	}
	ast.Inspect(fd.Body, walk)

	type retRes struct {
		ok     bool
		detail string
	}
	retResults := map[*ast.ReturnStmt]retRes{}
	cbResults := map[*ast.CallExpr]bool{}
	a.onReturn = func(st a3State, ret *ast.ReturnStmt) {
		var d lin
		switch {
		case len(ret.Results) == 0:
			// bare return with named result
			d = linTop()
			for v, dv := range st.D {
				if fd.Type.Results != nil && len(fd.Type.Results.List) > 0 && len(fd.Type.Results.List[0].Names) > 0 &&
					info.Defs[fd.Type.Results.List[0].Names[0]] == v {
					d = dv
				}
			}
		default:
			d = a.eMinus(&st, ret.Results[0])
		}
		if d.isZero() {
			retResults[ret] = retRes{true, "callback invocations - returned count = 0 on every path reaching this return"}
		} else {
			retResults[ret] = retRes{false, fmt.Sprintf("callback invocations - returned count = %s on some path reaching this return (returned expression %s)", d, types.ExprString(firstOr(ret.Results)))}
		}
	}
	a.onCallback = func(st *a3State, call *ast.CallExpr) {
		cbResults[call] = st.nonnil
	}

	// Locals contribute 0 until they are declared; named results start at
	// zero; assigned parameters have an unknown initial value.
	init := a3State{E: linConst(0), D: map[*types.Var]lin{}}
	for k, m := range a.members {
		init.D[k] = linConst(0)
		for _, v := range m {
			if a.isParam(fd, v) {
				init.D[k] = linTop()
			}
		}
	}
	out := a.block(fd.Body.List, init)
	_ = out

	for i, ret := range returns {
		r, seen := retResults[ret]
		key := fmt.Sprintf("%s return#%d", name, i+1)
		switch {
		case !seen:
			c.ok(fam.prefix+".CNT", key, ret.Pos(), "only reachable with a nil callback or unreachable (pruned)")
			c.Obs[len(c.Obs)-1].Trivial = true
		case r.ok:
			c.ok(fam.prefix+".CNT", key, ret.Pos(), r.detail)
		default:
			c.bad(fam.prefix+".CNT", key, ret.Pos(), r.detail)
		}
	}
	// GUARD
	var calls []*ast.CallExpr
	ast.Inspect(fd.Body, func(n ast.Node) bool {
		if call, ok := n.(*ast.CallExpr); ok && a.isCallbackIdent(call.Fun) {
			calls = append(calls, call)
		}
		return true
	})
	for i, call := range calls {
		key := fmt.Sprintf("%s call#%d of %s", name, i+1, cb.Name())
		nn, seen := cbResults[call]
		switch {
		case !seen:
			// never reached by the interpreter under the non-nil assumption:
			// the call sits in a nil-only region
			c.bad(fam.prefix+".GUARD", key, call.Pos(), "callback invoked in a region only executed when it is nil")
		case nn:
			c.ok(fam.prefix+".GUARD", key, call.Pos(), "dominated by a non-nil test of the callback")
		default:
			c.bad(fam.prefix+".GUARD", key, call.Pos(), "callback invoked without a dominating non-nil test (the contract allows a nil callback)")
		}
	}
	// callback handed to something that is not a sibling (escapes): the
	// pairing cannot be established.
	ast.Inspect(fd.Body, func(n ast.Node) bool {
		call, ok := n.(*ast.CallExpr)
		if !ok {
			return true
		}
		_, isD := a.isDelegCall(call)
		for _, arg := range call.Args {
			if a.isCallbackIdent(arg) && !isD {
				c.bad(fam.prefix+".CNT", name+" escape", call.Pos(), "callback passed to a function that is not a counting sibling")
			}
		}
		return true
	})
	// NILDEP
	c.nilDep(fam, a, p, fd, name)
	for _, u := range a.unsupported {
		c.problem("%s: construct not supported by the counter analysis: %s", name, u)
	}
}

func firstOr(es []ast.Expr) ast.Expr {
	if len(es) == 0 {
		return &ast.Ident{Name: "<named result>"}
	}
	return es[0]
}

func isIntVar(v *types.Var) bool {
	b, ok := v.Type().Underlying().(*types.Basic)
	return ok && b.Info()&types.IsInteger != 0
}

func (a *a3) isParam(fd *ast.FuncDecl, v *types.Var) bool {
	if fd.Type.Params != nil {
		for _, f := range fd.Type.Params.List {
			for _, n := range f.Names {
				if a.info.Defs[n] == v {
					return true
				}
			}
		}
	}
	return false
}

// assignedOrDeclaredLocal: v is a local variable of fd (not a parameter that
// is never assigned: those are symbolic constants).
func (a *a3) assignedOrDeclaredLocal(fd *ast.FuncDecl, v *types.Var) bool {
	if fd.Type.Params != nil {
		for _, f := range fd.Type.Params.List {
			for _, n := range f.Names {
				if a.info.Defs[n] == v {
					return a.assignedVars[v]
				}
			}
		}
	}
	return true
}

// nilDep checks the regions that are executed only for a non-nil (or only for
// a nil) callback.
func (c *Ctx) nilDep(fam cbFamily, a *a3, p *packages.Package, fd *ast.FuncDecl, name string) {
	info := p.TypesInfo
	n := 0
	var visitBlock func(list []ast.Stmt)
	checkRegion := func(region ast.Node, what string) []string {
		var probs []string
		if region == nil {
			return nil
		}
		depth := 0
		var walk func(m ast.Node) bool
		walk = func(m ast.Node) bool {
			switch x := m.(type) {
			case *ast.FuncLit:
				return false
			case *ast.ReturnStmt:
				probs = append(probs, "return inside a region executed only when the callback is "+what)
			case *ast.BranchStmt:
				if depth == 0 || x.Label != nil || x.Tok == token.GOTO {
					probs = append(probs, x.Tok.String()+" inside a region executed only when the callback is "+what)
				}
			case *ast.ForStmt, *ast.RangeStmt, *ast.SwitchStmt, *ast.TypeSwitchStmt, *ast.SelectStmt:
				depth++
				for _, cb := range childBlocks(x) {
					ast.Inspect(cb, walk)
				}
				depth--
				return false
			case *ast.IncDecStmt:
				if a.trackedIdent(x.X) != nil {
					probs = append(probs, "counter "+types.ExprString(x.X)+" updated only when the callback is "+what)
				}
			case *ast.AssignStmt:
				for _, l := range x.Lhs {
					if a.trackedIdent(l) != nil {
						probs = append(probs, "counter "+types.ExprString(l)+" assigned only when the callback is "+what)
					}
				}
			case *ast.CallExpr:
				if id, ok := x.Fun.(*ast.Ident); ok && id.Name == "panic" {
					if _, isB := info.Uses[id].(*types.Builtin); isB {
						probs = append(probs, "panic only when the callback is "+what)
					}
				}
			}
			return true
		}
		ast.Inspect(region, walk)
		return probs
	}
	restOf := map[ast.Stmt][]ast.Stmt{}
	ast.Inspect(fd.Body, func(m ast.Node) bool {
		var list []ast.Stmt
		switch x := m.(type) {
		case *ast.BlockStmt:
			list = x.List
		case *ast.CaseClause:
			list = x.Body
		}
		for i, s := range list {
			restOf[s] = list[i+1:]
		}
		return true
	})
	_ = visitBlock
	ast.Inspect(fd.Body, func(m ast.Node) bool {
		x, ok := m.(*ast.IfStmt)
		if !ok {
			return true
		}
		kind, exact := a.nilTest(x.Cond)
		if kind == 0 {
			return true
		}
		n++
		key := fmt.Sprintf("%s niltest#%d", name, n)
		var probs []string
		if kind == 1 {
			probs = append(probs, checkRegion(x.Body, "non-nil")...)
			if exact && x.Else != nil {
				probs = append(probs, checkRegion(x.Else, "nil")...)
			}
		} else {
			// f == nil: accepted idioms: empty body, or the pass-through
			// "return <sibling>(args, nil)" matched by a final
			// "return <sibling>(same args, g)".
			if exact && !c.nilPassThrough(a, info, x.Body, restOf[x]) {
				probs = append(probs, checkRegion(x.Body, "nil")...)
			}
			if x.Else != nil {
				probs = append(probs, checkRegion(x.Else, "non-nil")...)
			}
		}
		if len(probs) == 0 {
			c.ok(fam.prefix+".NILDEP", key, x.Pos(), "no counter update or control transfer depends on the callback being nil")
		} else {
			c.bad(fam.prefix+".NILDEP", key, x.Pos(), probs[0])
		}
		return true
	})
}

// nilPassThrough recognises
//
//	if f == nil { return x.M(args, nil) }
//	... return x.M(args, g)
func (c *Ctx) nilPassThrough(a *a3, info *types.Info, body *ast.BlockStmt, rest []ast.Stmt) bool {
	if len(body.List) == 0 {
		return true
	}
	if len(body.List) != 1 || len(rest) == 0 {
		return false
	}
	r1, ok := body.List[0].(*ast.ReturnStmt)
	if !ok || len(r1.Results) != 1 {
		return false
	}
	// early return: "if f == nil { return K }; f(...); return K" — the nil path
	// skips nothing but invocations of the callback and returns the same
	// literal or variable.
	if r2, ok := rest[len(rest)-1].(*ast.ReturnStmt); ok && len(r2.Results) == 1 {
		simple := func(e ast.Expr) bool {
			switch ast.Unparen(e).(type) {
			case *ast.BasicLit, *ast.Ident:
				return true
			}
			return false
		}
		if simple(r1.Results[0]) && simple(r2.Results[0]) && types.ExprString(r1.Results[0]) == types.ExprString(r2.Results[0]) {
			onlyInvocations := true
			for _, st := range rest[:len(rest)-1] {
				es, ok := st.(*ast.ExprStmt)
				if !ok {
					onlyInvocations = false
					break
				}
				call, ok := es.X.(*ast.CallExpr)
				if !ok || !a.isCallbackIdent(call.Fun) {
					onlyInvocations = false
					break
				}
			}
			if onlyInvocations {
				return true
			}
		}
	}
	r2, ok := rest[len(rest)-1].(*ast.ReturnStmt)
	if !ok || len(r2.Results) != 1 {
		return false
	}
	c1, ok1 := ast.Unparen(r1.Results[0]).(*ast.CallExpr)
	c2, ok2 := ast.Unparen(r2.Results[0]).(*ast.CallExpr)
	if !ok1 || !ok2 {
		return false
	}
	i1, d1 := a.isDelegCall(c1)
	i2, d2 := a.isDelegCall(c2)
	if !d1 || !d2 || i1 != i2 || len(c1.Args) != len(c2.Args) {
		return false
	}
	if calleeFunc(info, c1) != calleeFunc(info, c2) || types.ExprString(c1.Fun) != types.ExprString(c2.Fun) {
		return false
	}
	if !isNilIdent(info, c1.Args[i1]) {
		return false
	}
	for i := range c1.Args {
		if i != i1 && types.ExprString(c1.Args[i]) != types.ExprString(c2.Args[i]) {
			return false
		}
	}
	// the statements between must not touch anything: only the final return
	return len(rest) == 1
}
