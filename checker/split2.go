package main

// SPLIT2 — a sequence cut into two result pieces s[:k] and s[k:] at an index
// k obtained from a search must keep both pieces non-empty: k is clamped
// from above (k <= len-1) AND from below (k >= 1). A one-sided clamp lets one
// piece be empty and the other the whole sequence (an empty chart plus a
// closed surface in the sphere case of nextMeshPlaneGraphs).

import (
	"go/constant"
	"go/token"

	"golang.org/x/tools/go/packages"
	"golang.org/x/tools/go/ssa"
)

func (c *Ctx) runSplit2(rule string, pkgs []*packages.Package, fileOK func(fn *ssa.Function) bool) {
	for _, p := range pkgs {
		if p == nil {
			continue
		}
		for _, fn := range c.srcFuncs(p) {
			if fileOK != nil && !fileOK(fn) {
				continue
			}
			type cut struct{ lo, hi *ssa.Slice }
			cuts := map[ssa.Value]map[ssa.Value]*cut{} // base -> k -> cut
			for _, b := range fn.Blocks {
				for _, ins := range b.Instrs {
					sl, ok := ins.(*ssa.Slice)
					if !ok || sl.Max != nil {
						continue
					}
					var k ssa.Value
					isLo := false
					switch {
					case sl.Low == nil && sl.High != nil:
						k, isLo = sl.High, true
					case sl.Low != nil && sl.High == nil:
						k = sl.Low
					default:
						continue
					}
					if _, isConst := k.(*ssa.Const); isConst {
						continue
					}
					base := sl.X
					if ld, ok := base.(*ssa.UnOp); ok && ld.Op == token.MUL {
						base = ld.X // a captured / address-taken variable: key by its cell
					}
					if cuts[base] == nil {
						cuts[base] = map[ssa.Value]*cut{}
					}
					if cuts[base][k] == nil {
						cuts[base][k] = &cut{}
					}
					if isLo {
						cuts[base][k].lo = sl
					} else {
						cuts[base][k].hi = sl
					}
				}
			}
			for _, byK := range cuts {
				for k, ct := range byK {
					if ct.lo == nil || ct.hi == nil || ct.lo.Block() != ct.hi.Block() {
						continue
					}
					// k must come from a search (sort.Search*) through clamping phis
					web := map[ssa.Value]bool{}
					fromSearch := false
					var walk func(v ssa.Value)
					walk = func(v ssa.Value) {
						if web[v] {
							return
						}
						web[v] = true
						switch x := v.(type) {
						case *ssa.Phi:
							for _, e := range x.Edges {
								walk(e)
							}
						case *ssa.Call:
							if f := x.Call.StaticCallee(); f != nil && f.Pkg != nil && f.Pkg.Pkg.Path() == "sort" {
								fromSearch = true
							}
						}
					}
					walk(k)
					if !fromSearch {
						continue
					}
					c.analysed(qname(fn))
					lower, upper := false, false
					for _, b := range fn.Blocks {
						ifi, ok := b.Instrs[len(b.Instrs)-1].(*ssa.If)
						if !ok {
							continue
						}
						be, ok := ifi.Cond.(*ssa.BinOp)
						if !ok || !web[be.X] {
							continue
						}
						if kc, ok := be.Y.(*ssa.Const); ok && kc.Value != nil && kc.Value.Kind() == constant.Int {
							n, _ := constant.Int64Val(kc.Value)
							if be.Op == token.LSS && n == 1 || be.Op == token.LEQ && n == 0 || be.Op == token.EQL && n == 0 {
								lower = true
							}
						} else if be.Op == token.GTR || be.Op == token.GEQ || be.Op == token.EQL {
							upper = true
						}
					}
					key := qname(fn) + " two-piece split"
					switch {
					case lower && upper:
						c.ok(rule, key, ct.lo.Pos(), "the split index is clamped from below and from above: neither piece is empty")
					case upper:
						c.bad(rule, key, ct.lo.Pos(), "the split index from the search is clamped only from above: index 0 yields an empty first piece and the whole sequence as the second")
					case lower:
						c.bad(rule, key, ct.lo.Pos(), "the split index from the search is clamped only from below: the last piece can be empty")
					default:
						c.bad(rule, key, ct.lo.Pos(), "the split index from the search is not clamped: one of the two pieces can be empty")
					}
				}
			}
		}
	}
}
