package main

import (
	"fmt"
	"go/token"
	"go/types"

	"golang.org/x/tools/go/packages"
	"golang.org/x/tools/go/ssa"
)

// PUBLISH: what is put into a concurrent container (sync.Map, atomic.Value)
// is visible to other goroutines from that moment on. For every
// Store/LoadOrStore/Swap on such a container the payload must be complete
// when it goes in: no store through the payload pointer may be reachable after
// the publishing call, and no store may go through a pointer that came OUT of
// the container (Load / LoadOrStore result) - the slot-then-fill idiom hands
// an unfilled value to whoever asks in between.
func (c *Ctx) runPublish(rule string, pkgs []*packages.Package) {
	isContainer := func(t types.Type) bool {
		if p, ok := t.(*types.Pointer); ok {
			t = p.Elem()
		}
		n, ok := t.(*types.Named)
		if !ok || n.Obj().Pkg() == nil {
			return false
		}
		path, name := n.Obj().Pkg().Path(), n.Obj().Name()
		return path == "sync" && name == "Map" || path == "sync/atomic" && name == "Value"
	}
	// root of an address: strips FieldAddr/IndexAddr
	var root func(v ssa.Value) ssa.Value
	root = func(v ssa.Value) ssa.Value {
		switch x := v.(type) {
		case *ssa.FieldAddr:
			return root(x.X)
		case *ssa.IndexAddr:
			return root(x.X)
		}
		return v
	}
	// fromContainer: v is (a type assertion of) a value loaded from a container
	var fromContainer func(v ssa.Value, depth int) bool
	fromContainer = func(v ssa.Value, depth int) bool {
		if depth > 6 {
			return false
		}
		switch x := v.(type) {
		case *ssa.TypeAssert:
			return fromContainer(x.X, depth+1)
		case *ssa.Extract:
			return fromContainer(x.Tuple, depth+1)
		case *ssa.Call:
			if f := x.Call.StaticCallee(); f != nil && f.Signature.Recv() != nil && isContainer(f.Signature.Recv().Type()) {
				switch f.Name() {
				case "Load", "LoadOrStore", "Swap", "LoadAndDelete":
					return true
				}
			}
		}
		return false
	}
	for _, p := range pkgs {
		if p == nil {
			continue
		}
		for _, fn := range c.srcFuncs(p) {
			n := 0
			for _, b := range fn.Blocks {
				for i, ins := range b.Instrs {
					call, ok := ins.(*ssa.Call)
					if !ok {
						continue
					}
					f := call.Call.StaticCallee()
					if f == nil || f.Signature.Recv() == nil || !isContainer(f.Signature.Recv().Type()) {
						continue
					}
					var payload ssa.Value
					switch f.Name() {
					case "Store", "LoadOrStore", "Swap":
						payload = call.Call.Args[len(call.Call.Args)-1]
					case "CompareAndSwap":
						payload = call.Call.Args[len(call.Call.Args)-1]
					default:
						continue
					}
					n++
					c.analysed(qname(fn))
					key := fmt.Sprintf("%s publish#%d %s", qname(fn), n, f.Name())
					if mi, ok := payload.(*ssa.MakeInterface); ok {
						payload = mi.X
					}
					bad := token.NoPos
					if _, isPtr := payload.Type().Underlying().(*types.Pointer); isPtr {
						// stores through the payload after the call
						after := map[*ssa.BasicBlock]bool{}
						var walk func(x *ssa.BasicBlock)
						walk = func(x *ssa.BasicBlock) {
							for _, s := range x.Succs {
								if !after[s] {
									after[s] = true
									walk(s)
								}
							}
						}
						walk(b)
						for _, b2 := range fn.Blocks {
							for j, ins2 := range b2.Instrs {
								st, ok := ins2.(*ssa.Store)
								if !ok || root(st.Addr) != payload {
									continue
								}
								if after[b2] || (b2 == b && j > i) {
									bad = st.Pos()
								}
							}
						}
					}
					// stores through what LoadOrStore handed back
					if f.Name() == "LoadOrStore" || f.Name() == "Swap" {
						for _, b2 := range fn.Blocks {
							for _, ins2 := range b2.Instrs {
								if st, ok := ins2.(*ssa.Store); ok && fromContainer(root(st.Addr), 0) {
									bad = st.Pos()
								}
							}
						}
					}
					if bad != token.NoPos {
						c.bad(rule, key, bad, "memory that is already visible through the concurrent container is written afterwards: a goroutine that finds the entry in between reads an unfilled value")
					} else {
						c.ok(rule, key, call.Pos(), "the payload is complete when it is published")
					}
				}
			}
		}
	}
}
