package main

// GD — guard dominance for bounded solids.
//
//   GD.CHK  inside CheckedFuncSolid (2D, 3D) the user predicate is only called
//           where the point passed BOTH bound tests (c.Min(min)==min and
//           c.Max(max)==max, or InBounds);
//   GD.RAW  nothing in the library but CheckedFuncSolid calls the unchecked
//           FuncSolid (who-may-call; every combinator that imposes a box goes
//           through the checked wrapper);
//   GD.INB  the Contains methods that rely on an explicit InBounds(receiver, c)
//           test (frozen from the tree after reading: their membership test is
//           defined, and can be true, outside the box) return anything but
//           false only where that test succeeded;
//   ABSORB  no bound is computed as x.Max(y.Min(x)) or x.Min(y.Max(x)): by the
//           absorption law that is just x (a paired min/max update that reads
//           the already-overwritten partner).

import (
	"fmt"
	"go/token"
	"go/types"
	"strings"

	"golang.org/x/tools/go/packages"
	"golang.org/x/tools/go/ssa"
)

// inBoundsRequired: (package, receiver type) whose Contains must be guarded by
// InBounds(receiver, point). One line of reason each.
var inBoundsRequired = []struct{ pkg, typ, why string }{
	{"model3d", "StackedSolid", "operands are queried at shifted points; the stack's box is the only clip"},
	{"model3d", "ColliderSolid", "ray-parity / ball tests are defined for every point of space"},
	{"model3d", "polytopeSolid", "an unbounded polytope has points outside the cached box"},
	{"model2d", "ColliderSolid", "ray-parity / ball tests are defined for every point of space"},
	{"model2d", "polytopeSolid", "an unbounded polytope has points outside the cached box"},
	{"model2d", "Triangle", "the barycentric test is preceded by the box test"},
	{"toolbox3d", "heightMapSolid", "height lookup interpolates one cell beyond the grid"},
	{"toolbox3d", "involuteGearProfile", "the involute construction is defined for every polar angle"},
	{"toolbox3d", "HelicalGear", "the profile is periodic in the angle and unbounded in z"},
	{"toolbox3d", "SpurGear", "the profile is unbounded in z"},
}

func isInBoundsCall(v ssa.Value) *ssa.Call {
	call, ok := v.(*ssa.Call)
	if !ok {
		return nil
	}
	f := call.Call.StaticCallee()
	if f == nil || f.Name() != "InBounds" || !strings.HasPrefix(pkgPathOf(f), repoMod+"/model") {
		return nil
	}
	return call
}

// inBoundsTrueAt: a dominating edge establishes InBounds(recv, ...) == true.
func inBoundsTrueAt(b *ssa.BasicBlock, extra []fact) bool {
	for _, f := range append(factsAt(b), extra...) {
		v, taken := f.cond, f.taken
		if un, ok := v.(*ssa.UnOp); ok && un.Op == token.NOT {
			v, taken = un.X, !taken
		}
		if isInBoundsCall(v) != nil && taken {
			return true
		}
	}
	return false
}

func isConstFalse(v ssa.Value) bool {
	c, ok := v.(*ssa.Const)
	return ok && c.Value != nil && c.Value.String() == "false"
}

// unguardedReturn: the position of a return of anything but false that is not
// dominated by InBounds(...) == true; "" when there is none.
func (c *Ctx) unguardedReturn(fn *ssa.Function) string {
	bad := ""
	for _, b := range fn.Blocks {
		ret, ok := b.Instrs[len(b.Instrs)-1].(*ssa.Return)
		if !ok || len(ret.Results) != 1 {
			continue
		}
		r := ret.Results[0]
		if isConstFalse(r) {
			continue
		}
		if inBoundsTrueAt(b, nil) {
			continue
		}
		if phi, ok := r.(*ssa.Phi); ok && phi.Block() == b {
			allOK := true
			for i, e := range phi.Edges {
				pred := b.Preds[i]
				if isConstFalse(e) || inBoundsTrueAt(pred, edgeFact(pred, b)) {
					continue
				}
				allOK = false
			}
			if allOK {
				continue
			}
		}
		bad = c.pos(ret.Pos())
	}
	return bad
}

// runWarpGuard (GD.WARP): a Contains method whose type inherits Min/Max from
// an embedded field (promoted methods: the box is the inner object's box,
// unchanged) and that asks that same field's Contains about a point other than
// its own argument answers for a remapped point with an unmapped box; it has to
// test InBounds(receiver, point) first. Found by shape, not by name.
func (c *Ctx) runWarpGuard(rule string, pkgs []*packages.Package) {
	for _, p := range pkgs {
		if p == nil {
			continue
		}
		for _, fn := range c.srcFuncs(p) {
			if fn.Name() != "Contains" || fn.Signature.Recv() == nil || len(fn.Params) != 2 || !isCoordType(fn.Params[1].Type()) {
				continue
			}
			recvT := fn.Signature.Recv().Type()
			sel := types.NewMethodSet(recvT).Lookup(fn.Pkg.Pkg, "Min")
			if sel == nil {
				if pt, ok := recvT.(*types.Pointer); !ok {
					sel = types.NewMethodSet(types.NewPointer(recvT)).Lookup(fn.Pkg.Pkg, "Min")
				} else {
					_ = pt
				}
			}
			if sel == nil || len(sel.Index()) < 2 {
				continue // own Min method: the type computes its own box
			}
			field := sel.Index()[0]
			remapped := token.NoPos
			for _, b := range fn.Blocks {
				for _, ins := range b.Instrs {
					call, ok := ins.(*ssa.Call)
					if !ok || len(call.Call.Args) == 0 {
						continue
					}
					var recv, arg ssa.Value
					if call.Call.IsInvoke() {
						if call.Call.Method.Name() != "Contains" || len(call.Call.Args) != 1 {
							continue
						}
						recv, arg = call.Call.Value, call.Call.Args[0]
					} else if f := call.Call.StaticCallee(); f != nil && f.Name() == "Contains" && f.Signature.Recv() != nil && len(call.Call.Args) == 2 {
						recv, arg = call.Call.Args[0], call.Call.Args[1]
					} else {
						continue
					}
					if un, ok := recv.(*ssa.UnOp); ok && un.Op == token.MUL {
						recv = un.X
					}
					fa, ok := recv.(*ssa.FieldAddr)
					if !ok || fa.Field != field || fa.X != fn.Params[0] {
						continue
					}
					if arg != fn.Params[1] {
						remapped = call.Pos()
					}
				}
			}
			if remapped == token.NoPos {
				continue
			}
			c.analysed(qname(fn))
			key := qname(fn) + " remapped query under an inherited box"
			if bad := c.unguardedReturn(fn); bad == "" {
				c.ok(rule, key, fn.Pos(), "the embedded object is asked about a remapped point and every non-false result is dominated by InBounds(receiver, point)")
			} else {
				c.bad(rule, key, remapped, "the embedded object, whose box this type reports unchanged, is asked about a remapped point, and the result returned at "+bad+" is not guarded by InBounds(receiver, point): a point outside the reported box can be contained")
			}
		}
	}
}

func (c *Ctx) runGuardDominance(prefix string) {
	// GD.INB
	for _, req := range inBoundsRequired {
		m := c.mustFunc(req.pkg, req.typ+".Contains")
		fn := c.ssaFunc(m)
		if fn == nil {
			continue
		}
		c.analysed(qname(fn))
		key := fmt.Sprintf("%s.%s.Contains guarded by InBounds", req.pkg, req.typ)
		bad := c.unguardedReturn(fn)
		if bad == "" {
			c.ok(prefix+".INB", key, fn.Pos(), "every non-false result is dominated by InBounds(receiver, point) == true ("+req.why+")")
		} else {
			c.bad(prefix+".INB", key, fn.Pos(), "a result other than false is returned at "+bad+" without a dominating InBounds(receiver, point) test: points outside the reported box can be contained ("+req.why+")")
		}
	}
	// GD.BOX: the two wrappers documented to impose a box never return their
	// argument as it came (directly or through a type assertion)
	for _, short := range []string{"model3d", "model2d"} {
		for _, name := range []string{"ForceSolidBounds", "CacheSolidBounds"} {
			fn := c.ssaFunc(c.mustFunc(short, name))
			if fn == nil {
				continue
			}
			c.analysed(qname(fn))
			key := short + "." + name + " returns a checked solid"
			bad := ""
			for _, b := range fn.Blocks {
				ret, ok := b.Instrs[len(b.Instrs)-1].(*ssa.Return)
				if !ok || len(ret.Results) != 1 {
					continue
				}
				// definite only: the argument itself (possibly through a type
				// assertion) is handed back
				v := ret.Results[0]
				for depth := 0; depth < 6; depth++ {
					switch x := v.(type) {
					case *ssa.MakeInterface:
						v = x.X
						continue
					case *ssa.ChangeInterface:
						v = x.X
						continue
					case *ssa.TypeAssert:
						v = x.X
						continue
					case *ssa.Extract:
						v = x.Tuple
						continue
					}
					break
				}
				if p, isP := v.(*ssa.Parameter); isP && p.Parent() == fn {
					bad = c.pos(ret.Pos())
				}
			}
			if bad == "" {
				c.ok(prefix+".BOX", key, fn.Pos(), "no path hands the argument back as it came")
			} else {
				c.bad(prefix+".BOX", key, fn.Pos(), "the return at "+bad+" hands the argument back as it came: the box this wrapper promises to impose is not tested on that path")
			}
		}
	}
	// GD.CHK and GD.RAW
	for _, short := range []string{"model3d", "model2d"} {
		chk := c.ssaFunc(c.mustFunc(short, "CheckedFuncSolid"))
		raw := c.mustFunc(short, "FuncSolid")
		if chk == nil || raw == nil {
			continue
		}
		c.analysed(qname(chk))
		key := short + ".CheckedFuncSolid tests both bounds before the predicate"
		n, bad := 0, ""
		for _, cl := range chk.AnonFuncs {
			for _, b := range cl.Blocks {
				for _, ins := range b.Instrs {
					call, ok := ins.(*ssa.Call)
					if !ok {
						continue
					}
					// call of the captured predicate
					ld, ok := call.Call.Value.(*ssa.UnOp)
					var fv *ssa.FreeVar
					if ok {
						fv, _ = ld.X.(*ssa.FreeVar)
					} else {
						fv, _ = call.Call.Value.(*ssa.FreeVar)
					}
					if fv == nil {
						continue
					}
					if _, isSig := fv.Type().Underlying().(interface{ Params() interface{} }); isSig {
						_ = isSig
					}
					n++
					lo, hi := false, false
					for _, f := range factsAt(b) {
						if isInBoundsCall(f.cond) != nil && f.taken {
							lo, hi = true, true
						}
						be, ok := f.cond.(*ssa.BinOp)
						if !ok || !((be.Op == token.EQL && f.taken) || (be.Op == token.NEQ && !f.taken)) {
							continue
						}
						for _, side := range []ssa.Value{be.X, be.Y} {
							if sc, ok := side.(*ssa.Call); ok {
								if callee := sc.Call.StaticCallee(); callee != nil && callee.Signature.Recv() != nil && isCoordType(callee.Signature.Recv().Type()) {
									switch callee.Name() {
									case "Min":
										lo = true // c.Min(min) == min  <=>  c >= min
									case "Max":
										hi = true
									}
								}
							}
						}
					}
					if !lo || !hi {
						bad = fmt.Sprintf("the predicate is called at %s where only lower=%v upper=%v bound tests dominate", c.pos(call.Pos()), lo, hi)
					}
				}
			}
		}
		switch {
		case n == 0:
			c.problem("%s: no call of the predicate found in the closure", key)
		case bad != "":
			c.bad(prefix+".CHK", key, chk.Pos(), bad+": a predicate that is true outside the box leaks points outside the reported bounds")
		default:
			c.ok(prefix+".CHK", key, chk.Pos(), "the predicate call is dominated by both c.Min(min)==min and c.Max(max)==max")
		}
		// who calls the unchecked constructor
		nCallers := 0
		for _, p := range c.libPkgs() {
			for _, fn := range c.srcFuncs(p) {
				for _, b := range fn.Blocks {
					for _, ins := range b.Instrs {
						call, ok := ins.(*ssa.Call)
						if !ok || call.Call.StaticCallee() == nil || call.Call.StaticCallee().Object() != raw {
							continue
						}
						nCallers++
						k := fmt.Sprintf("%s calls %s.FuncSolid", qname(fn), short)
						if fn == chk {
							c.ok(prefix+".RAW", k, call.Pos(), "the checked wrapper itself")
						} else {
							c.bad(prefix+".RAW", k, call.Pos(), "a library function builds a solid with the UNCHECKED FuncSolid: its predicate is not clipped to the reported bounds")
						}
					}
				}
			}
		}
		if nCallers == 0 {
			c.problem("%s.FuncSolid has no caller at all (CheckedFuncSolid no longer wraps it?)", short)
		}
	}
}

// ABSORB
func (c *Ctx) runAbsorption(rule string, pkgs []*packages.Package, filter func(fn *ssa.Function) bool) {
	minMax := func(v ssa.Value) (name string, a, b ssa.Value, ok bool) {
		call, isC := v.(*ssa.Call)
		if !isC {
			return
		}
		f := call.Call.StaticCallee()
		if f == nil || len(call.Call.Args) != 2 {
			return
		}
		if f.Signature.Recv() != nil && isCoordType(f.Signature.Recv().Type()) && (f.Name() == "Min" || f.Name() == "Max") {
			return f.Name(), call.Call.Args[0], call.Call.Args[1], true
		}
		if f.Pkg != nil && f.Pkg.Pkg.Path() == "math" && (f.Name() == "Min" || f.Name() == "Max") {
			return f.Name(), call.Call.Args[0], call.Call.Args[1], true
		}
		return
	}
	for _, p := range pkgs {
		if p == nil {
			continue
		}
		for _, fn := range c.srcFuncs(p) {
			if filter != nil && !filter(fn) {
				continue
			}
			n := 0
			for _, b := range fn.Blocks {
				for _, ins := range b.Instrs {
					v, ok := ins.(ssa.Value)
					if !ok {
						continue
					}
					name, x, y, ok := minMax(v)
					if !ok {
						continue
					}
					n++
					c.analysed(qname(fn))
					key := fmt.Sprintf("%s %s#%d", qname(fn), strings.ToLower(name), n)
					degenerate := false
					for _, pair := range [][2]ssa.Value{{x, y}, {y, x}} {
						in, p1, p2, ok := minMax(pair[1])
						if ok && in != name && (equivPure(p1, pair[0], 0) || equivPure(p2, pair[0], 0)) {
							degenerate = true
						}
					}
					if degenerate {
						c.bad(rule, key, ins.Pos(), fmt.Sprintf("x.%s(y.%s(x)) is always x (absorption law): one of a pair of bounds is updated from the other after that one was already overwritten", name, map[string]string{"Min": "Max", "Max": "Min"}[name]))
					} else {
						c.ok(rule, key, ins.Pos(), "not an absorbed min/max")
					}
				}
			}
		}
	}
}

// equivPure: the same value, or two evaluations of the same pure expression
// (go/ssa has no CSE): calls of the same method of the coordinate vocabulary
// or of package math with pairwise equivalent arguments.
func equivPure(a, b ssa.Value, depth int) bool {
	if a == b || equivValue(a, b, 0) {
		return true
	}
	if depth > 4 {
		return false
	}
	ca, ok1 := a.(*ssa.Call)
	cb, ok2 := b.(*ssa.Call)
	if !ok1 || !ok2 {
		return false
	}
	fa, fb := ca.Call.StaticCallee(), cb.Call.StaticCallee()
	if fa == nil || fa != fb || len(ca.Call.Args) != len(cb.Call.Args) {
		return false
	}
	pure := fa.Pkg != nil && fa.Pkg.Pkg.Path() == "math" || fa.Signature.Recv() != nil && isCoordType(fa.Signature.Recv().Type())
	if !pure {
		return false
	}
	for i := range ca.Call.Args {
		if !equivPure(ca.Call.Args[i], cb.Call.Args[i], depth+1) {
			return false
		}
	}
	return true
}

// BOUNDDIR — sibling agreement of bound folds: within the Min and Max methods
// of one combinator type, the operands' lower bounds (results of .Min()) are
// always folded with one of Coord.Min / Coord.Max and the operands' upper
// bounds (.Max()) with the other one. (A union takes Min of mins and Max of
// maxes, an intersection the opposite; mixing them inside one type yields
// boxes with max < min or boxes that cut the shape.)
func (c *Ctx) runBoundDirection(rule string, pkgs []*packages.Package, filter func(fn *ssa.Function) bool) {
	type obs struct {
		comb string
		pos  token.Pos
		fn   string
	}
	byType := map[string]map[string][]obs{} // type -> "lower"/"upper" -> observations
	boundSource := func(v ssa.Value) string {
		call, ok := v.(*ssa.Call)
		if !ok {
			return ""
		}
		name := ""
		var res interface{ String() string }
		if call.Call.IsInvoke() {
			name = call.Call.Method.Name()
		} else if f := call.Call.StaticCallee(); f != nil && f.Signature.Recv() != nil && !isCoordType(f.Signature.Recv().Type()) {
			name = f.Name()
		}
		_ = res
		if !isCoordType(call.Type()) {
			return ""
		}
		switch name {
		case "Min":
			return "lower"
		case "Max":
			return "upper"
		}
		return ""
	}
	for _, p := range pkgs {
		if p == nil {
			continue
		}
		for _, fn := range c.srcFuncs(p) {
			if filter != nil && !filter(fn) {
				continue
			}
			if fn.Signature.Recv() == nil || (fn.Name() != "Min" && fn.Name() != "Max") || isCoordType(fn.Signature.Recv().Type()) {
				continue
			}
			tname := shortPkg(pkgPathOf(fn)) + "." + typeNameOf(fn.Signature.Recv().Type())
			for _, b := range fn.Blocks {
				for _, ins := range b.Instrs {
					call, ok := ins.(*ssa.Call)
					if !ok {
						continue
					}
					f := call.Call.StaticCallee()
					if f == nil || f.Signature.Recv() == nil || !isCoordType(f.Signature.Recv().Type()) || (f.Name() != "Min" && f.Name() != "Max") {
						continue
					}
					for _, a := range call.Call.Args {
						if src := boundSource(a); src != "" {
							if byType[tname] == nil {
								byType[tname] = map[string][]obs{}
							}
							byType[tname][src] = append(byType[tname][src], obs{f.Name(), call.Pos(), qname(fn)})
						}
					}
				}
			}
		}
	}
	for tname, m := range byType {
		c.analysed(tname)
		key := tname + " folds operand bounds consistently"
		problem := ""
		var pos token.Pos
		dir := map[string]string{}
		for _, src := range []string{"lower", "upper"} {
			for _, o := range m[src] {
				pos = o.pos
				if dir[src] == "" {
					dir[src] = o.comb
				} else if dir[src] != o.comb {
					problem = fmt.Sprintf("the operands' %s bounds are folded with Coord.%s in one place and Coord.%s in %s", src, dir[src], o.comb, o.fn)
				}
			}
		}
		if problem == "" && dir["lower"] != "" && dir["lower"] == dir["upper"] {
			problem = "lower and upper bounds of the operands are folded with the same operation Coord." + dir["lower"]
		}
		if problem != "" {
			c.bad(rule, key, pos, problem+": the reported box is not the union/intersection box of the operands")
		} else {
			c.ok(rule, key, pos, fmt.Sprintf("lower bounds with %s, upper bounds with %s", dir["lower"], dir["upper"]))
		}
	}
}
