package main

// A3 — paired event/counter analysis.
//
// A structured abstract interpreter over the type-checked AST of one function.
// It tracks, along every path,
//   E      = number of events so far (callback invocations / accumulations),
//   D[v]   = E - v for every candidate counter variable v,
// as linear expressions over symbolic terms (len(S), an immutable bound N, the
// unknown result of a delegated call), or "unknown". Joins keep a value only
// if it is equal on all incoming paths, so D[v] survives loops whose
// iterations pair every event with a counter update, although E does not.
// The analysis is done under the assumption "callback != nil" (branches that
// are only executed for a nil callback are pruned); what happens for a nil
// callback is covered by the separate rules GUARD and NILDEP.

import (
	"fmt"
	"go/ast"
	"go/constant"
	"go/token"
	"go/types"
	"sort"
	"strings"
)

type lin struct {
	top bool
	c   int
	t   map[string]int
}

func linConst(k int) lin           { return lin{c: k} }
func linTerm(name string) lin      { return lin{t: map[string]int{name: 1}} }
func linTop() lin                  { return lin{top: true} }
func (a lin) isZero() bool         { return !a.top && a.c == 0 && len(a.t) == 0 }
func (a lin) isConst() (int, bool) { return a.c, !a.top && len(a.t) == 0 }

func (a lin) add(b lin) lin { return a.comb(b, 1) }
func (a lin) sub(b lin) lin { return a.comb(b, -1) }
func (a lin) comb(b lin, s int) lin {
	if a.top || b.top {
		return linTop()
	}
	r := lin{c: a.c + s*b.c, t: map[string]int{}}
	for k, v := range a.t {
		r.t[k] = v
	}
	for k, v := range b.t {
		r.t[k] += s * v
		if r.t[k] == 0 {
			delete(r.t, k)
		}
	}
	return r
}
func (a lin) scale(k int) lin {
	if a.top {
		return a
	}
	r := lin{c: a.c * k, t: map[string]int{}}
	for n, v := range a.t {
		if v*k != 0 {
			r.t[n] = v * k
		}
	}
	return r
}
func (a lin) eq(b lin) bool {
	if a.top || b.top {
		return a.top == b.top
	}
	if a.c != b.c || len(a.t) != len(b.t) {
		return false
	}
	for k, v := range a.t {
		if b.t[k] != v {
			return false
		}
	}
	return true
}
func (a lin) String() string {
	if a.top {
		return "unknown"
	}
	var parts []string
	keys := make([]string, 0, len(a.t))
	for k := range a.t {
		keys = append(keys, k)
	}
	sort.Strings(keys)
	for _, k := range keys {
		parts = append(parts, fmt.Sprintf("%+d*%s", a.t[k], k))
	}
	if a.c != 0 || len(parts) == 0 {
		parts = append(parts, fmt.Sprintf("%+d", a.c))
	}
	return strings.Join(parts, "")
}
func joinLin(a, b lin) lin {
	if a.eq(b) {
		return a
	}
	return linTop()
}

type a3State struct {
	dead   bool
	E      lin
	D      map[*types.Var]lin
	nonnil bool
}

func (s a3State) clone() a3State {
	r := a3State{dead: s.dead, E: s.E, nonnil: s.nonnil, D: map[*types.Var]lin{}}
	for k, v := range s.D {
		r.D[k] = v
	}
	return r
}

func joinState(a, b a3State) a3State {
	if a.dead {
		return b.clone()
	}
	if b.dead {
		return a.clone()
	}
	r := a3State{E: joinLin(a.E, b.E), nonnil: a.nonnil && b.nonnil, D: map[*types.Var]lin{}}
	for k, v := range a.D {
		if w, ok := b.D[k]; ok {
			r.D[k] = joinLin(v, w)
		} else {
			r.D[k] = linTop()
		}
	}
	for k := range b.D {
		if _, ok := a.D[k]; !ok {
			r.D[k] = linTop()
		}
	}
	return r
}

func stateEq(a, b a3State) bool {
	if a.dead != b.dead {
		return false
	}
	if a.dead {
		return true
	}
	if !a.E.eq(b.E) || a.nonnil != b.nonnil || len(a.D) != len(b.D) {
		return false
	}
	for k, v := range a.D {
		w, ok := b.D[k]
		if !ok || !v.eq(w) {
			return false
		}
	}
	return true
}

type a3Target struct {
	label     string
	isLoop    bool
	breaks    []a3State
	continues []a3State
}

// a3Mode configures what is an event and what is checked.
type a3Mode struct {
	// callback mode
	callback *types.Var
	// isDeleg reports whether a call delegates counting+callbacks (a sibling
	// RayCollisions-like method) and returns the index of the callback argument.
	isDeleg func(call *ast.CallExpr) (cbIndex int, ok bool)
	// accumulation mode
	accum *types.Var // events are statements "accum = accum.Add(x)"
}

type a3 struct {
	c       *Ctx
	info    *types.Info
	mode    a3Mode
	fnName  string
	tracked map[*types.Var]bool // keys: a counter variable, or a synthetic variable standing for a sum of counters
	members map[*types.Var][]*types.Var
	targets []*a3Target
	// closure analysis
	inClosure      int
	closureReturns []a3State
	unsupported    []string
	nDeleg         int
	delegTerm      map[*ast.CallExpr]string
	delegEquiv     map[*ast.CallExpr]bool
	// results
	rule            string
	onReturn        func(st a3State, ret *ast.ReturnStmt)
	onStmt          func(st a3State, s ast.Stmt)
	closureReported map[*ast.FuncLit]bool
	eventSites      int
	assignedVars    map[*types.Var]bool
	onCallback      func(st *a3State, call *ast.CallExpr)
	onCall          func(st *a3State, call *ast.CallExpr)
	pendingLabel    string
	probing         int
	// local reporter closures: `report := func(..) { if f != nil { f(..) } }` —
	// a function literal bound once to a local variable that performs a
	// constant number of events per invocation and touches no counter; each
	// call of the variable then counts as that many events.
	localEvents map[types.Object]int
	// delegated callbacks held in a local variable: `var cb func(..); if f !=
	// nil { cb = func(..) { f(..) } }; return inner.RayCollisions(r, cb)` - a
	// local assigned exactly one function literal (and otherwise nil) whose only
	// other uses are as the callback argument of a delegation.
	boundLits map[types.Object]*ast.FuncLit
}

func newA3(c *Ctx, info *types.Info, mode a3Mode, rule, fnName string) *a3 {
	return &a3{c: c, info: info, mode: mode, rule: rule, fnName: fnName,
		tracked: map[*types.Var]bool{}, members: map[*types.Var][]*types.Var{}, delegTerm: map[*ast.CallExpr]string{},
		delegEquiv: map[*ast.CallExpr]bool{}, assignedVars: map[*types.Var]bool{}}
}

// collectAssigned records every variable assigned anywhere in the function.
func (a *a3) collectAssigned(body ast.Node) {
	ast.Inspect(body, func(n ast.Node) bool {
		switch x := n.(type) {
		case *ast.AssignStmt:
			if x.Tok == token.DEFINE {
				return true
			}
			for _, l := range x.Lhs {
				if id, ok := l.(*ast.Ident); ok {
					if v, ok := a.info.Uses[id].(*types.Var); ok {
						a.assignedVars[v] = true
					}
				}
			}
		case *ast.IncDecStmt:
			if id, ok := x.X.(*ast.Ident); ok {
				if v, ok := a.info.Uses[id].(*types.Var); ok {
					a.assignedVars[v] = true
				}
			}
		case *ast.UnaryExpr:
			if x.Op == token.AND {
				if id, ok := x.X.(*ast.Ident); ok {
					if v, ok := a.info.Uses[id].(*types.Var); ok {
						a.assignedVars[v] = true
					}
				}
			}
		}
		return true
	})
}

// collectBoundLits fills boundLits (see the field).
func (a *a3) collectBoundLits(body ast.Node) {
	if a.mode.isDeleg == nil {
		return
	}
	lits := map[types.Object][]*ast.FuncLit{}
	other := map[types.Object]bool{}
	okUse := map[*ast.Ident]bool{}
	ast.Inspect(body, func(n ast.Node) bool {
		switch x := n.(type) {
		case *ast.AssignStmt:
			if len(x.Lhs) == 1 && len(x.Rhs) == 1 {
				if id, ok := x.Lhs[0].(*ast.Ident); ok {
					obj := a.info.Defs[id]
					if obj == nil {
						obj = a.info.Uses[id]
					}
					if obj != nil {
						okUse[id] = true
						if lit, ok := ast.Unparen(x.Rhs[0]).(*ast.FuncLit); ok {
							lits[obj] = append(lits[obj], lit)
						} else if !isNilIdent(a.info, x.Rhs[0]) {
							other[obj] = true
						}
					}
				}
			}
		case *ast.CallExpr:
			if idx, ok := a.mode.isDeleg(x); ok && idx < len(x.Args) {
				if id, ok := ast.Unparen(x.Args[idx]).(*ast.Ident); ok {
					okUse[id] = true
				}
			}
		}
		return true
	})
	ast.Inspect(body, func(n ast.Node) bool {
		if id, ok := n.(*ast.Ident); ok && !okUse[id] {
			if obj := a.info.Uses[id]; obj != nil {
				other[obj] = true
			}
		}
		return true
	})
	for obj, ls := range lits {
		if len(ls) == 1 && !other[obj] {
			if a.boundLits == nil {
				a.boundLits = map[types.Object]*ast.FuncLit{}
			}
			a.boundLits[obj] = ls[0]
		}
	}
}

func (a *a3) unsupportedf(p token.Pos, format string, args ...interface{}) {
	a.unsupported = append(a.unsupported, a.c.pos(p)+": "+fmt.Sprintf(format, args...))
}

func (a *a3) isCallbackIdent(e ast.Expr) bool {
	id, ok := ast.Unparen(e).(*ast.Ident)
	if !ok || a.mode.callback == nil {
		return false
	}
	return a.info.Uses[id] == a.mode.callback
}

func isNilIdent(info *types.Info, e ast.Expr) bool {
	id, ok := ast.Unparen(e).(*ast.Ident)
	if !ok {
		return false
	}
	_, isNil := info.Uses[id].(*types.Nil)
	return isNil
}

// nilTest classifies cond: +1 if cond is "f != nil" (or has it as a top-level
// && conjunct: then-branch implies non-nil), -1 if cond is exactly "f == nil"
// (or a top-level || disjunct: else-branch implies non-nil), 0 otherwise.
// exact reports whether the condition is nothing but the test.
func (a *a3) nilTest(cond ast.Expr) (kind int, exact bool) {
	cond = ast.Unparen(cond)
	be, ok := cond.(*ast.BinaryExpr)
	if !ok {
		return 0, false
	}
	switch be.Op {
	case token.NEQ, token.EQL:
		var other ast.Expr
		if a.isCallbackIdent(be.X) {
			other = be.Y
		} else if a.isCallbackIdent(be.Y) {
			other = be.X
		} else {
			return 0, false
		}
		if !isNilIdent(a.info, other) {
			return 0, false
		}
		if be.Op == token.NEQ {
			return 1, true
		}
		return -1, true
	case token.LAND:
		for _, sub := range []ast.Expr{be.X, be.Y} {
			if k, _ := a.nilTest(sub); k == 1 {
				return 1, false
			}
		}
	case token.LOR:
		for _, sub := range []ast.Expr{be.X, be.Y} {
			if k, _ := a.nilTest(sub); k == -1 {
				return -1, false
			}
		}
	}
	return 0, false
}

func (a *a3) event(st *a3State, n int) {
	st.E = st.E.add(linConst(n))
	for v, d := range st.D {
		st.D[v] = d.add(linConst(n))
	}
}
func (a *a3) eventTerm(st *a3State, term lin) {
	st.E = st.E.add(term)
	for v, d := range st.D {
		st.D[v] = d.add(term)
	}
}

func (a *a3) trackedIdent(e ast.Expr) *types.Var {
	id, ok := ast.Unparen(e).(*ast.Ident)
	if !ok {
		return nil
	}
	var obj types.Object = a.info.Uses[id]
	if obj == nil {
		obj = a.info.Defs[id]
	}
	v, _ := obj.(*types.Var)
	if v != nil && len(a.keysOf(v)) > 0 {
		return v
	}
	return nil
}

// addKey registers a counter (one variable) or a sum of counters.
func (a *a3) addKey(vars []*types.Var) {
	if len(vars) == 0 {
		return
	}
	sort.Slice(vars, func(i, j int) bool { return vars[i].Pos() < vars[j].Pos() })
	for k, m := range a.members {
		if len(m) == len(vars) {
			same := true
			for i := range m {
				if m[i] != vars[i] {
					same = false
				}
			}
			if same {
				_ = k
				return
			}
		}
	}
	key := vars[0]
	if len(vars) > 1 {
		names := []string{}
		for _, v := range vars {
			names = append(names, v.Name())
		}
		key = types.NewVar(token.NoPos, nil, strings.Join(names, "+"), types.Typ[types.Int])
	}
	a.tracked[key] = true
	a.members[key] = vars
}

func (a *a3) keysOf(v *types.Var) []*types.Var {
	var res []*types.Var
	for k, m := range a.members {
		for _, x := range m {
			if x == v {
				res = append(res, k)
			}
		}
	}
	return res
}

// bump: v changes by delta.
func (a *a3) bump(st *a3State, v *types.Var, delta lin) {
	for _, k := range a.keysOf(v) {
		st.D[k] = st.D[k].sub(delta)
	}
}

// declare: v comes into existence with value val (it contributed 0 before).
func (a *a3) declare(st *a3State, v *types.Var, val lin) { a.bump(st, v, val) }

// set: v is overwritten with val.
func (a *a3) set(st *a3State, v *types.Var, val lin) {
	for _, k := range a.keysOf(v) {
		if len(a.members[k]) == 1 {
			st.D[k] = st.E.sub(val)
		} else {
			st.D[k] = linTop()
		}
	}
}

// val gives the value of an integer expression as a linear expression, where
// a tracked variable v appears as term "$v:<name>" (only used transiently).
func (a *a3) val(st *a3State, e ast.Expr) lin {
	e = ast.Unparen(e)
	if tv, ok := a.info.Types[e]; ok && tv.Value != nil {
		if k, ok := constant.Int64Val(constant.ToInt(tv.Value)); ok {
			return linConst(int(k))
		}
	}
	switch x := e.(type) {
	case *ast.Ident:
		if v := a.trackedIdent(x); v != nil {
			return linTerm("$" + v.Name())
		}
		if v, ok := a.info.Uses[x].(*types.Var); ok && a.immutable(v) {
			return linTerm(v.Name())
		}
	case *ast.CallExpr:
		if id, ok := x.Fun.(*ast.Ident); ok && id.Name == "len" && len(x.Args) == 1 {
			if _, isB := a.info.Uses[id].(*types.Builtin); isB {
				if s, ok := ast.Unparen(x.Args[0]).(*ast.Ident); ok {
					return linTerm("len(" + s.Name + ")")
				}
			}
		}
		if t, ok := a.delegTerm[x]; ok {
			return linTerm(t)
		}
		// conversions int(x)
		if tv, ok := a.info.Types[x.Fun]; ok && tv.IsType() && len(x.Args) == 1 {
			return a.val(st, x.Args[0])
		}
	case *ast.BinaryExpr:
		switch x.Op {
		case token.ADD:
			return a.val(st, x.X).add(a.val(st, x.Y))
		case token.SUB:
			return a.val(st, x.X).sub(a.val(st, x.Y))
		}
	}
	return linTop()
}

// eMinus computes E - value(e), resolving tracked variables through D.
func (a *a3) eMinus(st *a3State, e ast.Expr) lin {
	v := a.val(st, e)
	if v.top {
		return v
	}
	rest := lin{c: v.c, t: map[string]int{}}
	var names []string
	for name, coef := range v.t {
		if strings.HasPrefix(name, "$") {
			if coef != 1 {
				return linTop()
			}
			names = append(names, name[1:])
		} else {
			rest.t[name] = coef
		}
	}
	if len(names) == 0 {
		return st.E.sub(rest)
	}
	sort.Strings(names)
	for k, m := range a.members {
		if len(m) != len(names) {
			continue
		}
		mn := []string{}
		for _, x := range m {
			mn = append(mn, x.Name())
		}
		sort.Strings(mn)
		if strings.Join(mn, ",") == strings.Join(names, ",") {
			return st.D[k].sub(rest)
		}
	}
	return linTop()
}

// immutable: parameters and variables never reassigned inside the analysed
// function are usable as symbolic terms. Conservatively only parameters of
// basic integer type are accepted here.
func (a *a3) immutable(v *types.Var) bool {
	if b, ok := v.Type().Underlying().(*types.Basic); !ok || b.Info()&types.IsInteger == 0 {
		return false
	}
	return a.assignedVars == nil || !a.assignedVars[v]
}

// ---------------------------------------------------------------------------

func (a *a3) scanExpr(st *a3State, e ast.Node) {
	if e == nil {
		return
	}
	// post-order: arguments are evaluated before the call.
	var visit func(n ast.Node)
	visit = func(n ast.Node) {
		switch x := n.(type) {
		case nil:
			return
		case *ast.FuncLit:
			a.funcLit(st, x, false)
			return
		case *ast.CallExpr:
			if cbIdx, ok := a.isDelegCall(x); ok {
				visit(x.Fun)
				for i, arg := range x.Args {
					if i != cbIdx {
						visit(arg)
					}
				}
				a.delegation(st, x, cbIdx)
				return
			}
			visit(x.Fun)
			for _, arg := range x.Args {
				visit(arg)
			}
			if a.onCall != nil {
				a.onCall(st, x)
			}
			if id, ok := ast.Unparen(x.Fun).(*ast.Ident); ok && a.localEvents != nil {
				if k, ok := a.localEvents[a.info.Uses[id]]; ok {
					a.eventSites++
					a.event(st, k)
				}
			}
			if a.isCallbackIdent(x.Fun) {
				a.eventSites++
				a.event(st, 1)
				if a.onCallback != nil {
					a.onCallback(st, x)
				}
			}
			return
		}
		ast.Inspect(n, func(m ast.Node) bool {
			if m == n {
				return true
			}
			switch m.(type) {
			case *ast.FuncLit, *ast.CallExpr:
				visit(m)
				return false
			}
			return true
		})
	}
	visit(e)
}

func (a *a3) isDelegCall(call *ast.CallExpr) (int, bool) {
	if a.mode.isDeleg == nil {
		return 0, false
	}
	return a.mode.isDeleg(call)
}

// delegation handles "x.RayCollisions(r, g)".
func (a *a3) delegation(st *a3State, call *ast.CallExpr, cbIdx int) {
	a.nDeleg++
	term := fmt.Sprintf("deleg%d", a.nDeleg)
	if t, ok := a.delegTerm[call]; ok {
		term = t // re-analysis of the same site (loops)
	}
	a.delegTerm[call] = term
	arg := ast.Unparen(call.Args[cbIdx])
	equiv := false
	switch g := arg.(type) {
	case *ast.Ident:
		if a.isCallbackIdent(g) {
			equiv = true
		} else if lit := a.boundLits[a.info.Uses[g]]; lit != nil {
			equiv = a.funcLit(st, lit, true)
		}
	case *ast.FuncLit:
		equiv = a.funcLit(st, g, true)
	}
	if isNilIdent(a.info, arg) {
		equiv = false
	}
	a.delegEquiv[call] = equiv
	if equiv {
		a.eventTerm(st, linTerm(term))
	}
}

// funcLit analyses a function literal. As a delegated callback (asCallback) it
// returns whether the literal invokes the callback exactly once per invocation
// without touching a counter. Otherwise the literal must be neutral
// (events - counter unchanged per invocation).
func (a *a3) funcLit(st *a3State, lit *ast.FuncLit, asCallback bool) bool {
	probe := a3State{E: linConst(0), D: map[*types.Var]lin{}, nonnil: st.nonnil}
	for v := range a.tracked {
		probe.D[v] = linConst(0)
	}
	saveT, saveR := a.targets, a.closureReturns
	a.targets, a.closureReturns = nil, nil
	a.inClosure++
	out := a.block(lit.Body.List, probe)
	a.inClosure--
	exits := a.closureReturns
	a.targets, a.closureReturns = saveT, saveR
	if !out.dead {
		exits = append(exits, out)
	}
	neutral, once, anyE := true, true, false
	detail := ""
	for _, ex := range exits {
		if k, ok := ex.E.isConst(); !ok || k != 1 {
			once = false
		}
		if !ex.E.isZero() {
			anyE = true
		}
		for v, d := range ex.D {
			if !d.isZero() {
				neutral = false
				detail = fmt.Sprintf("events-%s changes by %s per invocation", v.Name(), d)
			}
			if !d.eq(ex.E) {
				once = false // touches the counter
			}
		}
	}
	if asCallback {
		if once {
			return true
		}
		if neutral && !anyE {
			return false // a collecting callback: no events
		}
		// neither equivalent nor neutral: fall through to report
	}
	if !neutral {
		if a.closureReported == nil {
			a.closureReported = map[*ast.FuncLit]bool{}
		}
		if !a.closureReported[lit] {
			a.closureReported[lit] = true
			a.c.bad(a.rule, a.fnName+" closure", lit.Pos(), "function literal is not count-neutral: "+detail)
		}
		return false
	}
	if anyE {
		st.E = linTop()
	}
	return false
}

// constantEvents: the literal performs the same constant number of events on
// every exit and leaves every counter alone (so events-counter changes by
// exactly that number).
func (a *a3) constantEvents(st *a3State, lit *ast.FuncLit) (int, bool) {
	probe := a3State{E: linConst(0), D: map[*types.Var]lin{}, nonnil: st.nonnil}
	for v := range a.tracked {
		probe.D[v] = linConst(0)
	}
	saveT, saveR := a.targets, a.closureReturns
	a.targets, a.closureReturns = nil, nil
	a.inClosure++
	out := a.block(lit.Body.List, probe)
	a.inClosure--
	exits := a.closureReturns
	a.targets, a.closureReturns = saveT, saveR
	if !out.dead {
		exits = append(exits, out)
	}
	if len(exits) == 0 {
		return 0, false
	}
	k0, ok := exits[0].E.isConst()
	if !ok {
		return 0, false
	}
	for _, ex := range exits {
		k, ok := ex.E.isConst()
		if !ok || k != k0 {
			return 0, false
		}
		for _, d := range ex.D {
			if !d.eq(ex.E) {
				return 0, false // touches a counter
			}
		}
	}
	return k0, true
}

func (a *a3) block(list []ast.Stmt, in a3State) a3State {
	st := in
	for _, s := range list {
		if st.dead {
			break
		}
		st = a.stmt(s, st)
	}
	return st
}

func (a *a3) findTarget(label string, needLoop bool) *a3Target {
	for i := len(a.targets) - 1; i >= 0; i-- {
		t := a.targets[i]
		if label != "" {
			if t.label == label {
				return t
			}
			continue
		}
		if needLoop && !t.isLoop {
			continue
		}
		return t
	}
	return nil
}

func terminates(list []ast.Stmt) bool {
	if len(list) == 0 {
		return false
	}
	switch s := list[len(list)-1].(type) {
	case *ast.ReturnStmt:
		return true
	case *ast.ExprStmt:
		if call, ok := s.X.(*ast.CallExpr); ok {
			if id, ok := call.Fun.(*ast.Ident); ok && id.Name == "panic" {
				return true
			}
		}
	case *ast.BlockStmt:
		return terminates(s.List)
	}
	return false
}

func (a *a3) assign(st *a3State, lhs ast.Expr, tok token.Token, rhs ast.Expr) {
	v := a.trackedIdent(lhs)
	if v == nil {
		return
	}
	val := a.val(st, rhs)
	switch tok {
	case token.ADD_ASSIGN:
		a.bump(st, v, val)
	case token.SUB_ASSIGN:
		a.bump(st, v, val.scale(-1))
	case token.DEFINE:
		if id, ok := lhs.(*ast.Ident); ok && a.info.Defs[id] != nil {
			a.declare(st, v, val)
			return
		}
		fallthrough
	case token.ASSIGN:
		// v = v + X
		if !val.top {
			if coef, ok := val.t["$"+v.Name()]; ok && coef == 1 {
				a.bump(st, v, val.sub(linTerm("$"+v.Name())))
				return
			}
			for name := range val.t {
				if strings.HasPrefix(name, "$") {
					a.set(st, v, linTop())
					return
				}
			}
		}
		a.set(st, v, val)
	default:
		a.set(st, v, linTop())
	}
}

func (a *a3) isAccumStmt(s *ast.AssignStmt) bool {
	if a.mode.accum == nil || len(s.Lhs) != 1 || len(s.Rhs) != 1 {
		return false
	}
	id, ok := s.Lhs[0].(*ast.Ident)
	if !ok {
		return false
	}
	obj := a.info.Uses[id]
	if obj == nil {
		obj = a.info.Defs[id]
	}
	if obj != a.mode.accum {
		return false
	}
	// accum = accum.Add(x)  |  accum += x
	if s.Tok == token.ADD_ASSIGN {
		return true
	}
	call, ok := s.Rhs[0].(*ast.CallExpr)
	if !ok {
		return false
	}
	sel, ok := call.Fun.(*ast.SelectorExpr)
	if !ok || sel.Sel.Name != "Add" {
		return false
	}
	rid, ok := ast.Unparen(sel.X).(*ast.Ident)
	return ok && a.info.Uses[rid] == a.mode.accum
}

func (a *a3) stmt(s ast.Stmt, st a3State) a3State {
	if a.onStmt != nil {
		a.onStmt(st, s)
	}
	switch x := s.(type) {
	case *ast.EmptyStmt:
	case *ast.BlockStmt:
		return a.block(x.List, st)
	case *ast.ExprStmt:
		a.scanExpr(&st, x.X)
		if call, ok := x.X.(*ast.CallExpr); ok {
			if id, ok := call.Fun.(*ast.Ident); ok && id.Name == "panic" {
				if _, isB := a.info.Uses[id].(*types.Builtin); isB {
					st.dead = true
				}
			}
		}
	case *ast.SendStmt:
		a.scanExpr(&st, x.Chan)
		a.scanExpr(&st, x.Value)
	case *ast.IncDecStmt:
		a.scanExpr(&st, x.X)
		if v := a.trackedIdent(x.X); v != nil {
			if x.Tok == token.INC {
				a.bump(&st, v, linConst(1))
			} else {
				a.bump(&st, v, linConst(-1))
			}
		}
	case *ast.AssignStmt:
		if len(x.Lhs) == 1 && len(x.Rhs) == 1 {
			if id, ok := x.Lhs[0].(*ast.Ident); ok {
				obj := a.info.Defs[id]
				if obj == nil {
					obj = a.info.Uses[id]
				}
				if lit, isLit := ast.Unparen(x.Rhs[0]).(*ast.FuncLit); isLit && obj != nil && a.boundLits[obj] == lit {
					return st // analysed where it is handed to the delegate
				}
			}
		}
		if x.Tok == token.DEFINE && len(x.Lhs) == 1 && len(x.Rhs) == 1 {
			if lit, ok := x.Rhs[0].(*ast.FuncLit); ok {
				if id, ok := x.Lhs[0].(*ast.Ident); ok {
					if obj := a.info.Defs[id]; obj != nil {
						if k, ok := a.constantEvents(&st, lit); ok && k != 0 {
							if a.localEvents == nil {
								a.localEvents = map[types.Object]int{}
							}
							a.localEvents[obj] = k
							return st
						}
					}
				}
			}
		}
		for _, r := range x.Rhs {
			a.scanExpr(&st, r)
		}
		for _, l := range x.Lhs {
			if _, ok := l.(*ast.Ident); !ok {
				a.scanExpr(&st, l)
			}
		}
		if a.isAccumStmt(x) {
			a.eventSites++
			a.event(&st, 1)
		} else if a.mode.accum != nil {
			// any other assignment to the accumulator loses the pairing
			for _, l := range x.Lhs {
				if id, ok := l.(*ast.Ident); ok {
					obj := a.info.Uses[id]
					if obj == nil {
						obj = a.info.Defs[id]
					}
					if obj == a.mode.accum {
						st.E = linTop()
						for v := range st.D {
							st.D[v] = linTop()
						}
					}
				}
			}
		}
		if len(x.Lhs) == len(x.Rhs) {
			for i := range x.Lhs {
				a.assign(&st, x.Lhs[i], x.Tok, x.Rhs[i])
			}
		} else {
			for _, l := range x.Lhs {
				if v := a.trackedIdent(l); v != nil {
					a.set(&st, v, linTop())
				}
			}
		}
	case *ast.DeclStmt:
		gd, ok := x.Decl.(*ast.GenDecl)
		if !ok {
			break
		}
		for _, spec := range gd.Specs {
			vs, ok := spec.(*ast.ValueSpec)
			if !ok {
				continue
			}
			for _, val := range vs.Values {
				a.scanExpr(&st, val)
			}
			for i, name := range vs.Names {
				v, _ := a.info.Defs[name].(*types.Var)
				if v == nil {
					continue
				}
				if v == a.mode.accum && len(vs.Values) == 0 {
					// "var sum T": zero accumulations so far on this path
					continue
				}
				if len(a.keysOf(v)) == 0 {
					continue
				}
				if len(vs.Values) == 0 {
					a.declare(&st, v, linConst(0))
				} else if len(vs.Values) == len(vs.Names) {
					a.declare(&st, v, a.val(&st, vs.Values[i]))
				} else {
					a.set(&st, v, linTop())
				}
			}
		}
	case *ast.ReturnStmt:
		for _, r := range x.Results {
			a.scanExpr(&st, r)
		}
		if a.inClosure > 0 {
			a.closureReturns = append(a.closureReturns, st.clone())
		} else if a.onReturn != nil {
			a.onReturn(st, x)
		}
		st.dead = true
	case *ast.BranchStmt:
		label := ""
		if x.Label != nil {
			label = x.Label.Name
		}
		switch x.Tok {
		case token.BREAK:
			if t := a.findTarget(label, false); t != nil {
				t.breaks = append(t.breaks, st.clone())
			} else {
				a.unsupportedf(x.Pos(), "break without target")
			}
		case token.CONTINUE:
			if t := a.findTarget(label, true); t != nil {
				t.continues = append(t.continues, st.clone())
			} else {
				a.unsupportedf(x.Pos(), "continue without target")
			}
		default:
			a.unsupportedf(x.Pos(), "%s statement", x.Tok)
		}
		st.dead = true
	case *ast.LabeledStmt:
		switch inner := x.Stmt.(type) {
		case *ast.ForStmt, *ast.RangeStmt, *ast.SwitchStmt, *ast.TypeSwitchStmt, *ast.SelectStmt:
			a.pendingLabel = x.Label.Name
			return a.stmt(inner, st)
		default:
			return a.stmt(x.Stmt, st)
		}
	case *ast.IfStmt:
		if x.Init != nil {
			st = a.stmt(x.Init, st)
		}
		a.scanExpr(&st, x.Cond)
		kind, exact := a.nilTest(x.Cond)
		thenIn, elseIn := st.clone(), st.clone()
		switch {
		case kind == 1 && exact:
			thenIn.nonnil = true
			elseIn.dead = true // only executed for a nil callback
		case kind == 1:
			thenIn.nonnil = true
		case kind == -1 && exact:
			thenIn.dead = true
			elseIn.nonnil = true
		case kind == -1:
			elseIn.nonnil = true
		}
		var thenOut, elseOut a3State
		if thenIn.dead {
			thenOut = thenIn
		} else {
			thenOut = a.block(x.Body.List, thenIn)
		}
		if elseIn.dead {
			elseOut = elseIn
		} else if x.Else != nil {
			elseOut = a.stmt(x.Else, elseIn)
		} else {
			elseOut = elseIn
		}
		return joinState(thenOut, elseOut)
	case *ast.ForStmt:
		return a.loop(st, x.Init, x.Cond, x.Post, x.Body, nil)
	case *ast.RangeStmt:
		a.scanExpr(&st, x.X)
		return a.loop(st, nil, nil, nil, x.Body, x)
	case *ast.SwitchStmt:
		if x.Init != nil {
			st = a.stmt(x.Init, st)
		}
		a.scanExpr(&st, x.Tag)
		return a.switchBody(st, x.Body)
	case *ast.TypeSwitchStmt:
		if x.Init != nil {
			st = a.stmt(x.Init, st)
		}
		return a.switchBody(st, x.Body)
	case *ast.DeferStmt:
		before := a.eventSites
		probe := st.clone()
		a.scanExpr(&probe, x.Call)
		if a.eventSites != before || !stateEq(probe, st) {
			a.unsupportedf(x.Pos(), "deferred call with events")
		}
	case *ast.GoStmt:
		before := a.eventSites
		probe := st.clone()
		a.scanExpr(&probe, x.Call)
		if a.eventSites != before || !stateEq(probe, st) {
			a.unsupportedf(x.Pos(), "go statement with events")
		}
	case *ast.SelectStmt:
		a.unsupportedf(x.Pos(), "select statement")
	default:
		a.unsupportedf(s.Pos(), "statement %T", s)
	}
	return st
}

func (a *a3) takeLabel() string {
	l := a.pendingLabel
	a.pendingLabel = ""
	return l
}

func (a *a3) switchBody(st a3State, body *ast.BlockStmt) a3State {
	t := &a3Target{label: a.takeLabel()}
	a.targets = append(a.targets, t)
	out := a3State{dead: true}
	hasDefault := false
	for _, cc := range body.List {
		clause, ok := cc.(*ast.CaseClause)
		if !ok {
			continue
		}
		if clause.List == nil {
			hasDefault = true
		}
		in := st.clone()
		for _, e := range clause.List {
			a.scanExpr(&in, e)
		}
		res := a.block(clause.Body, in)
		// fallthrough is not supported
		if n := len(clause.Body); n > 0 {
			if b, ok := clause.Body[n-1].(*ast.BranchStmt); ok && b.Tok == token.FALLTHROUGH {
				a.unsupportedf(b.Pos(), "fallthrough")
			}
		}
		out = joinState(out, res)
	}
	if !hasDefault {
		out = joinState(out, st)
	}
	a.targets = a.targets[:len(a.targets)-1]
	for _, b := range t.breaks {
		out = joinState(out, b)
	}
	return out
}

func hasEscape(body *ast.BlockStmt) bool {
	found := false
	depth := 0
	var walk func(n ast.Node) bool
	walk = func(n ast.Node) bool {
		switch x := n.(type) {
		case *ast.FuncLit:
			return false
		case *ast.ReturnStmt:
			found = true
		case *ast.BranchStmt:
			if x.Tok == token.GOTO || x.Label != nil {
				found = true
			}
			if x.Tok == token.BREAK && depth == 0 {
				found = true
			}
		case *ast.ForStmt, *ast.RangeStmt, *ast.SwitchStmt, *ast.TypeSwitchStmt, *ast.SelectStmt:
			// a break inside a nested loop/switch does not leave our loop
			depth++
			for _, c := range childBlocks(x) {
				ast.Inspect(c, walk)
			}
			depth--
			return false
		}
		return true
	}
	ast.Inspect(body, walk)
	return found
}

func childBlocks(n ast.Node) []ast.Node {
	switch x := n.(type) {
	case *ast.ForStmt:
		return []ast.Node{x.Body}
	case *ast.RangeStmt:
		return []ast.Node{x.Body}
	case *ast.SwitchStmt:
		return []ast.Node{x.Body}
	case *ast.TypeSwitchStmt:
		return []ast.Node{x.Body}
	case *ast.SelectStmt:
		return []ast.Node{x.Body}
	}
	return nil
}

// exactIterations recognises loops that run exactly T times for a symbolic T:
// "for i := 0; i < N; i++" (i not assigned in the body) and "range S".
func (a *a3) exactIterations(init ast.Stmt, cond ast.Expr, post ast.Stmt, body *ast.BlockStmt, rng *ast.RangeStmt) (lin, bool) {
	if hasEscape(body) {
		return lin{}, false
	}
	if rng != nil {
		x := ast.Unparen(rng.X)
		if id, ok := x.(*ast.Ident); ok {
			if v, ok := a.info.Uses[id].(*types.Var); ok {
				switch v.Type().Underlying().(type) {
				case *types.Slice, *types.Array:
					if !a.assignedIn(body, v) {
						return linTerm("len(" + id.Name + ")"), true
					}
				}
			}
		}
		if cl, ok := x.(*ast.CompositeLit); ok {
			if _, isArr := a.info.TypeOf(cl).Underlying().(*types.Slice); isArr {
				return linConst(len(cl.Elts)), true
			}
		}
		return lin{}, false
	}
	as, ok := init.(*ast.AssignStmt)
	if !ok || as.Tok != token.DEFINE || len(as.Lhs) != 1 || len(as.Rhs) != 1 {
		return lin{}, false
	}
	iv, _ := as.Lhs[0].(*ast.Ident)
	if iv == nil {
		return lin{}, false
	}
	if tv := a.info.Types[as.Rhs[0]]; tv.Value == nil || constant.Sign(tv.Value) != 0 {
		return lin{}, false
	}
	ivar, _ := a.info.Defs[iv].(*types.Var)
	be, ok := ast.Unparen(cond).(*ast.BinaryExpr)
	if !ok || be.Op != token.LSS {
		return lin{}, false
	}
	if id, ok := be.X.(*ast.Ident); !ok || a.info.Uses[id] != ivar {
		return lin{}, false
	}
	inc, ok := post.(*ast.IncDecStmt)
	if !ok || inc.Tok != token.INC {
		return lin{}, false
	}
	if id, ok := inc.X.(*ast.Ident); !ok || a.info.Uses[id] != ivar {
		return lin{}, false
	}
	if a.assignedIn(body, ivar) {
		return lin{}, false
	}
	bound := a.val(&a3State{}, be.Y)
	if bound.top {
		return lin{}, false
	}
	for name := range bound.t {
		if strings.HasPrefix(name, "$") {
			return lin{}, false
		}
	}
	if id, ok := ast.Unparen(be.Y).(*ast.Ident); ok {
		if v, ok := a.info.Uses[id].(*types.Var); ok && a.assignedIn(body, v) {
			return lin{}, false
		}
	}
	return bound, true
}

func (a *a3) assignedIn(body ast.Node, v *types.Var) bool {
	found := false
	ast.Inspect(body, func(n ast.Node) bool {
		switch x := n.(type) {
		case *ast.AssignStmt:
			for _, l := range x.Lhs {
				if id, ok := l.(*ast.Ident); ok && (a.info.Uses[id] == v || a.info.Defs[id] == v) {
					found = true
				}
			}
		case *ast.IncDecStmt:
			if id, ok := x.X.(*ast.Ident); ok && a.info.Uses[id] == v {
				found = true
			}
		case *ast.UnaryExpr:
			if x.Op == token.AND {
				if id, ok := x.X.(*ast.Ident); ok && a.info.Uses[id] == v {
					found = true
				}
			}
		}
		return true
	})
	return found
}

func (a *a3) loop(st a3State, init ast.Stmt, cond ast.Expr, post ast.Stmt, body *ast.BlockStmt, rng *ast.RangeStmt) a3State {
	label := a.takeLabel()
	if init != nil {
		st = a.stmt(init, st)
	}
	// 1. exact-iteration idiom with path-independent per-iteration deltas.
	if T, ok := a.exactIterations(init, cond, post, body, rng); ok {
		probe := a3State{E: linConst(0), D: map[*types.Var]lin{}, nonnil: st.nonnil}
		for v := range st.D {
			probe.D[v] = linConst(0)
		}
		t := &a3Target{label: label, isLoop: true}
		a.targets = append(a.targets, t)
		saveSites, saveUns := a.eventSites, len(a.unsupported)
		saveOnStmt, saveOnRet, saveCb, saveCall := a.onStmt, a.onReturn, a.onCallback, a.onCall
		a.onStmt, a.onReturn, a.onCallback, a.onCall = nil, nil, nil, nil
		a.probing++
		out := a.block(body.List, probe)
		a.probing--
		a.onStmt, a.onReturn, a.onCallback, a.onCall = saveOnStmt, saveOnRet, saveCb, saveCall
		a.targets = a.targets[:len(a.targets)-1]
		a.eventSites = saveSites
		a.unsupported = a.unsupported[:saveUns]
		for _, cs := range t.continues {
			out = joinState(out, cs)
		}
		constant := !out.dead && !out.E.top
		if constant {
			if _, isC := out.E.isConst(); !isC {
				constant = false
			}
			for _, d := range out.D {
				if _, isC := d.isConst(); !isC {
					constant = false
				}
			}
		}
		if constant && len(t.breaks) == 0 && (!out.E.isZero() || anyNonZero(out.D)) {
			// run the body once for the hooks (guards etc.), then apply deltas
			final := st.clone()
			if tc, isC := T.isConst(); isC {
				final.E = final.E.add(out.E.scale(tc))
				for v, d := range out.D {
					final.D[v] = final.D[v].add(d.scale(tc))
				}
			} else if len(T.t) == 1 && T.c == 0 {
				var name string
				var coef int
				for n, cf := range T.t {
					name, coef = n, cf
				}
				k, _ := out.E.isConst()
				final.E = final.E.add(linTerm(name).scale(coef * k))
				for v, d := range out.D {
					dk, _ := d.isConst()
					final.D[v] = final.D[v].add(linTerm(name).scale(coef * dk))
				}
			} else {
				goto fixpoint
			}
			// hooks: analyse the body once with the entry state (E unknown)
			hookIn := st.clone()
			hookIn.E = linTop()
			t2 := &a3Target{label: label, isLoop: true}
			a.targets = append(a.targets, t2)
			a.block(body.List, hookIn)
			a.targets = a.targets[:len(a.targets)-1]
			return final
		}
	}
fixpoint:
	// 2. fixpoint.
	head := st.clone()
	var exit a3State
	for iter := 0; iter < 8; iter++ {
		t := &a3Target{label: label, isLoop: true}
		a.targets = append(a.targets, t)
		saveSites := a.eventSites
		in := head.clone()
		if cond != nil {
			a.scanExpr(&in, cond)
		}
		condExit := in.clone()
		if cond == nil && rng == nil {
			condExit.dead = true
		}
		out := a.block(body.List, in)
		for _, cs := range t.continues {
			out = joinState(out, cs)
		}
		if post != nil && !out.dead {
			out = a.stmt(post, out)
		}
		a.targets = a.targets[:len(a.targets)-1]
		exit = condExit
		for _, b := range t.breaks {
			exit = joinState(exit, b)
		}
		newHead := joinState(head, out)
		if stateEq(newHead, head) {
			break
		}
		a.eventSites = saveSites
		head = newHead
	}
	return exit
}

func anyNonZero(m map[*types.Var]lin) bool {
	for _, d := range m {
		if !d.isZero() {
			return true
		}
	}
	return false
}
