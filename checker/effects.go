package main

// A4 — write-effect summaries on go/ssa.
//
// For every function a summary lists the memory writes it may perform,
// directly or through callees, as (root, indexed?, index dependences, locked?):
//   root     where the written address comes from: a parameter, a free
//            variable (captured), a global; writes to memory allocated inside
//            the function are not effects;
//   deps     which inputs the index/key expressions on the address chain depend
//            on (parameters, received values, atomic tickets, other);
//   locked   the write (or the call leading to it) happens where a sync.Mutex
//            is held on every path.
// Aliasing is handled by reachability: whatever is loaded from memory rooted
// at R is itself rooted at R. No points-to analysis is available (x/tools
// v0.29.0 has no go/pointer); results of calls are resolved through return
// summaries, everything else unknown is "unknown" and never alarms.

import (
	"fmt"
	"go/token"
	"go/types"
	"sort"
	"strings"

	"golang.org/x/tools/go/callgraph"
	"golang.org/x/tools/go/ssa"
)

type rootKind int

const (
	rkParam rootKind = iota
	rkFree
	rkGlobal
	rkUnknown
)

type root struct {
	kind rootKind
	idx  int
	name string // global name / description
}

func (r root) String() string {
	switch r.kind {
	case rkParam:
		return fmt.Sprintf("param#%d", r.idx)
	case rkFree:
		return fmt.Sprintf("captured#%d(%s)", r.idx, r.name)
	case rkGlobal:
		return "global " + r.name
	}
	return "unknown"
}

// depset: sources an index expression depends on.
type depset struct {
	params uint64 // bit i: parameter i of the function
	free   bool   // a captured variable
	recv   bool   // a value received from a channel
	atomic bool   // result of an atomic add (a unique ticket)
	other  bool   // anything else (memory, call results, ...)
}

func (a depset) union(b depset) depset {
	return depset{a.params | b.params, a.free || b.free, a.recv || b.recv, a.atomic || b.atomic, a.other || b.other}
}

func (a depset) String() string {
	var p []string
	for i := 0; i < 64; i++ {
		if a.params&(1<<uint(i)) != 0 {
			p = append(p, fmt.Sprintf("param#%d", i))
		}
	}
	if a.free {
		p = append(p, "captured")
	}
	if a.recv {
		p = append(p, "received")
	}
	if a.atomic {
		p = append(p, "atomic-ticket")
	}
	if a.other {
		p = append(p, "other")
	}
	if len(p) == 0 {
		return "{constant}"
	}
	return "{" + strings.Join(p, ",") + "}"
}

type effect struct {
	root    root
	indexed bool
	deps    depset
	locked  bool
	pos     token.Pos // the writing instruction
	what    string
	via     string        // call chain
	fn      *ssa.Function // function containing the writing instruction
}

func (e effect) key() string {
	return fmt.Sprintf("%v|%v|%v|%v|%d", e.root, e.indexed, e.deps, e.locked, e.pos)
}

type addrInfo struct {
	roots   []root
	local   bool // may point to function-local (fresh) memory
	indexed bool
	deps    depset
}

func (a *addrInfo) merge(b addrInfo) {
	for _, r := range b.roots {
		dup := false
		for _, x := range a.roots {
			if x == r {
				dup = true
			}
		}
		if !dup {
			a.roots = append(a.roots, r)
		}
	}
	a.local = a.local || b.local
	a.indexed = a.indexed || b.indexed
	a.deps = a.deps.union(b.deps)
}

type effEngine struct {
	c         *Ctx
	cg        *callgraph.Graph
	summaries map[*ssa.Function][]effect
	seenEff   map[*ssa.Function]map[string]bool
	inProg    map[*ssa.Function]bool
	changed   bool
	retMemo   map[*ssa.Function][]addrInfo
	retProg   map[*ssa.Function]bool
	lockMemo  map[*ssa.Function]map[ssa.Instruction]bool
	descended map[*ssa.Function]bool
}

func newEffEngine(c *Ctx) *effEngine {
	return &effEngine{c: c, cg: c.CG(), summaries: map[*ssa.Function][]effect{},
		seenEff: map[*ssa.Function]map[string]bool{}, inProg: map[*ssa.Function]bool{},
		retMemo: map[*ssa.Function][]addrInfo{}, retProg: map[*ssa.Function]bool{},
		lockMemo: map[*ssa.Function]map[ssa.Instruction]bool{}, descended: map[*ssa.Function]bool{}}
}

func hasPointers(t types.Type) bool {
	switch u := t.Underlying().(type) {
	case *types.Basic:
		return u.Kind() == types.UnsafePointer
	case *types.Pointer, *types.Slice, *types.Map, *types.Chan, *types.Signature, *types.Interface:
		return true
	case *types.Struct:
		for i := 0; i < u.NumFields(); i++ {
			if hasPointers(u.Field(i).Type()) {
				return true
			}
		}
		return false
	case *types.Array:
		return hasPointers(u.Elem())
	case *types.Tuple:
		for i := 0; i < u.Len(); i++ {
			if hasPointers(u.At(i).Type()) {
				return true
			}
		}
		return false
	case *types.TypeParam:
		return true
	}
	return true
}

// pkgPathOf returns the package path of a function ("" for synthetic ones).
func pkgPathOf(fn *ssa.Function) string {
	if fn == nil {
		return ""
	}
	if fn.Pkg != nil {
		return fn.Pkg.Pkg.Path()
	}
	if o := fn.Origin(); o != nil && o.Pkg != nil {
		return o.Pkg.Pkg.Path()
	}
	if fn.Object() != nil && fn.Object().Pkg() != nil {
		return fn.Object().Pkg().Path()
	}
	if p := fn.Parent(); p != nil {
		return pkgPathOf(p)
	}
	return ""
}

// descend: packages whose function bodies are analysed. Everything else is
// assumed to have no effect on memory reachable from its arguments (sync,
// sync/atomic, runtime: synchronisation; fmt/os/io/...: do their own locking;
// math, strconv, strings: pure), except for the hand-written summaries below.
func descendPkg(path string) bool {
	switch {
	case strings.HasPrefix(path, repoMod), strings.HasPrefix(path, "verif/fixtures"):
		return true
	case strings.HasPrefix(path, "github.com/unixpickle/"):
		return true
	case path == "image", path == "image/color", path == "math/rand", path == "container/heap", path == "container/list", path == "sort",
		strings.HasPrefix(path, "golang.org/x/exp/"), path == "slices", path == "maps":
		return true
	}
	return false
}

// handSummary: library functions that write their argument but cannot be
// analysed (reflection).
func handSummary(fn *ssa.Function) (argIdx int, ok bool) {
	if fn == nil || fn.Object() == nil || fn.Object().Pkg() == nil {
		return 0, false
	}
	if fn.Object().Pkg().Path() == "sort" {
		switch fn.Object().Name() {
		case "Slice", "SliceStable", "Sort", "Stable", "Ints", "Float64s", "Strings":
			return 0, true
		}
	}
	return 0, false
}

// ---------------------------------------------------------------------------
// Index dependences.

func (e *effEngine) deps(v ssa.Value, seen map[ssa.Value]bool) depset {
	if v == nil {
		return depset{}
	}
	if seen[v] {
		return depset{}
	}
	seen[v] = true
	switch x := v.(type) {
	case *ssa.Const, *ssa.Function, *ssa.Builtin:
		return depset{}
	case *ssa.Parameter:
		for i, p := range x.Parent().Params {
			if p == x {
				return depset{params: 1 << uint(i)}
			}
		}
		return depset{other: true}
	case *ssa.FreeVar:
		return depset{free: true}
	case *ssa.BinOp:
		return e.deps(x.X, seen).union(e.deps(x.Y, seen))
	case *ssa.UnOp:
		switch x.Op {
		case token.ARROW:
			return depset{recv: true}
		case token.MUL:
			// load: from a local variable -> what was stored; else memory
			if al, ok := x.X.(*ssa.Alloc); ok {
				var d depset
				for _, ref := range *al.Referrers() {
					if st, ok := ref.(*ssa.Store); ok && st.Addr == al {
						d = d.union(e.deps(st.Val, seen))
					}
				}
				return d
			}
			if _, ok := x.X.(*ssa.FreeVar); ok {
				return depset{free: true}
			}
			d := e.addrDeps(x.X, seen)
			d.other = true
			return d
		}
		return e.deps(x.X, seen)
	case *ssa.Convert:
		return e.deps(x.X, seen)
	case *ssa.ChangeType:
		return e.deps(x.X, seen)
	case *ssa.MultiConvert:
		return e.deps(x.X, seen)
	case *ssa.Phi:
		var d depset
		for _, ed := range x.Edges {
			d = d.union(e.deps(ed, seen))
		}
		return d
	case *ssa.Extract:
		return e.deps(x.Tuple, seen)
	case *ssa.Field:
		return e.deps(x.X, seen)
	case *ssa.Index:
		return e.deps(x.X, seen).union(e.deps(x.Index, seen))
	case *ssa.Lookup:
		d := e.deps(x.X, seen).union(e.deps(x.Index, seen))
		d.other = true
		return d
	case *ssa.TypeAssert:
		return e.deps(x.X, seen)
	case *ssa.MakeInterface:
		return e.deps(x.X, seen)
	case *ssa.Next:
		// range over channel is lowered to UnOp ARROW; Next is map/string
		return depset{other: true}
	case *ssa.Call:
		if callee := x.Call.StaticCallee(); callee != nil && callee.Pkg != nil && callee.Pkg.Pkg.Path() == "sync/atomic" &&
			strings.HasPrefix(callee.Name(), "Add") {
			return depset{atomic: true}
		}
		d := depset{other: true}
		for _, a := range x.Call.Args {
			d = d.union(e.deps(a, seen))
		}
		if x.Call.IsInvoke() {
			d = d.union(e.deps(x.Call.Value, seen))
		}
		return d
	case *ssa.Slice:
		return e.deps(x.X, seen)
	}
	return depset{other: true}
}

// addrDeps: dependences of the index expressions on an address chain.
func (e *effEngine) addrDeps(v ssa.Value, seen map[ssa.Value]bool) depset {
	switch x := v.(type) {
	case *ssa.IndexAddr:
		return e.deps(x.Index, seen).union(e.addrDeps(x.X, seen))
	case *ssa.FieldAddr:
		return e.addrDeps(x.X, seen)
	case *ssa.UnOp:
		if x.Op == token.MUL {
			return e.addrDeps(x.X, seen)
		}
	case *ssa.Slice:
		d := e.addrDeps(x.X, seen)
		if x.Low != nil {
			d = d.union(e.deps(x.Low, seen))
		}
		return d
	}
	return depset{}
}

// ---------------------------------------------------------------------------
// Roots of pointer-like values.

func (e *effEngine) info(v ssa.Value, seen map[ssa.Value]bool) addrInfo {
	var res addrInfo
	if v == nil {
		return res
	}
	if seen[v] {
		return res
	}
	seen[v] = true
	if !hasPointers(v.Type()) {
		return res
	}
	switch x := v.(type) {
	case *ssa.Const, *ssa.Function, *ssa.Builtin:
		return res
	case *ssa.Alloc, *ssa.MakeSlice, *ssa.MakeMap, *ssa.MakeChan, *ssa.MakeClosure:
		res.local = true
		return res
	case *ssa.Parameter:
		for i, p := range x.Parent().Params {
			if p == x {
				res.roots = []root{{kind: rkParam, idx: i, name: x.Name()}}
			}
		}
		return res
	case *ssa.FreeVar:
		for i, p := range x.Parent().FreeVars {
			if p == x {
				res.roots = []root{{kind: rkFree, idx: i, name: x.Name()}}
			}
		}
		return res
	case *ssa.Global:
		res.roots = []root{{kind: rkGlobal, name: x.Pkg.Pkg.Path() + "." + x.Name()}}
		return res
	case *ssa.FieldAddr:
		return e.info(x.X, seen)
	case *ssa.IndexAddr:
		r := e.info(x.X, seen)
		r.indexed = true
		r.deps = r.deps.union(e.deps(x.Index, map[ssa.Value]bool{}))
		return r
	case *ssa.Field:
		return e.info(x.X, seen)
	case *ssa.Index:
		r := e.info(x.X, seen)
		r.indexed = true
		r.deps = r.deps.union(e.deps(x.Index, map[ssa.Value]bool{}))
		return r
	case *ssa.Lookup:
		r := e.info(x.X, seen)
		r.indexed = true
		r.deps = r.deps.union(e.deps(x.Index, map[ssa.Value]bool{}))
		return r
	case *ssa.Slice:
		r := e.info(x.X, seen)
		if x.Low != nil {
			r.indexed = true
			r.deps = r.deps.union(e.deps(x.Low, map[ssa.Value]bool{}))
		}
		return r
	case *ssa.UnOp:
		if x.Op == token.ARROW {
			// received pointer: owned by the receiver (handed over)
			res.local = true
			return res
		}
		if x.Op != token.MUL {
			return e.info(x.X, seen)
		}
		if al, ok := x.X.(*ssa.Alloc); ok {
			// local variable: what was stored into it
			res.local = false
			any := false
			for _, ref := range *al.Referrers() {
				if st, ok := ref.(*ssa.Store); ok && st.Addr == al {
					res.merge(e.info(st.Val, seen))
					any = true
				}
			}
			if !any {
				res.local = true
			}
			return res
		}
		return e.info(x.X, seen)
	case *ssa.Phi:
		for _, ed := range x.Edges {
			res.merge(e.info(ed, seen))
		}
		return res
	case *ssa.Convert:
		return e.info(x.X, seen)
	case *ssa.ChangeType:
		return e.info(x.X, seen)
	case *ssa.ChangeInterface:
		return e.info(x.X, seen)
	case *ssa.MakeInterface:
		return e.info(x.X, seen)
	case *ssa.TypeAssert:
		return e.info(x.X, seen)
	case *ssa.SliceToArrayPointer:
		return e.info(x.X, seen)
	case *ssa.Extract:
		switch t := x.Tuple.(type) {
		case *ssa.Call:
			return e.callResult(t, x.Index, seen)
		case *ssa.Next:
			if rng, ok := t.Iter.(*ssa.Range); ok {
				r := e.info(rng.X, seen)
				r.indexed = true
				r.deps.other = true
				return r
			}
		case *ssa.TypeAssert:
			return e.info(t.X, seen)
		case *ssa.Lookup:
			r := e.info(t.X, seen)
			r.indexed = true
			r.deps = r.deps.union(e.deps(t.Index, map[ssa.Value]bool{}))
			return r
		case *ssa.UnOp:
			if t.Op == token.ARROW {
				res.local = true
				return res
			}
		}
		res.roots = []root{{kind: rkUnknown}}
		return res
	case *ssa.Call:
		return e.callResult(x, 0, seen)
	}
	res.roots = []root{{kind: rkUnknown}}
	return res
}

// callees of a call instruction (static, or through the call graph).
func (e *effEngine) callees(site ssa.CallInstruction) []*ssa.Function {
	common := site.Common()
	if f := common.StaticCallee(); f != nil {
		return []*ssa.Function{f}
	}
	var res []*ssa.Function
	if n := e.cg.Nodes[site.Parent()]; n != nil {
		for _, out := range n.Out {
			if out.Site == site && out.Callee.Func != nil {
				res = append(res, out.Callee.Func)
			}
		}
	}
	sort.Slice(res, func(i, j int) bool { return res[i].String() < res[j].String() })
	return res
}

// actualArgs: callee parameter i <- actual value (receiver first for invoke).
func actualArgs(common *ssa.CallCommon) []ssa.Value {
	if common.IsInvoke() {
		return append([]ssa.Value{common.Value}, common.Args...)
	}
	return common.Args
}

func (e *effEngine) callResult(call *ssa.Call, idx int, seen map[ssa.Value]bool) addrInfo {
	var res addrInfo
	common := call.Common()
	if b, ok := common.Value.(*ssa.Builtin); ok {
		switch b.Name() {
		case "append":
			r := e.info(common.Args[0], seen)
			r.local = true // may be a fresh backing array
			return r
		}
		res.local = true
		return res
	}
	callees := e.callees(call)
	if len(callees) == 0 {
		res.roots = []root{{kind: rkUnknown}}
		return res
	}
	args := actualArgs(common)
	for _, callee := range callees {
		if callee.Blocks == nil || !descendPkg(pkgPathOf(callee)) {
			// unknown body: may return anything reachable from its arguments
			res.roots = append(res.roots, root{kind: rkUnknown})
			continue
		}
		rets := e.retSummary(callee)
		if idx >= len(rets) {
			res.roots = append(res.roots, root{kind: rkUnknown})
			continue
		}
		ri := rets[idx]
		if ri.local {
			res.local = true
		}
		res.indexed = res.indexed || ri.indexed
		for _, r := range ri.roots {
			switch r.kind {
			case rkParam:
				if r.idx < len(args) {
					sub := e.info(args[r.idx], seen)
					res.merge(sub)
				}
			case rkFree:
				// closure environment: resolve through the MakeClosure if visible
				if mc, ok := common.Value.(*ssa.MakeClosure); ok && r.idx < len(mc.Bindings) {
					res.merge(e.info(mc.Bindings[r.idx], seen))
				} else {
					res.roots = append(res.roots, root{kind: rkUnknown})
				}
			default:
				res.merge(addrInfo{roots: []root{r}})
			}
		}
		// index dependences of the returned address: callee parameters are
		// replaced by the dependences of the actual arguments.
		rd := depset{recv: ri.deps.recv, atomic: ri.deps.atomic, other: ri.deps.other || ri.deps.free}
		for i := 0; i < 64 && i < len(args); i++ {
			if ri.deps.params&(1<<uint(i)) != 0 {
				rd = rd.union(e.deps(args[i], map[ssa.Value]bool{}))
			}
		}
		res.deps = res.deps.union(rd)
	}
	return res
}

// retSummary: for each result of fn, where the returned pointer may come from.
func (e *effEngine) retSummary(fn *ssa.Function) []addrInfo {
	if r, ok := e.retMemo[fn]; ok {
		return r
	}
	if e.retProg[fn] {
		n := fn.Signature.Results().Len()
		res := make([]addrInfo, n)
		for i := range res {
			res[i].roots = []root{{kind: rkUnknown}}
		}
		return res
	}
	e.retProg[fn] = true
	n := fn.Signature.Results().Len()
	res := make([]addrInfo, n)
	for _, b := range fn.Blocks {
		for _, ins := range b.Instrs {
			ret, ok := ins.(*ssa.Return)
			if !ok {
				continue
			}
			for i, v := range ret.Results {
				if i < n {
					res[i].merge(e.info(v, map[ssa.Value]bool{}))
				}
			}
		}
	}
	delete(e.retProg, fn)
	e.retMemo[fn] = res
	return res
}

// ---------------------------------------------------------------------------
// Lock regions: instructions at which some sync.Mutex is held on every path.

func isMutexCall(common *ssa.CallCommon, names ...string) bool {
	f := common.StaticCallee()
	if f == nil || f.Object() == nil || f.Object().Pkg() == nil || f.Object().Pkg().Path() != "sync" {
		return false
	}
	recv := f.Signature.Recv()
	if recv == nil {
		return false
	}
	t := recv.Type().String()
	if t != "*sync.Mutex" && t != "*sync.RWMutex" {
		return false
	}
	for _, n := range names {
		if f.Name() == n {
			return true
		}
	}
	return false
}

func (e *effEngine) lockHeld(fn *ssa.Function) map[ssa.Instruction]bool {
	if m, ok := e.lockMemo[fn]; ok {
		return m
	}
	held := map[ssa.Instruction]bool{}
	if len(fn.Blocks) == 0 {
		e.lockMemo[fn] = held
		return held
	}
	// in[b]: lock count lower bound (0/1) at block entry; must-analysis.
	in := map[*ssa.BasicBlock]int{}
	for _, b := range fn.Blocks {
		in[b] = -1 // unvisited = top
	}
	in[fn.Blocks[0]] = 0
	work := []*ssa.BasicBlock{fn.Blocks[0]}
	transfer := func(b *ssa.BasicBlock, st int, record bool) int {
		for _, ins := range b.Instrs {
			if record {
				held[ins] = st > 0
			}
			if call, ok := ins.(*ssa.Call); ok {
				if isMutexCall(call.Common(), "Lock") {
					st = 1
				} else if isMutexCall(call.Common(), "Unlock") {
					st = 0
				}
			}
		}
		return st
	}
	for len(work) > 0 {
		b := work[len(work)-1]
		work = work[:len(work)-1]
		out := transfer(b, in[b], false)
		for _, s := range b.Succs {
			n := out
			if in[s] != -1 && in[s] < n {
				n = in[s]
			}
			if in[s] == -1 || n != in[s] {
				in[s] = n
				work = append(work, s)
			}
		}
	}
	for _, b := range fn.Blocks {
		if in[b] >= 0 {
			transfer(b, in[b], true)
		}
	}
	e.lockMemo[fn] = held
	return held
}

// ---------------------------------------------------------------------------
// Summaries.

func (e *effEngine) addEffect(fn *ssa.Function, eff effect) {
	if e.seenEff[fn] == nil {
		e.seenEff[fn] = map[string]bool{}
	}
	k := eff.key()
	if e.seenEff[fn][k] {
		return
	}
	if len(e.summaries[fn]) > 400 {
		return
	}
	e.seenEff[fn][k] = true
	e.summaries[fn] = append(e.summaries[fn], eff)
	e.changed = true
}

func (e *effEngine) recordWrite(fn *ssa.Function, ai addrInfo, locked bool, pos token.Pos, what string) {
	for _, r := range ai.roots {
		e.addEffect(fn, effect{root: r, indexed: ai.indexed, deps: ai.deps, locked: locked, pos: pos, what: what, fn: fn})
	}
}

// summarize computes the (current) summary of fn; callers iterate to a fixpoint
// with solve().
func (e *effEngine) summarize(fn *ssa.Function) {
	if fn == nil || fn.Blocks == nil {
		return
	}
	e.descended[fn] = true
	held := e.lockHeld(fn)
	for _, b := range fn.Blocks {
		for _, ins := range b.Instrs {
			switch x := ins.(type) {
			case *ssa.Store:
				ai := e.info(x.Addr, map[ssa.Value]bool{})
				e.recordWrite(fn, ai, held[ins], x.Pos(), "store")
			case *ssa.MapUpdate:
				ai := e.info(x.Map, map[ssa.Value]bool{})
				ai.indexed = true
				ai.deps = ai.deps.union(e.deps(x.Key, map[ssa.Value]bool{}))
				e.recordWrite(fn, ai, held[ins], x.Pos(), "map update")
			case ssa.CallInstruction:
				e.callEffects(fn, x, held[ins])
			}
		}
	}
}

func (e *effEngine) callEffects(fn *ssa.Function, site ssa.CallInstruction, locked bool) {
	common := site.Common()
	if b, ok := common.Value.(*ssa.Builtin); ok {
		switch b.Name() {
		case "append":
			ai := e.info(common.Args[0], map[ssa.Value]bool{})
			ai.indexed = true
			e.recordWrite(fn, ai, locked, site.Pos(), "append (may write the shared backing array)")
		case "copy":
			ai := e.info(common.Args[0], map[ssa.Value]bool{})
			ai.indexed = true
			e.recordWrite(fn, ai, locked, site.Pos(), "copy into")
		case "delete":
			ai := e.info(common.Args[0], map[ssa.Value]bool{})
			ai.indexed = true
			ai.deps = ai.deps.union(e.deps(common.Args[1], map[ssa.Value]bool{}))
			e.recordWrite(fn, ai, locked, site.Pos(), "map delete")
		}
		return
	}
	args := actualArgs(common)
	for _, callee := range e.callees(site) {
		if idx, ok := handSummary(callee); ok && idx < len(args) {
			ai := e.info(args[idx], map[ssa.Value]bool{})
			ai.indexed = true
			e.recordWrite(fn, ai, locked, site.Pos(), "sorted in place by "+callee.Name())
			continue
		}
		if callee.Blocks == nil || !descendPkg(pkgPathOf(callee)) {
			continue
		}
		if !e.descended[callee] {
			e.summarize(callee)
		}
		for _, ce := range e.summaries[callee] {
			e.mapEffect(fn, site, callee, ce, args, locked, nil)
		}
	}
	// function literals handed to the callee are assumed to be invoked.
	// (*sync.Once).Do runs its argument at most once, synchronised with every
	// other Do of the same Once: such writes are not races.
	once := false
	if sc := common.StaticCallee(); sc != nil && sc.Name() == "Do" && sc.Signature.Recv() != nil && sc.Signature.Recv().Type().String() == "*sync.Once" {
		once = true
	}
	for _, a := range common.Args {
		if mc, ok := a.(*ssa.MakeClosure); ok {
			cl := mc.Fn.(*ssa.Function)
			if !e.descended[cl] {
				e.summarize(cl)
			}
			for _, ce := range e.summaries[cl] {
				e.mapEffect(fn, site, cl, ce, nil, locked || once, mc)
			}
		}
	}
}

// mapEffect translates a callee effect into the caller's terms.
func (e *effEngine) mapEffect(fn *ssa.Function, site ssa.CallInstruction, callee *ssa.Function, ce effect,
	args []ssa.Value, locked bool, closure *ssa.MakeClosure) {
	via := callee.Name()
	if ce.via != "" {
		via += " > " + ce.via
	}
	if len(via) > 160 {
		via = via[:160] + "..."
	}
	// index dependences: callee parameters -> actual arguments
	var d depset
	d.free, d.recv, d.atomic, d.other = ce.deps.free, ce.deps.recv, ce.deps.atomic, ce.deps.other
	if ce.deps.free {
		d.free = false
		d.other = true
	}
	for i := 0; i < 64; i++ {
		if ce.deps.params&(1<<uint(i)) != 0 {
			if args != nil && i < len(args) {
				d = d.union(e.deps(args[i], map[ssa.Value]bool{}))
			} else {
				d.other = true
			}
		}
	}
	out := effect{indexed: ce.indexed, deps: d, locked: ce.locked || locked, pos: ce.pos, what: ce.what, via: via, fn: ce.fn}
	switch ce.root.kind {
	case rkGlobal:
		out.root = ce.root
		e.addEffect(fn, out)
	case rkParam:
		if args == nil || ce.root.idx >= len(args) {
			return // closure parameters: bound by the callee that invokes it
		}
		ai := e.info(args[ce.root.idx], map[ssa.Value]bool{})
		for _, r := range ai.roots {
			o := out
			o.root = r
			o.indexed = o.indexed || ai.indexed
			o.deps = o.deps.union(ai.deps)
			e.addEffect(fn, o)
		}
	case rkFree:
		var mc *ssa.MakeClosure
		if closure != nil {
			mc = closure
		} else if m, ok := site.Common().Value.(*ssa.MakeClosure); ok {
			mc = m
		}
		if mc == nil || ce.root.idx >= len(mc.Bindings) {
			return // environment of a closure created elsewhere: unknown
		}
		b := mc.Bindings[ce.root.idx]
		ai := e.info(b, map[ssa.Value]bool{})
		// a captured local variable is bound by the address of its cell: what
		// the closure reaches through it is what was stored into the cell
		if al, ok := b.(*ssa.Alloc); ok {
			for _, ref := range *al.Referrers() {
				if st, ok := ref.(*ssa.Store); ok && st.Addr == ssa.Value(al) {
					ai.merge(e.info(st.Val, map[ssa.Value]bool{}))
				}
			}
		}
		for _, r := range ai.roots {
			o := out
			o.root = r
			o.indexed = o.indexed || ai.indexed
			o.deps = o.deps.union(ai.deps)
			e.addEffect(fn, o)
		}
	}
}

// solve computes summaries for fn and everything it reaches, to a fixpoint.
func (e *effEngine) solve(fns ...*ssa.Function) {
	for round := 0; round < 12; round++ {
		e.changed = false
		e.descended = map[*ssa.Function]bool{}
		for _, fn := range fns {
			e.summarize(fn)
		}
		if !e.changed {
			return
		}
	}
	e.c.note("effect summaries did not stabilise within 12 rounds (results are still sound for reported writes)")
}
