package main

func init() {
	register("C17", &propInfo{
		Explanation: "Structural clauses of the numerical kernels: CUMTAB every binary search over a cumulative table uses the result in the way that matches how the table was built (table of piece starts: last entry <= x; table of piece ends: first entry >= x), so a polyline/area lookup selects the piece that contains the target.",
		Trusted:     []string{"go/types, go/ssa", "recognition of cumulative tables by their construction loop (running total appended before/after it is advanced)"},
		Assumptions: []string{"sort.Search / sort.SearchFloat64s behave as documented"},
		Fixtures:    []string{"n"},
		Run:         runC17,
	})
}

func runC17(c *Ctx) {
	pkgs := append(c.libPkgs(), c.fixturePkg("n"))
	c.runCumTab("CUMTAB", pkgs, nil)
	c.floor("CUMTAB", 3)
	c.runBest("BEST", pkgs, c.fileFilter("numerical/dense_search.go", "toolbox3d/min_max.go"))
	c.floor("BEST.CMP", 8)
	c.floor("BEST.RET", 6)
	c.floor("BEST.NEG", 4)
	c.runCongruent("CONGRUENT", pkgs, nil)
	c.floor("CONGRUENT", 1)
}
