package main

import "strings"

func init() {
	register("C17", &propInfo{
		Explanation: "Structural clauses of the numerical kernels: CUMTAB every binary search over a cumulative table uses the result in the way that matches how the table was built (table of piece starts: last entry <= x; table of piece ends: first entry >= x), so a polyline/area lookup selects the piece that contains the target.",
		Trusted:     []string{"go/types, go/ssa", "recognition of cumulative tables by their construction loop (running total appended before/after it is advanced)"},
		Assumptions: []string{"sort.Search / sort.SearchFloat64s behave as documented"},
		Fixtures:    []string{"n"},
		Run:         runC17,
		SelfTest: []Mutation{
			{Name: "BiCGSTAB hands out the exact half-step without storing it", File: "numerical/cg.go",
				Old: "\t\tb.terminate = true\n\t\tb.x = h\n\t\treturn b.x\n", New: "\t\tb.terminate = true\n\t\treturn h\n", Rule: "RETFIELD", Expect: "BiCGSTAB"},
			{Name: "polynomial deflation works in the caller's coefficients", File: "numerical/polynomial.go",
				Old: "\ttemp := append(Polynomial{}, p...)\n", New: "\ttemp := p\n", Rule: "Q", Expect: "Polynomial"},
			{Name: "ridge penalty added to a column instead of the diagonal", File: "numerical/least_squares.go",
				Old: "\tleftSide[0] += lambda\n\tleftSide[4] += lambda\n\tleftSide[8] += lambda\n", New: "\tfor i := 0; i < 3; i++ {\n\t\tleftSide[i*3] += lambda\n\t}\n", Rule: "DIAGADD", Expect: "LeastSquaresReg3"},
			{Name: "finer search result returned unconditionally (defect repaired)", File: "numerical/dense_search.go",
				Old: "\tif subSolution, subValue := l.maximize(newMin, newMax, f, recursions-1); subValue > value {\n\t\treturn subSolution, subValue\n\t}\n\treturn solution, value", New: "\treturn l.maximize(newMin, newMax, f, recursions-1)", Rule: "BEST.RET", Expect: "LineSearch"},
			{Name: "grid search keeps the last sample", File: "numerical/dense_search.go",
				Old: "\t\t\tc := Vec2{x, y}\n\t\t\tv := f(c)\n\t\t\tif v > value {\n\t\t\t\tvalue = v\n\t\t\t\tsolution = c\n\t\t\t}", New: "\t\t\tc := Vec2{x, y}\n\t\t\tv := f(c)\n\t\t\tvalue = v\n\t\t\tsolution = c", Rule: "BEST.CMP", Expect: "GridSearch2D"},
			{Name: "Minimize forgets to negate the value back", File: "numerical/dense_search.go",
				Old: "\treturn c, -v\n}", New: "\treturn c, v\n}", All: true, Rule: "BEST.NEG", Expect: "Minimize"},
			{Name: "polyline lookup with the raw search result (defect repaired)", File: "model2d/curves.go",
				Old: "\tidx := sort.Search(len(s.lengths), func(i int) bool {\n\t\treturn s.lengths[i] > l\n\t}) - 1\n\tif idx < 0 {\n\t\tidx = 0\n\t}", New: "\tidx := sort.SearchFloat64s(s.lengths, l)\n\tif idx == len(s.segments) {\n\t\tidx -= 1\n\t}", Rule: "CUMTAB", Expect: "SegmentCurve"},
			{Name: "area table built before the area is added", File: "render3d/light.go",
				Old: "\t\tm.totalArea += t.Area()\n\t\tm.cumuAreas[i] = m.totalArea\n", New: "\t\tm.cumuAreas[i] = m.totalArea\n\t\tm.totalArea += t.Area()\n", Rule: "CUMTAB", Expect: "MeshAreaLight"},
			{Name: "joined curve clamps only idx == len (defect repaired)", File: "model2d/curves.go",
				Old: "\tif curveIdx >= len(j) {\n\t\tcurveIdx = len(j) - 1\n\t}", New: "\tif curveIdx == len(j) {\n\t\tcurveIdx--\n\t}", Rule: "IDX.FLOAT", Expect: "JoinedCurve"},
			{Name: "typo in the degree-9 row of the binomial table", File: "model2d/curves.go",
				Old: "{1, 9, 36, 84, 126, 126, 84, 36, 9, 1},", New: "{1, 9, 36, 84, 126, 162, 84, 36, 9, 1},", Rule: "PASCAL", Expect: "row 8"},
			{Name: "fast path guard off by one", File: "model2d/curves.go",
				Old: "} else if len(b)-2 < len(binomialCoeffs) {", New: "} else if len(b)-2 <= len(binomialCoeffs) {", Rule: "PASCAL", Expect: "guard"},
			{Name: "Vec4.Sub adds the last component", File: "numerical/vecs.go",
				Old: "return Vec4{v[0] - v1[0], v[1] - v1[1], v[2] - v1[2], v[3] - v1[3]}", New: "return Vec4{v[0] - v1[0], v[1] - v1[1], v[2] - v1[2], v[3] + v1[3]}", Rule: "UNIFORM", Expect: "Vec4"},
			{Name: "2D element-wise product uses X twice", File: "model2d/coords.go",
				Old: "return Coord{X: c.X * c1.X, Y: c.Y * c1.Y}", New: "return Coord{X: c.X * c1.X, Y: c.Y * c1.X}", Rule: "UNIFORM", Expect: "Mul"},
			{Name: "angle reflected instead of shifted (defect repaired)", File: "toolbox3d/angles.go",
				Old: "theta = math.Mod(theta+2*math.Pi, 2*math.Pi)", New: "theta = math.Mod(2*math.Pi-theta, 2*math.Pi)", Rule: "CONGRUENT", Expect: "CanonicalAngle"},
		},
	})
}

func runC17(c *Ctx) {
	pkgs := append(c.libPkgs(), c.fixturePkg("n"))
	c.runCumTab("CUMTAB", pkgs, nil)
	c.floor("CUMTAB", 1)
	c.runBest("BEST", pkgs, c.fileFilter("numerical/dense_search.go", "toolbox3d/min_max.go"))
	c.floor("BEST.CMP", 8)
	c.floor("BEST.RET", 6)
	c.floor("BEST.NEG", 4)
	c.runCongruent("CONGRUENT", pkgs, nil)
	c.floor("CONGRUENT", 0)
	c.runIdxFloat("IDX.FLOAT", pkgs, c.fileFilter("model2d/curves.go", "model2d/bezier_fit.go"))
	c.floor("IDX.FLOAT", 0)
	c.runUniform("UNIFORM", pkgs, func(name string) bool {
		for _, suf := range []string{"numerical/vecs.go", "model2d/coords.go", "model3d/coords.go"} {
			if strings.HasSuffix(name, suf) {
				return true
			}
		}
		return false
	})
	c.floor("UNIFORM", 15)
	// ridge terms and shifts go on the diagonal
	c.runDiagAdd("DIAGADD", pkgs, nil)
	c.floor("DIAGADD", 0)
	// evaluation and root finding leave the caller's coefficients alone
	qAllExported = true
	c.runQueryPurityFor(newEffEngine(c), c.libPkgs()[4:5], "Q", map[string][]string{})
	qAllExported = false
	c.floor("Q", 4)
	// an iterative solver stores the iterate it hands out
	c.runRetField("RETFIELD", append(c.libPkgs()[4:5:5], c.fixturePkg("n")), nil)
	c.floor("RETFIELD", 0)
	c.runPascal("PASCAL")
	c.floor("PASCAL", 10)
}
