package main

func init() {
	register("C11", &propInfo{
		Explanation: "CYCLE: every loop of the diagnosis / repair / hierarchy code that walks the corners or edges of a face cyclically (index (i+k) % N into an N-element face) visits all N positions - an edge-count or orientation scan that stops one early never examines the edge from the last corner back to the first. EDGETABLE: the literal that lists the directed edges of a triangle (triangleEdges, the input of InconsistentEdges and of the orientation propagation) is a directed cycle through the three corners. ALLCHILD: the methods of the nesting hierarchy that recurse over Children (FullMesh, MapCoords, Contains, insertLeaf; 2D and 3D) range over the whole slice and never address children by constant index, so no face of a nested component is lost.",
		Trusted:     []string{"go/ssa natural loops", "the recognition of cyclic indexing by its shape"},
		Fixtures:    []string{"g"},
		Run: func(c *Ctx) {
			ff := c.fileFilter("mesh_ops.go", "mesh_hierarchy.go", "ptr_mesh.go")
			c.runCycle("CYCLE", append(c.libPkgs()[:2:2], c.fixturePkg("g")), ff)
			c.floor("CYCLE", 0)
			c.runEdgeTable("EDGETABLE", append(c.libPkgs()[:2:2], c.fixturePkg("g")), nil)
			c.floor("EDGETABLE", 1)
			c.runAllChildren("ALLCHILD", c.libPkgs()[:2], c.fileFilter("mesh_hierarchy.go"))
			c.floor("ALLCHILD", 2)
		},
		SelfTest: []Mutation{
			{Name: "directed edge table lists the closing edge backwards", File: "model3d/mesh_ops.go",
				Old: "\t\t{t[2], t[0]},\n", New: "\t\t{t[0], t[2]},\n", Rule: "EDGETABLE", Expect: "triangleEdges"},
			{Name: "hierarchy reassembles only its first nested component", File: "model3d/mesh_hierarchy.go",
				Old: "\tfor _, child := range m.Children {\n\t\tres.AddMesh(child.FullMesh())\n\t}", New: "\tif len(m.Children) > 0 {\n\t\tres.AddMesh(m.Children[0].FullMesh())\n\t}", Rule: "ALLCHILD", Expect: "FullMesh"},
			{Name: "edge count skips the closing edge of every triangle", File: "model3d/mesh_ops.go",
				Old: "\tfor face := range m.faces {\n\t\tfor i := 0; i < 3; i++ {\n\t\t\tseg := NewSegment(face[i], face[(i+1)%3])\n\t\t\tif counts.Add(seg, 1) > 2 {", New: "\tfor face := range m.faces {\n\t\tfor i := 0; i < 2; i++ {\n\t\t\tseg := NewSegment(face[i], face[(i+1)%3])\n\t\t\tif counts.Add(seg, 1) > 2 {", Rule: "CYCLE", Expect: "NeedsRepair"},
		},
	})
}
