package main

// W — worker-write discipline.
//
// A worker is a function value that several goroutines execute at once: the
// operand of a go statement inside a loop, or the callback of a concurrent
// runner (essentials.ConcurrentMap / StatefulConcurrentMap /
// ReduceConcurrentMap, render3d.mapCoordinates; the table is validated by
// finding the go statement they reach). Every write of a worker (transitively,
// through effect summaries) to memory that is shared between the workers — a
// captured variable that is not per-worker, a global — must be
//   (a) at an indexed address whose index depends on the worker's own index /
//       received item / atomic ticket, or
//   (b) performed where a sync.Mutex is held on every path.
// A shared write that satisfies neither is executed by two workers on the same
// location in every schedule in which two workers run: a data race.

import (
	"fmt"
	"go/token"
	"go/types"
	"strings"

	"golang.org/x/tools/go/packages"
	"golang.org/x/tools/go/ssa"
)

type runnerSpec struct {
	pkg, name string
	cbArg     int
	kind      string // "plain", "factory", "factory2"
	own       uint64 // own-index parameters of the worker
	private   uint64 // per-goroutine private pointer parameters
}

var runnerTable = []runnerSpec{
	{"github.com/unixpickle/essentials", "ConcurrentMap", 2, "plain", 1 << 0, 0},
	{"github.com/unixpickle/essentials", "StatefulConcurrentMap", 2, "factory", 1 << 0, 0},
	{"github.com/unixpickle/essentials", "ReduceConcurrentMap", 2, "factory2", 1 << 0, 0},
	{repoMod + "/render3d", "mapCoordinates", 2, "plain", 1<<1 | 1<<2 | 1<<3, 1 << 0},
}

func findRunner(fn *ssa.Function) *runnerSpec {
	if fn == nil || fn.Object() == nil || fn.Object().Pkg() == nil {
		return nil
	}
	for i := range runnerTable {
		r := &runnerTable[i]
		if fn.Object().Pkg().Path() == r.pkg && fn.Object().Name() == r.name {
			return r
		}
	}
	return nil
}

// reachesGo: fn (or a runner it calls with its callback) contains a go statement.
func reachesGo(fn *ssa.Function, depth int) bool {
	if fn == nil || depth > 4 {
		return false
	}
	for _, b := range fn.Blocks {
		for _, ins := range b.Instrs {
			switch x := ins.(type) {
			case *ssa.Go:
				return true
			case *ssa.Call:
				if callee := x.Call.StaticCallee(); callee != nil && findRunner(callee) != nil {
					if reachesGo(callee, depth+1) {
						return true
					}
				}
			}
		}
	}
	return false
}

// loopBlocks returns the set of blocks that belong to some natural loop of fn,
// mapped to the loop header(s).
func loopHeaders(fn *ssa.Function) map[*ssa.BasicBlock][]*ssa.BasicBlock {
	res := map[*ssa.BasicBlock][]*ssa.BasicBlock{}
	for _, b := range fn.Blocks {
		for _, s := range b.Succs {
			if s.Dominates(b) {
				// back edge b -> s; collect the loop body
				body := map[*ssa.BasicBlock]bool{s: true}
				stack := []*ssa.BasicBlock{b}
				for len(stack) > 0 {
					x := stack[len(stack)-1]
					stack = stack[:len(stack)-1]
					if body[x] {
						continue
					}
					body[x] = true
					stack = append(stack, x.Preds...)
				}
				for x := range body {
					res[x] = append(res[x], s)
				}
			}
		}
	}
	return res
}

type workerSite struct {
	parent  *ssa.Function
	pos     token.Pos
	runner  string
	fn      *ssa.Function                                      // worker body
	closure *ssa.MakeClosure                                   // bindings of fn (may be nil)
	env     func(j int) (shared bool, name string, known bool) // classification of free variable j
	own     uint64
	private uint64
	label   string
}

func (c *Ctx) findWorkers(pkgs []*packages.Package) []workerSite {
	var sites []workerSite
	for _, p := range pkgs {
		if p == nil {
			continue
		}
		for _, fn := range c.srcFuncs(p) {
			c.analysed(qname(fn))
			loops := loopHeaders(fn)
			n := 0
			for _, b := range fn.Blocks {
				for _, ins := range b.Instrs {
					switch x := ins.(type) {
					case *ssa.Go:
						if len(loops[b]) == 0 {
							continue // a single goroutine: not a worker pool
						}
						n++
						ws := workerSite{parent: fn, pos: x.Pos(), runner: "go statement in a loop",
							label: fmt.Sprintf("%s worker#%d (go)", qname(fn), n)}
						switch v := x.Call.Value.(type) {
						case *ssa.MakeClosure:
							ws.fn = v.Fn.(*ssa.Function)
							ws.closure = v
							ws.env = envOfClosure(v, loops[b])
						case *ssa.Function:
							ws.fn = v
						}
						// integer parameters fed with non-constant values are own indices
						if ws.fn != nil {
							for i, a := range x.Call.Args {
								if _, isConst := a.(*ssa.Const); !isConst && !hasPointers(a.Type()) {
									ws.own |= 1 << uint(i)
								}
							}
						}
						sites = append(sites, ws)
					case *ssa.Call:
						r := findRunner(x.Call.StaticCallee())
						if r == nil || r.cbArg >= len(x.Call.Args) {
							continue
						}
						n++
						label := fmt.Sprintf("%s worker#%d (%s)", qname(fn), n, r.name)
						arg := x.Call.Args[r.cbArg]
						mc, _ := arg.(*ssa.MakeClosure)
						switch r.kind {
						case "plain":
							ws := workerSite{parent: fn, pos: x.Pos(), runner: r.name, own: r.own, private: r.private, label: label}
							if mc != nil {
								ws.fn = mc.Fn.(*ssa.Function)
								ws.closure = mc
								ws.env = envOfClosure(mc, nil)
							} else if f, ok := arg.(*ssa.Function); ok {
								ws.fn = f
							}
							sites = append(sites, ws)
						case "factory", "factory2":
							if mc == nil {
								sites = append(sites, workerSite{parent: fn, pos: x.Pos(), runner: r.name, label: label})
								continue
							}
							factory := mc.Fn.(*ssa.Function)
							// the factory body itself runs once per goroutine, concurrently
							sites = append(sites, workerSite{parent: fn, pos: x.Pos(), runner: r.name + " (factory body)",
								fn: factory, closure: mc, env: envOfClosure(mc, nil), label: label + " factory"})
							// the iteration closure it returns
							found := false
							for _, fb := range factory.Blocks {
								for _, fi := range fb.Instrs {
									ret, ok := fi.(*ssa.Return)
									if !ok || len(ret.Results) == 0 {
										continue
									}
									inner, ok := ret.Results[0].(*ssa.MakeClosure)
									if !ok {
										if f, ok := ret.Results[0].(*ssa.Function); ok {
											sites = append(sites, workerSite{parent: fn, pos: x.Pos(), runner: r.name, fn: f, own: r.own, label: label + " iter"})
											found = true
										}
										continue
									}
									found = true
									sites = append(sites, workerSite{parent: fn, pos: x.Pos(), runner: r.name, own: r.own,
										fn: inner.Fn.(*ssa.Function), closure: inner, env: envOfInner(inner, mc), label: label + " iter"})
								}
							}
							if !found {
								sites = append(sites, workerSite{parent: fn, pos: x.Pos(), runner: r.name, label: label + " iter"})
							}
						}
					}
				}
			}
		}
	}
	return sites
}

// envOfClosure classifies the free variables of a closure created in its
// parent: a binding that is an Alloc inside the loop that spawns the goroutine
// is a per-iteration (private) variable; everything else is shared.
func envOfClosure(mc *ssa.MakeClosure, loopHdrs []*ssa.BasicBlock) func(j int) (bool, string, bool) {
	return func(j int) (bool, string, bool) {
		if j >= len(mc.Bindings) {
			return false, "", false
		}
		b := mc.Bindings[j]
		name := mc.Fn.(*ssa.Function).FreeVars[j].Name()
		if al, ok := b.(*ssa.Alloc); ok && len(loopHdrs) > 0 {
			for _, h := range loopHdrs {
				if h.Dominates(al.Block()) && al.Block() != h {
					return false, name, true // fresh variable per iteration
				}
			}
		}
		return true, name, true
	}
}

// envOfInner: free variables of the closure returned by a per-goroutine
// factory: bindings that are the factory's own locals are private.
func envOfInner(inner, factoryClosure *ssa.MakeClosure) func(j int) (bool, string, bool) {
	return func(j int) (bool, string, bool) {
		if j >= len(inner.Bindings) {
			return false, "", false
		}
		name := inner.Fn.(*ssa.Function).FreeVars[j].Name()
		switch b := inner.Bindings[j].(type) {
		case *ssa.Alloc:
			return false, name, true
		case *ssa.FreeVar:
			_ = b
			return true, name, true
		case *ssa.Parameter:
			return false, name, true
		}
		return false, name, false
	}
}

func (c *Ctx) runWorkerWrites(eng *effEngine, pkgs []*packages.Package, rule string, filter func(ws workerSite) bool) {
	sites := c.findWorkers(pkgs)
	// validate the runner table
	for i := range runnerTable {
		r := &runnerTable[i]
		var fn *ssa.Function
		for _, p := range c.Prog.AllPackages() {
			if p.Pkg.Path() == r.pkg {
				fn = p.Func(r.name)
			}
		}
		if fn == nil {
			c.problem("runner table: %s.%s not found", r.pkg, r.name)
		} else if !reachesGo(fn, 0) {
			c.problem("runner table: %s.%s no longer starts goroutines", r.pkg, r.name)
		}
	}
	var fns []*ssa.Function
	for _, ws := range sites {
		if ws.fn != nil {
			fns = append(fns, ws.fn)
		}
	}
	eng.solve(fns...)
	for _, ws := range sites {
		if filter != nil && !filter(ws) {
			continue
		}
		if ws.fn == nil {
			c.problem("%s: worker function of %s cannot be resolved statically", ws.label, ws.runner)
			continue
		}
		nShared := 0
		ord := map[string]int{}
		for _, ef := range eng.summaries[ws.fn] {
			var rootName string
			switch ef.root.kind {
			case rkParam:
				continue // own index (scalar), private per-goroutine state, or unknown
			case rkUnknown:
				continue
			case rkFree:
				if ws.env == nil {
					continue
				}
				shared, name, known := ws.env(ef.root.idx)
				if !known || !shared {
					continue
				}
				rootName = "captured " + name
			case rkGlobal:
				rootName = ef.root.name
				if isSyncGlobal(rootName) {
					continue
				}
			}
			nShared++
			where := ""
			if ef.fn != nil {
				where = " in " + qname(ef.fn)
			}
			desc := fmt.Sprintf("%s to %s%s", ef.what, rootName, where)
			ord[desc]++
			key := fmt.Sprintf("%s: %s", ws.label, desc)
			ownIdx := ef.indexed && (ef.deps.params&ws.own != 0 || ef.deps.recv || ef.deps.atomic)
			detail := fmt.Sprintf("index deps %s", ef.deps)
			if ef.via != "" {
				detail += " via " + ef.via
			}
			detail += " (write at " + c.pos(ef.pos) + ")"
			switch {
			case ef.locked:
				c.ok(rule, key, ws.pos, "performed while a sync.Mutex is held; "+detail)
			case ownIdx:
				c.ok(rule, key, ws.pos, "addressed by the worker's own index/received item; "+detail)
			default:
				if reason, ok := wException(ws, ef, rootName); ok {
					c.except(rule, key, ws.pos, reason)
					continue
				}
				c.bad(rule, key, ws.pos, "shared write by concurrent workers that is neither index-addressed nor under a lock; "+detail)
			}
		}
		if nShared == 0 {
			c.ok(rule, ws.label+": no shared writes", ws.pos, fmt.Sprintf("%d write effects, none to memory shared between workers", len(eng.summaries[ws.fn])))
			c.Obs[len(c.Obs)-1].Trivial = true
		}
	}
}

func isSyncGlobal(name string) bool {
	return strings.HasPrefix(name, "sync.") || strings.HasPrefix(name, "runtime.")
}

// wException: named exceptions, one symbol + one reason each.
func wException(ws workerSite, ef effect, rootName string) (string, bool) {
	return "", false
}

var _ = types.Typ
