package main

// AXIS — axis provenance in the rasteriser.
//
// In code that maps pixel indices to model coordinates without rotating
// anything (model2d/rasterize.go), every scalar is tagged by the coordinate
// axis it was derived from: c.X, min.X, max.X -> X; .Y -> Y; sums, differences,
// products and quotients inherit the tags of their operands. Reported:
//   * a sum, difference or comparison of a purely-X value with a purely-Y value,
//   * a purely-X value in the Y slot of XY(x, y) / Coord{X:, Y:} or vice versa.
// (A pixel height computed from the width, or a y extent scaled by the pixel
// width, is wrong for every non-square pixel.)

import (
	"fmt"
	"go/token"

	"golang.org/x/tools/go/packages"
	"golang.org/x/tools/go/ssa"
)

const (
	axNone = 0
	axX    = 1
	axY    = 2
	axBoth = 3
)

// axisSlotsOnly restricts the rule to the slots of XY(x, y): outside the
// rasteriser sums and comparisons of X- and Y-derived values are legitimate
// (norms, "which side is longer").
var axisSlotsOnly bool

func (c *Ctx) runAxisTags(rule string, pkgs []*packages.Package, filter func(fn *ssa.Function) bool) {
	for _, p := range pkgs {
		if p == nil {
			continue
		}
		for _, fn := range c.srcFuncs(p) {
			if filter != nil && !filter(fn) {
				continue
			}
			c.analysed(qname(fn))
			memo := map[ssa.Value]int{}
			inProg := map[ssa.Value]bool{}
			var tag func(v ssa.Value) int
			tag = func(v ssa.Value) int {
				if t, ok := memo[v]; ok {
					return t
				}
				if inProg[v] {
					return axNone
				}
				inProg[v] = true
				defer delete(inProg, v)
				res := axNone
				switch x := v.(type) {
				case *ssa.Field:
					if f, owner := structField(x.X.Type(), x.Field); f != nil && isCoordType(owner) {
						switch f.Name() {
						case "X":
							res = axX
						case "Y":
							res = axY
						}
					}
				case *ssa.UnOp:
					if x.Op == token.MUL {
						switch a := x.X.(type) {
						case *ssa.FieldAddr:
							if f, owner := structField(a.X.Type(), a.Field); f != nil && isCoordType(owner) {
								switch f.Name() {
								case "X":
									res = axX
								case "Y":
									res = axY
								}
							}
						case *ssa.Alloc:
							first := true
							for _, ref := range *a.Referrers() {
								if st, ok := ref.(*ssa.Store); ok && st.Addr == ssa.Value(a) {
									t := tag(st.Val)
									if first {
										res, first = t, false
									} else {
										res |= t
									}
								}
							}
						case *ssa.FreeVar:
							// captured variable: tag of what the parent stores into it
							res = freeVarTag(a, tag)
						}
					} else {
						res = tag(x.X)
					}
				case *ssa.BinOp:
					if isFloat(x.X.Type()) || isFloat(x.Y.Type()) {
						res = tag(x.X) | tag(x.Y)
					}
				case *ssa.Convert:
					res = tag(x.X)
				case *ssa.Phi:
					for _, e := range x.Edges {
						res |= tag(e)
					}
				case *ssa.Call:
					if f := x.Call.StaticCallee(); f != nil && f.Pkg != nil && f.Pkg.Pkg.Path() == "math" {
						for _, a := range x.Call.Args {
							res |= tag(a)
						}
					}
				}
				memo[v] = res
				return res
			}
			n := 0
			for _, b := range fn.Blocks {
				for _, ins := range b.Instrs {
					switch x := ins.(type) {
					case *ssa.BinOp:
						if !isFloat(x.X.Type()) || axisSlotsOnly {
							continue
						}
						switch x.Op {
						case token.ADD, token.SUB, token.LSS, token.LEQ, token.GTR, token.GEQ:
						default:
							continue
						}
						a, bb := tag(x.X), tag(x.Y)
						if a == axNone || bb == axNone {
							continue
						}
						n++
						key := fmt.Sprintf("%s axis-op#%d %s", qname(fn), n, x.Op)
						if (a == axX && bb == axY) || (a == axY && bb == axX) {
							c.bad(rule, key, x.Pos(), "a value derived only from X coordinates is combined with a value derived only from Y coordinates (e.g. a y position scaled by the pixel width): wrong for every non-square pixel")
						} else {
							c.ok(rule, key, x.Pos(), "operands come from the same axis")
						}
					case *ssa.Call:
						f := x.Call.StaticCallee()
						if f == nil || f.Name() != "XY" || len(x.Call.Args) != 2 {
							continue
						}
						a, bb := tag(x.Call.Args[0]), tag(x.Call.Args[1])
						if a == axNone && bb == axNone {
							continue
						}
						n++
						key := fmt.Sprintf("%s axis-op#%d XY", qname(fn), n)
						if a == axY || bb == axX {
							c.bad(rule, key, x.Pos(), "XY(x, y) receives a purely Y-derived value as x or a purely X-derived value as y")
						} else {
							c.ok(rule, key, x.Pos(), "x slot from X values, y slot from Y values")
						}
					}
				}
			}
		}
	}
}

// freeVarTag: tag of a captured variable = union of the tags of what the
// enclosing function stores into the captured cell.
func freeVarTag(fv *ssa.FreeVar, tag func(ssa.Value) int) int {
	fn := fv.Parent()
	parent := fn.Parent()
	if parent == nil {
		return axNone
	}
	idx := -1
	for i, f := range fn.FreeVars {
		if f == fv {
			idx = i
		}
	}
	res := axNone
	for _, b := range parent.Blocks {
		for _, ins := range b.Instrs {
			mc, ok := ins.(*ssa.MakeClosure)
			if !ok || mc.Fn != ssa.Value(fn) || idx >= len(mc.Bindings) {
				continue
			}
			if al, ok := mc.Bindings[idx].(*ssa.Alloc); ok {
				for _, ref := range *al.Referrers() {
					if st, ok := ref.(*ssa.Store); ok && st.Addr == ssa.Value(al) {
						res |= parentTag(parent, st.Val)
					}
				}
			}
		}
	}
	return res
}

// parentTag evaluates a tag inside the parent function with a fresh memo.
func parentTag(parent *ssa.Function, v ssa.Value) int {
	var tag func(v ssa.Value, depth int) int
	tag = func(v ssa.Value, depth int) int {
		if depth > 12 {
			return axNone
		}
		switch x := v.(type) {
		case *ssa.Field:
			if f, owner := structField(x.X.Type(), x.Field); f != nil && isCoordType(owner) {
				switch f.Name() {
				case "X":
					return axX
				case "Y":
					return axY
				}
			}
		case *ssa.UnOp:
			if x.Op == token.MUL {
				if a, ok := x.X.(*ssa.FieldAddr); ok {
					if f, owner := structField(a.X.Type(), a.Field); f != nil && isCoordType(owner) {
						switch f.Name() {
						case "X":
							return axX
						case "Y":
							return axY
						}
					}
				}
				if a, ok := x.X.(*ssa.Alloc); ok {
					r := axNone
					for _, ref := range *a.Referrers() {
						if st, ok := ref.(*ssa.Store); ok && st.Addr == ssa.Value(a) {
							r |= tag(st.Val, depth+1)
						}
					}
					return r
				}
				return axNone
			}
			return tag(x.X, depth+1)
		case *ssa.BinOp:
			return tag(x.X, depth+1) | tag(x.Y, depth+1)
		case *ssa.Convert:
			return tag(x.X, depth+1)
		case *ssa.Phi:
			r := axNone
			for _, e := range x.Edges {
				if e != v {
					r |= tag(e, depth+1)
				}
			}
			return r
		}
		return axNone
	}
	return tag(v, 0)
}
