package main

import (
	"fmt"
	"go/ast"
	"go/constant"
	"go/token"
	"go/types"
	"sort"
	"strings"

	"golang.org/x/tools/go/packages"
)

// ROWMAJOR: a flat array addressed as a[r*S + c] inside `for r ... { for c ... }`
// is a grid with rows of length S: the stride S has to be the number of values
// the inner counter c takes (its loop bounds), otherwise rows overlap or leave
// gaps as soon as the grid is not square. Both sides are reduced to linear
// forms over the identifiers/selectors they mention; only a definite
// difference between two resolvable forms is reported.
type linSym map[string]int64 // atom -> coefficient; "" is the constant term

func (c *Ctx) runRowMajor(rule string, pkgs []*packages.Package, fileOK func(name string) bool) {
	for _, p := range pkgs {
		if p == nil {
			continue
		}
		info := p.TypesInfo
		var lin func(e ast.Expr, env map[types.Object]ast.Expr, depth int) (linSym, bool)
		lin = func(e ast.Expr, env map[types.Object]ast.Expr, depth int) (linSym, bool) {
			if depth > 8 {
				return nil, false
			}
			e = ast.Unparen(e)
			if tv := info.Types[e]; tv.Value != nil && tv.Value.Kind() == constant.Int {
				v, _ := constant.Int64Val(tv.Value)
				return linSym{"": v}, true
			}
			switch x := e.(type) {
			case *ast.Ident:
				if o := info.Uses[x]; o != nil {
					if def, ok := env[o]; ok {
						return lin(def, env, depth+1)
					}
				}
				return linSym{x.Name: 1}, true
			case *ast.SelectorExpr:
				return linSym{types.ExprString(x): 1}, true
			case *ast.CallExpr:
				if id, ok := x.Fun.(*ast.Ident); ok && id.Name == "len" && len(x.Args) == 1 {
					return linSym{types.ExprString(x): 1}, true
				}
				// conversions int(x)
				if tv, ok := info.Types[x.Fun]; ok && tv.IsType() && len(x.Args) == 1 {
					return lin(x.Args[0], env, depth+1)
				}
			case *ast.BinaryExpr:
				a, ok1 := lin(x.X, env, depth+1)
				b, ok2 := lin(x.Y, env, depth+1)
				if !ok1 || !ok2 {
					return nil, false
				}
				res := linSym{}
				switch x.Op {
				case token.ADD, token.SUB:
					for k, v := range a {
						res[k] += v
					}
					for k, v := range b {
						if x.Op == token.ADD {
							res[k] += v
						} else {
							res[k] -= v
						}
					}
					return res, true
				case token.MUL:
					// one side constant
					if len(a) == 1 {
						if k, isK := a[""]; isK {
							for kk, v := range b {
								res[kk] = v * k
							}
							return res, true
						}
					}
					if len(b) == 1 {
						if k, isK := b[""]; isK {
							for kk, v := range a {
								res[kk] = v * k
							}
							return res, true
						}
					}
				}
			}
			return nil, false
		}
		show := func(l linSym) string {
			var ks []string
			for k, v := range l {
				if v != 0 {
					ks = append(ks, fmt.Sprintf("%d*%s", v, k))
				}
			}
			sort.Strings(ks)
			return strings.Join(ks, "+")
		}
		for _, f := range p.Syntax {
			if fileOK != nil && !fileOK(c.Fset.Position(f.Pos()).Filename) {
				continue
			}
			for _, d := range f.Decls {
				fd, ok := d.(*ast.FuncDecl)
				if !ok || fd.Body == nil {
					continue
				}
				// single-assignment locals (stride := h.Rows + 2)
				env := map[types.Object]ast.Expr{}
				count := map[types.Object]int{}
				ast.Inspect(fd.Body, func(n ast.Node) bool {
					if as, ok := n.(*ast.AssignStmt); ok && len(as.Lhs) == len(as.Rhs) {
						for i, l := range as.Lhs {
							if id, ok := l.(*ast.Ident); ok {
								o := info.Defs[id]
								if o == nil {
									o = info.Uses[id]
								}
								if o != nil {
									count[o]++
									env[o] = as.Rhs[i]
								}
							}
						}
					}
					if inc, ok := n.(*ast.IncDecStmt); ok {
						if id, ok := inc.X.(*ast.Ident); ok {
							if o := info.Uses[id]; o != nil {
								count[o] += 2
							}
						}
					}
					return true
				})
				for o, n := range count {
					if n != 1 {
						delete(env, o)
					}
				}
				type loopInfo struct {
					v      types.Object
					extent linSym
					ok     bool
				}
				var stack []loopInfo
				n := 0
				var visit func(nd ast.Node)
				visit = func(nd ast.Node) {
					switch x := nd.(type) {
					case *ast.ForStmt:
						li := loopInfo{}
						if as, ok := x.Init.(*ast.AssignStmt); ok && len(as.Lhs) == 1 && len(as.Rhs) == 1 {
							if id, ok := as.Lhs[0].(*ast.Ident); ok {
								li.v = info.Defs[id]
								if cond, ok := x.Cond.(*ast.BinaryExpr); ok && (cond.Op == token.LSS || cond.Op == token.LEQ) {
									if cid, ok := ast.Unparen(cond.X).(*ast.Ident); ok && info.Uses[cid] == li.v {
										lo, ok1 := lin(as.Rhs[0], env, 0)
										hi, ok2 := lin(cond.Y, env, 0)
										if ok1 && ok2 {
											ext := linSym{}
											for k, v := range hi {
												ext[k] += v
											}
											for k, v := range lo {
												ext[k] -= v
											}
											if cond.Op == token.LEQ {
												ext[""]++
											}
											li.extent, li.ok = ext, true
										}
									}
								}
							}
						}
						stack = append(stack, li)
						ast.Inspect(x.Body, func(m ast.Node) bool {
							if m == nil {
								return false
							}
							switch m.(type) {
							case *ast.ForStmt, *ast.RangeStmt:
								visit(m)
								return false
							case *ast.IndexExpr:
								visit(m)
							}
							return true
						})
						stack = stack[:len(stack)-1]
					case *ast.RangeStmt:
						stack = append(stack, loopInfo{})
						ast.Inspect(x.Body, func(m ast.Node) bool {
							if m == nil {
								return false
							}
							switch m.(type) {
							case *ast.ForStmt, *ast.RangeStmt:
								visit(m)
								return false
							case *ast.IndexExpr:
								visit(m)
							}
							return true
						})
						stack = stack[:len(stack)-1]
					case *ast.IndexExpr:
						if len(stack) < 2 {
							return
						}
						if _, isSl := info.TypeOf(x.X).Underlying().(*types.Slice); !isSl {
							return
						}
						index := x.Index
						if id, ok := ast.Unparen(index).(*ast.Ident); ok {
							if def, ok := env[info.Uses[id]]; ok {
								index = def
							}
						}
						mentions := func(e ast.Expr, o types.Object) bool {
							found := false
							ast.Inspect(e, func(m ast.Node) bool {
								if id, ok := m.(*ast.Ident); ok && info.Uses[id] == o {
									found = true
								}
								return true
							})
							return found
						}
						anyLoopVar := func(e ast.Expr) bool {
							for _, l := range stack {
								if l.v != nil && mentions(e, l.v) {
									return true
								}
							}
							return false
						}
						// index = M*S + A (+ constants): M mentions exactly one loop
						// counter, S none, and another counter occurs outside the product
						var stride ast.Expr
						var mulLoop *loopInfo
						products := 0
						var addends []ast.Expr
						var split func(e ast.Expr)
						split = func(e ast.Expr) {
							e = ast.Unparen(e)
							if be, ok := e.(*ast.BinaryExpr); ok && (be.Op == token.ADD || be.Op == token.SUB) {
								split(be.X)
								split(be.Y)
								return
							}
							if be, ok := e.(*ast.BinaryExpr); ok && be.Op == token.MUL {
								for _, pair := range [][2]ast.Expr{{be.X, be.Y}, {be.Y, be.X}} {
									if anyLoopVar(pair[1]) {
										continue
									}
									var hit *loopInfo
									hits := 0
									for i := range stack {
										if stack[i].v != nil && mentions(pair[0], stack[i].v) {
											hit = &stack[i]
											hits++
										}
									}
									if hits == 1 {
										stride, mulLoop = pair[1], hit
										products++
										return
									}
								}
							}
							addends = append(addends, e)
						}
						split(index)
						if products != 1 || mulLoop == nil || !mulLoop.ok {
							return
						}
						var addLoop *loopInfo
						hits := 0
						for i := range stack {
							l := &stack[i]
							if l.v == nil || l == mulLoop {
								continue
							}
							for _, a := range addends {
								if mentions(a, l.v) {
									addLoop = l
									hits++
									break
								}
							}
						}
						if hits != 1 || !addLoop.ok {
							return
						}
						sl, ok := lin(stride, env, 0)
						if !ok {
							return
						}
						equal := func(a, b linSym) bool {
							for k, v := range a {
								if b[k] != v {
									return false
								}
							}
							for k, v := range b {
								if a[k] != v {
									return false
								}
							}
							return true
						}
						name := declName(p, fd)
						switch {
						case equal(sl, addLoop.extent):
							n++
							c.analysed(name)
							c.ok(rule, fmt.Sprintf("%s grid index#%d", name, n), x.Pos(), "the stride equals the number of values of the counter that is added")
						case equal(sl, mulLoop.extent):
							n++
							c.analysed(name)
							c.bad(rule, fmt.Sprintf("%s grid index#%d", name, n), x.Pos(), fmt.Sprintf("the counter %s is multiplied by its own range %s, while the counter %s that is added takes %s values: the two extents are swapped, so lines of the grid overlap or leave gaps unless it is square", mulLoop.v.Name(), show(sl), addLoop.v.Name(), show(addLoop.extent)))
						}
					}
				}
				ast.Inspect(fd.Body, func(nd ast.Node) bool {
					switch nd.(type) {
					case *ast.ForStmt, *ast.RangeStmt:
						visit(nd)
						return false
					}
					return true
				})
			}
		}
	}
}
