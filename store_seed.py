#!/usr/bin/env python3
"""usage: store_seed.py <src_dir> <id> <property> <what> <needs> <verify RESULT line>
Copies a verified seeded change into /verif/seeded/<id>/ and writes meta.json."""
import json, os, shutil, sys
src, sid, prop, what, needs, result = sys.argv[1:7]
dst = os.path.join('/verif/seeded', sid)
os.makedirs(dst, exist_ok=True)
for f in ('patch.diff', 'demo_test.go', 'notes.md'):
    shutil.copy(os.path.join(src, f), dst)
notes = open(os.path.join(dst, 'notes.md')).read().splitlines()
meta = {
    "id": sid, "breaks_property": prop, "round": int(os.environ.get("ROUND", "4")),
    "change": what, "needs_to_manifest": needs,
    "demo_dir": [l.split(':', 1)[1].strip() for l in notes if l.startswith('demo_dir:')][0],
    "demo_cmd": [l.split(':', 1)[1].strip() for l in notes if l.startswith('demo_cmd:')][0],
    "verified": {
        "how": "verify_seed.sh in a scratch worktree of /repo: git apply; go build ./...; go run codegen.go -check; go test -vet=off -count=1 on the six library packages; demo with and without the change",
        "result": result,
    },
}
json.dump(meta, open(os.path.join(dst, 'meta.json'), 'w'), indent=1)
print('stored', dst)
