#!/bin/bash
# usage: process_round.sh <out_dir> <PROP> <round-tag>   e.g. /tmp/wt/out4/C05 C05 r4
# Verifies each numbered sub-directory with verify_seed.sh and stores the ones that hold up as
# /verif/seeded/<PROP>-<tag>-<k>; copies the author's EXISTING_BUGS.md.
OUT="$1"; P="$2"; TAG="$3"
for k in $(ls "$OUT" | grep -E '^[0-9]+$' | sort -n); do
  D="$OUT/$k"
  [ -f "$D/patch.diff" ] || continue
  R=$(/verif/verify_seed.sh "$D" "$P-$TAG-$k" 2>&1 | grep '^RESULT' | tail -1)
  echo "$R"
  if echo "$R" | grep -q "build=ok codegen=ok tests=ok" && echo "$R" | grep -q "demo_with_patch=fails demo_without_patch=passes"; then
    WHAT=$(python3 - "$D/notes.md" <<'PY'
import re,sys
t=open(sys.argv[1]).read()
m=re.search(r'\*\*Change\.?\*\*\.?\s*(.*?)(?:\n\s*\n|\Z)', t, re.S)
print(' '.join((m.group(1) if m else t[:400]).split())[:600])
PY
)
    NEEDS=$(python3 - "$D/notes.md" <<'PY'
import re,sys
t=open(sys.argv[1]).read()
m=re.search(r'\*\*What it needs[^*]*\*\*\.?\s*(.*?)(?:\n\s*\n|\Z)', t, re.S)
print(' '.join((m.group(1) if m else '').split())[:600])
PY
)
    ROUND=${TAG#r} python3 /verif/store_seed.py "$D" "$P-$TAG-$k" "$P" "$WHAT" "$NEEDS" "$R"
  else
    echo "NOT STORED $P-$TAG-$k"
  fi
done
[ -f "$OUT/EXISTING_BUGS.md" ] && { echo; echo "## round ${TAG#r}"; cat "$OUT/EXISTING_BUGS.md"; } >> /verif/seeded/EXISTING_BUGS_$P.md
true
